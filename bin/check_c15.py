#!/usr/bin/env python3
"""C15: CPython zoneinfo writes the named-zone offset table, then the engine runs."""
import os, subprocess, sys
ROOT = os.path.dirname(os.path.dirname(os.path.abspath(__file__)))
VH = os.path.join(ROOT, "target", "release", "vh")
tier = sys.argv[1] if len(sys.argv) > 1 else "quick"
os.makedirs(os.path.join(ROOT, "target", "c15"), exist_ok=True)
r = subprocess.run([sys.executable, os.path.join(ROOT, "oracles", "tz_oracle.py"), os.path.join(ROOT, "target", "c15", "tz_table.json")])
if r.returncode != 0:
    print("MACHINERY: zone oracle failed", file=sys.stderr)
    sys.exit(2)
sys.exit(subprocess.run([VH, "c15", tier]).returncode)
