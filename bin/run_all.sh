#!/bin/bash
# Runs every check of a tier in turn on the current tree; prints each check's SUMMARY / VIOLATION / NOTE / MACHINERY lines.
cd "$(dirname "$0")/.."
tier=${1:-quick}
rc=0
for c in c01 c02 c03 c04 c05 c06 c07 c08 c09 c10 c11 c12 c13 c14 c15 c16 c17 c18 c19 c20; do
  start=$(date +%s)
  out=$(bin/vcheck $c $tier 2>&1); r=$?
  echo "$out" | grep -E "^(SUMMARY|VIOLATION|NOTE|MACHINERY)" | cut -c1-300 | head -20
  echo "== $c $tier exit=$r elapsed=$(( $(date +%s) - start ))s"
  [ $r -ne 0 ] && rc=$r
done
exit $rc
