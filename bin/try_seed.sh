#!/bin/bash
# try_seed.sh <id> [tier]: applies the delivered change /tmp/seedout/<id>/patch.diff to /repo's working tree, runs the
# property's check, undoes the change straight afterwards; prints the verdict and the first violation lines.
cd "$(dirname "$0")/.."
id=$1; tier=${2:-quick}
if [ -n "$(git -C /repo status --porcelain)" ]; then echo "/repo working tree is not clean"; exit 2; fi
git -C /repo apply /tmp/seedout/$id/patch.diff || { echo "$id DOES-NOT-APPLY"; exit 2; }
ID=$(echo $id | tr 'a-z' 'A-Z')
# the evidence file describes the unchanged tree: it is put back after the run on the changed one
cp evidence/$ID.json /tmp/evidence_$ID.keep 2>/dev/null
out=$(bin/vcheck $id $tier 2>&1); rc=$?
git -C /repo checkout -- . ; git -C /repo clean -fdq
[ -f /tmp/evidence_$ID.keep ] && mv /tmp/evidence_$ID.keep evidence/$ID.json
n=$(echo "$out" | grep -c "^VIOLATION")
echo "== $id rc=$rc violations=$n"
echo "$out" | grep -E "^(VIOLATION|MACHINERY|NOTE)" | cut -c1-260 | head -${3:-6}
