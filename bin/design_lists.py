#!/usr/bin/env python3
"""Rewrites the bullet lists of DESIGN.md sections 0.5 (fixed) and 0.6 (known findings) and the table of 0.7 from
known_findings.json and seeded/*/meta.json (documentation only; no check reads DESIGN.md)."""
import glob, json, os, re
ROOT = os.path.dirname(os.path.dirname(os.path.abspath(__file__)))
p = os.path.join(ROOT, "DESIGN.md")
s = open(p).read()
d = json.load(open(os.path.join(ROOT, "known_findings.json")))

def replace_bullets(s, start_marker, end_marker, bullets):
    a = s.index(start_marker)
    b = s.index(end_marker)
    seg = s[a:b]
    # keep everything up to the first bullet line
    m = re.search(r"(?m)^\* ", seg)
    head = seg if m is None else seg[: m.start()]
    return s[:a] + head + "\n".join(bullets) + "\n\n" + s[b:]

s = replace_bullets(s, "### 0.5 Genuine defects repaired", "### 0.6 Known findings", ["* " + f[len("fixed: "):] for f in d["fixed"]])
s = replace_bullets(s, "### 0.6 Known findings", "### 0.7 Seeded changes", ["* `%s` `%s` — %s" % (f["property"], f["key"], f["what"]) for f in d["findings"]])
# 0.7 table
rows = []
for m in sorted(glob.glob(os.path.join(ROOT, "seeded", "*", "meta.json"))):
    j = json.load(open(m))
    rows.append("| `%s` | %s | %s |" % (os.path.basename(os.path.dirname(m)), (j.get("needs_to_manifest", "") or "")[:230].replace("\n", " ").replace("|", "/"), (j.get("detection_note") or "")[:330].replace("\n", " ").replace("|", "/")))
a = s.index("| seeded change | needs to manifest | detection |")
b = s.index("\n\n", a)
s = s[:a] + "| seeded change | needs to manifest | detection |\n|---|---|---|\n" + "\n".join(rows) + s[b:]
open(p, "w").write(s)
print("fixed", len(d["fixed"]), "findings", len(d["findings"]), "seeds", len(rows))
