#!/bin/bash
# synclane.sh <k>: brings the sources of lane <k> (see mklane.sh) up to date with /verif
k=$1; L=/tmp/lane$k
rsync -a --exclude target --exclude .git --exclude replays --exclude evidence /verif/ $L/verif/
cd $L/verif
sed -i "s#/repo#$L/repo#g" harness/Cargo.toml harness/vh/src/engines/c19.rs harness/vh/src/engines/c05.rs harness/vh/src/engines/c12.rs bin/instr_c20.py bin/run_seeds.sh bin/try_seed.sh
grep -c "$L/repo" harness/Cargo.toml
