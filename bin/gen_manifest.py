#!/usr/bin/env python3
"""Generates /verif/MANIFEST.json from the table below (kept in one place so it stays valid)."""
import json, os
ROOT = os.path.dirname(os.path.dirname(os.path.abspath(__file__)))

# id -> (technique, level text, level note, design ref)  -- only checks that exist and pass are listed
CHECKS = {
  "C01": ("bounded exhaustive enumeration of expressions (every construct over the leaf alphabet in every slot; every construct with one slot filled by every level-1 term; structural triples; all iteration-domain shape combinations) x all bindings of the free names, each evaluated by the real parser+evaluator and compared with a reference FEEL interpreter; scope-independence differential",
          "Every (expression, binding) pair of the bounded fragment is parsed and evaluated by the implementation and compared structurally with an independent reference interpreter; each is also evaluated in a scope with unrelated extra entries and stacked contexts and must give the same value. Deviations that are recorded known findings are reproduced by the reference's deviation mode and attributed to their tag; anything else is a violation.",
          "Trusts harness/vh/src/ref_feel.rs as the FEEL semantics of the fragment; cases the DMN text leaves open are executed but not compared (counted). Operand values outside the alphabets and nesting beyond the bound are not covered.",
          "DESIGN.md §4 C01"),
  "C07": ("exhaustive enumeration of every exponent -6176..6111 x coefficient lengths x coefficient patterns x both signs (and zeros at every exponent) with a digit-string exactness oracle",
          "Each value is built with FeelNumber::from_str from scientific text; its Display and JSON renderings must be plain decimal / a JSON number denoting exactly coefficient x 10^exponent (decided by digit-string arithmetic), reading the text back must give an equal number, the xsd input conversions and the FEEL literal with the same digits must give that value.",
          "Quick covers coefficient lengths {1,2,3,7,16,17,33,34}, thorough all 1..34; not every coefficient. Results of arithmetic are pushed through the same checks by C02.",
          "DESIGN.md §4 C07"),
  "C08": ("exhaustive enumeration of argument tuples per built-in (strings incl. non-ASCII and non-BMP, every position/length from -(n+2) to n+2 plus non-integer and trailing-zero spellings, all lists up to length 3 over a 5-item alphabet plus canonical longer ones, every value kind in every position, arity 0 and declared+1) against one independent reference function per built-in; named invocation in every parameter order against the positional one",
          "Every (function, tuple) of the alphabets is evaluated through parse + evaluate and compared with the reference function (including a small backtracking matcher for the regular-expression alphabet); each call with named parameters, in every order, must give the positional result.",
          "Trusts the reference functions in engines/c08.rs (written from DMN 1.3 10.3.4). Where the text is silent the case is executed but not compared (counted). Regular expressions are limited to the reference matcher's pattern alphabet.",
          "DESIGN.md §4 C08"),
  "C09": ("exhaustive enumeration of all ordered pairs and triples of a 46-value alphabet covering every value kind, and of all pairs and triples of dense number / string / date lattices; algebraic laws checked between observations of the real evaluator",
          "For every ordered pair: and/or truth tables, symmetry of =, != as negation of =, mirror laws of < > <= >=; for pairs of one ordered kind trichotomy and <= as (< or =); for every ordered triple of one ordered kind agreement of between, the four interval forms and the conjunction of comparisons. The universes are enumerated completely.",
          "The laws relate two observations of the implementation, so no reference model is trusted (only the and/or truth tables). Values outside the alphabets and lattices are not covered.",
          "DESIGN.md §4 C09"),
  "C10": ("exhaustive enumeration of name sets (every single name, every pair, adversarial / all triples of a catalogue of multi-word and symbol-joined names) x expression positions x spellings, with a renaming-invariance oracle driven by a reference longest-match tokeniser",
          "Every name of every set is placed, in every spelling, in every expression position of the template list (operands, arguments, if/for/some/every/filter parts, context entries, path heads, two-name operator forms, and as names introduced by context entries, parameters and iteration variables). The text is evaluated against a scope binding the set; a reference tokeniser replaces each longest bound name by its value literal (or a fresh simple name) and the implementation must give the same value for that text.",
          "Trusts the 60-line reference tokeniser in engines/c10.rs as the statement of the longest-match rule; values of the substituted texts come from the implementation (C01's subject). Name words outside the six-word alphabet and names longer than four parts are outside the bound.",
          "DESIGN.md §4 C10"),
  "C13": ("bounded exhaustive enumeration: scope text before/after parse, prepare and repeated evaluation for every expression of the C01 space x 3 scope shapes; explicit enumeration of every operation sequence (prepared evaluator x scope, and evaluate_invocable x input on a shared ModelEvaluator) up to length 3 (quick) / 4 (thorough) with a differential oracle against pristine objects",
          "Every expression of the bounded fragment is parsed, prepared and evaluated three times in scopes of depth 1-3; the rendering of the caller's scope must be identical before and after each step and the three values equal. Every sequence of evaluations up to the length bound over 45 FEEL operations and 15 model operations is executed on fresh objects; each result must equal the result of the same operation on pristine objects and every scope / input context must read as initially.",
          "Observes state through Scope's and FeelContext's textual rendering and through results; hidden state that never influences a result within the length bound is not observable. Sequences are not deduplicated by state (the observable state is constant when the property holds, so deduplication would make the search vacuous).",
          "DESIGN.md §4 C13"),
  "C02": ("exhaustive enumeration of an operand lattice (zeros, subnormal and overflow edges, 34-digit values, exact ties, trailing-zero variants, operands 34+ orders apart, both signs): every ordered pair for + - * / = < <=, lattice x reduced operands for ** modulo decimal, every unary built-in; each row recomputed by CPython's decimal module configured as decimal128",
          "Every row is executed at the FeelNumber API level and as a FEEL expression; the oracle recomputes each one (exactly; exp, log and inexact powers within 2 ulp; modulo by exact rational arithmetic) and requires null exactly where the result is undefined or out of range, and never an infinite or NaN value.",
          "Trusts libmpdec (CPython decimal) as decimal128. Underflow to subnormal/zero and non-integer scales are left unspecified and not compared. Operands off the lattice are not covered.",
          "DESIGN.md §4 C02"),
  "C03": ("bounded exhaustive enumeration of decision tables, each through both construction paths (generated DMN XML -> model evaluator; DecisionTable struct -> build_decision_table_evaluator): hit-policy family = every rule count 0..4 (5 in thorough) x every output assignment over a 3-value alphabet x 11 hit policies x 1..3 output clauses x default present/absent x output values present/absent x every match vector; matching family = every 1-input table of up to 3 rules over an 11-entry alphabet (with and without allowed input values), 2-input tables over a 5-entry alphabet, 3-4 input tables, x an 8-value input alphabet",
          "Each (table, input) is evaluated on both paths; the two results must be equal and equal to the reference (entry predicates written in Rust, hit-policy table of DMN 8.2.10: U/A/F/P single result, R/O/C lists, aggregates, default output for every policy, contexts keyed by component names, priorities lexicographic over the clauses' own output values).",
          "Trusts the reference in engines/c03.rs. `-` on a null input, not(..) on values of another kind, P/O without output values, aggregation over several clauses and partially defined defaults are left unspecified. Tables beyond 5 rules / 4 inputs and entry kinds outside the alphabet are outside the bound.",
          "DESIGN.md §4 C03"),
  "C04": ("bounded exhaustive enumeration of requirement graphs, each generated as a DMN model and run through dmntk_model::parse -> ModelEvaluator::new -> evaluate_invocable: every wiring of up to 2 (quick) / 3 (thorough) decisions over 2 inputs and 2 knowledge models (one optionally requiring the other) x every single element taking each boxed expression kind (literal, context, decision table, relation, function definition, invocation) x 2 naming schemes (plain; names sharing words and prefixes); every well-formed decision service (output / encapsulated / input decisions, input data) over every wiring of three decisions x 5 caller styles (by name; from a decision by literal call and by boxed invocation; through a knowledge model by literal call and by boxed invocation) with and without an additional direct requirement; every invocable x every presence/absence assignment of its inputs",
          "Every element carries signature logic (string concatenations spelling its own name and the consumed value of each requirement), so any mis-wiring changes the string; the expected value comes from a reference evaluation over the graph structure in topological order (not over FEEL text). Each evaluation is repeated with noise entries outside the requirement closure (unrelated element names, parameter / context-entry / column names) and must not change.",
          "Trusts the reference in engines/c04.rs. One element at a time is non-literal (plus the service family's rotation). Entries named like an element inside the closure are not used as noise (the implementation lets them override; the property leaves this open). Graphs beyond 3-4 decisions, 2 knowledge models, 1 service are outside the bound.",
          "DESIGN.md §4 C04"),
  "C05": ("crash-isolated bounded exhaustive enumeration in two build profiles (release; release with overflow checks and debug assertions): all token strings up to length 3 (quick) / 4 (thorough) over a 45-token alphabet x 7 parser entry points x 2 parsing scopes; every single-character edit of every expression harvested from the repository's tests; nesting towers to depth 200 of 21 constructs; every built-in x every argument tuple over a 30-value extreme alphabet; iteration forms with boundary ranges",
          "Each case is parsed (and evaluated when it parses) in a worker process that announces the case index in a memory-mapped file before running it under catch_unwind; a worker that panics, dies by a signal or abort, or makes no progress within the stall limit is attributed to that case and restarted behind it. The verdict is: no case of the enumerated space crashes or hangs, in either profile.",
          "Values are not judged. Multi-edit corruptions and token strings beyond the length bound are outside the bound; the stall limit is 8 s (quick) / 30 s (thorough); worker address space is limited to 4 GiB.",
          "DESIGN.md §4 C05"),
  "C11": ("bounded exhaustive enumeration of item definition trees, each generated as a DMN model: the 8 built-in typeRefs, the 8 simple types with and without allowed values, and every wrapper (reference with and without own allowed values, collection of simple, collection of referenced, component and collection of component with the varied component inline or by reference) applied up to depth 3 (quick: depth 3 over number / date / dateTime; thorough: all eight bases and depth 4 over three); input side: an input data typed by the tree echoed by an untyped decision, fed every value of a set placing every atom of every kind (inside and outside the allowed values), null, a list and a context at every position, plus missing / additional / reordered entries, empty list, bare item, list of list; output side: decisions, knowledge models and decision services whose output variable is typed by the tree return each such value, its singleton wrapping and (for collections) its bare item",
          "The expected result comes from a reference written directly on the tree (norm: what reaches the logic; conforms / coerce: output coercion incl. singleton wrapping and unwrapping); results are compared as rendered values with nested nulls normalised.",
          "Trusts the reference in engines/c11.rs. Null items of a collection and contexts with missing or additional entries on the input side, and allowed values on output types, are left open (executed, counted, not compared). Trees beyond depth 3/4, components other than (varied, number) pairs, and item definitions with function types are outside the bound.",
          "DESIGN.md §4 C11"),
  "C12": ("crash-isolated bounded exhaustive fault injection in two build profiles (release; release with overflow checks and debug assertions): the unmutated corpus (149 shipped example models + 6 generated models of the C04 / C11 generators); every single structural fault at every position (delete / duplicate / empty / swap element, delete / empty attribute, empty text node, retarget every href to a missing id and to every other requirable element, retarget every typeRef to every item definition incl. its own) of the smaller half (quick) / all (thorough) of the shipped models and of the generated ones; every ordered pair of non-overlapping single faults on the generated models; every single-byte corruption (delete; replace by NUL < > \" & 0xFF) at every offset of the smallest models",
          "Each mutant is loaded with dmntk_model::parse, built with ModelEvaluator::new and every decision, knowledge model and decision service it declares is invoked with three input contexts, in a worker process that announces the case index in a memory-mapped file before running it under catch_unwind; a worker that panics, dies by a signal or abort (stack overflow), or makes no progress within the stall limit is attributed to that case and restarted behind it. Verdict: no mutant crashes or hangs, in either profile.",
          "Values are not judged. Faults beyond pairs on large models, and multi-byte corruptions, are outside the bound; the stall limit is 10 s (quick) / 30 s (thorough); worker address space is limited to 4 GiB; the main-thread stack is the default 8 MiB. A model whose unmutated text already crashes (listed finding N_0088) is reported once and not mutated.",
          "DESIGN.md §4 C12"),
  "C17": ("explicit-state search over the real Workspace to closure: breadth-first from the empty workspace, every operation of the alphabet applied in every reached state (32 operations quick / 47 thorough: add and replace of 7 / 10 models that share namespaces and names pairwise - identical ids with other content, same namespace other name, other namespace same name, crossing, disjoint, one that fails to build and one with its ids that builds -, remove of every (namespace, name) pair, clear, deploy); states are deduplicated by a canonical form holding the whole state (snapshot of the stored list, both lookup maps with their referents and the deployed evaluator keys, read through the `verif` feature hook, plus the identity of the stored contents), so histories of every length are covered",
          "In every transition: the operation's result against a reference registry (add succeeds iff no stored model has its namespace or name), the consistency invariants of the collections (lookups by name and by namespace describe exactly the stored list; no stale reservation), the stored list, the deployed set, and the evaluation of every model name (possible exactly for the models present at the last deploy that built, nothing modified since; a failing model does not block the others). Each state is reproduced by replaying its history on a fresh workspace.",
          "Trusts the reference registry in engines/c17.rs. Which of two partially matching models a remove / replace drops is not prescribed (the implementation's list is adopted, the invariants still apply); every remove counts as a modification. A state reached by a violating transition is reported and not expanded. Loading from a directory is not covered.",
          "DESIGN.md §4 C17"),
  "C19": ("bounded exhaustive enumeration through a renderer that is the inverse of the recogniser (drawing.rs; calibrated at every run: each shipped valid drawing is recognised, re-rendered from the recognised table and recognised again): source tables with inputs 1..3 (thorough 1..5) x outputs 1..3 x annotations 0..2 x rule counts {1,2,4} (thorough 1..8) x 11 hit policy markers x both orientations x information item name x values row x output label x 9 cell-line patterns (single line; a two-line cell in each of the 8 cell classes) x 4 drawing styles (column widths; name box ending inside a cell, on a column boundary, at the right edge; merged or separate hit policy cell); plus, crash-isolated in two build profiles, every single-character corruption (delete, swap with next, replace by each of 16 characters incl. 13 box-drawing characters) at every position of 14 (quick) / 124 (thorough) drawings",
          "Each drawing goes through dmntk_recognizer::build and the resulting DecisionTable is compared field by field with the source (hit policy, aggregator, orientation, information item name, input expressions and values, output label, names and values, annotations, every rule entry in order; cell texts modulo white space). The recognised table, the table built from the source struct and the table loaded from generated DMN XML are evaluated on every presence/value assignment of the inputs and must agree. A corrupted drawing must be recognised or rejected: a panic, death or hang of the worker is attributed to the case.",
          "Trusts the renderer's reading of the drawing conventions (bound to the shipped drawings by the calibration step). Cell texts contain no box-drawing characters. Crosstab drawings are not supported by the code base and are outside the property. Corruptions of more than one character are outside the bound.",
          "DESIGN.md §4 C19"),
  "C14": ("exhaustive enumeration of literal lattices (every day incl. impossible days of 16-22 boundary years; every second of the day x fraction-digit counts x digit patterns; every whole-minute offset -14:59..+14:59 x seconds variants and the first rejected hours; every zone identifier of the zone database; date-time products; duration component products; every single-character corruption of valid literals) against a reference literal grammar and printer",
          "Each literal is read through four paths (date()/time()/date and time()/duration(), the @-literal, the TryFrom/FromStr API, the xsd input conversion). A literal the reference grammar accepts must be accepted on every path, print as the reference's canonical text, expose the written components, and string(v) must read back as an equal value; a literal the grammar rejects must be null on every path. Failures are attributed to the single feature (year, fraction, zone, offset) whose neutralisation makes the literal behave.",
          "Trusts reftime.rs (no chrono, no floating point). Year 0000, offset minutes above 59, more than nine fraction digits and `PT1.S` (pinned as valid by the repository's tests) are left unspecified. Times of day in named zones are only checked for acceptance and printing.",
          "DESIGN.md §4 C14"),
  "C15": ("exhaustive enumeration: every (year, month 0..13, day 0..32) of the year set (all of -1..2400 in thorough) through date(y, m, d) with validity, components and weekday against a reference calendar; out-of-range and non-integer components in every position; all pairs of a date lattice reaching +-999999999 for the six comparison operators; all pairs of a date-time alphabet (6 local times x offsets every 15/60 minutes over +-14:45 x 12 named zones) for comparison, subtraction, between and in; all pairs of month-end date sets for years and months duration; all pairs of duration lattices for + - unary - comparisons and components",
          "Expected values come from reftime.rs (days-from-civil calendar, exact integer instants) and, for named zones, from CPython zoneinfo at run time; every instance is evaluated as a FEEL expression by the real parser and evaluator and compared as text.",
          "Trusts reftime.rs (weekday spot-checked against CPython at each run) and the system tzdata used by zoneinfo for twelve zones at six local times away from transitions. Values are built through the literal readers that C14 checks.",
          "DESIGN.md §4 C15"),
  "C16": ("exhaustive enumeration of all ordered pairs of a type universe (every constructor over the ten simple types at depth 1 incl. functions of 0, 1 and 2 parameters and contexts of 0..2 entries, plus a depth-2 closure over a core) and all ordered triples of a triple core; laws plus agreement with 25-line reference relations; coercion of every value of a 32-value alphabet to every target of the core",
          "Every ordered pair: reflexivity, T <= Any, Null <= T, symmetry of equivalence, equivalence implies mutual conformance, and agreement of is_equivalent / is_conformant with the reference relations. Every ordered triple of the core: transitivity of both relations (from relation matrices computed by the implementation). Every (target, value): coerced() equals the reference (identity / singleton wrap / unwrap / null), its type conforms to the target or it is null, coercing twice changes nothing, and a FEEL invocation of a function with that typed parameter gives the same.",
          "Trusts the reference relations in engines/c16.rs. Types deeper than 2 and contexts with more than two entries are outside the bound.",
          "DESIGN.md §4 C16"),
  "C06": ("bounded exhaustive enumeration of syntax trees (every constructor in every slot of every constructor, depth-3 spines) x parenthesisations x layouts, and of every string escape of every code point, against a precedence-table unparser",
          "Every tree of the bounded space is rendered fully parenthesised, minimally parenthesised and with each needed pair removed, in six token-preserving layouts, and parsed by the real parser; the parsed tree is compared with the generating tree. All 1 114 112 code points in every escape spelling and all 1 048 576 surrogate pairs are lexed. A coverage statement within the depth bound, not a sample.",
          "Trusts the transcribed precedence table in harness/vh/src/term.rs (validated by this run itself: a wrong table shows up as a mismatch) and AstNode's derived PartialEq. Trees deeper than 3 are outside the bound.",
          "DESIGN.md §4 C06"),
}

NOT_YET = {}
ALL = ["C%02d" % i for i in range(1, 21)]

def main():
    checks = []
    for pid in ALL:
        if pid not in CHECKS:
            continue
        tech, text, note, ref = CHECKS[pid]
        checks.append({
            "property_id": pid,
            "quick_cmd": "bin/vcheck %s quick" % pid,
            "thorough_cmd": "bin/vcheck %s thorough" % pid,
            "evidence_file": "/verif/evidence/%s.json" % pid,
            "replay_cmd_template": "bin/vcheck replay {path}",
            "engine": "vh",
            "level_claimed": {"category": "model_checking", "text": text, "design_ref": ref},
            "level_note": note,
            "technique": tech,
        })
    na = []
    for pid in ALL:
        if pid not in CHECKS:
            na.append({"property_id": pid, "reason": NOT_YET.get(pid, "check not built yet in this round (the design in DESIGN.md §4 applies; it is not claimed until its engine exists and passes on the unchanged tree)")})
    doc = {
        "version": 1,
        "setup_cmd": "bin/setup.sh",
        "hooks": {
            "guard": "cargo feature `verif` of dmntk-workspace (cfg(feature = \"verif\"))",
            "enable": "the harness depends on dmntk-workspace with features = [\"verif\"]; nothing else in /repo is guarded",
            "baseline_off_cmd": "cd /repo && cargo test --workspace --no-fail-fast --offline",
            "source_commits": ["4f90668"],
            "add_only": True,
        },
        "engines": [
            {"name": "vh", "path": "harness/vh", "serves_properties": sorted(CHECKS.keys()),
             "kind_free_text": "Rust harness linked against /repo's working tree through [patch.crates-io]; one sub-command per property: bounded exhaustive enumerators with reference models, stateright explicit-state search, crash-isolated fault enumeration"},
        ],
        "checks": checks,
        "not_applicable": na,
        "notes": "All checks run under TZ=UTC through bin/vcheck, which rebuilds the harness against /repo's current working tree first. Exit 0 held (KNOWN-FINDING lines allowed), 1 VIOLATION, 2 machinery failure.",
    }
    with open(os.path.join(ROOT, "MANIFEST.json"), "w") as f:
        json.dump(doc, f, indent=1)
        f.write("\n")

if __name__ == "__main__":
    main()
