#!/bin/bash
# For every stored seeded change: apply it, run the quick check, replay the first recorded violation (must FAIL, exit 1),
# undo the change, replay the same file again (must PASS / not fail, exit 0). Never commits in /repo.
cd "$(dirname "$0")/.."
if [ -n "$(git -C /repo status --porcelain)" ]; then echo "/repo working tree is not clean"; exit 2; fi
mkdir -p target/replaytest
for d in "$(pwd)"/seeded/C*/; do
  name=$(basename $d); ID=$(echo $name | cut -c1-3); id=$(echo $ID | tr 'A-Z' 'a-z')
  git -C /repo apply $d/patch.diff || { echo "$name DOES-NOT-APPLY"; continue; }
  bin/vcheck $id quick > /dev/null 2>&1
  f=$(ls replays/$ID/*.json 2>/dev/null | head -1)
  if [ -z "$f" ]; then echo "$name NO-REPLAY-FILE"; git -C /repo checkout -- .; continue; fi
  cp $f target/replaytest/$name.json
  bin/vcheck replay target/replaytest/$name.json > target/replaytest/$name.with.txt 2>&1; with=$?
  git -C /repo checkout -- . ; git -C /repo clean -fdq
  bin/vcheck replay target/replaytest/$name.json > target/replaytest/$name.without.txt 2>&1; without=$?
  echo "$name replay-with-change exit=$with, without exit=$without :: $(grep -E '^(FAIL|PASS|OBSERVED)' target/replaytest/$name.without.txt | head -1 | cut -c1-100)"
done
