import sys
k=int(sys.argv[1]); p='/tmp/lane%d/verif/bin/run_seeds.sh'%k
t=open(p).read()
if 'n % 4' not in t:
    new='n=0\nfor d in "$(pwd)"/seeded/C*/; do\n  n=$((n+1)); [ $((n % 4)) -ne ' + str(k % 4) + ' ] && continue\n'
    t=t.replace('for d in "$(pwd)"/seeded/C*/; do\n', new)
    open(p,'w').write(t)
print(k, 'n % 4' in t)
