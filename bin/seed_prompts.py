#!/usr/bin/env python3
"""seed_prompts.py <round>: writes /tmp/seedprompts/<id>.txt - the sub-agent prompt for every property, from
seeded/AGENT_PROMPT.tmpl, the property text (statement, quantifier, anchor files) and one-line summaries of the changes
already delivered for the property (so that a new change touches another function / clause). Nothing else from /verif
is given to a sub-agent."""
import glob, json, os, sys
rnd = sys.argv[1] if len(sys.argv) > 1 else "x"
root = os.path.dirname(os.path.dirname(os.path.abspath(__file__)))
tmpl = open(os.path.join(root, "seeded/AGENT_PROMPT.tmpl")).read()
earlier = {}
for m in sorted(glob.glob(os.path.join(root, "seeded/*/meta.json"))):
    j = json.load(open(m))
    s = " ".join(j.get("summary", "").split())
    earlier.setdefault(j["property"], []).append(s[:260])
os.makedirs("/tmp/seedprompts", exist_ok=True)
for line in open(os.path.join(root, "properties.jsonl")):
    p = json.loads(line)
    pid = p["id"]
    low = pid.lower()
    prop = "%s - %s\n\n  %s\n\n  Quantifier: %s\n\n  Code the property is anchored in: %s" % (
        pid, p["title"], p["statement"], p["quantifier"]["text"], ", ".join(p["anchors"]["files"]))
    t = tmpl.replace("__WT__", "/tmp/wt/" + low).replace("__OUT__", "/tmp/seedout/" + low).replace("__ID__", pid).replace("__PROP__", prop)
    t += "\n\nEarlier seeded changes for this property (do NOT repeat these; pick a DIFFERENT function and a clause / kind of the property that none of them touches):\n"
    for s in earlier.get(pid, []):
        t += " - " + s + "\n"
    t += ("\nYour change should need a COMBINATION to manifest (two constructs nested, a value produced by one operation fed to another, "
          "a sequence of two or three operations, two sites that each look fine alone), not a single unusual operand.\n"
          "Also: if, while reading or experimenting, you notice that the UNMODIFIED code already violates the property for some input "
          "(a panic, a wrong value), say so in your final report as a side remark with the exact input - but your deliverable is still a seeded change.\n")
    open("/tmp/seedprompts/%s.txt" % low, "w").write(t)
print("prompts for round", rnd, "written to /tmp/seedprompts")
