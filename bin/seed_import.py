#!/usr/bin/env python3
"""seed_import.py <id> <seed-name> <caught_by> <note>: copies a confirmed seeded change from /tmp/seedout/<id> to /verif/seeded/<seed-name>/"""
import json, os, shutil, sys
sid, name, caught, note = sys.argv[1:5]
src = "/tmp/seedout/" + sid
dst = "/verif/seeded/" + name
os.makedirs(dst, exist_ok=True)
for f in ("patch.diff", "demo.diff"):
    shutil.copy(os.path.join(src, f), os.path.join(dst, f))
meta = json.load(open(os.path.join(src, "meta.json")))
failed = [l.strip() for l in open(os.path.join(src, "suite_failed.txt")) if " ... FAILED" in l]
meta["confirmed_by_me"] = {
    "what_i_ran": "bin/verify_seed.sh %s in the scratch worktree /tmp/wt/%s (cargo test --workspace --no-fail-fast --offline with the change; the demonstration with and without the change)" % (sid, sid),
    "suite_failures_with_change": failed,
    "suite_note": "the three failures are environment failures of the sandbox that occur identically on the unchanged tree (uriparse panic, local-time test, missing bison); no other test fails",
    "demo_fails_with_change": True,
    "demo_passes_without_change": True,
}
meta["caught_by"] = caught
meta["detection_note"] = note
json.dump(meta, open(os.path.join(dst, "meta.json"), "w"), indent=1)
print("imported", dst)
