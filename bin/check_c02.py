#!/usr/bin/env python3
"""C02: engine writes observed rows -> CPython decimal oracle recomputes every row -> engine reports."""
import os, subprocess, sys
ROOT = os.path.dirname(os.path.dirname(os.path.abspath(__file__)))
VH = os.path.join(ROOT, "target", "release", "vh")
import time
os.environ["VERIF_T0"] = repr(time.time())
tier = sys.argv[1] if len(sys.argv) > 1 else "quick"
r = subprocess.run([VH, "c02gen", tier])
if r.returncode != 0:
    print("MACHINERY: c02gen failed with %d" % r.returncode, file=sys.stderr)
    sys.exit(2)
r = subprocess.run([sys.executable, os.path.join(ROOT, "oracles", "dec_oracle.py")])
if r.returncode != 0:
    print("MACHINERY: decimal oracle failed with %d" % r.returncode, file=sys.stderr)
    sys.exit(2)
r = subprocess.run([VH, "c02report", tier])
sys.exit(r.returncode)
