#!/bin/bash
# Confirms a seeded change delivered by a sub-agent in /tmp/seedout/<id> using the scratch worktree /tmp/wt/<id>:
# patch applies to the pinned commit, workspace suite has no failures beyond the environment's baseline failures,
# the demonstration fails with the change and passes without it. Writes /tmp/seedout/<id>/verify.txt
id=$1
WT=/tmp/wt/$id
OUT=/tmp/seedout/$id
export CARGO_TARGET_DIR=${VS_TARGET:-/tmp/wt/target-shared} CARGO_NET_OFFLINE=true
{
cd $WT || exit 1
git checkout -q -- . ; git clean -fdq -e target
git apply $OUT/patch.diff || { echo "RESULT patch does not apply"; exit 1; }
echo "== suite with change"
cargo test --workspace --no-fail-fast --offline 2>&1 | grep -E "^test [^ ]+ \.\.\. FAILED|^test result|^error" > $OUT/suite.txt
grep -E "could not compile" $OUT/suite.txt && echo "RESULT compile error"
grep -E "^test [^ ]+ \.\.\. FAILED" $OUT/suite.txt | sort > $OUT/suite_failed.txt
cat $OUT/suite_failed.txt
extra=$(grep -v -E "href::tests::test_valid_references|temporal::tests::test_parse_time|generator::tests::test_all_sequentially" $OUT/suite_failed.txt | wc -l)
echo "suite failures beyond the 3 environment baseline failures: $extra"
git apply $OUT/demo.diff || echo "RESULT demo does not apply"
demo=$(python3 -c "import json;print(json.load(open('$OUT/meta.json'))['demo_command'])")
demo=$(echo "$demo" | sed "s#CARGO_TARGET_DIR=[^ ]*##")
echo "== demo with change: $demo"
( eval "$demo" ) > $OUT/demo_with.txt 2>&1; w=$?
echo "exit=$w"
git apply -R $OUT/patch.diff
echo "== demo without change"
( eval "$demo" ) > $OUT/demo_without.txt 2>&1; wo=$?
echo "exit=$wo"
git apply $OUT/patch.diff
if [ $extra -eq 0 ] && [ $w -ne 0 ] && [ $wo -eq 0 ]; then echo "RESULT CONFIRMED"; else echo "RESULT NOT-CONFIRMED extra=$extra with=$w without=$wo"; fi
} > $OUT/verify.txt 2>&1
