#!/bin/bash
# mklane.sh <k>: a copy of /verif under /tmp/lane<k>/verif wired to its own worktree of /repo (/tmp/lane<k>/repo)
k=$1; L=/tmp/lane$k
rm -rf $L; mkdir -p $L
git -C /repo worktree prune
git -C /repo worktree add -q --detach $L/repo HEAD
rsync -a --exclude target --exclude .git --exclude replays /verif/ $L/verif/
cp -r /verif/target $L/verif/target
cd $L/verif
sed -i "s#/repo#$L/repo#g" harness/Cargo.toml harness/vh/src/engines/c19.rs harness/vh/src/engines/c05.rs harness/vh/src/engines/c12.rs bin/instr_c20.py bin/run_seeds.sh
grep -c "$L/repo" harness/Cargo.toml
