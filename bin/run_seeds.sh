#!/bin/bash
# Applies every stored seeded change to /repo's working tree in turn, runs the quick check of its property and
# undoes it straight afterwards. Prints one line per seed: CAUGHT / MISSED / DOES-NOT-APPLY. Never commits in /repo.
cd "$(dirname "$0")/.."
if [ -n "$(git -C /repo status --porcelain)" ]; then echo "/repo working tree is not clean"; exit 2; fi
# SEED_LIST=<file>: only the seeds named in the file (one directory name per line)
for d in "$(pwd)"/seeded/C*/; do
  name=$(basename $d); [ -n "$SEED_LIST" ] && ! grep -qx "$name" "$SEED_LIST" && continue
  id=$(echo $name | cut -c1-3 | tr 'A-Z' 'a-z')
  # a change delivered for one property that breaks another one names the check that decides it (meta.json "check")
  other=$(python3 -c "import json;print(json.load(open('$d/meta.json')).get('check',''))" | tr 'A-Z' 'a-z'); [ -n "$other" ] && id=$other
  if ! git -C /repo apply --check $d/patch.diff 2>/dev/null; then echo "$name DOES-NOT-APPLY"; continue; fi
  git -C /repo apply $d/patch.diff
  ID=$(echo $id | tr 'a-z' 'A-Z')
  # the evidence file describes the unchanged tree: it is put back after the run on the changed one
  cp evidence/$ID.json /tmp/evidence_$ID.keep 2>/dev/null
  out=$(bin/vcheck $id quick 2>&1); rc=$?
  git -C /repo checkout -- . ; git -C /repo clean -fdq
  [ -f /tmp/evidence_$ID.keep ] && mv /tmp/evidence_$ID.keep evidence/$ID.json
  n=$(echo "$out" | grep -c "^VIOLATION")
  expected_miss=$(python3 -c "import json;print('yes' if json.load(open('$d/meta.json')).get('caught_by','').startswith('NOT CAUGHT') else 'no')")
  if [ $rc -eq 1 ] && [ $n -gt 0 ]; then echo "$name CAUGHT rc=$rc violations=$n"; elif [ "$expected_miss" = "yes" ]; then echo "$name NOT-CAUGHT (recorded as outside the technique) rc=$rc :: $(echo "$out" | grep '^NOTE' | head -1 | cut -c1-160)"; else echo "$name MISSED rc=$rc violations=$n :: $(echo "$out" | tail -2 | tr '\n' ' ' | cut -c1-200)"; fi
done
