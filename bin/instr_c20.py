#!/usr/bin/env python3
"""Instrumented copy of the dmntk crates for C20: copies the non-target sources of /repo's crates to
<root>/target/instr/<crate> and rewrites, purely textually, every `std::sync::` path to `verif_sync::` and
`thread_local!` to `loom::thread_local!`. Files are only rewritten when their content changes (keeps cargo's
incremental build). Prints a JSON summary (substitutions per file, source digest)."""
import hashlib, json, os, re, sys

ROOT = os.environ.get("VERIF_ROOT") or os.path.dirname(os.path.dirname(os.path.abspath(__file__)))
REPO = "/repo"
DEST = os.path.join(ROOT, "target", "instr")
CRATES = ["common", "feel", "feel-number", "feel-parser", "feel-evaluator", "feel-grammar", "model", "model-evaluator", "examples", "recognizer", "evaluator", "workspace", "server"]
SKIP_DIRS = {"target", ".git", "benches"}

def open_server_handlers(text):
    """server/src/server.rs of the instrumented copy only: the request handlers become plain public async functions
    (the routing attributes are removed, start_server - the only user of the routing - becomes a stub), so that the
    loom harness can call them from its own threads; the handler bodies are untouched."""
    text = re.sub(r'(?m)^#\[(post|get|put|delete)\("[^"]*"\)\]\n', "", text)
    text = re.sub(r"(?m)^async fn ", "pub async fn ", text)
    text = re.sub(r"(?m)^struct (ApplicationData|EvaluateParams)\b", r"pub struct \1", text)
    text = re.sub(r"(?m)^  workspace: RwLock<Workspace>,", "  pub workspace: RwLock<Workspace>,", text)
    i = text.find("pub async fn start_server(")
    if i >= 0:
        j = text.find("{", text.find("->", i))
        depth, k = 0, j
        while k < len(text):
            if text[k] == "{":
                depth += 1
            elif text[k] == "}":
                depth -= 1
                if depth == 0:
                    break
            k += 1
        text = text[:j] + "{\n  let _ = (opt_host, opt_port, opt_dir);\n  Ok(())\n}" + text[k + 1:]
    return text

def transform(path, data):
    if not path.endswith(".rs"):
        return data, 0
    try:
        text = data.decode("utf-8")
    except UnicodeDecodeError:
        return data, 0
    if path.endswith("/server/src/server.rs"):
        text = open_server_handlers(text)
    if path.endswith("/server/src/lib.rs"):
        text = re.sub(r"(?m)^mod (server|dto|errors);", r"pub mod \1;", text)
    # lazily initialised statics that hold a synchronisation primitive become loom's (re-initialised in every execution)
    n0 = 0
    pos = 0
    while True:
        i = text.find("lazy_static!", pos)
        if i < 0:
            break
        if i >= 6 and text[i - 6:i] == "loom::":
            pos = i + 12
            continue
        j = text.find("{", i)
        if j < 0:
            break
        depth, k = 0, j
        while k < len(text):
            if text[k] == "{":
                depth += 1
            elif text[k] == "}":
                depth -= 1
                if depth == 0:
                    break
            k += 1
        block = text[j:k + 1]
        if re.search(r"\b(Mutex|RwLock|Condvar|Atomic\w*|RefCell|Cell|OnceLock|Once)\b", block):
            text = text[:i] + "loom::" + text[i:]
            n0 += 1
            pos = k + 7
        else:
            pos = k + 1
    n1 = text.count("std::sync::") + n0
    text = text.replace("std::sync::", "verif_sync::")
    n2 = len(re.findall(r"(?<![:\w])thread_local!", text))
    text = re.sub(r"(?<![:\w])thread_local!", "loom::thread_local!", text)
    return text.encode("utf-8"), n1 + n2

# constructs through which state can be shared between threads without passing a primitive that loom intercepts
# (lazily initialised statics that hold a synchronisation primitive are intercepted: they become loom::lazy_static)
SHARING = [r"\bstatic\s+mut\b", r"\bas\s+\*mut\b", r"unsafe\s+impl\s+(Sync|Send)\b", r"\bUnsafeCell\b"]

def sharing_constructs(path, text):
    out = {}
    for pat in SHARING:
        n = len(re.findall(pat, text))
        if n:
            out[pat] = n
    return out

def main():
    summary = {"substitutions": {}, "files": 0, "sharing_constructs": {}}
    digest = hashlib.sha256()
    for crate in CRATES:
        src_root = os.path.join(REPO, crate)
        dst_root = os.path.join(DEST, crate)
        keep = set()
        uses = 0
        for dirpath, dirnames, filenames in os.walk(src_root):
            dirnames[:] = sorted(d for d in dirnames if d not in SKIP_DIRS)
            for fn in sorted(filenames):
                sp = os.path.join(dirpath, fn)
                rel = os.path.relpath(sp, src_root)
                data = open(sp, "rb").read()
                digest.update(rel.encode()); digest.update(data)
                if sp.endswith(".rs") and "/tests/" not in sp and not rel.startswith("tests"):
                    try:
                        sc = sharing_constructs(sp, data.decode("utf-8"))
                        if sc:
                            summary["sharing_constructs"][os.path.join(crate, rel)] = sc
                    except UnicodeDecodeError:
                        pass
                out, n = transform(sp, data)
                # substitutions inside test modules do not matter; count the non-test ones for the evidence
                if n and "/tests/" not in sp and not rel.startswith("tests"):
                    summary["substitutions"][os.path.join(crate, rel)] = n
                    uses += n
                if rel == "Cargo.toml":
                    text = out.decode()
                    extra = '\nverif_sync = { path = "%s/harness/verif_sync" }\nloom = "0.7"\n' % ROOT
                    text = text.replace("[dependencies]\n", "[dependencies]" + extra, 1)
                    # benches are not copied
                    text = re.sub(r"\n\[\[bench\]\][^\[]*", "\n", text)
                    out = text.encode()
                dp = os.path.join(dst_root, rel)
                keep.add(dp)
                os.makedirs(os.path.dirname(dp), exist_ok=True)
                old = open(dp, "rb").read() if os.path.exists(dp) else None
                if old != out:
                    open(dp, "wb").write(out)
                summary["files"] += 1
        for dirpath, dirnames, filenames in os.walk(dst_root):
            dirnames[:] = [d for d in dirnames if d != "target"]
            for fn in filenames:
                p = os.path.join(dirpath, fn)
                if p not in keep:
                    os.remove(p)
    summary["source_digest"] = digest.hexdigest()
    print(json.dumps(summary))

if __name__ == "__main__":
    main()
