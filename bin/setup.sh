#!/bin/sh
# Builds the harness (both profiles) offline from files on disk.
set -e
cd "$(dirname "$0")/.."
export CARGO_NET_OFFLINE=true TZ=UTC
exec python3 bin/vcheck build
