#!/bin/bash
# run_some.sh <tier> <check>...: like run_all.sh for the named checks only
cd "$(dirname "$0")/.."
tier=$1; shift
rc=0
for c in "$@"; do
  start=$(date +%s)
  out=$(bin/vcheck $c $tier 2>&1); r=$?
  echo "$out" | grep -E "^(SUMMARY|VIOLATION|NOTE|MACHINERY)" | cut -c1-300 | head -20
  echo "== $c $tier exit=$r elapsed=$(( $(date +%s) - start ))s"
  [ $r -ne 0 ] && rc=$r
done
exit $rc
