#!/usr/bin/env python3
"""UTC offsets of named IANA zones at given local date-times, from CPython's zoneinfo (system tzdata).

usage: tz_oracle.py <out.json>   -- zones and local date-times are fixed here and mirrored in engines/c15.rs
"""
import datetime, json, sys, zoneinfo

ZONES = ["Europe/Warsaw", "Europe/London", "America/New_York", "America/Los_Angeles", "America/St_Johns", "Asia/Kolkata",
         "Asia/Kathmandu", "Australia/Sydney", "Australia/Adelaide", "Pacific/Auckland", "Africa/Johannesburg", "America/Sao_Paulo"]
LOCALS = ["1990-01-15T00:00:00", "1999-12-31T23:59:59", "2000-02-29T12:00:00", "2010-07-15T06:30:00", "2020-01-15T12:00:00", "2020-07-15T12:00:00"]
# local times around a change of date and around daylight-saving transitions: close instants on different local dates and
# on different sides of a transition; a zone in which such a local time is ambiguous or does not exist has no entry for it
NEAR = ["2021-01-01T22:30:00", "2021-01-01T23:30:00", "2021-01-02T00:30:00", "2021-01-02T01:30:00", "2021-03-14T01:30:00", "2021-03-14T03:30:00", "2021-03-28T00:30:00", "2021-03-28T01:30:00", "2021-03-28T03:30:00", "2021-03-28T04:45:00", "2021-10-31T00:30:00", "2021-10-31T03:30:00", "1600-01-01T00:00:00", "2300-06-15T12:00:00"]

def main():
    out = {}
    for z in ZONES:
        tz = zoneinfo.ZoneInfo(z)
        row = {}
        for l in LOCALS:
            dt = datetime.datetime.fromisoformat(l).replace(tzinfo=tz)
            # refuse ambiguous / non-existent local times: the alphabet must stay away from transitions
            other = dt.replace(fold=1)
            if dt.utcoffset() != other.utcoffset():
                raise SystemExit("ambiguous local time %s in %s" % (l, z))
            back = dt.astimezone(datetime.timezone.utc).astimezone(tz).replace(tzinfo=None)
            if back != datetime.datetime.fromisoformat(l):
                raise SystemExit("non-existent local time %s in %s" % (l, z))
            row[l] = int(dt.utcoffset().total_seconds())
        for l in NEAR:
            dt = datetime.datetime.fromisoformat(l).replace(tzinfo=tz)
            if dt.utcoffset() != dt.replace(fold=1).utcoffset():
                continue
            if dt.astimezone(datetime.timezone.utc).astimezone(tz).replace(tzinfo=None) != datetime.datetime.fromisoformat(l):
                continue
            row[l] = int(dt.utcoffset().total_seconds())
        out[z] = row
    # calendar self-check of the engine's reference calendar is done in Rust; here only weekday spot values
    out["_weekday_check"] = {d: datetime.date.fromisoformat(d).isoweekday() for d in ["0001-01-01", "1582-10-15", "1900-03-01", "2000-02-29", "2020-01-01", "9999-12-31"]}
    json.dump(out, open(sys.argv[1], "w"), indent=1, sort_keys=True)

if __name__ == "__main__":
    main()
