#!/usr/bin/env python3
"""Decimal128 oracle for C02: CPython's decimal (libmpdec) configured as decimal128.

Reads /verif/target/c02/rows_*.tsv (level, op, a, b, observed) written by `vh c02gen`, recomputes every
row and writes /verif/target/c02/verdicts.jsonl: one aggregated line per violation key plus a summary.
Nothing is sampled: every row is recomputed.
"""
import glob, json, math, os, sys
from decimal import (Context, Decimal, ROUND_HALF_EVEN, ROUND_FLOOR, ROUND_CEILING, Overflow, Underflow, Subnormal,
                     DivisionByZero, InvalidOperation, Inexact, Rounded, Clamped, localcontext)
from fractions import Fraction
from multiprocessing import Pool

DIR = os.path.join(os.environ.get("VERIF_ROOT") or os.path.dirname(os.path.dirname(os.path.abspath(__file__))), "target", "c02")
NULL = "NULL"
UNSPEC = "UNSPEC"

def ctx128():
    return Context(prec=34, rounding=ROUND_HALF_EVEN, Emin=-6143, Emax=6144, clamp=1, traps=[])

BIG = Context(prec=40000, rounding=ROUND_HALF_EVEN, Emin=-999999, Emax=999999, traps=[])

def dec(text):
    return BIG.create_decimal(text)

def flags_verdict(c, r):
    """Maps the status of an operation to NULL / UNSPEC / the result."""
    if c.flags[InvalidOperation] or c.flags[DivisionByZero] or c.flags[Overflow]:
        return NULL
    if not r.is_finite():
        return NULL
    if c.flags[Underflow] or c.flags[Subnormal]:
        return UNSPEC
    return r

def expected(op, a, b):
    """Returns (value | bool | NULL | UNSPEC, tolerance_ulps)."""
    c = ctx128()
    if op in ("add", "sub", "mul", "div"):
        f = {"add": c.add, "sub": c.subtract, "mul": c.multiply, "div": c.divide}[op]
        r = f(a, b)
        return flags_verdict(c, r), 0
    if op == "neg":
        return flags_verdict(c, c.minus(a)) if a != 0 else Decimal(0), 0
    if op == "abs":
        return flags_verdict(c, c.abs(a)), 0
    if op == "floor":
        r = a.to_integral_value(rounding=ROUND_FLOOR, context=BIG)
        return r, 0
    if op == "ceiling":
        r = a.to_integral_value(rounding=ROUND_CEILING, context=BIG)
        return r, 0
    if op == "sqrt":
        if a < 0:
            return NULL, 0
        return flags_verdict(c, c.sqrt(a)), 0
    if op in ("ln", "log"):
        if a <= 0:
            return NULL, 0
        return flags_verdict(c, c.ln(a)), 2
    if op == "exp":
        return flags_verdict(c, c.exp(a)), 2
    if op == "pow":
        if a == 0 and b == 0:
            return NULL, 0
        if a == 0 and b < 0:
            return NULL, 0
        if a < 0 and b != b.to_integral_value():
            return NULL, 0
        r = c.power(a, b)
        v = flags_verdict(c, r)
        return v, (2 if c.flags[Inexact] else 0)
    if op in ("rem", "modulo"):
        if b == 0:
            return NULL, 0
        fa, fb = Fraction(a), Fraction(b)
        q = math.floor(fa / fb)
        m = fa - fb * q
        md = BIG.divide(Decimal(m.numerator), Decimal(m.denominator))
        if BIG.flags[Inexact]:
            BIG.clear_flags()
            return UNSPEC, 0
        r = c.plus(md)
        return flags_verdict(c, r), 0
    if op == "decimal":
        if b != b.to_integral_value():
            return UNSPEC, 0
        s = int(b)
        if s < -6111 or s > 6176:
            return NULL, 0
        r = c.quantize(a, Decimal(1).scaleb(-s, context=BIG))
        if c.flags[InvalidOperation]:
            return UNSPEC, 0
        return flags_verdict(c, r), 0
    if op in ("odd", "even"):
        if a != a.to_integral_value(context=BIG):
            return UNSPEC, 0
        i = int(a) if a.adjusted() < 40 else (0 if a.as_tuple().exponent > 0 else int(a))
        return ((i % 2 != 0) if op == "odd" else (i % 2 == 0)), 0
    if op == "eq":
        return a == b, 0
    if op == "lt":
        return a < b, 0
    if op == "le":
        return a <= b, 0
    raise ValueError(op)

def within(obs, exp, ulps):
    if obs == exp:
        return True
    if ulps == 0 or exp == 0:
        return False
    ulp = Decimal(1).scaleb(exp.adjusted() - 33, context=BIG)
    return abs(BIG.subtract(obs, exp)) <= ulps * ulp

def quotient_not_representable(a, b):
    """True when floor(a/b) differs from floor(round34(a/b)) or the quotient has more than 34 integer digits."""
    fa, fb = Fraction(a), Fraction(b)
    q = fa / fb
    c = ctx128()
    q34 = c.divide(a, b)
    if not q34.is_finite():
        return True
    return math.floor(q) != math.floor(Fraction(q34)) or abs(math.floor(q)) >= 10**34

def product_not_representable(a, b):
    """True when b * floor(a/b) - the product the implementation subtracts from a - does not fit into 34 digits."""
    q = math.floor(Fraction(a) / Fraction(b))
    p = BIG.multiply(b, Decimal(q))
    c = ctx128()
    c.plus(p)
    return bool(c.flags[Inexact]) or bool(c.flags[Rounded])

def magnitude_class(x):
    if not isinstance(x, Decimal):
        return str(x)
    if x == 0:
        return "zero"
    e = x.adjusted()
    if e > 6000:
        return "huge"
    if e < -6000:
        return "tiny"
    return "normal"

def check_shard(path):
    viol = {}   # key -> [count, what, case]
    stats = {"rows": 0, "compared": 0, "nontrivial": 0, "unspecified": 0, "expected_null": 0, "api_not_applicable": 0}
    per_op = {}
    results = set()
    samples = []
    def v(key, what, case):
        e = viol.get(key)
        if e is None:
            viol[key] = [1, what, case]
        else:
            e[0] += 1
    with open(path) as f:
        for line in f:
            parts = line.rstrip("\n").split("\t")
            if len(parts) != 5:
                v("machinery:bad-row", "row does not have 5 fields: %r" % line[:80], {})
                continue
            level, op, ta, tb, obs_t = parts
            stats["rows"] += 1
            po = per_op.setdefault(level + ":" + op, [0, 0])
            po[0] += 1
            try:
                a = dec(ta)
                b = dec(tb) if tb else None
                exp, ulps = expected(op, a, b)
            except Exception as e:  # an oracle failure is a machinery error, never a verdict
                v("machinery:oracle-exception", "oracle failed on %s %s %s: %r" % (op, ta, tb, e), {})
                continue
            case = {"level": level, "op": op, "a": ta, "b": tb, "observed": obs_t, "expected": str(exp)}
            if len(samples) < 2 and isinstance(exp, Decimal) and exp != 0 and tb:
                samples.append(case)
            if len(results) < 50000:
                results.add(obs_t)
            if exp is UNSPEC:
                stats["unspecified"] += 1
                # still: never an infinite or NaN value at the FEEL level
                if level == "feel" and obs_t in ("Infinity", "-Infinity", "NaN", "sNaN", "-NaN"):
                    v("feel-nonfinite-result:%s" % op, "FEEL `%s` of %s, %s evaluates to %s" % (op, ta, tb, obs_t), case)
                continue
            if exp is NULL:
                stats["expected_null"] += 1
                if level == "api":
                    stats["api_not_applicable"] += 1
                    continue
                if obs_t == "null":
                    stats["compared"] += 1
                    po[1] += 1
                    continue
                if obs_t in ("Infinity", "-Infinity", "NaN", "sNaN", "-NaN"):
                    v("feel-nonfinite-result:%s" % op, "FEEL `%s` of %s, %s is undefined or out of range but evaluates to %s instead of null" % (op, ta, tb, obs_t), case)
                elif op == "pow" and b < 0 and a == 0:
                    v("pow:zero-base-negative-exponent", "FEEL `%s` of %s, %s (zero raised to a negative power) is undefined but evaluates to %s instead of null" % (op, ta, tb, obs_t), case)
                elif op == "pow" and b < 0:
                    v("pow:negative-exponent-result-out-of-range", "FEEL `%s` of %s, %s is out of range but evaluates to %s instead of null" % (op, ta, tb, obs_t), case)
                else:
                    v("feel-value-for-undefined:%s" % op, "FEEL `%s` of %s, %s is undefined or out of range but evaluates to %s instead of null" % (op, ta, tb, obs_t), case)
                continue
            stats["compared"] += 1
            po[1] += 1
            if isinstance(exp, bool):
                stats["nontrivial"] += 1
                if obs_t != ("true" if exp else "false"):
                    v("wrong-boolean:%s:%s" % (level, op), "%s `%s` of %s, %s gives %s, expected %s" % (level, op, ta, tb, obs_t, exp), case)
                continue
            # numeric expectation
            if obs_t in ("null", "none"):
                if op == "decimal" and b == 6176:
                    v("decimal:scale-6176-rejected", "%s `decimal` of %s with the largest allowed scale 6176 gives %s but the result %s is defined and in range" % (level, ta, obs_t, exp), case)
                    continue
                if op == "pow" and b == b.to_integral_value(context=BIG) and abs(b) >= 10**9:
                    v("pow:integer-exponent-of-10-or-more-digits:%s" % level, "%s `%s` of %s, %s gives %s but the result %s is defined and in range" % (level, op, ta, tb, obs_t, exp), case)
                    continue
                v("null-for-defined:%s:%s:%s" % (level, op, magnitude_class(exp)), "%s `%s` of %s, %s gives %s but the result %s is defined and in range" % (level, op, ta, tb, obs_t, exp), case)
                continue
            try:
                obs = dec(obs_t)
            except Exception:
                v("unreadable-result:%s:%s" % (level, op), "%s `%s` of %s, %s gives %s" % (level, op, ta, tb, obs_t), case)
                continue
            if not obs.is_finite():
                if op in ("rem", "modulo"):
                    v("modulo:quotient-overflows:%s" % level, "%s `%s` of %s, %s gives %s, expected %s: the quotient a/b is outside the decimal128 range" % (level, op, ta, tb, obs_t, exp), case)
                    continue
                v("nonfinite-for-defined:%s:%s" % (level, op), "%s `%s` of %s, %s gives %s, expected %s" % (level, op, ta, tb, obs_t, exp), case)
                continue
            if exp != 0:
                stats["nontrivial"] += 1
            if not within(obs, exp, ulps):
                if op in ("rem", "modulo") and quotient_not_representable(a, b):
                    v("modulo:quotient-needs-more-than-34-digits:%s" % level, "%s `%s` of %s, %s gives %s, expected %s: the quotient a/b cannot be floored from its 34-digit rounding" % (level, op, ta, tb, obs_t, exp), case)
                    continue
                if op in ("rem", "modulo") and product_not_representable(a, b):
                    v("modulo:product-needs-more-than-34-digits:%s" % level, "%s `%s` of %s, %s gives %s, expected %s: b * floor(a/b) does not fit into 34 digits" % (level, op, ta, tb, obs_t, exp), case)
                    continue
                v("wrong-value:%s:%s:%s" % (level, op, magnitude_class(exp)), "%s `%s` of %s, %s gives %s, expected %s%s" % (level, op, ta, tb, obs_t, exp, (" (within %d ulp)" % ulps) if ulps else ""), case)
    return viol, stats, per_op, len(results), samples

def main():
    shards = sorted(glob.glob(os.path.join(DIR, "rows_*.tsv")))
    out = os.path.join(DIR, "verdicts.jsonl")
    if not shards:
        with open(out, "w") as f:
            f.write(json.dumps({"machinery_error": "no row files"}) + "\n")
        return 2
    with Pool(min(16, len(shards))) as p:
        parts = p.map(check_shard, shards)
    viol, stats, per_op, nres, samples = {}, {}, {}, 0, []
    for v, s, po, nr, sm in parts:
        for k, (c, w, case) in v.items():
            if k in viol:
                viol[k][0] += c
            else:
                viol[k] = [c, w, case]
        for k, n in s.items():
            stats[k] = stats.get(k, 0) + n
        for k, (n, m) in po.items():
            e = per_op.setdefault(k, [0, 0])
            e[0] += n
            e[1] += m
        nres = max(nres, nr)
        samples.extend(sm)
    with open(out, "w") as f:
        for k in sorted(viol):
            c, w, case = viol[k]
            if k.startswith("machinery:"):
                f.write(json.dumps({"machinery_error": "%s (%d rows): %s" % (k, c, w)}) + "\n")
            else:
                f.write(json.dumps({"key": k, "count": c, "what": w, "case": case}) + "\n")
        f.write(json.dumps({"summary": True, "rows": stats.get("rows", 0), "compared": stats.get("compared", 0),
                            "compared_exact_nontrivial": stats.get("nontrivial", 0), "unspecified": stats.get("unspecified", 0),
                            "expected_null": stats.get("expected_null", 0), "per_op": {k: {"rows": v[0], "compared": v[1]} for k, v in sorted(per_op.items())},
                            "distinct_results": nres, "samples": samples[:6], "lattice": 0}) + "\n")
    return 0

if __name__ == "__main__":
    sys.exit(main())
