//! Stand-in for `std::sync` in the instrumented copy of the dmntk crates (C20): every `std::sync::` path of the
//! sources is rewritten to `verif_sync::`. Mutex, Condvar and the atomics are loom's (every operation is a
//! scheduling point of the model checker); `Arc` stays std's (reference counts are not a property-relevant
//! interleaving and the code builds reference cycles that loom's leak-checking Arc rejects); `RwLock` is built
//! here from loom's Mutex + Condvar, because loom's own RwLock records readers as a set of thread ids and so
//! mis-models the recursive read locks the evaluator takes. The shim counts readers, supports poisoning and is
//! writer-preferring (a reader blocks while a writer waits): the worst blocking behaviour std documents as
//! permitted, so that a write lock on the evaluation path shows up as the recursive-read deadlock it can cause.

pub use std::sync::{Arc, LockResult, PoisonError, TryLockError, TryLockResult, Weak};

pub use loom::sync::{Condvar, Mutex, MutexGuard};

pub mod atomic {
  pub use loom::sync::atomic::*;
}

pub mod mpsc {
  pub use loom::sync::mpsc::*;
}

use std::cell::UnsafeCell;
use std::ops::{Deref, DerefMut};

struct State {
  readers: usize,
  writer: bool,
  writers_waiting: usize,
}

pub struct RwLock<T> {
  state: loom::sync::Mutex<State>,
  cv: loom::sync::Condvar,
  poisoned: std::sync::atomic::AtomicBool,
  data: UnsafeCell<T>,
}

unsafe impl<T: Send> Send for RwLock<T> {}
unsafe impl<T: Send + Sync> Sync for RwLock<T> {}

pub struct RwLockReadGuard<'a, T> {
  lock: &'a RwLock<T>,
}

pub struct RwLockWriteGuard<'a, T> {
  lock: &'a RwLock<T>,
}

/// lock events of the current execution (read+, read-, write+, write-), for the evidence
pub static TRACE: std::sync::Mutex<Vec<u8>> = std::sync::Mutex::new(Vec::new());

fn trace(b: u8) {
  if let Ok(mut t) = TRACE.lock() {
    if t.len() < 4096 {
      t.push(b);
    }
  }
}

impl<T> RwLock<T> {
  pub fn new(t: T) -> RwLock<T> {
    RwLock {
      state: loom::sync::Mutex::new(State { readers: 0, writer: false, writers_waiting: 0 }),
      cv: loom::sync::Condvar::new(),
      poisoned: std::sync::atomic::AtomicBool::new(false),
      data: UnsafeCell::new(t),
    }
  }
  pub fn read(&self) -> LockResult<RwLockReadGuard<'_, T>> {
    let mut st = self.state.lock().unwrap();
    while st.writer || st.writers_waiting > 0 {
      st = self.cv.wait(st).unwrap();
    }
    st.readers += 1;
    drop(st);
    trace(b'r');
    let guard = RwLockReadGuard { lock: self };
    if self.poisoned.load(std::sync::atomic::Ordering::SeqCst) {
      Err(PoisonError::new(guard))
    } else {
      Ok(guard)
    }
  }
  pub fn write(&self) -> LockResult<RwLockWriteGuard<'_, T>> {
    let mut st = self.state.lock().unwrap();
    st.writers_waiting += 1;
    while st.writer || st.readers > 0 {
      st = self.cv.wait(st).unwrap();
    }
    st.writers_waiting -= 1;
    st.writer = true;
    drop(st);
    trace(b'w');
    let guard = RwLockWriteGuard { lock: self };
    if self.poisoned.load(std::sync::atomic::Ordering::SeqCst) {
      Err(PoisonError::new(guard))
    } else {
      Ok(guard)
    }
  }
  /// Like std: no blocking; `WouldBlock` while a writer holds the lock or waits for it.
  pub fn try_read(&self) -> TryLockResult<RwLockReadGuard<'_, T>> {
    let mut st = self.state.lock().unwrap();
    if st.writer || st.writers_waiting > 0 {
      return Err(TryLockError::WouldBlock);
    }
    st.readers += 1;
    drop(st);
    trace(b'r');
    let guard = RwLockReadGuard { lock: self };
    if self.poisoned.load(std::sync::atomic::Ordering::SeqCst) {
      Err(TryLockError::Poisoned(PoisonError::new(guard)))
    } else {
      Ok(guard)
    }
  }
  /// Like std: no blocking; `WouldBlock` while the lock is held by anyone.
  pub fn try_write(&self) -> TryLockResult<RwLockWriteGuard<'_, T>> {
    let mut st = self.state.lock().unwrap();
    if st.writer || st.readers > 0 {
      return Err(TryLockError::WouldBlock);
    }
    st.writer = true;
    drop(st);
    trace(b'w');
    let guard = RwLockWriteGuard { lock: self };
    if self.poisoned.load(std::sync::atomic::Ordering::SeqCst) {
      Err(TryLockError::Poisoned(PoisonError::new(guard)))
    } else {
      Ok(guard)
    }
  }
  pub fn get_mut(&mut self) -> LockResult<&mut T> {
    Ok(self.data.get_mut())
  }
  pub fn is_poisoned(&self) -> bool {
    self.poisoned.load(std::sync::atomic::Ordering::SeqCst)
  }
  pub fn into_inner(self) -> LockResult<T> {
    Ok(self.data.into_inner())
  }
}

impl<T: Default> Default for RwLock<T> {
  fn default() -> Self {
    RwLock::new(T::default())
  }
}

impl<T: std::fmt::Debug> std::fmt::Debug for RwLock<T> {
  fn fmt(&self, f: &mut std::fmt::Formatter<'_>) -> std::fmt::Result {
    write!(f, "RwLock(..)")
  }
}

impl<'a, T> Deref for RwLockReadGuard<'a, T> {
  type Target = T;
  fn deref(&self) -> &T {
    unsafe { &*self.lock.data.get() }
  }
}

impl<'a, T> Deref for RwLockWriteGuard<'a, T> {
  type Target = T;
  fn deref(&self) -> &T {
    unsafe { &*self.lock.data.get() }
  }
}

impl<'a, T> DerefMut for RwLockWriteGuard<'a, T> {
  fn deref_mut(&mut self) -> &mut T {
    unsafe { &mut *self.lock.data.get() }
  }
}

impl<'a, T> Drop for RwLockReadGuard<'a, T> {
  fn drop(&mut self) {
    let mut st = self.lock.state.lock().unwrap();
    st.readers -= 1;
    drop(st);
    trace(b'R');
    self.lock.cv.notify_all();
  }
}

impl<'a, T> Drop for RwLockWriteGuard<'a, T> {
  fn drop(&mut self) {
    if std::thread::panicking() {
      self.lock.poisoned.store(true, std::sync::atomic::Ordering::SeqCst);
    }
    let mut st = self.lock.state.lock().unwrap();
    st.writer = false;
    drop(st);
    trace(b'W');
    self.lock.cv.notify_all();
  }
}

/// `std::sync::OnceLock` over loom's mutex: initialisation is a scheduling point, the threads that arrive while the value
/// is being computed wait for it, as with the standard library's.
pub struct OnceLock<T> {
  state: Mutex<bool>,
  value: std::cell::UnsafeCell<Option<T>>,
}

unsafe impl<T: Send> Send for OnceLock<T> {}
unsafe impl<T: Send + Sync> Sync for OnceLock<T> {}

impl<T> OnceLock<T> {
  pub fn new() -> OnceLock<T> {
    OnceLock { state: Mutex::new(false), value: std::cell::UnsafeCell::new(None) }
  }
  pub fn get(&self) -> Option<&T> {
    let set = self.state.lock().unwrap();
    if *set {
      // the value is written once, under the lock, and never moved afterwards
      unsafe { (*self.value.get()).as_ref() }
    } else {
      None
    }
  }
  pub fn set(&self, value: T) -> Result<(), T> {
    let mut set = self.state.lock().unwrap();
    if *set {
      return Err(value);
    }
    unsafe { *self.value.get() = Some(value) };
    *set = true;
    Ok(())
  }
  pub fn get_or_init<F: FnOnce() -> T>(&self, f: F) -> &T {
    let mut set = self.state.lock().unwrap();
    if !*set {
      unsafe { *self.value.get() = Some(f()) };
      *set = true;
    }
    unsafe { (*self.value.get()).as_ref().unwrap() }
  }
}

impl<T> Default for OnceLock<T> {
  fn default() -> Self {
    OnceLock::new()
  }
}

impl<T: std::fmt::Debug> std::fmt::Debug for OnceLock<T> {
  fn fmt(&self, f: &mut std::fmt::Formatter<'_>) -> std::fmt::Result {
    write!(f, "OnceLock(..)")
  }
}
