//! C20: loom exploration of concurrent evaluations against one shared ModelEvaluator, on the instrumented copy
//! of the dmntk crates (every std::sync path rewritten to verif_sync). Usage: loomh <model.dmn> <plan>, the plan giving the call-table indices per thread, e.g. 0,3/2,5
//! Environment: LOOM_MAX_PREEMPTIONS, LOOM_MAX_BRANCHES, LOOM_MAX_DURATION (loom's own).
//! Prints `EXECUTIONS n`, `TRACES k`, `OUTCOMES m` and exits 0; a wrong value is announced as `MISMATCH ...` on stderr
//! before the panic that makes loom stop (loom reports a deadlock itself).

use dmntk_feel::context::FeelContext;
use dmntk_feel::Scope;
use std::collections::BTreeSet;
use std::sync::atomic::{AtomicU64, Ordering};
use std::sync::{Arc, Mutex};

const CALLS: [(&str, &str); 23] = [
  ("All", r#"{A: 5, S: "abcz"}"#),
  ("Quote", r#"{A: 500, S: "xyz"}"#),
  ("All", r#"{A: 42, S: "aeiouz"}"#),
  ("Quote", r#"{A: 5, S: "abcz"}"#),
  ("All", r#"{A: 500, S: "xyz"}"#),
  ("Quote", r#"{A: 42, S: "aeiouz"}"#),
  ("Many", r#"{S: "abcz"}"#),
  ("Many", r#"{S: "xyz"}"#),
  ("Three", r#"{A: 5}"#),
  ("Three", r#"{A: 42}"#),
  // invocables other than decisions, invoked by name: a knowledge model without parameters, one with a parameter, the service
  ("Rate", r#"{}"#),
  ("Scale", r#"{x: 3}"#),
  ("Svc", r#"{A: 5}"#),
  // date and time values of one named zone on the day of a daylight-saving change, before and after the change, and in another zone
  ("Zone", r#"{S: "2021-03-28T01:30:00@Europe/Warsaw"}"#),
  ("Zone", r#"{S: "2021-03-28T12:00:00@Europe/Warsaw"}"#),
  ("Zone", r#"{S: "2021-03-28T12:00:00@America/New_York"}"#),
  // a decision table none of whose rules matches: the default output entry is an expression over the input
  ("Def", r#"{A: 5}"#),
  ("Def", r#"{A: 42}"#),
  // three hundred invocations of a function of two parameters with one argument (each is null), then proper invocations,
  // positional and named, of another function
  ("Batch", r#"{A: 5}"#),
  ("Gross", r#"{A: 100}"#),
  // a table with the UNIQUE hit policy whose rules overlap: one rule matches, two rules match (null is the value), another rule matches
  ("Grade", r#"{A: 60}"#),
  ("Grade", r#"{A: 95}"#),
  ("Grade", r#"{A: 10}"#),
];

/// calls whose value is null when made alone (everywhere else a null made alone means the model file is not what the table expects)
const NULL_ALONE: [usize; 1] = [21];

fn ctx(text: &str) -> FeelContext {
  dmntk_feel_evaluator::evaluate_context(&Scope::default(), text).expect("input context")
}

fn main() {
  let args: Vec<String> = std::env::args().collect();
  let xml = std::fs::read_to_string(&args[1]).expect("model file");
  // scenario: call-table indices per thread, e.g. 0,3/2,5
  let plan: Vec<Vec<usize>> = args[2].split('/').map(|t| t.split(',').filter(|x| !x.is_empty()).map(|x| x.parse().unwrap()).collect()).collect();
  let threads = plan.len();
  let stack = 16 << 20;
  // every call made alone: one loom execution with a single worker
  // (one execution per call: statics of the instrumented crates live for one execution, so what a call leaves behind in a
  // lazily initialised static cannot reach the value another call has when made alone)
  let alone: Arc<Mutex<Vec<String>>> = Arc::new(Mutex::new(vec![]));
  for (inv, c) in CALLS {
    let alone = alone.clone();
    let xml = xml.clone();
    loom::model(move || {
      let alone = alone.clone();
      let xml = xml.clone();
      loom::thread::Builder::new()
        .stack_size(stack)
        .spawn(move || {
          let defs = dmntk_model::parse(&xml).expect("model parses");
          let me = dmntk_model_evaluator::ModelEvaluator::new(&defs).expect("model builds");
          let v = me.evaluate_invocable(inv, &ctx(c)).to_string();
          alone.lock().unwrap().push(v);
        })
        .unwrap()
        .join()
        .unwrap();
    });
  }
  let alone: Vec<String> = alone.lock().unwrap().clone();
  println!("ALONE {:?}", alone);
  if alone.iter().enumerate().any(|(i, v)| v.starts_with("null") != NULL_ALONE.contains(&i)) {
    eprintln!("MACHINERY a call made alone is null: {:?}", alone);
    std::process::exit(2);
  }
  let started = std::time::Instant::now();
  let executions = Arc::new(AtomicU64::new(0));
  let traces: Arc<Mutex<BTreeSet<Vec<u8>>>> = Arc::new(Mutex::new(BTreeSet::new()));
  let outcomes: Arc<Mutex<BTreeSet<String>>> = Arc::new(Mutex::new(BTreeSet::new()));
  {
    let executions = executions.clone();
    let traces = traces.clone();
    let outcomes = outcomes.clone();
    let alone = alone.clone();
    let plan = plan.clone();
    loom::model(move || {
      let plan = plan.clone();
      executions.fetch_add(1, Ordering::Relaxed);
      verif_sync::TRACE.lock().unwrap().clear();
      let xml = xml.clone();
      let alone = alone.clone();
      let outcomes = outcomes.clone();
      loom::thread::Builder::new()
        .stack_size(stack)
        .spawn(move || {
          let defs = dmntk_model::parse(&xml).expect("model parses");
          let me = dmntk_model_evaluator::ModelEvaluator::new(&defs).expect("model builds");
          verif_sync::TRACE.lock().unwrap().clear();
          let mut handles = vec![];
          for t in 0..threads {
            let me = me.clone();
            let alone = alone.clone();
            let mine = plan[t].clone();
            handles.push(
              loom::thread::Builder::new()
                .stack_size(stack)
                .spawn(move || {
                  let mut got = vec![];
                  for (k, idx) in mine.iter().cloned().enumerate() {
                    let (inv, c) = CALLS[idx];
                    let v = me.evaluate_invocable(inv, &ctx(c)).to_string();
                    if v != alone[idx] {
                      eprintln!("MISMATCH thread {} call {} ({} with {}): got {} but alone it gives {}", t, k, inv, c, v, alone[idx]);
                      panic!("per-call result differs from the call made alone");
                    }
                    got.push(v);
                  }
                  got
                })
                .unwrap(),
            );
          }
          let mut all = vec![];
          for h in handles {
            all.push(h.join().unwrap());
          }
          // one more call afterwards, and no lock is left poisoned
          let v = me.evaluate_invocable(CALLS[0].0, &ctx(CALLS[0].1)).to_string();
          if v != alone[0] {
            eprintln!("MISMATCH call after the threads: got {} but alone it gives {}", v, alone[0]);
            panic!("result after the concurrent phase differs");
          }
          let poisoned = me.input_data_evaluator().is_err()
            || me.item_definition_evaluator().is_err()
            || me.business_knowledge_model_evaluator().is_err()
            || me.decision_evaluator().is_err()
            || me.decision_service_evaluator().is_err();
          if poisoned {
            eprintln!("MISMATCH a registry lock is poisoned after the concurrent phase");
            panic!("poisoned lock");
          }
          outcomes.lock().unwrap().insert(format!("{:?}", all));
        })
        .unwrap()
        .join()
        .unwrap();
      let t = verif_sync::TRACE.lock().unwrap().clone();
      let mut set = traces.lock().unwrap();
      if set.len() < 200000 {
        set.insert(t);
      }
    });
  }
  println!("ELAPSED {}", started.elapsed().as_secs());
  println!("EXECUTIONS {}", executions.load(Ordering::Relaxed));
  println!("TRACES {}", traces.lock().unwrap().len());
  println!("OUTCOMES {}", outcomes.lock().unwrap().len());
}
