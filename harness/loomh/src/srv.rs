//! C18 (concurrent requests): loom exploration of the HTTP request handlers of the instrumented copy of dmntk-server,
//! called from two or three threads against one shared application state (the workspace behind its RwLock).
//! The routing attributes of the handlers are removed in the instrumented copy (bin/instr_c20.py), their bodies are the
//! repository's. Oracle: linearizability by brute force - the vector of responses of every explored interleaving must be
//! the vector of responses of one sequential order of the same requests (every order that keeps each thread's own order
//! is executed on a fresh state first).
//! Usage: loomsrv <plan>, the plan giving request-table indices per thread, e.g. 0/6 or 2,5/6,6
//! Prints `SEQUENTIAL n`, `EXECUTIONS n`, `OUTCOMES m`, `ELAPSED s`; a response vector outside the sequential ones is
//! announced as `MISMATCH ...` on stderr before the panic that makes loom stop.

use actix_web::web;
use dmntk_server::server::*;
use std::collections::BTreeSet;
use std::future::Future;
use std::sync::atomic::{AtomicU64, Ordering};
use std::sync::{Arc, Mutex};
use std::task::{Context, Poll, Wake, Waker};

const MODEL_A: &str = r##"<?xml version="1.0" encoding="UTF-8"?>
<definitions namespace="https://verif/c18/a" name="model-a" id="_a" xmlns="https://www.omg.org/spec/DMN/20191111/MODEL/">
  <decision name="Greeting" id="_a_d"><variable name="Greeting" typeRef="string"/>
    <informationRequirement id="_a_ir"><requiredInput href="#_a_i"/></informationRequirement>
    <literalExpression><text>"Hello " + Name</text></literalExpression></decision>
  <inputData name="Name" id="_a_i"><variable name="Name" typeRef="string"/></inputData>
</definitions>"##;

const MODEL_A2: &str = r##"<?xml version="1.0" encoding="UTF-8"?>
<definitions namespace="https://verif/c18/a" name="model-a" id="_a" xmlns="https://www.omg.org/spec/DMN/20191111/MODEL/">
  <decision name="Greeting" id="_a_d"><variable name="Greeting" typeRef="string"/>
    <informationRequirement id="_a_ir"><requiredInput href="#_a_i"/></informationRequirement>
    <literalExpression><text>"Good morning " + Name</text></literalExpression></decision>
  <inputData name="Name" id="_a_i"><variable name="Name" typeRef="string"/></inputData>
</definitions>"##;

const MODEL_B: &str = r##"<?xml version="1.0" encoding="UTF-8"?>
<definitions namespace="https://verif/c18/b" name="model-b" id="_b" xmlns="https://www.omg.org/spec/DMN/20191111/MODEL/">
  <decision name="Two" id="_b_d"><variable name="Two" typeRef="number"/>
    <literalExpression><text>1 + 1</text></literalExpression></decision>
</definitions>"##;

#[derive(Clone, Copy, Debug)]
enum Req {
  Add(&'static str),
  Replace(&'static str),
  Remove(&'static str, &'static str),
  Clear,
  Deploy,
  Eval(&'static str, &'static str, &'static str),
  Tck(&'static str, &'static str),
}

/// the request table
const REQS: [(&str, Req); 10] = [
  ("add(A), already stored", Req::Add(MODEL_A)),
  ("add(B)", Req::Add(MODEL_B)),
  ("replace(A by A2)", Req::Replace(MODEL_A2)),
  ("remove(A)", Req::Remove("https://verif/c18/a", "model-a")),
  ("clear", Req::Clear),
  ("deploy", Req::Deploy),
  ("evaluate model-a/Greeting {Name: \"x\"}", Req::Eval("model-a", "Greeting", "{Name: \"x\"}")),
  ("tck evaluate model-a/Greeting", Req::Tck("model-a", "Greeting")),
  ("evaluate model-b/Two", Req::Eval("model-b", "Two", "{}")),
  ("evaluate model-a/Greeting {Name: \"y\"}", Req::Eval("model-a", "Greeting", "{Name: \"y\"}")),
];

struct Noop;
impl Wake for Noop {
  fn wake(self: Arc<Self>) {}
}

/// The handlers never suspend (they wait on locks, not on futures): one poll completes them.
fn now<F: Future>(f: F) -> F::Output {
  let waker = Waker::from(Arc::new(Noop));
  let mut cx = Context::from_waker(&waker);
  let mut f = Box::pin(f);
  match f.as_mut().poll(&mut cx) {
    Poll::Ready(v) => v,
    Poll::Pending => panic!("a request handler suspended"),
  }
}

fn json_of<T: serde::Serialize>(r: std::io::Result<web::Json<ResultDto<T>>>) -> String {
  match r {
    Ok(j) => serde_json::to_string(&j.into_inner()).unwrap_or_else(|e| format!("<not serialisable: {}>", e)),
    Err(e) => format!("<io error: {}>", e),
  }
}

fn request(data: &web::Data<ApplicationData>, req: Req) -> String {
  let b64 = |xml: &str| base64::encode(xml);
  match req {
    Req::Add(xml) => {
      let p: AddDefinitionsParams = serde_json::from_value(serde_json::json!({ "content": b64(xml) })).unwrap();
      json_of(now(post_definitions_add(web::Json(p), data.clone())))
    }
    Req::Replace(xml) => {
      let p: ReplaceDefinitionsParams = serde_json::from_value(serde_json::json!({ "content": b64(xml) })).unwrap();
      json_of(now(post_definitions_replace(web::Json(p), data.clone())))
    }
    Req::Remove(ns, name) => {
      let p: RemoveDefinitionsParams = serde_json::from_value(serde_json::json!({ "namespace": ns, "name": name })).unwrap();
      json_of(now(post_definitions_remove(web::Json(p), data.clone())))
    }
    Req::Clear => json_of(now(post_definitions_clear(data.clone()))),
    Req::Deploy => json_of(now(post_definitions_deploy(data.clone()))),
    Req::Eval(model, invocable, input) => {
      let p: EvaluateParams = serde_json::from_value(serde_json::json!({ "model": model, "invocable": invocable })).unwrap();
      let mut resp = now(post_evaluate(web::Path::from(p), Ok(web::Bytes::from_static(input.as_bytes())), data.clone()));
      match resp.take_body() {
        actix_web::dev::ResponseBody::Body(actix_web::dev::Body::Bytes(b)) | actix_web::dev::ResponseBody::Other(actix_web::dev::Body::Bytes(b)) => String::from_utf8_lossy(&b).into_owned(),
        _ => "<body of another kind>".to_string(),
      }
    }
    Req::Tck(model, invocable) => {
      let p: TckEvaluateParams = serde_json::from_value(serde_json::json!({ "model": model, "invocable": invocable, "input": [{"name": "Name", "value": {"type": "string", "text": "x", "isNil": false}}] })).unwrap();
      json_of(now(post_tck_evaluate(web::Json(p), data.clone())))
    }
  }
}

/// the state every execution starts from: model A stored and deployed
fn initial() -> web::Data<ApplicationData> {
  let data = web::Data::new(ApplicationData { workspace: verif_sync::RwLock::new(dmntk_workspace::Workspace::new(None)) });
  let r1 = request(&data, Req::Add(MODEL_A));
  let r2 = request(&data, Req::Deploy);
  assert!(r1.contains("\"data\"") && r2.contains("\"data\""), "initial state: {} {}", r1, r2);
  data
}

/// every merge of the threads' request lists that keeps each list's order
fn merges(plan: &[Vec<usize>]) -> Vec<Vec<(usize, usize)>> {
  fn go(plan: &[Vec<usize>], pos: &mut Vec<usize>, cur: &mut Vec<(usize, usize)>, out: &mut Vec<Vec<(usize, usize)>>) {
    if (0..plan.len()).all(|t| pos[t] == plan[t].len()) {
      out.push(cur.clone());
      return;
    }
    for t in 0..plan.len() {
      if pos[t] < plan[t].len() {
        cur.push((t, pos[t]));
        pos[t] += 1;
        go(plan, pos, cur, out);
        pos[t] -= 1;
        cur.pop();
      }
    }
  }
  let mut out = vec![];
  go(plan, &mut vec![0; plan.len()], &mut vec![], &mut out);
  out
}

fn main() {
  let args: Vec<String> = std::env::args().collect();
  let plan: Vec<Vec<usize>> = args[1].split('/').map(|t| t.split(',').filter(|x| !x.is_empty()).map(|x| x.parse().unwrap()).collect()).collect();
  let threads = plan.len();
  let stack = 16 << 20;
  // 1. the sequential behaviours
  let sequential: Arc<Mutex<BTreeSet<Vec<Vec<String>>>>> = Arc::new(Mutex::new(BTreeSet::new()));
  let orders = merges(&plan);
  for order in &orders {
    let sequential = sequential.clone();
    let order = order.clone();
    let plan = plan.clone();
    loom::model(move || {
      let sequential = sequential.clone();
      let order = order.clone();
      let plan = plan.clone();
      loom::thread::Builder::new()
        .stack_size(stack)
        .spawn(move || {
          let data = initial();
          let mut got: Vec<Vec<String>> = plan.iter().map(|_| vec![]).collect();
          for (t, k) in order {
            got[t].push(request(&data, REQS[plan[t][k]].1));
          }
          sequential.lock().unwrap().insert(got);
        })
        .unwrap()
        .join()
        .unwrap();
    });
  }
  let sequential: BTreeSet<Vec<Vec<String>>> = sequential.lock().unwrap().clone();
  println!("SEQUENTIAL {} orders, {} distinct response vectors", orders.len(), sequential.len());
  for v in &sequential {
    println!("  ALLOWED {:?}", v);
  }
  // 2. every interleaving within the preemption bound
  let started = std::time::Instant::now();
  let executions = Arc::new(AtomicU64::new(0));
  let outcomes: Arc<Mutex<BTreeSet<Vec<Vec<String>>>>> = Arc::new(Mutex::new(BTreeSet::new()));
  {
    let executions = executions.clone();
    let outcomes = outcomes.clone();
    let sequential = sequential.clone();
    let plan = plan.clone();
    loom::model(move || {
      executions.fetch_add(1, Ordering::Relaxed);
      let plan = plan.clone();
      let outcomes = outcomes.clone();
      let sequential = sequential.clone();
      loom::thread::Builder::new()
        .stack_size(stack)
        .spawn(move || {
          let data = initial();
          let mut handles = vec![];
          for t in 0..threads {
            let data = data.clone();
            let mine = plan[t].clone();
            handles.push(
              loom::thread::Builder::new()
                .stack_size(stack)
                .spawn(move || mine.iter().map(|idx| request(&data, REQS[*idx].1)).collect::<Vec<String>>())
                .unwrap(),
            );
          }
          let got: Vec<Vec<String>> = handles.into_iter().map(|h| h.join().unwrap()).collect();
          if !sequential.contains(&got) {
            eprintln!("MISMATCH the responses {:?} to the requests {:?} are the responses of no sequential order of these requests", got, plan.iter().map(|p| p.iter().map(|i| REQS[*i].0).collect::<Vec<_>>()).collect::<Vec<_>>());
            panic!("not linearizable");
          }
          // the service still answers, and the lock is not poisoned
          let after = request(&data, Req::Deploy);
          if !after.contains("\"data\"") || data.workspace.is_poisoned() {
            eprintln!("MISMATCH after the concurrent requests a deploy request is answered {} (lock poisoned: {})", after, data.workspace.is_poisoned());
            panic!("service does not answer");
          }
          outcomes.lock().unwrap().insert(got);
        })
        .unwrap()
        .join()
        .unwrap();
    });
  }
  println!("ELAPSED {}", started.elapsed().as_secs());
  println!("EXECUTIONS {}", executions.load(Ordering::Relaxed));
  println!("OUTCOMES {}", outcomes.lock().unwrap().len());
}
