//! Reference value model (deliberately boring) and the bridge to/from the implementation's `Value`.

use crate::term::{Ty, UOp, T};
use dmntk_feel::context::FeelContext;
use dmntk_feel::values::{Value, Values};
use dmntk_feel::{FeelNumber, Name, Scope};
use std::sync::Arc as Rc;

fn gcd(a: i128, b: i128) -> i128 {
  let (mut a, mut b) = (a.abs(), b.abs());
  while b != 0 {
    let t = a % b;
    a = b;
    b = t;
  }
  a
}

/// Exact rational; `None` from an operation means i128 overflow (the case is then skipped and counted).
#[derive(Clone, Copy, Debug, PartialEq, Eq, Hash, PartialOrd, Ord)]
pub struct Rat {
  pub n: i128,
  pub d: i128,
}

impl Rat {
  pub fn new(n: i128, d: i128) -> Option<Rat> {
    if d == 0 {
      return None;
    }
    let g = gcd(n, d);
    let (mut n, mut d) = if g == 0 { (0, 1) } else { (n / g, d / g) };
    if d < 0 {
      n = n.checked_neg()?;
      d = d.checked_neg()?;
    }
    Some(Rat { n, d })
  }
  pub fn int(i: i128) -> Rat {
    Rat { n: i, d: 1 }
  }
  pub fn is_int(&self) -> bool {
    self.d == 1
  }
  pub fn add(self, o: Rat) -> Option<Rat> {
    Rat::new(self.n.checked_mul(o.d)?.checked_add(o.n.checked_mul(self.d)?)?, self.d.checked_mul(o.d)?)
  }
  pub fn sub(self, o: Rat) -> Option<Rat> {
    self.add(Rat { n: o.n.checked_neg()?, d: o.d })
  }
  pub fn mul(self, o: Rat) -> Option<Rat> {
    Rat::new(self.n.checked_mul(o.n)?, self.d.checked_mul(o.d)?)
  }
  pub fn div(self, o: Rat) -> Option<Rat> {
    if o.n == 0 {
      return None;
    }
    Rat::new(self.n.checked_mul(o.d)?, self.d.checked_mul(o.n)?)
  }
  pub fn neg(self) -> Option<Rat> {
    Some(Rat { n: self.n.checked_neg()?, d: self.d })
  }
  pub fn cmp_(&self, o: &Rat) -> Option<std::cmp::Ordering> {
    Some(self.n.checked_mul(o.d)?.cmp(&o.n.checked_mul(self.d)?))
  }
  pub fn powi(self, e: i64) -> Option<Rat> {
    if e.abs() > 64 {
      return None;
    }
    let mut r = Rat::int(1);
    for _ in 0..e.abs() {
      r = r.mul(self)?;
    }
    if e < 0 {
      Rat::int(1).div(r)
    } else {
      Some(r)
    }
  }
  /// Parses plain decimal text (optional sign, digits, optional fraction).
  pub fn parse(text: &str) -> Option<Rat> {
    let (neg, body) = match text.strip_prefix('-') {
      Some(r) => (true, r),
      None => (false, text),
    };
    let (ip, fp) = match body.split_once('.') {
      Some((a, b)) => (a, b),
      None => (body, ""),
    };
    if ip.is_empty() && fp.is_empty() {
      return None;
    }
    if !ip.chars().all(|c| c.is_ascii_digit()) || !fp.chars().all(|c| c.is_ascii_digit()) {
      return None;
    }
    let fp = fp.trim_end_matches('0');
    if ip.len() + fp.len() > 36 {
      return None;
    }
    let digits = format!("{}{}", ip, fp);
    let n: i128 = if digits.is_empty() { 0 } else { digits.parse().ok()? };
    let d: i128 = 10i128.checked_pow(fp.len() as u32)?;
    Rat::new(if neg { -n } else { n }, d)
  }
  /// true when the denominator has only the prime factors 2 and 5 (finite decimal expansion)
  pub fn is_decimal(&self) -> bool {
    let mut d = self.d;
    while d % 2 == 0 {
      d /= 2;
    }
    while d % 5 == 0 {
      d /= 5;
    }
    d == 1
  }
  /// Plain decimal text when finite with at most 30 fraction digits.
  pub fn to_decimal_text(&self) -> Option<String> {
    if !self.is_decimal() {
      return None;
    }
    let mut k = 0u32;
    let mut d = self.d;
    let mut n = self.n;
    while d != 1 {
      if k > 30 {
        return None;
      }
      n = n.checked_mul(10)?;
      let g = gcd(n, d);
      n /= g;
      d /= g;
      k += 1;
    }
    let neg = n < 0;
    let s = n.abs().to_string();
    let s = if k == 0 {
      s
    } else {
      let k = k as usize;
      let padded = if s.len() <= k { format!("{}{}", "0".repeat(k - s.len() + 1), s) } else { s };
      let (a, b) = padded.split_at(padded.len() - k);
      format!("{}.{}", a, b)
    };
    Some(if neg { format!("-{}", s) } else { s })
  }
}

pub struct Closure {
  pub params: Vec<(String, Option<Ty>)>,
  pub body: T,
  pub env: Env,
}

#[derive(Clone)]
pub enum RVal {
  Null,
  Bool(bool),
  Num(Rat),
  Str(String),
  List(Vec<RVal>),
  /// entries in insertion order; keys unique
  Ctx(Vec<(String, RVal)>),
  Func(Rc<Closure>),
  Builtin(String),
  Range(bool, Box<RVal>, Box<RVal>, bool),
  Unary(UOp, Box<RVal>),
  /// a number given by its literal text (keeps trailing zeros) together with its value
  NumLit(String, Rat),
  /// a number known only approximately (irrational results): compared with relative tolerance 1e-12
  Approx(f64),
  /// the property / the specification does not determine the value: executed but not compared
  Unspec,
}

pub type Env = Vec<(String, RVal)>;

pub fn lookup(env: &Env, name: &str) -> Option<RVal> {
  env.iter().rev().find(|(k, _)| k == name).map(|(_, v)| v.clone())
}

impl std::fmt::Debug for RVal {
  fn fmt(&self, f: &mut std::fmt::Formatter<'_>) -> std::fmt::Result {
    write!(f, "{}", self.show())
  }
}

impl RVal {
  pub fn int(i: i64) -> RVal {
    RVal::Num(Rat::int(i as i128))
  }
  pub fn s(s: &str) -> RVal {
    RVal::Str(s.to_string())
  }
  pub fn kind(&self) -> &'static str {
    match self {
      RVal::Null => "null",
      RVal::Bool(_) => "boolean",
      RVal::Num(_) => "number",
      RVal::Str(_) => "string",
      RVal::List(_) => "list",
      RVal::Ctx(_) => "context",
      RVal::Func(_) | RVal::Builtin(_) => "function",
      RVal::Range(..) => "range",
      RVal::Unary(..) => "unarytest",
      RVal::Approx(_) => "number",
      RVal::NumLit(..) => "number",
      RVal::Unspec => "unspecified",
    }
  }
  pub fn is_unspec_deep(&self) -> bool {
    match self {
      RVal::Unspec => true,
      RVal::List(v) => v.iter().any(|x| x.is_unspec_deep()),
      RVal::Ctx(es) => es.iter().any(|(_, x)| x.is_unspec_deep()),
      RVal::Range(_, a, b, _) => a.is_unspec_deep() || b.is_unspec_deep(),
      RVal::Unary(_, a) => a.is_unspec_deep(),
      _ => false,
    }
  }
  pub fn show(&self) -> String {
    match self {
      RVal::Null => "null".into(),
      RVal::Bool(b) => b.to_string(),
      RVal::Num(r) => r.to_decimal_text().unwrap_or_else(|| format!("{}/{}", r.n, r.d)),
      RVal::Str(s) => format!("{:?}", s),
      RVal::List(v) => format!("[{}]", v.iter().map(|x| x.show()).collect::<Vec<_>>().join(", ")),
      RVal::Ctx(es) => {
        let mut es: Vec<_> = es.iter().collect();
        es.sort_by(|a, b| a.0.cmp(&b.0));
        format!("{{{}}}", es.iter().map(|(k, x)| format!("{}: {}", k, x.show())).collect::<Vec<_>>().join(", "))
      }
      RVal::Func(_) => "<function>".into(),
      RVal::Builtin(n) => format!("<builtin {}>", n),
      RVal::Range(lc, a, b, rc) => format!("{}{}..{}{}", if *lc { '[' } else { '(' }, a.show(), b.show(), if *rc { ']' } else { ')' }),
      RVal::Unary(op, a) => format!("<unary {:?} {}>", op, a.show()),
      RVal::Approx(f) => format!("~{}", f),
      RVal::NumLit(t, _) => t.clone(),
      RVal::Unspec => "<unspecified>".into(),
    }
  }
  /// Converts to the implementation's value (for bindings). Functions are not convertible.
  pub fn to_value(&self) -> Option<Value> {
    Some(match self {
      RVal::Null => Value::Null(None),
      RVal::Bool(b) => Value::Boolean(*b),
      RVal::Num(r) => {
        let text = r.to_decimal_text()?;
        Value::Number(text.parse::<FeelNumber>().ok()?)
      }
      RVal::Str(s) => Value::String(s.clone()),
      RVal::NumLit(t, _) => Value::Number(t.parse::<FeelNumber>().ok()?),
      RVal::List(v) => Value::List(Values::new(v.iter().map(|x| x.to_value()).collect::<Option<Vec<_>>>()?)),
      RVal::Ctx(es) => {
        let mut c = FeelContext::default();
        for (k, v) in es {
          c.set_entry(&Name::from(k.as_str()), v.to_value()?);
        }
        Value::Context(c)
      }
      _ => return None,
    })
  }
}

/// Outcome of comparing an implementation value with a reference value.
#[derive(Debug, PartialEq)]
pub enum Cmp {
  Same,
  Different,
  /// reference number not representable / implementation number not parseable: skipped and counted
  Skipped,
}

pub fn number_text(n: &FeelNumber) -> String {
  n.to_string()
}

pub fn num_matches(imp: &FeelNumber, r: &Rat) -> Cmp {
  let text = number_text(imp);
  if text.len() > 80 {
    return Cmp::Skipped;
  }
  match Rat::parse(&text) {
    None => {
      // e.g. "Infinity", "NaN", malformed plain text: a definite difference for a finite reference
      Cmp::Different
    }
    Some(iv) => {
      if iv == *r {
        Cmp::Same
      } else {
        // intermediate results are rounded to 34 digits (exactness is C02's subject): agree to 28 significant digits
        match iv.sub(*r) {
          Some(diff) => {
            let lhs = Rat { n: diff.n.abs(), d: diff.d }.mul(Rat::int(10i128.pow(28)));
            match lhs {
              Some(l) => match l.cmp_(&Rat { n: r.n.abs(), d: r.d }) {
                Some(std::cmp::Ordering::Greater) => Cmp::Different,
                Some(_) => Cmp::Same,
                None => Cmp::Skipped,
              },
              None => Cmp::Skipped,
            }
          }
          None => Cmp::Skipped,
        }
      }
    }
  }
}

/// Structural comparison: variant + payload, numbers numerically, null traces ignored,
/// contexts as maps, functions only by "is a function".
pub fn compare(imp: &Value, r: &RVal) -> Cmp {
  match (imp, r) {
    (_, RVal::Unspec) => Cmp::Skipped,
    (Value::Null(_), RVal::Null) => Cmp::Same,
    (Value::Boolean(a), RVal::Bool(b)) => {
      if a == b {
        Cmp::Same
      } else {
        Cmp::Different
      }
    }
    (Value::Number(a), RVal::Num(b)) => num_matches(a, b),
    (Value::Number(a), RVal::Approx(f)) => match a.to_string().parse::<f64>() {
      Ok(x) => {
        if (x - f).abs() <= 1e-12 * f.abs().max(1.0) {
          Cmp::Same
        } else {
          Cmp::Different
        }
      }
      Err(_) => Cmp::Different,
    },
    (Value::String(a), RVal::Str(b)) => {
      if a == b {
        Cmp::Same
      } else {
        Cmp::Different
      }
    }
    (Value::List(a), RVal::List(b)) => {
      let a = a.as_vec();
      if a.len() != b.len() {
        return Cmp::Different;
      }
      let mut skipped = false;
      for (x, y) in a.iter().zip(b.iter()) {
        match compare(x, y) {
          Cmp::Different => return Cmp::Different,
          Cmp::Skipped => skipped = true,
          Cmp::Same => {}
        }
      }
      if skipped {
        Cmp::Skipped
      } else {
        Cmp::Same
      }
    }
    (Value::Context(a), RVal::Ctx(b)) => {
      if a.len() != b.len() {
        return Cmp::Different;
      }
      let mut skipped = false;
      for (k, y) in b {
        match a.get_entry(&Name::from(k.as_str())) {
          None => return Cmp::Different,
          Some(x) => match compare(x, y) {
            Cmp::Different => return Cmp::Different,
            Cmp::Skipped => skipped = true,
            Cmp::Same => {}
          },
        }
      }
      if skipped {
        Cmp::Skipped
      } else {
        Cmp::Same
      }
    }
    (Value::FunctionDefinition(..), RVal::Func(_)) => Cmp::Same,
    (Value::BuiltInFunction(_), RVal::Builtin(_)) => Cmp::Same,
    (Value::Range(a1, lc1, b1, rc1), RVal::Range(lc2, a2, b2, rc2)) => {
      if lc1 != lc2 || rc1 != rc2 {
        return Cmp::Different;
      }
      match (compare(a1, a2), compare(b1, b2)) {
        (Cmp::Same, Cmp::Same) => Cmp::Same,
        (Cmp::Different, _) | (_, Cmp::Different) => Cmp::Different,
        _ => Cmp::Skipped,
      }
    }
    (Value::UnaryLess(a), RVal::Unary(UOp::Lt, b))
    | (Value::UnaryLessOrEqual(a), RVal::Unary(UOp::Le, b))
    | (Value::UnaryGreater(a), RVal::Unary(UOp::Gt, b))
    | (Value::UnaryGreaterOrEqual(a), RVal::Unary(UOp::Ge, b)) => compare(a, b),
    _ => Cmp::Different,
  }
}

/// Short rendering of an implementation value for reports (never prints huge numbers).
pub fn show_value(v: &Value) -> String {
  let s = match v {
    Value::Null(_) => "null".to_string(),
    Value::FunctionDefinition(..) => "<function>".into(),
    other => other.to_string(),
  };
  if s.len() > 300 {
    format!("{}…({} chars)", s.chars().take(300).collect::<String>(), s.len())
  } else {
    s
  }
}

/// Full rendering of an implementation value (for comparisons of long strings); nested nulls print as `null`
/// whatever trace message they carry.
pub fn show_value_full(v: &Value) -> String {
  match v {
    Value::Null(_) => "null".to_string(),
    Value::FunctionDefinition(..) => "<function>".into(),
    Value::List(items) => format!("[{}]", items.as_vec().iter().map(show_nested).collect::<Vec<_>>().join(", ")),
    Value::Context(c) => format!("{{{}}}", c.get_entries().iter().map(|(k, x)| format!("{}: {}", k, show_nested(x))).collect::<Vec<_>>().join(", ")),
    other => other.to_string(),
  }
}

fn show_nested(v: &Value) -> String {
  match v {
    Value::FunctionDefinition(..) => "FunctionDefinition".into(),
    Value::String(s) => format!("\"{}\"", s),
    other => show_value_full(other),
  }
}

pub fn class_of_value(v: &Value) -> &'static str {
  match v {
    Value::Null(_) => "null",
    Value::Boolean(_) => "boolean",
    Value::Number(_) => "number",
    Value::String(_) => "string",
    Value::List(_) => "list",
    Value::Context(_) => "context",
    Value::FunctionDefinition(..) | Value::BuiltInFunction(_) => "function",
    Value::Range(..) => "range",
    Value::Date(_) => "date",
    Value::Time(_) => "time",
    Value::DateTime(_) => "datetime",
    Value::DaysAndTimeDuration(_) => "dtd",
    Value::YearsAndMonthsDuration(_) => "ymd",
    _ => "other",
  }
}

/// Builds an implementation scope (one context) from bindings.
pub fn scope_of(bindings: &[(String, RVal)]) -> Scope {
  let mut c = FeelContext::default();
  for (k, v) in bindings {
    if let Some(val) = v.to_value() {
      c.set_entry(&Name::from(k.as_str()), val);
    }
  }
  Scope::from(c)
}

/// A parsing scope declaring every given name token (bound to null).
pub fn parse_scope_of(names: &std::collections::BTreeSet<String>) -> Scope {
  let mut c = FeelContext::default();
  for k in names {
    c.set_entry(&Name::from(k.as_str()), Value::Null(None));
  }
  Scope::from(c)
}
