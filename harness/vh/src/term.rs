//! The harness' own expression trees (`T`), the precedence-table unparser and the expected
//! `AstNode` of a tree (DESIGN.md §4 C06). The precedence table is transcribed from the grammar
//! at the pinned commit; it is *not* read from feel.y at run time.

use dmntk_feel::{AstNode, FeelType, Name};

#[derive(Clone, Debug, PartialEq, Eq, Hash, PartialOrd, Ord)]
pub enum Op {
  Or,
  And,
  Eq,
  Nq,
  Lt,
  Le,
  Gt,
  Ge,
  In,
  Add,
  Sub,
  Mul,
  Div,
  Exp,
}

impl Op {
  pub fn sym(&self) -> &'static str {
    match self {
      Op::Or => "or",
      Op::And => "and",
      Op::Eq => "=",
      Op::Nq => "!=",
      Op::Lt => "<",
      Op::Le => "<=",
      Op::Gt => ">",
      Op::Ge => ">=",
      Op::In => "in",
      Op::Add => "+",
      Op::Sub => "-",
      Op::Mul => "*",
      Op::Div => "/",
      Op::Exp => "**",
    }
  }
  pub fn prec(&self) -> u8 {
    match self {
      Op::Or => 3,
      Op::And => 4,
      Op::Eq | Op::Nq | Op::Lt | Op::Le | Op::Gt | Op::Ge => 5,
      Op::In => 8,
      Op::Add | Op::Sub => 9,
      Op::Mul | Op::Div => 10,
      Op::Exp => 11,
    }
  }
  /// 'l' left, 'r' right, 'n' non-associative
  pub fn assoc(&self) -> char {
    match self {
      Op::Eq | Op::Nq | Op::Lt | Op::Le | Op::Gt | Op::Ge => 'n',
      Op::In => 'r',
      _ => 'l',
    }
  }
  pub fn all() -> Vec<Op> {
    vec![Op::Or, Op::And, Op::Eq, Op::Nq, Op::Lt, Op::Le, Op::Gt, Op::Ge, Op::In, Op::Add, Op::Sub, Op::Mul, Op::Div, Op::Exp]
  }
  pub fn is_word(&self) -> bool {
    matches!(self, Op::Or | Op::And | Op::In)
  }
}

pub const PREC_BETWEEN: u8 = 7;
pub const PREC_NEG: u8 = 12;
pub const PREC_INSTANCE: u8 = 13;
pub const PREC_POSTFIX: u8 = 15;
pub const PREC_PATH: u8 = 16;
pub const PREC_ATOM: u8 = 100;
pub const PREC_PREFIX: u8 = 0;

#[derive(Clone, Debug, PartialEq, Eq, Hash, PartialOrd, Ord)]
pub enum Ty {
  Any,
  Null,
  Boolean,
  Number,
  String,
  Date,
  Time,
  DateTime,
  Dtd,
  Ymd,
  List(Box<Ty>),
  Range(Box<Ty>),
  Context(Vec<(String, Ty)>),
  Function(Vec<Ty>, Box<Ty>),
}

impl Ty {
  pub fn text(&self) -> String {
    match self {
      Ty::Any => "Any".into(),
      Ty::Null => "Null".into(),
      Ty::Boolean => "boolean".into(),
      Ty::Number => "number".into(),
      Ty::String => "string".into(),
      Ty::Date => "date".into(),
      Ty::Time => "time".into(),
      Ty::DateTime => "date and time".into(),
      Ty::Dtd => "days and time duration".into(),
      Ty::Ymd => "years and months duration".into(),
      Ty::List(t) => format!("list<{}>", t.text()),
      Ty::Range(t) => format!("range<{}>", t.text()),
      Ty::Context(es) => format!("context<{}>", es.iter().map(|(n, t)| format!("{}: {}", n, t.text())).collect::<Vec<_>>().join(", ")),
      Ty::Function(ps, r) => format!("function<{}> -> {}", ps.iter().map(|t| t.text()).collect::<Vec<_>>().join(", "), r.text()),
    }
  }
  pub fn feel(&self) -> FeelType {
    match self {
      Ty::Any => FeelType::Any,
      Ty::Null => FeelType::Null,
      Ty::Boolean => FeelType::Boolean,
      Ty::Number => FeelType::Number,
      Ty::String => FeelType::String,
      Ty::Date => FeelType::Date,
      Ty::Time => FeelType::Time,
      Ty::DateTime => FeelType::DateTime,
      Ty::Dtd => FeelType::DaysAndTimeDuration,
      Ty::Ymd => FeelType::YearsAndMonthsDuration,
      Ty::List(t) => FeelType::List(Box::new(t.feel())),
      Ty::Range(t) => FeelType::Range(Box::new(t.feel())),
      Ty::Context(es) => FeelType::Context(es.iter().map(|(n, t)| (Name::from(n.as_str()), t.feel())).collect()),
      Ty::Function(ps, r) => FeelType::Function(ps.iter().map(|t| t.feel()).collect(), Box::new(r.feel())),
    }
  }
  fn ast(&self) -> AstNode {
    match self {
      Ty::List(t) => AstNode::ListType(Box::new(t.ast())),
      Ty::Range(t) => AstNode::RangeType(Box::new(t.ast())),
      Ty::Context(es) => AstNode::ContextType(
        es.iter()
          .map(|(n, t)| AstNode::ContextTypeEntry(Box::new(AstNode::ContextTypeEntryKey(Name::from(n.as_str()))), Box::new(t.ast())))
          .collect(),
      ),
      Ty::Function(ps, r) => AstNode::FunctionType(Box::new(AstNode::ParameterTypes(ps.iter().map(|t| t.ast()).collect())), Box::new(r.ast())),
      simple => AstNode::FeelType(simple.feel()),
    }
  }
}

#[derive(Clone, Debug, PartialEq, Eq, Hash, PartialOrd, Ord)]
pub enum Dom {
  Single(T),
  Range(T, T),
}

#[derive(Clone, Debug, PartialEq, Eq, Hash, PartialOrd, Ord)]
pub enum UOp {
  Lt,
  Le,
  Gt,
  Ge,
}

#[derive(Clone, Debug, PartialEq, Eq, Hash, PartialOrd, Ord)]
pub enum T {
  Num(String, String),
  Str(String),
  Bool(bool),
  Null,
  Name(String),
  At(String),
  Neg(Box<T>),
  Bin(Op, Box<T>, Box<T>),
  Between(Box<T>, Box<T>, Box<T>),
  InList(Box<T>, Vec<T>),
  If(Box<T>, Box<T>, Box<T>),
  For(Vec<(String, Dom)>, Box<T>),
  Some_(Vec<(String, T)>, Box<T>),
  Every(Vec<(String, T)>, Box<T>),
  List(Vec<T>),
  Ctx(Vec<(String, T)>),
  Path(Box<T>, String),
  Filter(Box<T>, Box<T>),
  Call(Box<T>, Vec<T>),
  CallNamed(Box<T>, Vec<(String, T)>),
  Func(Vec<(String, Option<Ty>)>, Box<T>),
  Range(bool, Box<T>, Box<T>, bool),
  Unary(UOp, Box<T>),
  InstanceOf(Box<T>, Ty),
}

pub fn num(i: i64) -> T {
  if i < 0 {
    T::Neg(Box::new(T::Num((-i).to_string(), String::new())))
  } else {
    T::Num(i.to_string(), String::new())
  }
}
pub fn st(s: &str) -> T {
  T::Str(s.to_string())
}
pub fn nm(s: &str) -> T {
  T::Name(s.to_string())
}
pub fn bin(op: Op, l: T, r: T) -> T {
  T::Bin(op, Box::new(l), Box::new(r))
}
pub fn list(v: Vec<T>) -> T {
  T::List(v)
}
pub fn ctx(v: Vec<(&str, T)>) -> T {
  T::Ctx(v.into_iter().map(|(k, t)| (k.to_string(), t)).collect())
}
pub fn call(f: &str, args: Vec<T>) -> T {
  T::Call(Box::new(nm(f)), args)
}

impl T {
  pub fn prec(&self) -> u8 {
    match self {
      T::Bin(op, _, _) => op.prec(),
      T::InList(..) => 8,
      T::Between(..) => PREC_BETWEEN,
      T::Neg(_) => PREC_NEG,
      T::InstanceOf(..) => PREC_INSTANCE,
      T::Filter(..) | T::Call(..) | T::CallNamed(..) => PREC_POSTFIX,
      T::Path(..) => PREC_PATH,
      T::If(..) | T::For(..) | T::Some_(..) | T::Every(..) | T::Func(..) => PREC_PREFIX,
      // `< x` as an operand: always parenthesised (class Unknown)
      T::Unary(..) => PREC_PREFIX,
      _ => PREC_ATOM,
    }
  }
  /// precedence of the token that follows t's leftmost operand (100: closed on the left)
  pub fn ltp(&self) -> u8 {
    match self {
      T::Bin(op, _, _) => op.prec(),
      T::InList(..) => 8,
      T::Between(..) => 6,
      T::InstanceOf(..) => PREC_INSTANCE,
      T::Filter(..) | T::Call(..) | T::CallNamed(..) => PREC_POSTFIX,
      T::Path(..) => PREC_PATH,
      _ => PREC_ATOM,
    }
  }
  /// the left operand of t together with the precedence/associativity of the token that follows it
  pub fn left_child(&self) -> Option<(&T, u8, char)> {
    match self {
      T::Bin(op, l, _) => Some((l, op.prec(), op.assoc())),
      T::InList(x, _) => Some((x, 8, 'r')),
      T::Between(x, _, _) => Some((x, 6, 'l')),
      T::InstanceOf(x, _) => Some((x, PREC_INSTANCE, 'l')),
      T::Filter(x, _) => Some((x, PREC_POSTFIX, 'l')),
      T::Call(x, _) | T::CallNamed(x, _) => Some((x, PREC_POSTFIX, 'l')),
      T::Path(x, _) => Some((x, PREC_PATH, 'l')),
      _ => None,
    }
  }
  /// weakest operator token exposed along the unparenthesised left spine of t
  pub fn lexp(&self) -> u8 {
    let mut e = self.ltp();
    if let Some((l, p, a)) = self.left_child() {
      if Unparser::class_left(l, p, a) == ParenClass::NotNeeded && !(matches!(self, T::Path(..)) && matches!(l, T::Num(..))) {
        e = e.min(l.lexp());
      }
    }
    e
  }
  /// precedence of t's grammar rule, deciding reduce-vs-shift when a token follows t (100: closed on the right)
  pub fn rp(&self) -> u8 {
    match self {
      T::Bin(op, _, _) => op.prec(),
      T::Between(..) => PREC_BETWEEN,
      T::Neg(_) => PREC_NEG,
      T::If(..) | T::For(..) | T::Some_(..) | T::Every(..) | T::Func(..) | T::Unary(..) => PREC_PREFIX,
      _ => PREC_ATOM,
    }
  }
  pub fn is_prefix(&self) -> bool {
    self.prec() == PREC_PREFIX
  }
  pub fn depth(&self) -> usize {
    let mut d = 0;
    self.for_children(&mut |c| d = d.max(c.depth()));
    d + 1
  }
  pub fn size(&self) -> usize {
    let mut d = 0;
    self.for_children(&mut |c| d += c.size());
    d + 1
  }
  pub fn for_children<'a>(&'a self, f: &mut dyn FnMut(&'a T)) {
    match self {
      T::Neg(a) | T::Path(a, _) | T::InstanceOf(a, _) | T::Unary(_, a) => f(a),
      T::Bin(_, a, b) | T::Filter(a, b) => {
        f(a);
        f(b)
      }
      T::Range(_, a, b, _) => {
        f(a);
        f(b)
      }
      T::Between(a, b, c) | T::If(a, b, c) => {
        f(a);
        f(b);
        f(c)
      }
      T::InList(a, items) => {
        f(a);
        items.iter().for_each(|i| f(i))
      }
      T::For(doms, body) => {
        for (_, d) in doms {
          match d {
            Dom::Single(a) => f(a),
            Dom::Range(a, b) => {
              f(a);
              f(b)
            }
          }
        }
        f(body)
      }
      T::Some_(doms, body) | T::Every(doms, body) => {
        doms.iter().for_each(|(_, d)| f(d));
        f(body)
      }
      T::List(items) => items.iter().for_each(|i| f(i)),
      T::Ctx(es) => es.iter().for_each(|(_, v)| f(v)),
      T::Call(c, args) => {
        f(c);
        args.iter().for_each(|i| f(i))
      }
      T::CallNamed(c, args) => {
        f(c);
        args.iter().for_each(|(_, i)| f(i))
      }
      T::Func(_, body) => f(body),
      _ => {}
    }
  }
  /// Every name token occurring in the text (free names, keys, binders, path keys, parameter names).
  pub fn name_tokens(&self, out: &mut std::collections::BTreeSet<String>) {
    match self {
      T::Name(n) => {
        out.insert(n.clone());
      }
      T::Path(_, n) => {
        out.insert(n.clone());
      }
      T::Ctx(es) => es.iter().for_each(|(k, _)| {
        out.insert(k.clone());
      }),
      T::For(doms, _) => doms.iter().for_each(|(k, _)| {
        out.insert(k.clone());
      }),
      T::Some_(doms, _) | T::Every(doms, _) => doms.iter().for_each(|(k, _)| {
        out.insert(k.clone());
      }),
      T::Func(ps, _) => ps.iter().for_each(|(k, _)| {
        out.insert(k.clone());
      }),
      T::CallNamed(_, args) => args.iter().for_each(|(k, _)| {
        out.insert(k.clone());
      }),
      _ => {}
    }
    self.for_children(&mut |c| c.name_tokens(out));
  }
}

// ------------------------------------------------------------------------------------------------
// Unparser
// ------------------------------------------------------------------------------------------------

#[derive(Clone, Debug, PartialEq)]
pub enum TokKind {
  Word,
  Sym,
  Lit,
}

#[derive(Clone, Debug)]
pub struct Tok {
  pub text: String,
  pub kind: TokKind,
  /// a space is mandatory after this token (keywords)
  pub space_after: bool,
}

#[derive(Clone, Copy, Debug, PartialEq)]
pub enum ParenClass {
  Needed,
  NotNeeded,
  Unknown,
}

#[derive(Clone, Copy, Debug, PartialEq)]
pub enum Mode {
  /// parentheses around every composite operand
  Full,
  /// only the needed (and unknown) ones
  Minimal,
  /// minimal, but the k-th Needed pair (in traversal order) is dropped
  DropNeeded(usize),
}

pub struct Unparser {
  pub toks: Vec<Tok>,
  mode: Mode,
  pub needed_count: usize,
}

fn kw(s: &str) -> Tok {
  Tok {
    text: s.into(),
    kind: TokKind::Word,
    space_after: true,
  }
}
fn word(s: &str) -> Tok {
  Tok {
    text: s.into(),
    kind: TokKind::Word,
    space_after: false,
  }
}
fn sym(s: &str) -> Tok {
  Tok {
    text: s.into(),
    kind: TokKind::Sym,
    space_after: false,
  }
}
fn lit(s: String) -> Tok {
  Tok {
    text: s,
    kind: TokKind::Lit,
    space_after: false,
  }
}

pub fn feel_string_literal(s: &str) -> String {
  let mut out = String::from("\"");
  for ch in s.chars() {
    match ch {
      '"' => out.push_str("\\\""),
      '\\' => out.push_str("\\\\"),
      '\n' => out.push_str("\\n"),
      '\r' => out.push_str("\\r"),
      '\t' => out.push_str("\\t"),
      c => out.push(c),
    }
  }
  out.push('"');
  out
}

impl Unparser {
  pub fn new(mode: Mode) -> Self {
    Unparser {
      toks: vec![],
      mode,
      needed_count: 0,
    }
  }

  fn operand(&mut self, t: &T, class: ParenClass) {
    // `< x` takes a simple value only, so a pair of parentheses around it is never *needed*; it is always written
    let class = if matches!(t, T::Unary(..)) && class == ParenClass::Needed { ParenClass::Unknown } else { class };
    let composite = t.prec() != PREC_ATOM;
    let paren = match self.mode {
      Mode::Full => composite || class != ParenClass::NotNeeded,
      Mode::Minimal => class != ParenClass::NotNeeded,
      Mode::DropNeeded(k) => match class {
        ParenClass::Needed => {
          let idx = self.needed_count;
          idx != k
        }
        ParenClass::Unknown => true,
        ParenClass::NotNeeded => false,
      },
    };
    if class == ParenClass::Needed {
      self.needed_count += 1;
    }
    if paren {
      self.toks.push(sym("("));
      self.emit(t);
      self.toks.push(sym(")"));
    } else {
      self.emit(t);
    }
  }

  /// Delimited position: no parentheses are ever required by precedence.
  fn delimited(&mut self, t: &T) {
    self.operand(t, ParenClass::NotNeeded);
  }

  /// `t` as the left operand of an operator token of precedence `p`: the parser reduces `t` before
  /// shifting the token iff the precedence of t's rule is higher (or equal and left-associative).
  pub fn class_left(t: &T, p: u8, assoc: char) -> ParenClass {
    if matches!(t, T::Unary(..)) {
      // `< x` as a left operand is always written in parentheses and the pair is never dropped
      return ParenClass::Unknown;
    }
    if t.is_prefix() {
      return ParenClass::Needed;
    }
    let tp = t.rp();
    if tp < p || (tp == p && assoc != 'l') {
      ParenClass::Needed
    } else {
      ParenClass::NotNeeded
    }
  }
  /// `t` as the right operand after an operator of precedence `p`: once t's leftmost operand is
  /// parsed, t's own operator token is shifted iff its precedence is higher (or equal and right-assoc).
  fn class_right(t: &T, p: u8, assoc: char) -> ParenClass {
    if t.is_prefix() {
      return ParenClass::Unknown;
    }
    let tp = t.lexp();
    if tp < p || (tp == p && assoc != 'r') {
      ParenClass::Needed
    } else {
      ParenClass::NotNeeded
    }
  }

  fn endpoint(&mut self, t: &T) {
    // interval end points are simple values: emitted bare
    self.emit(t);
  }

  pub fn emit(&mut self, t: &T) {
    match t {
      T::Num(a, b) => {
        if b.is_empty() {
          self.toks.push(lit(a.clone()))
        } else if a.is_empty() {
          self.toks.push(lit(format!(".{}", b)))
        } else {
          self.toks.push(lit(format!("{}.{}", a, b)))
        }
      }
      T::Str(s) => self.toks.push(lit(feel_string_literal(s))),
      T::Bool(b) => self.toks.push(word(if *b { "true" } else { "false" })),
      T::Null => self.toks.push(word("null")),
      T::Name(n) => self.toks.push(word(n)),
      T::At(s) => {
        self.toks.push(sym("@"));
        self.toks.push(lit(feel_string_literal(s)));
      }
      T::Neg(a) => {
        self.toks.push(sym("-"));
        let class = if a.is_prefix() {
          ParenClass::Unknown
        } else if a.lexp() < PREC_NEG {
          ParenClass::Needed
        } else {
          ParenClass::NotNeeded
        };
        self.operand(a, class);
      }
      T::Bin(op, l, r) => {
        let p = op.prec();
        let a = op.assoc();
        // `a in (b)`: a parenthesised right operand of `in` is fine; a parenthesised right
        // operand that is itself an InList/Range is rendered the same way.
        self.operand(l, Self::class_left(l, p, a));
        if op.is_word() {
          self.toks.push(kw(op.sym()));
        } else {
          self.toks.push(sym(op.sym()));
        }
        self.operand(r, Self::class_right(r, p, a));
      }
      T::InList(x, items) => {
        self.operand(x, Self::class_left(x, 8, 'r'));
        self.toks.push(kw("in"));
        self.toks.push(sym("("));
        for (i, it) in items.iter().enumerate() {
          if i > 0 {
            self.toks.push(sym(","));
          }
          self.delimited(it);
        }
        self.toks.push(sym(")"));
      }
      T::Between(x, lo, hi) => {
        // x: reduce happens when the rule precedence of x is above BETWEEN (6)
        let cx = if x.is_prefix() || x.rp() < 6 { ParenClass::Needed } else { ParenClass::NotNeeded };
        self.operand(x, cx);
        self.toks.push(kw("between"));
        // lo: everything up to the first `and` token; anything whose rendering contains a bare
        // `and` needs parentheses; prefix constructs are kept parenthesised (unknown)
        let clo = if lo.is_prefix() {
          ParenClass::Unknown
        } else if matches!(**lo, T::Bin(Op::And, _, _) | T::Between(..)) || contains_bare_and(lo) {
          ParenClass::Unknown
        } else {
          ParenClass::NotNeeded
        };
        self.operand(lo, clo);
        self.toks.push(kw("and"));
        let chi = if hi.is_prefix() {
          ParenClass::Unknown
        } else if hi.lexp() < PREC_BETWEEN {
          ParenClass::Needed
        } else {
          ParenClass::NotNeeded
        };
        self.operand(hi, chi);
      }
      T::If(c, a, b) => {
        self.toks.push(kw("if"));
        self.delimited(c);
        self.toks.push(kw("then"));
        self.delimited(a);
        self.toks.push(kw("else"));
        self.delimited(b);
      }
      T::For(doms, body) => {
        self.toks.push(kw("for"));
        for (i, (v, d)) in doms.iter().enumerate() {
          if i > 0 {
            self.toks.push(sym(","));
          }
          self.toks.push(word(v));
          self.toks.push(kw("in"));
          match d {
            Dom::Single(a) => self.delimited(a),
            Dom::Range(a, b) => {
              self.delimited(a);
              self.toks.push(sym(".."));
              self.delimited(b);
            }
          }
        }
        self.toks.push(kw("return"));
        self.delimited(body);
      }
      T::Some_(doms, body) | T::Every(doms, body) => {
        self.toks.push(kw(if matches!(t, T::Some_(..)) { "some" } else { "every" }));
        for (i, (v, d)) in doms.iter().enumerate() {
          if i > 0 {
            self.toks.push(sym(","));
          }
          self.toks.push(word(v));
          self.toks.push(kw("in"));
          self.delimited(d);
        }
        self.toks.push(kw("satisfies"));
        self.delimited(body);
      }
      T::List(items) => {
        self.toks.push(sym("["));
        for (i, it) in items.iter().enumerate() {
          if i > 0 {
            self.toks.push(sym(","));
          }
          self.delimited(it);
        }
        self.toks.push(sym("]"));
      }
      T::Ctx(es) => {
        self.toks.push(sym("{"));
        for (i, (k, v)) in es.iter().enumerate() {
          if i > 0 {
            self.toks.push(sym(","));
          }
          self.toks.push(word(k));
          self.toks.push(sym(":"));
          self.delimited(v);
        }
        self.toks.push(sym("}"));
      }
      T::Path(x, n) => {
        let c = if x.is_prefix() || x.rp() < PREC_PATH { ParenClass::Needed } else { ParenClass::NotNeeded };
        // a numeric literal followed by `.name` would lex as a decimal point candidate: keep it parenthesised
        let c = if matches!(**x, T::Num(..)) { ParenClass::Unknown } else { c };
        self.operand(x, c);
        self.toks.push(sym("."));
        self.toks.push(word(n));
      }
      T::Filter(x, i) => {
        let c = if x.is_prefix() || x.rp() < PREC_POSTFIX { ParenClass::Needed } else { ParenClass::NotNeeded };
        self.operand(x, c);
        self.toks.push(sym("["));
        self.delimited(i);
        self.toks.push(sym("]"));
      }
      T::Call(f, args) => {
        let c = if f.is_prefix() || f.rp() < PREC_POSTFIX { ParenClass::Needed } else { ParenClass::NotNeeded };
        self.operand(f, c);
        self.toks.push(sym("("));
        for (i, it) in args.iter().enumerate() {
          if i > 0 {
            self.toks.push(sym(","));
          }
          self.delimited(it);
        }
        self.toks.push(sym(")"));
      }
      T::CallNamed(f, args) => {
        let c = if f.is_prefix() || f.rp() < PREC_POSTFIX { ParenClass::Needed } else { ParenClass::NotNeeded };
        self.operand(f, c);
        self.toks.push(sym("("));
        for (i, (k, it)) in args.iter().enumerate() {
          if i > 0 {
            self.toks.push(sym(","));
          }
          self.toks.push(word(k));
          self.toks.push(sym(":"));
          self.delimited(it);
        }
        self.toks.push(sym(")"));
      }
      T::Func(ps, body) => {
        self.toks.push(word("function"));
        self.toks.push(sym("("));
        for (i, (p, ty)) in ps.iter().enumerate() {
          if i > 0 {
            self.toks.push(sym(","));
          }
          self.toks.push(word(p));
          if let Some(ty) = ty {
            self.toks.push(sym(":"));
            self.toks.push(word(&ty.text()));
          }
        }
        self.toks.push(sym(")"));
        self.delimited(body);
      }
      T::Range(lc, a, b, rc) => {
        self.toks.push(sym(if *lc { "[" } else { "(" }));
        self.endpoint(a);
        self.toks.push(sym(".."));
        self.endpoint(b);
        self.toks.push(sym(if *rc { "]" } else { ")" }));
      }
      T::Unary(op, a) => {
        self.toks.push(sym(match op {
          UOp::Lt => "<",
          UOp::Le => "<=",
          UOp::Gt => ">",
          UOp::Ge => ">=",
        }));
        self.endpoint(a);
      }
      T::InstanceOf(x, ty) => {
        let c = if x.is_prefix() || x.rp() < PREC_INSTANCE { ParenClass::Needed } else { ParenClass::NotNeeded };
        self.operand(x, c);
        self.toks.push(kw("instance"));
        self.toks.push(kw("of"));
        self.toks.push(word(&ty.text()));
      }
    }
  }
}

fn contains_bare_and(t: &T) -> bool {
  // any `and` token anywhere inside (even inside brackets) ends the lexer's between mode
  let mut found = matches!(t, T::Bin(Op::And, _, _) | T::Between(..));
  t.for_children(&mut |c| {
    if contains_bare_and(c) {
      found = true
    }
  });
  found
}

#[derive(Clone, Copy, Debug, PartialEq)]
pub enum Layout {
  /// single spaces between all tokens
  Spaced,
  /// no optional spaces
  Compact,
  Double,
  NewlinesTabs,
  BlockComments,
  LineComments,
  /// line comments ended by a carriage return alone and by carriage return + line feed
  LineCommentsOtherBreaks,
  /// every white space character of the FEEL grammar (rules 61, 62) in turn, also before the first and after the last token
  EveryWhiteSpace,
  /// block comments of other shapes between all tokens: closed by `**/`, consisting of stars only, empty, with a star inside
  CommentShapes,
  /// two comments in a row between all tokens (a block comment followed by a block or by a line comment)
  TwoComments,
  /// a run of 16 white space characters (blanks, a line break, a tab) between all tokens, before the first and after the last
  LongRuns,
}

/// white space characters of the FEEL grammar
pub const FEEL_WHITE_SPACE: &[char] = &[
  '\u{0009}', '\u{000A}', '\u{000B}', '\u{000C}', '\u{000D}', '\u{0020}', '\u{0085}', '\u{00A0}', '\u{1680}', '\u{180E}', '\u{2000}', '\u{2001}', '\u{2002}', '\u{2003}', '\u{2004}', '\u{2005}', '\u{2006}',
  '\u{2007}', '\u{2008}', '\u{2009}', '\u{200A}', '\u{200B}', '\u{2028}', '\u{2029}', '\u{202F}', '\u{205F}', '\u{3000}', '\u{FEFF}',
];

fn needs_space(a: &Tok, b: &Tok) -> bool {
  if a.space_after {
    return true;
  }
  // word-like tokens must not touch each other
  let wl = |t: &Tok| t.kind == TokKind::Word || (t.kind == TokKind::Lit && !t.text.starts_with('"'));
  if wl(a) && wl(b) {
    return true;
  }
  // a word followed by a string literal or vice versa: fine without spaces, but keep names apart from
  // symbols that are additional name symbols only when this would merge tokens: the lexer resets the
  // position to the end of the longest bound name, so no space is needed there.
  // numbers followed by `.`: `1.` then name would read as decimal point only when a digit follows
  if a.kind == TokKind::Lit && !a.text.starts_with('"') && b.text.starts_with('.') {
    return true;
  }
  if a.text.ends_with('.') && b.kind == TokKind::Lit && !b.text.starts_with('"') {
    return true;
  }
  // `<` `=` etc. must not fuse into two-character operators
  let fuse = |x: &str, y: &str| -> bool {
    let s = format!("{}{}", x, y);
    for two in ["..", "**", "!=", "<=", ">=", "->", "//", "/*"] {
      if s.contains(two) && !x.contains(two) && !y.contains(two) {
        return true;
      }
    }
    false
  };
  let la = a.text.chars().last().map(|c| c.to_string()).unwrap_or_default();
  let fb = b.text.chars().next().map(|c| c.to_string()).unwrap_or_default();
  if fuse(&la, &fb) {
    return true;
  }
  false
}

pub fn join(toks: &[Tok], layout: Layout) -> String {
  let mut out = String::new();
  // rotation of the white space alphabet: differs from tree to tree so that every character meets every kind of token
  let rot = toks.iter().map(|t| t.text.len()).sum::<usize>() + toks.len();
  if matches!(layout, Layout::EveryWhiteSpace) {
    out.push(FEEL_WHITE_SPACE[rot % FEEL_WHITE_SPACE.len()]);
  }
  if matches!(layout, Layout::LongRuns) {
    out.push_str("\n               ");
  }
  for (i, t) in toks.iter().enumerate() {
    if i > 0 {
      let prev = &toks[i - 1];
      match layout {
        Layout::Spaced => out.push(' '),
        Layout::Compact => {
          if needs_space(prev, t) {
            out.push(' ')
          }
        }
        Layout::Double => out.push_str("  "),
        Layout::NewlinesTabs => out.push_str(if i % 2 == 0 { "\n\t" } else { " \n" }),
        Layout::BlockComments => out.push_str(" /* c 1 + ( */ "),
        Layout::LineComments => out.push_str(" // c ) \"\n "),
        Layout::LineCommentsOtherBreaks => out.push_str(if i % 2 == 0 { " // c ) \"\r " } else { " // c ) \"\r\n " }),
        Layout::CommentShapes => {
          // `/` and `*` are name symbols too: directly after a name a comment made of name characters only continues the
          // name (the grammar is ambiguous there), so those comments contain a `(`
          let after_name = prev.text.chars().last().map(|c| c.is_alphanumeric() || c == '_' || c == '?').unwrap_or(false);
          if after_name {
            out.push_str([" /** ( doc **/ ", " /*(**/ ", " /* ( a*b */ "][i % 3])
          } else {
            out.push_str([" /** doc **/ ", " /***/ ", " /**/ ", " /* a*b */ ", " /****/ ", " /* / * */ "][i % 6])
          }
        }
        // (comments made of name characters only would continue a name that stands before them, see CommentShapes)
        Layout::TwoComments => out.push_str(if i % 2 == 0 { " /* ( a */ /* b ) */ " } else { " /* ( a */ // b )\n " }),
        Layout::LongRuns => out.push_str(if i % 2 == 0 { "             \n\t " } else { "\n               " }),
        Layout::EveryWhiteSpace => {
          // U+1680, U+180E and U+FEFF are white space by rule 61 and name characters by rule 30 at the same time: directly after a
          // name the grammar is ambiguous (the lexer continues the name), so another character is used there
          let ch = FEEL_WHITE_SPACE[(rot + i) % FEEL_WHITE_SPACE.len()];
          let after_name = prev.text.chars().last().map(|c| c.is_alphanumeric() || c == '_' || c == '?').unwrap_or(false);
          out.push(if after_name && matches!(ch, '\u{1680}' | '\u{180E}' | '\u{FEFF}') { '\u{200B}' } else { ch })
        }
      }
    }
    out.push_str(&t.text);
  }
  if matches!(layout, Layout::LongRuns) {
    out.push_str("                \n");
  }
  if matches!(layout, Layout::EveryWhiteSpace) {
    let ch = FEEL_WHITE_SPACE[(rot + toks.len()) % FEEL_WHITE_SPACE.len()];
    let after_name = toks.last().and_then(|t| t.text.chars().last()).map(|c| c.is_alphanumeric() || c == '_' || c == '?').unwrap_or(false);
    out.push(if after_name && matches!(ch, '\u{1680}' | '\u{180E}' | '\u{FEFF}') { '\u{200B}' } else { ch });
  }
  out
}

pub fn render(t: &T, mode: Mode, layout: Layout) -> String {
  let mut u = Unparser::new(mode);
  u.emit(t);
  join(&u.toks, layout)
}

/// Minimal parentheses, compact-but-readable single spaces.
pub fn text(t: &T) -> String {
  let mut u = Unparser::new(Mode::Minimal);
  u.emit(t);
  pretty(&u.toks)
}

/// Human layout: spaces around operators and after commas, none inside brackets.
pub fn pretty(toks: &[Tok]) -> String {
  let mut out = String::new();
  for (i, t) in toks.iter().enumerate() {
    if i > 0 {
      let p = &toks[i - 1];
      let no_space_before = matches!(t.text.as_str(), ")" | "]" | "}" | "," | ":" | "." | "..");
      let no_space_after_prev = matches!(p.text.as_str(), "(" | "[" | "{" | "." | ".." | "@");
      let call_paren = (t.text == "(" || t.text == "[") && (p.kind == TokKind::Word && !p.space_after || p.text == ")" || p.text == "]" || p.text == "}");
      let unary_minus = p.text == "-" && (i == 1 || { let pp = &toks[i - 2]; pp.kind == TokKind::Sym && !matches!(pp.text.as_str(), ")" | "]" | "}") || pp.space_after });
      let unary_cmp = matches!(p.text.as_str(), "<" | "<=" | ">" | ">=") && (i == 1 || { let pp = &toks[i - 2]; matches!(pp.text.as_str(), "(" | "[" | ",") || pp.space_after });
      if needs_space(p, t) || !(no_space_before || no_space_after_prev || call_paren || unary_minus || unary_cmp) {
        out.push(' ');
      }
    }
    out.push_str(&t.text);
  }
  out
}

pub fn count_needed(t: &T) -> usize {
  let mut u = Unparser::new(Mode::Minimal);
  u.emit(t);
  u.needed_count
}

// ------------------------------------------------------------------------------------------------
// Expected AstNode
// ------------------------------------------------------------------------------------------------

fn b(n: AstNode) -> Box<AstNode> {
  Box::new(n)
}

fn endpoint_ast(t: &T) -> AstNode {
  match t {
    T::Name(n) => AstNode::QualifiedName(vec![AstNode::QualifiedNameSegment(Name::from(n.as_str()))]),
    T::Path(..) => {
      // a.b.c as qualified name
      let mut segs = vec![];
      let mut cur = t;
      loop {
        match cur {
          T::Path(x, n) => {
            segs.push(n.clone());
            cur = x;
          }
          T::Name(n) => {
            segs.push(n.clone());
            break;
          }
          _ => break,
        }
      }
      segs.reverse();
      AstNode::QualifiedName(segs.iter().map(|s| AstNode::QualifiedNameSegment(Name::from(s.as_str()))).collect())
    }
    other => to_ast(other),
  }
}

pub fn to_ast(t: &T) -> AstNode {
  match t {
    T::Num(a, bb) => AstNode::Numeric(if a.is_empty() { "0".into() } else { a.clone() }, bb.clone()),
    T::Str(s) => AstNode::String(s.clone()),
    T::Bool(v) => AstNode::Boolean(*v),
    T::Null => AstNode::Null,
    T::Name(n) => AstNode::Name(Name::from(n.as_str())),
    T::At(s) => AstNode::At(s.clone()),
    T::Neg(a) => AstNode::Neg(b(to_ast(a))),
    T::Bin(op, l, r) => {
      let (l, r) = (b(to_ast(l)), b(to_ast(r)));
      match op {
        Op::Or => AstNode::Or(l, r),
        Op::And => AstNode::And(l, r),
        Op::Eq => AstNode::Eq(l, r),
        Op::Nq => AstNode::Nq(l, r),
        Op::Lt => AstNode::Lt(l, r),
        Op::Le => AstNode::Le(l, r),
        Op::Gt => AstNode::Gt(l, r),
        Op::Ge => AstNode::Ge(l, r),
        Op::In => AstNode::In(l, r),
        Op::Add => AstNode::Add(l, r),
        Op::Sub => AstNode::Sub(l, r),
        Op::Mul => AstNode::Mul(l, r),
        Op::Div => AstNode::Div(l, r),
        Op::Exp => AstNode::Exp(l, r),
      }
    }
    T::Between(x, lo, hi) => AstNode::Between(b(to_ast(x)), b(to_ast(lo)), b(to_ast(hi))),
    T::InList(x, items) => AstNode::In(b(to_ast(x)), b(AstNode::ExpressionList(items.iter().map(to_ast).collect()))),
    T::If(c, a, e) => AstNode::If(b(to_ast(c)), b(to_ast(a)), b(to_ast(e))),
    T::For(doms, body) => AstNode::For(
      b(AstNode::IterationContexts(
        doms
          .iter()
          .map(|(v, d)| match d {
            Dom::Single(a) => AstNode::IterationContextSingle(b(AstNode::Name(Name::from(v.as_str()))), b(to_ast(a))),
            Dom::Range(s, e) => AstNode::IterationContextRange(b(AstNode::Name(Name::from(v.as_str()))), b(to_ast(s)), b(to_ast(e))),
          })
          .collect(),
      )),
      b(AstNode::EvaluatedExpression(b(to_ast(body)))),
    ),
    T::Some_(doms, body) | T::Every(doms, body) => {
      let q = b(AstNode::QuantifiedContexts(
        doms
          .iter()
          .map(|(v, d)| AstNode::QuantifiedContext(b(AstNode::Name(Name::from(v.as_str()))), b(to_ast(d))))
          .collect(),
      ));
      let s = b(AstNode::Satisfies(b(to_ast(body))));
      if matches!(t, T::Some_(..)) {
        AstNode::Some(q, s)
      } else {
        AstNode::Every(q, s)
      }
    }
    T::List(items) => AstNode::List(items.iter().map(to_ast).collect()),
    T::Ctx(es) => AstNode::Context(
      es.iter()
        .map(|(k, v)| AstNode::ContextEntry(b(AstNode::ContextEntryKey(Name::from(k.as_str()))), b(to_ast(v))))
        .collect(),
    ),
    T::Path(x, n) => AstNode::Path(b(to_ast(x)), b(AstNode::Name(Name::from(n.as_str())))),
    T::Filter(x, i) => AstNode::Filter(b(to_ast(x)), b(to_ast(i))),
    T::Call(f, args) => AstNode::FunctionInvocation(b(to_ast(f)), b(AstNode::PositionalParameters(args.iter().map(to_ast).collect()))),
    T::CallNamed(f, args) => AstNode::FunctionInvocation(
      b(to_ast(f)),
      b(AstNode::NamedParameters(
        args
          .iter()
          .map(|(k, v)| AstNode::NamedParameter(b(AstNode::ParameterName(Name::from(k.as_str()))), b(to_ast(v))))
          .collect(),
      )),
    ),
    T::Func(ps, body) => AstNode::FunctionDefinition(
      b(AstNode::FormalParameters(
        ps.iter()
          .map(|(p, ty)| {
            AstNode::FormalParameter(
              b(AstNode::ParameterName(Name::from(p.as_str()))),
              b(match ty {
                None => AstNode::FeelType(FeelType::Any),
                Some(ty) => ty.ast(),
              }),
            )
          })
          .collect(),
      )),
      b(AstNode::FunctionBody(b(to_ast(body)), false)),
    ),
    T::Range(lc, a, bb, rc) => AstNode::Range(b(AstNode::IntervalStart(b(endpoint_ast(a)), *lc)), b(AstNode::IntervalEnd(b(endpoint_ast(bb)), *rc))),
    T::Unary(op, a) => {
      let e = b(endpoint_ast(a));
      match op {
        UOp::Lt => AstNode::UnaryLt(e),
        UOp::Le => AstNode::UnaryLe(e),
        UOp::Gt => AstNode::UnaryGt(e),
        UOp::Ge => AstNode::UnaryGe(e),
      }
    }
    T::InstanceOf(x, ty) => AstNode::InstanceOf(b(to_ast(x)), b(ty.ast())),
  }
}
