//! `vh replay <file>`: re-executes exactly one recorded case, twice, without the enumerator.

use crate::rval::*;
use dmntk_feel::values::Value;
use serde_json::Value as J;

pub fn value_to_rval(v: &Value) -> RVal {
  match v {
    Value::Null(_) => RVal::Null,
    Value::Boolean(b) => RVal::Bool(*b),
    Value::Number(n) => Rat::parse(&n.to_string()).map(RVal::Num).unwrap_or(RVal::Unspec),
    Value::String(s) => RVal::Str(s.clone()),
    Value::List(items) => RVal::List(items.as_vec().iter().map(value_to_rval).collect()),
    Value::Context(c) => RVal::Ctx(c.get_entries().iter().map(|(k, v)| (k.to_string(), value_to_rval(v))).collect()),
    _ => RVal::Unspec,
  }
}

/// Bindings recorded as [{"name":..,"value":"<FEEL text>"}]
pub fn bindings_from_json(j: &J) -> Vec<(String, RVal)> {
  let mut out = vec![];
  if let Some(items) = j.as_array() {
    for it in items {
      let name = it.get("name").and_then(|n| n.as_str()).unwrap_or("").to_string();
      let text = it.get("value").and_then(|n| n.as_str()).unwrap_or("null");
      let scope = dmntk_feel::Scope::default();
      let v = dmntk_feel_parser::parse_expression(&scope, text, false)
        .ok()
        .and_then(|n| dmntk_feel_evaluator::evaluate(&scope, &n).ok())
        .unwrap_or(Value::Null(None));
      out.push((name, value_to_rval(&v)));
    }
  }
  out
}

pub fn run(path: &str) -> ! {
  let text = match std::fs::read_to_string(path) {
    Ok(t) => t,
    Err(e) => {
      eprintln!("MACHINERY: cannot read {}: {}", path, e);
      std::process::exit(2)
    }
  };
  let doc: J = match serde_json::from_str(&text) {
    Ok(d) => d,
    Err(e) => {
      eprintln!("MACHINERY: {} is not JSON: {}", path, e);
      std::process::exit(2)
    }
  };
  let case = doc.get("case").cloned().unwrap_or(J::Null);
  let engine = case.get("engine").and_then(|e| e.as_str()).unwrap_or("");
  let prop = doc.get("property").and_then(|e| e.as_str()).unwrap_or("?");
  let once = || -> String {
    match engine {
      "c14" if case.get("literal").is_some() => crate::engines::c14::replay_case(&case),
      "c15" if case.get("what").is_some() => crate::engines::c15::replay_case(&case),
      "c09" if case.get("law").is_some() => crate::engines::c09::replay_case(&case),
      "c10" if case.get("bound_literals").is_some() => crate::engines::c10::replay_case(&case),
      "c13" if case.get("kind").and_then(|k| k.as_str()) == Some("history") => crate::engines::c13::replay_history(&case),
      "c13" if case.get("kind").and_then(|k| k.as_str()) == Some("function-value") => crate::engines::c13::replay_function_value(&case),
      // type relations are not re-evaluated case by case: the replay of a C16 case is the whole (one second) check
      "c16" => {
        std::env::set_var("VERIF_TIER", "quick");
        crate::engines::c16::run();
        String::new()
      }
      "c01" | "c13" | "c09" | "c10" | "c08" | "c14" | "c15" => crate::engines::c01::replay_case(&case),
      "c06" => crate::engines::c06::replay_case(&case),
      "c02" => crate::engines::c02::replay_case(&case),
      "c03" => crate::engines::c03::replay_case(&case),
      "c05" => crate::engines::c05::replay_case(&case),
      "c07" => crate::engines::c07::replay_case(&case),
      "dmn" => replay_dmn(&case),
      "c20" => crate::engines::c20::replay_case(&case),
      "c18" => crate::engines::c18::replay_case(&case),
      "c17" => crate::engines::c17::replay_case(&case),
      "c19" => crate::engines::c19::replay_case(&case),
      "c12" => crate::engines::c12::replay_case(&case),
      other => format!("MACHINERY no replay handler for engine `{}`; the case is: {}", other, case),
    }
  };
  let a = once();
  let b = once();
  if a != b {
    eprintln!("MACHINERY: replay diverged between two executions:\n  {}\n  {}", a, b);
    std::process::exit(2);
  }
  println!("REPLAY property={} key={}", prop, doc.get("key").and_then(|k| k.as_str()).unwrap_or(""));
  println!("{}", a);
  if a.starts_with("MACHINERY") {
    std::process::exit(2);
  }
  let failing = a.starts_with("FAIL");
  if failing {
    println!("VIOLATION property={} replay={}", prop, path);
  }
  std::process::exit(if failing { 1 } else { 0 });
}

/// A recorded model evaluation: {"xml":…, "invocable":…, "ctx":[[name, string value]…] or FEEL context text, "expected": rendering}
fn replay_dmn(case: &J) -> String {
  use dmntk_feel::context::FeelContext;
  let xml = case.get("xml").and_then(|x| x.as_str()).unwrap_or("");
  let invocable = case.get("invocable").and_then(|x| x.as_str()).unwrap_or("");
  let expected = case.get("expected").and_then(|x| x.as_str()).unwrap_or("");
  let defs = match dmntk_model::parse(xml) {
    Ok(d) => d,
    Err(e) => return format!("FAIL model does not parse: {}", e),
  };
  let me = match dmntk_model_evaluator::ModelEvaluator::new(&defs) {
    Ok(d) => d,
    Err(e) => return format!("FAIL model does not build: {}", e),
  };
  if invocable.is_empty() {
    return "PASS model loads".into();
  }
  let mut ctx = FeelContext::default();
  match case.get("ctx") {
    Some(J::Array(pairs)) => {
      for p in pairs {
        let k = p.get(0).and_then(|x| x.as_str()).unwrap_or("");
        let v = p.get(1).and_then(|x| x.as_str()).unwrap_or("");
        ctx.set_entry(&dmntk_feel::Name::from(k), Value::String(v.to_string()));
      }
    }
    Some(J::String(text)) => {
      let scope = dmntk_feel::Scope::default();
      match dmntk_feel_parser::parse_context(&scope, text, false).ok().and_then(|n| dmntk_feel_evaluator::evaluate(&scope, &n).ok()) {
        Some(Value::Context(c)) => ctx = c,
        _ => return format!("MACHINERY input context does not evaluate: {}", text),
      }
    }
    _ => {}
  }
  let got = show_value_full(&me.evaluate_invocable(invocable, &ctx));
  if got == expected {
    format!("PASS `{}` gives {}", invocable, got)
  } else {
    format!("FAIL `{}` gives {} but {} is prescribed", invocable, got, expected)
  }
}
