//! Crash isolation (DESIGN.md §2.3): a parent process drives worker children; each child announces the
//! index of the case it is about to run in a memory-mapped progress file (no system call per case),
//! runs it under `catch_unwind`, and appends caught panics to a result file. A child that dies or stops
//! making progress is attributed to its last announced case and restarted behind it.

use serde_json::{json, Value as J};
use std::io::Write;
use std::process::{Child, Command, Stdio};
use std::time::{Duration, Instant};

pub struct Progress {
  ptr: *mut u64,
}

unsafe impl Send for Progress {}

impl Progress {
  pub fn open(path: &str) -> Progress {
    use std::os::unix::io::AsRawFd;
    let f = std::fs::OpenOptions::new().read(true).write(true).create(true).open(path).expect("progress file");
    f.set_len(16).expect("set_len");
    let p = unsafe { libc::mmap(std::ptr::null_mut(), 16, libc::PROT_READ | libc::PROT_WRITE, libc::MAP_SHARED, f.as_raw_fd(), 0) };
    assert!(p != libc::MAP_FAILED, "mmap failed");
    Progress { ptr: p as *mut u64 }
  }
  #[inline]
  pub fn set(&self, idx: u64) {
    unsafe { std::ptr::write_volatile(self.ptr, idx) }
  }
  pub fn get(&self) -> u64 {
    unsafe { std::ptr::read_volatile(self.ptr) }
  }
  /// number of cases this worker process has completed (second word of the file)
  #[inline]
  pub fn set_done(&self, n: u64) {
    unsafe { std::ptr::write_volatile(self.ptr.add(1), n) }
  }
  pub fn get_done(&self) -> u64 {
    unsafe { std::ptr::read_volatile(self.ptr.add(1)) }
  }
}

/// Limits the address space of the calling (child) process so that a runaway allocation becomes an
/// observed abort of one case.
pub fn limit_address_space(bytes: u64) {
  unsafe {
    let lim = libc::rlimit { rlim_cur: bytes, rlim_max: bytes };
    libc::setrlimit(libc::RLIMIT_AS, &lim);
  }
}

pub fn silence_panics() {
  std::panic::set_hook(Box::new(|_| {}));
}

/// Runs one case in the child: announce, run under catch_unwind, report a panic.
pub fn run_case(progress: &Progress, results: &mut std::fs::File, idx: u64, describe: &dyn Fn() -> J, f: &mut dyn FnMut()) {
  progress.set(idx);
  let r = std::panic::catch_unwind(std::panic::AssertUnwindSafe(|| f()));
  if let Err(e) = r {
    let msg = if let Some(s) = e.downcast_ref::<String>() {
      s.clone()
    } else if let Some(s) = e.downcast_ref::<&str>() {
      s.to_string()
    } else {
      "panic".to_string()
    };
    let line = json!({"kind":"panic","idx":idx,"message":msg.chars().take(300).collect::<String>(),"case":describe()});
    let _ = writeln!(results, "{}", line);
    let _ = results.flush();
  }
}

pub struct WorkerSpec {
  pub exe: String,
  pub args: Vec<String>,
  pub shard: u64,
}

pub struct Outcome {
  pub kind: String, // "panic" | "death" | "hang"
  pub idx: u64,
  pub detail: String,
  pub case: J,
}

/// Processor time (user + system, seconds) consumed so far by process `pid`, from /proc/<pid>/stat.
fn cpu_seconds(pid: u32) -> Option<f64> {
  let stat = std::fs::read_to_string(format!("/proc/{}/stat", pid)).ok()?;
  // the fields after the parenthesised command name: state is the first, utime the 12th, stime the 13th
  let rest = &stat[stat.rfind(')')? + 1..];
  let fields: Vec<&str> = rest.split_whitespace().collect();
  let utime: f64 = fields.get(11)?.parse().ok()?;
  let stime: f64 = fields.get(12)?.parse().ok()?;
  Some((utime + stime) / 100.0)
}

/// Drives `nshards` children over `total` cases; returns the abnormal outcomes and the number of cases completed.
/// The child command line is `exe <args...> <shard> <nshards> <start> <progress> <results>`.
pub fn drive(exe: &str, args: &[String], nshards: u64, total: u64, stall: Duration, tag: &str) -> (Vec<Outcome>, u64, Vec<String>) {
  let dir_s = format!("{}/target/isolate", crate::report::root());
  let dir = dir_s.as_str();
  let _ = std::fs::create_dir_all(dir);
  struct Slot {
    child: Child,
    progress: Progress,
    last_idx: u64,
    last_change: Instant,
    /// processor time the child had consumed when it last announced a case
    last_cpu: f64,
    results: String,
    shard: u64,
    restarts: u32,
  }
  let mut outcomes: Vec<Outcome> = vec![];
  let mut machinery: Vec<String> = vec![];
  // cases completed by workers that died or were killed (their own count never reaches the result file)
  let mut done_by_dead = 0u64;
  let spawn = |shard: u64, start: u64, restarts: u32| -> Slot {
    let ppath = format!("{}/{}_{}.progress", dir, tag, shard);
    let rpath = format!("{}/{}_{}_{}.results", dir, tag, shard, restarts);
    let _ = std::fs::remove_file(&rpath);
    let progress = Progress::open(&ppath);
    progress.set(u64::MAX);
    progress.set_done(0);
    let child = Command::new(exe)
      .args(args)
      .arg(shard.to_string())
      .arg(nshards.to_string())
      .arg(start.to_string())
      .arg(&ppath)
      .arg(&rpath)
      .env("TZ", "UTC")
      .stdout(Stdio::null())
      .stderr(Stdio::null())
      .spawn()
      .expect("spawn worker");
    Slot {
      child,
      progress,
      last_idx: u64::MAX,
      last_change: Instant::now(),
      last_cpu: 0.0,
      results: rpath,
      shard,
      restarts,
    }
  };
  let mut slots: Vec<Option<Slot>> = (0..nshards).map(|s| Some(spawn(s, 0, 0))).collect();
  let mut result_files: Vec<String> = slots.iter().flatten().map(|s| s.results.clone()).collect();
  let _ = total;
  loop {
    let mut alive = 0;
    for i in 0..slots.len() {
      let mut replace: Option<Option<Slot>> = None;
      if let Some(slot) = slots[i].as_mut() {
        match slot.child.try_wait() {
          Ok(Some(status)) => {
            if status.success() {
              replace = Some(None);
            } else {
              let idx = slot.progress.get();
              if idx == u64::MAX {
                machinery.push(format!("worker {} shard {} died before its first case: {:?}", tag, slot.shard, status));
                replace = Some(None);
              } else {
                use std::os::unix::process::ExitStatusExt;
                let detail = match status.signal() {
                  Some(sig) => format!("killed by signal {}", sig),
                  None => format!("exit status {:?}", status.code()),
                };
                outcomes.push(Outcome { kind: "death".into(), idx, detail, case: J::Null });
                done_by_dead += slot.progress.get_done() + 1;
                if slot.restarts > 200 {
                  machinery.push(format!("worker {} shard {} restarted more than 200 times", tag, slot.shard));
                  replace = Some(None);
                } else {
                  let s = spawn(slot.shard, idx + 1, slot.restarts + 1);
                  result_files.push(s.results.clone());
                  replace = Some(Some(s));
                }
              }
            }
          }
          Ok(None) => {
            alive += 1;
            let idx = slot.progress.get();
            // a case is a hang when the worker has spent the stall limit of *processor* time on it (a loaded machine does
            // not make a slow case a hang), or ten times the limit of wall time (a worker that sleeps forever)
            let cpu = cpu_seconds(slot.child.id()).unwrap_or(0.0);
            let stalled = if cpu > 0.0 { cpu - slot.last_cpu > stall.as_secs_f64() || slot.last_change.elapsed() > stall * 10 } else { slot.last_change.elapsed() > stall };
            if idx != slot.last_idx {
              slot.last_idx = idx;
              slot.last_change = Instant::now();
              slot.last_cpu = cpu;
            } else if stalled && idx != u64::MAX {
              let _ = slot.child.kill();
              let _ = slot.child.wait();
              outcomes.push(Outcome { kind: "hang".into(), idx, detail: format!("no progress for {:?}", stall), case: J::Null });
              done_by_dead += slot.progress.get_done() + 1;
              let s = spawn(slot.shard, idx + 1, slot.restarts + 1);
              result_files.push(s.results.clone());
              replace = Some(Some(s));
            } else if slot.last_change.elapsed() > stall * 30 {
              let _ = slot.child.kill();
              let _ = slot.child.wait();
              machinery.push(format!("worker {} shard {} never announced a case", tag, slot.shard));
              replace = Some(None);
            }
          }
          Err(e) => {
            machinery.push(format!("wait failed: {}", e));
            replace = Some(None);
          }
        }
      }
      if let Some(r) = replace {
        slots[i] = r;
      }
    }
    if alive == 0 && slots.iter().all(|s| s.is_none()) {
      break;
    }
    std::thread::sleep(Duration::from_millis(20));
  }
  // collect results
  let mut done = done_by_dead;
  for rp in &result_files {
    if let Ok(text) = std::fs::read_to_string(rp) {
      for line in text.lines() {
        if let Ok(j) = serde_json::from_str::<J>(line) {
          match j.get("kind").and_then(|k| k.as_str()) {
            Some("panic") => outcomes.push(Outcome {
              kind: "panic".into(),
              idx: j.get("idx").and_then(|i| i.as_u64()).unwrap_or(0),
              detail: j.get("message").and_then(|m| m.as_str()).unwrap_or("").to_string(),
              case: j.get("case").cloned().unwrap_or(J::Null),
            }),
            Some("done") => done += j.get("count").and_then(|c| c.as_u64()).unwrap_or(0),
            Some("note") => {}
            _ => {}
          }
        }
      }
    }
    let _ = std::fs::remove_file(rp);
  }
  (outcomes, done, machinery)
}
