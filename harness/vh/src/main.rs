fn main() {
  // every engine is deterministic under TZ=UTC; refuse to run otherwise
  if std::env::var("TZ").map(|v| v != "UTC").unwrap_or(true) {
    eprintln!("MACHINERY: engines must be started with TZ=UTC (use bin/vcheck)");
    std::process::exit(2);
  }
  let args: Vec<String> = std::env::args().collect();
  let which = args.get(1).map(|s| s.as_str()).unwrap_or("");
  match which {
    "replay" => vh::replay::run(&args[2]),
    "c01" => vh::engines::c01::run(),
    "c02gen" => vh::engines::c02::generate(),
    "c02report" => vh::engines::c02::report(),
    "c03" => vh::engines::c03::run(),
    "c04" => vh::engines::c04::run(),
    "c05" => vh::engines::c05::run(),
    "c05worker" => vh::engines::c05::worker(&args[2..]),
    "c06" => vh::engines::c06::run(),
    "c07" => vh::engines::c07::run(),
    "c08" => vh::engines::c08::run(),
    "c09" => vh::engines::c09::run(),
    "c10" => vh::engines::c10::run(),
    "c11" => vh::engines::c11::run(),
    "c12dump" => {
      // debug helper: prints the generated models of the C12 corpus
      for (k, x) in vh::engines::c04::sample_models().into_iter().chain(vh::engines::c11::sample_models()).enumerate() {
        println!("=== generated model {}\n{}", k, x);
      }
    }
    "c12" => vh::engines::c12::run(),
    "c12worker" => vh::engines::c12::worker(&args[2..]),
    "c13" => vh::engines::c13::run(),
    "c13op" => vh::engines::c13::print_history_operation(args[2].parse().expect("operation number")),
    "c17" => vh::engines::c17::run(),
    "c18" => vh::engines::c18::run(),
    "c18server" => vh::engines::c18::serve(&args[2..]),
    "c19" => vh::engines::c19::run(),
    "c20" => vh::engines::c20::run(),
    "c19worker" => vh::engines::c19::worker(&args[2..]),
    "c14" => vh::engines::c14::run(),
    "c15" => vh::engines::c15::run(),
    "c16" => vh::engines::c16::run(),
    "c12model" => {
      // debug helper: prints the generated models of C12 whose label contains the argument
      for (l, x) in vh::engines::c12::generated_models_for_debug() {
        if l.contains(&args[2]) {
          println!("{}", x);
        }
      }
    }
    "feel" => {
      // debug helper: vh feel "<text>" ["<feel context>"]: the text parsed as an expression (and evaluated) and as unary tests
      let scope = match args.get(3) {
        Some(c) => dmntk_feel::Scope::from(dmntk_feel_evaluator::evaluate_context(&dmntk_feel::Scope::default(), c).unwrap_or_else(|e| panic!("context: {}", e))),
        None => dmntk_feel::Scope::default(),
      };
      match dmntk_feel_parser::parse_expression(&scope, &args[2], false) {
        Ok(n) => println!("expression: {:?}\nvalue: {:?}", n, dmntk_feel_evaluator::evaluate(&scope, &n).map(|v| v.to_string())),
        Err(e) => println!("expression: ERR {}", e),
      }
      match dmntk_feel_parser::parse_unary_tests(&scope, &args[2], false) {
        Ok(n) => println!("unary tests: {:?}", n),
        Err(e) => println!("unary tests: ERR {}", e),
      }
    }
    "dmn" => {
      // debug helper: vh dmn <file.dmn> <invocable> "<feel context>"
      let xml = std::fs::read_to_string(&args[2]).unwrap();
      let defs = dmntk_model::parse(&xml).unwrap_or_else(|e| panic!("parse: {}", e));
      let me = dmntk_model_evaluator::ModelEvaluator::new(&defs).unwrap_or_else(|e| panic!("build: {}", e));
      let ctx = dmntk_feel_evaluator::evaluate_context(&dmntk_feel::Scope::default(), &args[4]).unwrap();
      println!("{}", me.evaluate_invocable(&args[3], &ctx));
    }
    "draw" => {
      // debug helper: vh draw <rows|cols> <ni> <no> <na> <nr> <flags: n=name v=values l=label w=wide m=merged-hp>
      use vh::drawing::*;
      let rows = args[2] == "rows";
      let (ni, no, na, nr): (usize, usize, usize, usize) = (args[3].parse().unwrap(), args[4].parse().unwrap(), args[5].parse().unwrap(), args[6].parse().unwrap());
      let flags = args.get(7).cloned().unwrap_or_default();
      let l = |s: &str| vec![s.to_string()];
      let t = SrcTable {
        name: if flags.contains('n') { Some("Item name".into()) } else { None },
        hit_policy: "C+".into(),
        rules_as_rows: rows,
        inputs: (0..ni).map(|k| (l(&format!("In{}", k)), if flags.contains('v') { Some(l("<5,>=5")) } else { None })).collect(),
        output_label: if flags.contains('l') || no == 1 { Some(l("Label")) } else { None },
        outputs: (0..no).map(|k| (if no > 1 { l(&format!("Out{}", k)) } else { vec![] }, if flags.contains('v') { Some(l("1,2")) } else { None })).collect(),
        annotations: (0..na).map(|k| l(&format!("Ann{}", k))).collect(),
        rules: (0..nr).map(|r| ((0..ni).map(|_| l("<5")).collect(), (0..no).map(|_| l(&format!("{}", r))).collect(), (0..na).map(|_| l("note")).collect())).collect(),
      };
      let style = Style { wide_first_data_column: flags.contains('w'), wide_all: false, name_box: if flags.contains('2') { 2 } else if flags.contains('1') { 1 } else { 0 }, merged_hit_policy_cell: flags.contains('m') , merge_equal_entries: flags.contains('g') };
      match render(&t, &style) {
        Ok(text) => {
          println!("{}", text);
          match dmntk_recognizer::build(&text) {
            Ok(dt) => println!("{:?}", dt),
            Err(e) => println!("ERR {}", e),
          }
        }
        Err(e) => println!("RENDER ERR {}", e),
      }
    }
    "parse" => {
      // debug helper: vh parse "<names,comma separated>" "<text>"
      let names: std::collections::BTreeSet<String> = args[2].split(',').filter(|s| !s.is_empty()).map(|s| s.to_string()).collect();
      let scope = vh::rval::parse_scope_of(&names);
      match dmntk_feel_parser::parse_expression(&scope, &args[3], false) {
        Ok(node) => {
          println!("{:?}", node);
          let escope = dmntk_feel::Scope::default();
          println!("=> {:?}", dmntk_feel_evaluator::evaluate(&escope, &node).map(|v| vh::rval::show_value(&v)));
        }
        Err(e) => println!("ERR {}", e),
      }
    }
    _ => {
      eprintln!("usage: vh <engine> <quick|thorough>");
      std::process::exit(2);
    }
  }
}
