fn main() {
  // every engine is deterministic under TZ=UTC; refuse to run otherwise
  if std::env::var("TZ").map(|v| v != "UTC").unwrap_or(true) {
    eprintln!("MACHINERY: engines must be started with TZ=UTC (use bin/vcheck)");
    std::process::exit(2);
  }
  let args: Vec<String> = std::env::args().collect();
  let which = args.get(1).map(|s| s.as_str()).unwrap_or("");
  match which {
    "replay" => vh::replay::run(&args[2]),
    "c01" => vh::engines::c01::run(),
    "c02gen" => vh::engines::c02::generate(),
    "c02report" => vh::engines::c02::report(),
    "c03" => vh::engines::c03::run(),
    "c04" => vh::engines::c04::run(),
    "c05" => vh::engines::c05::run(),
    "c05worker" => vh::engines::c05::worker(&args[2..]),
    "c06" => vh::engines::c06::run(),
    "c07" => vh::engines::c07::run(),
    "c08" => vh::engines::c08::run(),
    "c09" => vh::engines::c09::run(),
    "c10" => vh::engines::c10::run(),
    "c11" => vh::engines::c11::run(),
    "c12" => vh::engines::c12::run(),
    "c12worker" => vh::engines::c12::worker(&args[2..]),
    "c13" => vh::engines::c13::run(),
    "c14" => vh::engines::c14::run(),
    "c15" => vh::engines::c15::run(),
    "c16" => vh::engines::c16::run(),
    "dmn" => {
      // debug helper: vh dmn <file.dmn> <invocable> "<feel context>"
      let xml = std::fs::read_to_string(&args[2]).unwrap();
      let defs = dmntk_model::parse(&xml).unwrap_or_else(|e| panic!("parse: {}", e));
      let me = dmntk_model_evaluator::ModelEvaluator::new(&defs).unwrap_or_else(|e| panic!("build: {}", e));
      let ctx = dmntk_feel_evaluator::evaluate_context(&dmntk_feel::Scope::default(), &args[4]).unwrap();
      println!("{}", me.evaluate_invocable(&args[3], &ctx));
    }
    "parse" => {
      // debug helper: vh parse "<names,comma separated>" "<text>"
      let names: std::collections::BTreeSet<String> = args[2].split(',').filter(|s| !s.is_empty()).map(|s| s.to_string()).collect();
      let scope = vh::rval::parse_scope_of(&names);
      match dmntk_feel_parser::parse_expression(&scope, &args[3], false) {
        Ok(node) => {
          println!("{:?}", node);
          let escope = dmntk_feel::Scope::default();
          println!("=> {:?}", dmntk_feel_evaluator::evaluate(&escope, &node).map(|v| vh::rval::show_value(&v)));
        }
        Err(e) => println!("ERR {}", e),
      }
    }
    _ => {
      eprintln!("usage: vh <engine> <quick|thorough>");
      std::process::exit(2);
    }
  }
}
