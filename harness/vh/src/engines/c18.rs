//! C18: the HTTP service always answers well-formed JSON reflecting the workspace.
//!
//! The real `dmntk_server::start_server` runs in child processes of the harness on loopback ports; requests
//! are raw HTTP/1.1 over `TcpStream`; every response body is parsed with a strict RFC 8259 parser written
//! here (independent of serde). Three exhaustive families:
//!   render   - an echo knowledge model returns every value of a generated alphabet (strings with quotes,
//!              backslashes, control and non-ASCII characters alone / doubled / at each position / in every
//!              ordered pair, numbers, booleans, null, lists and contexts to depth 3, awkward context keys)
//!              through /evaluate (FEEL context body) and /tck/evaluate (typed values): `data` must decode to
//!              the value, typed values must round-trip;
//!   protocol - every request sequence up to a depth over definitions operations on a model alphabet, against
//!              a real in-process `Workspace` driven by the same operations (C17 checks that one);
//!   faults   - every malformed request inserted at every position of every short protocol sequence: it must
//!              be answered with well-formed JSON carrying `errors`, and the requests after it exactly as predicted.

use crate::report::Run;
use dmntk_feel::context::FeelContext;
use dmntk_workspace::Workspace;
use rayon::prelude::*;
use serde_json::json;
use std::io::{Read, Write};
use std::net::{TcpListener, TcpStream};
use std::process::{Child, Command, Stdio};
use std::sync::atomic::{AtomicU64, Ordering};
use std::sync::Mutex;
use std::time::{Duration, Instant};

// ---------------------------------------------------------------- strict JSON

#[derive(Clone, Debug, PartialEq)]
pub enum Js {
  Null,
  Bool(bool),
  /// raw number text
  Num(String),
  Str(String),
  Arr(Vec<Js>),
  Obj(Vec<(String, Js)>),
}

struct P<'a> {
  b: &'a [u8],
  i: usize,
}

impl<'a> P<'a> {
  fn ws(&mut self) {
    while self.i < self.b.len() && matches!(self.b[self.i], b' ' | b'\t' | b'\n' | b'\r') {
      self.i += 1;
    }
  }
  fn value(&mut self, depth: usize) -> Result<Js, String> {
    if depth > 200 {
      return Err("nesting too deep".into());
    }
    self.ws();
    if self.i >= self.b.len() {
      return Err("unexpected end".into());
    }
    match self.b[self.i] {
      b'n' => self.lit("null", Js::Null),
      b't' => self.lit("true", Js::Bool(true)),
      b'f' => self.lit("false", Js::Bool(false)),
      b'"' => Ok(Js::Str(self.string()?)),
      b'[' => {
        self.i += 1;
        let mut v = vec![];
        self.ws();
        if self.i < self.b.len() && self.b[self.i] == b']' {
          self.i += 1;
          return Ok(Js::Arr(v));
        }
        loop {
          v.push(self.value(depth + 1)?);
          self.ws();
          match self.b.get(self.i) {
            Some(b',') => self.i += 1,
            Some(b']') => {
              self.i += 1;
              return Ok(Js::Arr(v));
            }
            _ => return Err(format!("expected , or ] at byte {}", self.i)),
          }
        }
      }
      b'{' => {
        self.i += 1;
        let mut v: Vec<(String, Js)> = vec![];
        self.ws();
        if self.i < self.b.len() && self.b[self.i] == b'}' {
          self.i += 1;
          return Ok(Js::Obj(v));
        }
        loop {
          self.ws();
          if self.b.get(self.i) != Some(&b'"') {
            return Err(format!("expected a member name at byte {}", self.i));
          }
          let k = self.string()?;
          self.ws();
          if self.b.get(self.i) != Some(&b':') {
            return Err(format!("expected : at byte {}", self.i));
          }
          self.i += 1;
          let val = self.value(depth + 1)?;
          if v.iter().any(|(x, _)| *x == k) {
            return Err(format!("duplicate member name {:?}", k));
          }
          v.push((k, val));
          self.ws();
          match self.b.get(self.i) {
            Some(b',') => self.i += 1,
            Some(b'}') => {
              self.i += 1;
              return Ok(Js::Obj(v));
            }
            _ => return Err(format!("expected , or }} at byte {}", self.i)),
          }
        }
      }
      b'-' | b'0'..=b'9' => self.number(),
      c => Err(format!("unexpected byte {:#x} at {}", c, self.i)),
    }
  }
  fn lit(&mut self, word: &str, v: Js) -> Result<Js, String> {
    if self.b[self.i..].starts_with(word.as_bytes()) {
      self.i += word.len();
      Ok(v)
    } else {
      Err(format!("invalid literal at byte {}", self.i))
    }
  }
  fn number(&mut self) -> Result<Js, String> {
    let s = self.i;
    if self.b[self.i] == b'-' {
      self.i += 1;
    }
    match self.b.get(self.i) {
      Some(b'0') => self.i += 1,
      Some(b'1'..=b'9') => {
        while matches!(self.b.get(self.i), Some(b'0'..=b'9')) {
          self.i += 1;
        }
      }
      _ => return Err(format!("invalid number at byte {}", s)),
    }
    if self.b.get(self.i) == Some(&b'.') {
      self.i += 1;
      if !matches!(self.b.get(self.i), Some(b'0'..=b'9')) {
        return Err(format!("invalid number fraction at byte {}", s));
      }
      while matches!(self.b.get(self.i), Some(b'0'..=b'9')) {
        self.i += 1;
      }
    }
    if matches!(self.b.get(self.i), Some(b'e') | Some(b'E')) {
      self.i += 1;
      if matches!(self.b.get(self.i), Some(b'+') | Some(b'-')) {
        self.i += 1;
      }
      if !matches!(self.b.get(self.i), Some(b'0'..=b'9')) {
        return Err(format!("invalid number exponent at byte {}", s));
      }
      while matches!(self.b.get(self.i), Some(b'0'..=b'9')) {
        self.i += 1;
      }
    }
    Ok(Js::Num(String::from_utf8_lossy(&self.b[s..self.i]).into_owned()))
  }
  fn string(&mut self) -> Result<String, String> {
    self.i += 1;
    let mut out: Vec<u16> = vec![];
    let mut buf = String::new();
    let flush = |out: &mut Vec<u16>, buf: &mut String| -> Result<(), String> {
      if !out.is_empty() {
        let s = String::from_utf16(out).map_err(|_| "unpaired surrogate escape".to_string())?;
        buf.push_str(&s);
        out.clear();
      }
      Ok(())
    };
    loop {
      let c = *self.b.get(self.i).ok_or("unterminated string")?;
      match c {
        b'"' => {
          self.i += 1;
          flush(&mut out, &mut buf)?;
          return Ok(buf);
        }
        b'\\' => {
          let e = *self.b.get(self.i + 1).ok_or("unterminated escape")?;
          self.i += 2;
          let ch = match e {
            b'"' => '"',
            b'\\' => '\\',
            b'/' => '/',
            b'b' => '\u{8}',
            b'f' => '\u{c}',
            b'n' => '\n',
            b'r' => '\r',
            b't' => '\t',
            b'u' => {
              let h = self.b.get(self.i..self.i + 4).ok_or("short \\u escape")?;
              let h = std::str::from_utf8(h).map_err(|_| "bad \\u escape")?;
              let u = u16::from_str_radix(h, 16).map_err(|_| "bad \\u escape")?;
              self.i += 4;
              out.push(u);
              continue;
            }
            _ => return Err(format!("invalid escape \\{}", e as char)),
          };
          flush(&mut out, &mut buf)?;
          buf.push(ch);
        }
        0..=0x1f => return Err(format!("unescaped control character {:#x} in string", c)),
        _ => {
          flush(&mut out, &mut buf)?;
          // copy one UTF-8 scalar
          let s = std::str::from_utf8(&self.b[self.i..]).map_err(|e| e.valid_up_to());
          let rest = match s {
            Ok(r) => r,
            Err(n) if n > 0 => std::str::from_utf8(&self.b[self.i..self.i + n]).unwrap(),
            Err(_) => return Err("invalid UTF-8 in string".into()),
          };
          let ch = rest.chars().next().unwrap();
          buf.push(ch);
          self.i += ch.len_utf8();
        }
      }
    }
  }
}

pub fn parse_json(text: &[u8]) -> Result<Js, String> {
  let mut p = P { b: text, i: 0 };
  let v = p.value(0)?;
  p.ws();
  if p.i != text.len() {
    return Err(format!("trailing bytes after the document at {}", p.i));
  }
  Ok(v)
}

fn js_text(s: &str) -> String {
  let mut o = String::from("\"");
  for c in s.chars() {
    match c {
      '"' => o.push_str("\\\""),
      '\\' => o.push_str("\\\\"),
      c if (c as u32) < 0x20 => o.push_str(&format!("\\u{:04x}", c as u32)),
      c => o.push(c),
    }
  }
  o.push('"');
  o
}

impl Js {
  fn get(&self, k: &str) -> Option<&Js> {
    match self {
      Js::Obj(es) => es.iter().find(|(x, _)| x == k).map(|(_, v)| v),
      _ => None,
    }
  }
  fn show(&self) -> String {
    match self {
      Js::Null => "null".into(),
      Js::Bool(b) => b.to_string(),
      Js::Num(n) => n.clone(),
      Js::Str(s) => js_text(s),
      Js::Arr(v) => format!("[{}]", v.iter().map(|x| x.show()).collect::<Vec<_>>().join(",")),
      Js::Obj(es) => format!("{{{}}}", es.iter().map(|(k, v)| format!("{}:{}", js_text(k), v.show())).collect::<Vec<_>>().join(",")),
    }
  }
  /// equality with numbers compared by value and members regardless of order
  fn same(&self, o: &Js) -> bool {
    match (self, o) {
      (Js::Num(a), Js::Num(b)) => match (crate::rval::Rat::parse(&plain(a)), crate::rval::Rat::parse(&plain(b))) {
        (Some(x), Some(y)) => x == y,
        _ => a == b,
      },
      (Js::Arr(a), Js::Arr(b)) => a.len() == b.len() && a.iter().zip(b.iter()).all(|(x, y)| x.same(y)),
      (Js::Obj(a), Js::Obj(b)) => a.len() == b.len() && a.iter().all(|(k, v)| b.iter().any(|(k2, v2)| k == k2 && v.same(v2))),
      (a, b) => a == b,
    }
  }
}

/// exponent notation -> plain decimal text (for the exact comparison)
fn plain(n: &str) -> String {
  let lower = n.to_ascii_lowercase();
  if let Some(p) = lower.find('e') {
    let (m, e) = (&lower[..p], lower[p + 1..].parse::<i64>().unwrap_or(0));
    let neg = m.starts_with('-');
    let m = m.trim_start_matches('-');
    let (ip, fp) = match m.find('.') {
      Some(d) => (&m[..d], &m[d + 1..]),
      None => (m, ""),
    };
    let digits = format!("{}{}", ip, fp);
    let point = ip.len() as i64 + e;
    let s = if point <= 0 {
      format!("0.{}{}", "0".repeat((-point) as usize), digits)
    } else if point as usize >= digits.len() {
      format!("{}{}", digits, "0".repeat(point as usize - digits.len()))
    } else {
      format!("{}.{}", &digits[..point as usize], &digits[point as usize..])
    };
    format!("{}{}", if neg { "-" } else { "" }, s)
  } else {
    n.to_string()
  }
}

// ---------------------------------------------------------------- servers and HTTP

pub fn serve(args: &[String]) {
  let port = args[0].clone();
  // a service whose harness is gone (killed, timed out) ends by itself
  let parent = unsafe { libc::getppid() };
  std::thread::spawn(move || loop {
    std::thread::sleep(Duration::from_millis(500));
    if unsafe { libc::getppid() } != parent {
      std::process::exit(0);
    }
  });
  let _ = actix_web::rt::System::new("c18").block_on(dmntk_server::start_server(Some("127.0.0.1".into()), Some(port), None));
}

struct Server {
  child: Child,
  port: u16,
}

impl Drop for Server {
  fn drop(&mut self) {
    let _ = self.child.kill();
    let _ = self.child.wait();
  }
}

/// Ports are handed out from a process-wide counter (two concurrent starts must never get the same port) and
/// probed for being free; the operating system's own ephemeral choice is not used because it can repeat.
static NEXT_PORT: AtomicU64 = AtomicU64::new(0);

fn free_port() -> u16 {
  for _ in 0..2000 {
    let k = NEXT_PORT.fetch_add(1, Ordering::SeqCst);
    let port = 21000 + ((std::process::id() as u64 * 131 + k) % 20000) as u16;
    if TcpListener::bind(("127.0.0.1", port)).is_ok() {
      return port;
    }
  }
  0
}

fn start_server() -> Result<Server, String> {
  let exe = format!("{}/target/release/vh", crate::report::root());
  for _ in 0..8 {
    let port = free_port();
    let child = Command::new(&exe).arg("c18server").arg(port.to_string()).env("TZ", "UTC").stdout(Stdio::null()).stderr(Stdio::null()).spawn().map_err(|e| e.to_string())?;
    let mut s = Server { child, port };
    let t0 = Instant::now();
    while t0.elapsed() < Duration::from_secs(10) {
      if let Ok(Some(_)) = s.child.try_wait() {
        break; // could not bind: another port
      }
      if TcpStream::connect(("127.0.0.1", port)).is_ok() {
        // the listener must be this child: it is still alive a moment later
        std::thread::sleep(Duration::from_millis(30));
        if let Ok(None) = s.child.try_wait() {
          return Ok(s);
        }
        break;
      }
      std::thread::sleep(Duration::from_millis(20));
    }
  }
  Err("the service did not start listening".into())
}

#[derive(Debug, Clone)]
pub struct Resp {
  status: u16,
  content_type: String,
  body: Vec<u8>,
}

#[derive(Debug, Clone)]
pub struct Req {
  method: &'static str,
  path: String,
  content_type: Option<&'static str>,
  body: Vec<u8>,
}

fn send(port: u16, r: &Req) -> Result<Resp, String> {
  // a refused or failed connect is retried briefly (transient socket exhaustion under load); a dead service stays dead
  let mut conn = TcpStream::connect(("127.0.0.1", port));
  for _ in 0..3 {
    if conn.is_ok() {
      break;
    }
    std::thread::sleep(Duration::from_millis(100));
    conn = TcpStream::connect(("127.0.0.1", port));
  }
  let mut s = conn.map_err(|e| format!("connect: {}", e))?;
  let _ = s.set_read_timeout(Some(Duration::from_secs(20)));
  let _ = s.set_write_timeout(Some(Duration::from_secs(20)));
  let mut head = format!("{} {} HTTP/1.1\r\nHost: 127.0.0.1\r\nConnection: close\r\nContent-Length: {}\r\n", r.method, r.path, r.body.len());
  if let Some(ct) = r.content_type {
    head.push_str(&format!("Content-Type: {}\r\n", ct));
  }
  head.push_str("\r\n");
  s.write_all(head.as_bytes()).map_err(|e| format!("write: {}", e))?;
  // a service that answers early (body over the limit) may close while the body is still being written
  let _ = s.write_all(&r.body);
  let mut buf = vec![];
  match s.read_to_end(&mut buf) {
    Ok(_) => {}
    Err(e) => {
      if buf.is_empty() {
        return Err(format!("read: {}", e));
      }
    }
  }
  let split = buf.windows(4).position(|w| w == b"\r\n\r\n").ok_or("no header end in the response")?;
  let head = String::from_utf8_lossy(&buf[..split]).into_owned();
  let mut body = buf[split + 4..].to_vec();
  let mut lines = head.split("\r\n");
  let status: u16 = lines.next().and_then(|l| l.split(' ').nth(1)).and_then(|c| c.parse().ok()).ok_or("no status line")?;
  let mut content_type = String::new();
  let mut chunked = false;
  for l in lines {
    let low = l.to_ascii_lowercase();
    if let Some(v) = low.strip_prefix("content-type:") {
      content_type = v.trim().to_string();
    }
    if low.starts_with("transfer-encoding:") && low.contains("chunked") {
      chunked = true;
    }
  }
  if chunked {
    let mut out = vec![];
    let mut i = 0;
    loop {
      let e = body[i..].windows(2).position(|w| w == b"\r\n").ok_or("bad chunk")?;
      let n = usize::from_str_radix(String::from_utf8_lossy(&body[i..i + e]).trim(), 16).map_err(|_| "bad chunk size")?;
      i += e + 2;
      if n == 0 {
        break;
      }
      out.extend_from_slice(body.get(i..i + n).ok_or("short chunk")?);
      i += n + 2;
    }
    body = out;
  }
  Ok(Resp { status, content_type, body })
}

fn post_json(path: &str, body: String) -> Req {
  Req { method: "POST", path: path.to_string(), content_type: Some("application/json"), body: body.into_bytes() }
}

// ---------------------------------------------------------------- model alphabet (as in C17)

#[derive(Clone, Copy, Debug, PartialEq)]
struct M {
  ns: u8,
  name: u8,
  content: u8,
}

const MODELS: [(&str, M); 6] = [
  ("A", M { ns: 1, name: 1, content: 1 }),
  ("A2", M { ns: 1, name: 1, content: 2 }),
  ("B", M { ns: 1, name: 2, content: 3 }),
  ("C", M { ns: 2, name: 1, content: 4 }),
  ("D", M { ns: 3, name: 3, content: 5 }),
  ("F", M { ns: 4, name: 4, content: 0 }),
];

fn ns_text(k: u8) -> String {
  format!("https://verif/ns{}", k)
}
fn name_text(k: u8) -> String {
  format!("model{}", k)
}

fn xml(m: &M) -> String {
  let logic = if m.content == 0 { "1 +".to_string() } else { format!("\"content {}\"", m.content) };
  format!(
    "<?xml version=\"1.0\" encoding=\"UTF-8\"?>\n<definitions namespace=\"{}\" name=\"{}\" id=\"m\" xmlns=\"https://www.omg.org/spec/DMN/20191111/MODEL/\">\n  <decision name=\"D\" id=\"d\">\n    <variable name=\"D\"/>\n    <literalExpression><text>{}</text></literalExpression>\n  </decision>\n</definitions>\n",
    ns_text(m.ns),
    name_text(m.name),
    logic
  )
}

const ECHO_XML: &str = r#"<?xml version="1.0" encoding="UTF-8"?>
<definitions namespace="https://verif/echo" name="echo" id="m" xmlns="https://www.omg.org/spec/DMN/20191111/MODEL/">
  <businessKnowledgeModel name="Echo" id="b">
    <variable name="Echo"/>
    <encapsulatedLogic>
      <formalParameter name="x"/>
      <literalExpression><text>x</text></literalExpression>
    </encapsulatedLogic>
  </businessKnowledgeModel>
</definitions>
"#;

#[derive(Clone, Copy, Debug, PartialEq)]
enum Op {
  Add(usize),
  Replace(usize),
  Remove(u8, u8),
  Clear,
  Deploy,
}

impl Op {
  fn show(&self) -> String {
    match self {
      Op::Add(k) => format!("add({})", MODELS[*k].0),
      Op::Replace(k) => format!("replace({})", MODELS[*k].0),
      Op::Remove(a, b) => format!("remove(ns{}, model{})", a, b),
      Op::Clear => "clear".into(),
      Op::Deploy => "deploy".into(),
    }
  }
  fn request(&self) -> Req {
    match self {
      Op::Add(k) => post_json("/definitions/add", format!("{{\"content\":\"{}\"}}", base64::encode(xml(&MODELS[*k].1)))),
      Op::Replace(k) => post_json("/definitions/replace", format!("{{\"content\":\"{}\"}}", base64::encode(xml(&MODELS[*k].1)))),
      Op::Remove(a, b) => post_json("/definitions/remove", format!("{{\"namespace\":{},\"name\":{}}}", js_text(&ns_text(*a)), js_text(&name_text(*b)))),
      Op::Clear => Req { method: "POST", path: "/definitions/clear".into(), content_type: None, body: vec![] },
      Op::Deploy => Req { method: "POST", path: "/definitions/deploy".into(), content_type: None, body: vec![] },
    }
  }
  /// the same operation on a real workspace: Some(ok) for operations that can fail
  fn apply(&self, w: &mut Workspace) -> bool {
    match self {
      Op::Add(k) => w.add(dmntk_model::parse(&xml(&MODELS[*k].1)).unwrap()).is_ok(),
      Op::Replace(k) => w.replace(dmntk_model::parse(&xml(&MODELS[*k].1)).unwrap()).is_ok(),
      Op::Remove(a, b) => {
        w.remove(&ns_text(*a), &name_text(*b));
        true
      }
      Op::Clear => {
        w.clear();
        true
      }
      Op::Deploy => w.deploy().is_ok(),
    }
  }
}

fn protocol_alphabet(thorough: bool) -> Vec<Op> {
  let mut v = vec![];
  let nm = if thorough { MODELS.len() } else { 5 };
  for k in 0..nm {
    v.push(Op::Add(k));
  }
  for k in 0..nm {
    v.push(Op::Replace(k));
  }
  // removal of every model's own pair, and two mismatched pairs
  for (a, b) in [(1, 1), (1, 2), (2, 1), (3, 3), (2, 2), (3, 1)] {
    v.push(Op::Remove(a, b));
  }
  v.push(Op::Deploy);
  v
}

struct Cnt {
  requests: AtomicU64,
  sequences: AtomicU64,
  compared: AtomicU64,
  nontrivial: AtomicU64,
}

/// A response must be a JSON document with `data` or a non-empty `errors` list of {details}
fn envelope(run: &Run, what: &str, key: &str, resp: &Resp, replay: &serde_json::Value) -> Option<Result<Js, String>> {
  if !resp.content_type.starts_with("application/json") {
    run.violation(&format!("{}:content-type-not-json", key), &format!("{}: the response has content type `{}`", what, resp.content_type), replay.clone());
  }
  match parse_json(&resp.body) {
    Err(e) => {
      let class: String = e.chars().take(40).collect::<String>().replace(|c: char| c.is_ascii_digit(), "#");
      run.violation(
        &format!("{}:body-is-not-well-formed-json:{}", key, class),
        &format!("{}: the response body is not well-formed JSON ({}): {}", what, e, String::from_utf8_lossy(&resp.body).chars().take(300).collect::<String>()),
        replay.clone(),
      );
      None
    }
    Ok(doc) => {
      if let Some(d) = doc.get("data") {
        Some(Ok(d.clone()))
      } else if let Some(Js::Arr(es)) = doc.get("errors") {
        let details: Vec<String> = es.iter().filter_map(|e| e.get("details")).map(|d| if let Js::Str(s) = d { s.clone() } else { d.show() }).collect();
        if es.is_empty() || details.len() != es.len() {
          run.violation(&format!("{}:malformed-errors-member", key), &format!("{}: errors member without details: {}", what, doc.show()), replay.clone());
        }
        Some(Err(details.join("; ")))
      } else {
        run.violation(&format!("{}:neither-data-nor-errors", key), &format!("{}: the response has neither data nor errors: {}", what, doc.show()), replay.clone());
        None
      }
    }
  }
}

fn req_json(r: &Req) -> serde_json::Value {
  json!({"method": r.method, "path": r.path, "content_type": r.content_type, "body_base64": base64::encode(&r.body)})
}

// ---------------------------------------------------------------- family: render

/// (FEEL text, expected JSON, TCK value JSON text or None, class)
struct Sample {
  feel: String,
  expected: Js,
  tck: Option<String>,
  /// what the typed answer decodes to when it differs from `expected` (temporal values keep their type tag)
  expected_tck: Option<Js>,
  class: String,
}

fn feel_string(s: &str) -> String {
  let mut o = String::from("\"");
  for c in s.chars() {
    match c {
      '"' => o.push_str("\\\""),
      '\\' => o.push_str("\\\\"),
      '\n' => o.push_str("\\n"),
      '\t' => o.push_str("\\t"),
      '\r' => o.push_str("\\r"),
      c if (c as u32) < 0x20 || c as u32 == 0x7f => o.push_str(&format!("\\u{:04X}", c as u32)),
      c => o.push(c),
    }
  }
  o.push('"');
  o
}

fn tck_simple(typ: &str, text: &str) -> String {
  format!("{{\"simple\":{{\"type\":{},\"text\":{},\"isNil\":false}}}}", js_text(typ), js_text(text))
}

fn specials() -> Vec<(char, &'static str)> {
  vec![
    ('"', "quote"),
    ('\\', "backslash"),
    ('/', "slash"),
    ('\u{1}', "control-01"),
    ('\u{8}', "backspace"),
    ('\t', "tab"),
    ('\n', "newline"),
    ('\r', "carriage-return"),
    ('\u{1f}', "control-1f"),
    ('\u{7f}', "delete"),
    ('\u{80}', "c1-control"),
    ('\u{a0}', "no-break-space"),
    ('é', "latin"),
    ('日', "cjk"),
    ('\u{2028}', "line-separator"),
    ('🐎', "astral"),
    ('{', "brace"),
    (',', "comma"),
    (':', "colon"),
    (' ', "space"),
  ]
}

fn samples(thorough: bool) -> Vec<Sample> {
  let mut out = vec![];
  let sp = specials();
  let mut strings: Vec<(String, String)> = vec![("".into(), "empty".into()), ("plain text".into(), "plain".into())];
  for (c, n) in &sp {
    strings.push((c.to_string(), format!("{}-alone", n)));
    strings.push((format!("{}{}", c, c), format!("{}-doubled", n)));
    strings.push((format!("{}ab", c), format!("{}-at-start", n)));
    strings.push((format!("a{}b", c), format!("{}-in-the-middle", n)));
    strings.push((format!("ab{}", c), format!("{}-at-end", n)));
  }
  // every control character (and DEL) alone, in the middle and doubled: hand-written escapers tend to special-case a few
  for cp in (0u32..0x20).chain([0x7f]) {
    let c = char::from_u32(cp).unwrap();
    strings.push((c.to_string(), format!("control-{:02x}-alone", cp)));
    strings.push((format!("a{}b", c), format!("control-{:02x}-in-the-middle", cp)));
    strings.push((format!("{}{}", c, c), format!("control-{:02x}-doubled", cp)));
  }
  for (c, n) in &sp {
    for (d, m) in &sp {
      if c != d {
        strings.push((format!("{}{}", c, d), format!("pair-{}-then-{}", n, m)));
      }
    }
  }
  for (s, class) in &strings {
    out.push(Sample { feel: feel_string(s), expected: Js::Str(s.clone()), tck: Some(tck_simple("xsd:string", s)), expected_tck: None, class: format!("string:{}", class) });
  }
  let numbers = [
    "0", "1", "-1", "10", "0.5", "-0.5", "0.001", "-0.001", "0.00000000000000000001", "1234567890123456789012345678901234", "-1234567890123456789012345678901234", "12345678901234567890123456789012.34", "1000000000000000000000000000000", "0.1",
    "100", "1.10", "99999999999999999999", "0.000001", "123456.789",
  ];
  for n in numbers {
    out.push(Sample { feel: n.to_string(), expected: Js::Num(n.trim_start_matches('+').to_string()), tck: Some(tck_simple("xsd:decimal", n)), expected_tck: None, class: format!("number:{}", if n.contains('.') { "fraction" } else if n.len() > 18 { "long-integer" } else { "integer" }) });
  }
  out.push(Sample { feel: "true".into(), expected: Js::Bool(true), tck: Some(tck_simple("xsd:boolean", "true")), expected_tck: None, class: "boolean".into() });
  out.push(Sample { feel: "false".into(), expected: Js::Bool(false), tck: Some(tck_simple("xsd:boolean", "false")), expected_tck: None, class: "boolean".into() });
  out.push(Sample { feel: "null".into(), expected: Js::Null, tck: Some("{\"simple\":{\"isNil\":true}}".into()), expected_tck: None, class: "null".into() });
  // lists and contexts to depth 3 over a few atoms
  // atoms: FEEL text, JSON value through /evaluate, typed value, value the typed answer decodes to
  let temporal: Vec<(&str, &str, &str)> = vec![
    ("date(\"2020-01-02\")", "xsd:date", "2020-01-02"),
    ("time(\"10:00:00\")", "xsd:time", "10:00:00"),
    ("date and time(\"2020-01-02T10:00:00\")", "xsd:dateTime", "2020-01-02T10:00:00"),
    ("duration(\"P1D\")", "xsd:duration", "P1D"),
    ("duration(\"P1Y\")", "xsd:duration", "P1Y"),
  ];
  let mut atoms: Vec<(String, Js, String, Js)> = vec![
    ("1".into(), Js::Num("1".into()), tck_simple("xsd:decimal", "1"), Js::Num("1".into())),
    ("\"a\\\"b\"".into(), Js::Str("a\"b".into()), tck_simple("xsd:string", "a\"b"), Js::Str("a\"b".into())),
    ("true".into(), Js::Bool(true), tck_simple("xsd:boolean", "true"), Js::Bool(true)),
    ("null".into(), Js::Null, "{\"simple\":{\"isNil\":true}}".into(), Js::Null),
  ];
  for (f, typ, text) in &temporal {
    // through /evaluate a temporal value is rendered as a string holding its text; typed, it keeps its kind
    atoms.push((f.to_string(), Js::Str(text.to_string()), tck_simple(typ, text), Js::Str(format!("{}:{}", typ, text))));
  }
  let mut level: Vec<(String, Js, String, Js)> = atoms.clone();
  for depth in 1..=3 {
    let mut next: Vec<(String, Js, String, Js)> = vec![];
    let take = if thorough || depth < 3 { level.len() } else { level.len().min(12) };
    next.push(("[]".to_string(), Js::Arr(vec![]), "{\"list\":{\"items\":[],\"isNil\":false}}".to_string(), Js::Arr(vec![])));
    let one = tck_simple("xsd:decimal", "1");
    for (f, j, t, jt) in level.iter().take(take) {
      next.push((format!("[{}]", f), Js::Arr(vec![j.clone()]), format!("{{\"list\":{{\"items\":[{}],\"isNil\":false}}}}", t), Js::Arr(vec![jt.clone()])));
      next.push((
        format!("[{}, 1]", f),
        Js::Arr(vec![j.clone(), Js::Num("1".into())]),
        format!("{{\"list\":{{\"items\":[{},{}],\"isNil\":false}}}}", t, one),
        Js::Arr(vec![jt.clone(), Js::Num("1".into())]),
      ));
      next.push((
        format!("{{k: {}}}", f),
        Js::Obj(vec![("k".into(), j.clone())]),
        format!("{{\"components\":[{{\"name\":\"k\",\"value\":{},\"isNil\":false}}]}}", t),
        Js::Obj(vec![("k".into(), jt.clone())]),
      ));
      next.push((
        format!("{{k: {}, m: \"z\"}}", f),
        Js::Obj(vec![("k".into(), j.clone()), ("m".into(), Js::Str("z".into()))]),
        format!("{{\"components\":[{{\"name\":\"k\",\"value\":{},\"isNil\":false}},{{\"name\":\"m\",\"value\":{},\"isNil\":false}}]}}", t, tck_simple("xsd:string", "z")),
        Js::Obj(vec![("k".into(), jt.clone()), ("m".into(), Js::Str("z".into()))]),
      ));
    }
    for (f, j, t, jt) in &next {
      out.push(Sample { feel: f.clone(), expected: j.clone(), tck: Some(t.clone()), expected_tck: Some(jt.clone()), class: format!("{}:depth-{}", if f.starts_with('[') { "list" } else { "context" }, depth) });
    }
    level = next;
  }
  // contexts without entries, alone and nested
  for (f, j) in [
    ("{}", Js::Obj(vec![])),
    ("{k: {}}", Js::Obj(vec![("k".into(), Js::Obj(vec![]))])),
    ("{k: {}, m: \"z\"}", Js::Obj(vec![("k".into(), Js::Obj(vec![])), ("m".into(), Js::Str("z".into()))])),
    ("[{}]", Js::Arr(vec![Js::Obj(vec![])])),
    ("[{}, 1]", Js::Arr(vec![Js::Obj(vec![]), Js::Num("1".into())])),
    ("[[], {}]", Js::Arr(vec![Js::Arr(vec![]), Js::Obj(vec![])])),
    ("{k: []}", Js::Obj(vec![("k".into(), Js::Arr(vec![]))])),
    ("{k: [{}], m: {n: {}}}", Js::Obj(vec![("k".into(), Js::Arr(vec![Js::Obj(vec![])])), ("m".into(), Js::Obj(vec![("n".into(), Js::Obj(vec![]))]))])),
  ] {
    out.push(Sample { feel: f.to_string(), expected: j, tck: None, expected_tck: None, class: "context:without-entries".into() });
  }
  // context keys with control characters
  for cp in [0x00u32, 0x07, 0x08, 0x0b, 0x0c, 0x1b, 0x1f] {
    let key = format!("k{}q", char::from_u32(cp).unwrap());
    out.push(Sample { feel: format!("{{{}: 1}}", feel_string(&key)), expected: Js::Obj(vec![(key.clone(), Js::Num("1".into()))]), tck: None, expected_tck: None, class: format!("context-key:control-{:02x}", cp) });
  }
  // awkward context keys
  for (key, class) in [("a b", "with-space"), ("k\"q", "with-quote"), ("k\\q", "with-backslash"), ("é日", "non-ascii"), ("tab\tkey", "with-tab"), ("x", "plain")] {
    out.push(Sample { feel: format!("{{{}: 1}}", feel_string(key)), expected: Js::Obj(vec![(key.to_string(), Js::Num("1".into()))]), tck: None, expected_tck: None, class: format!("context-key:{}", class) });
  }
  // temporal values at the top level: rendered as strings holding their text through /evaluate
  for (f, typ, text) in &temporal {
    out.push(Sample { feel: f.to_string(), expected: Js::Str(text.to_string()), tck: Some(tck_simple(typ, text)), expected_tck: Some(Js::Str(format!("{}:{}", typ, text))), class: format!("temporal:{}", typ) });
  }
  // other kinds: only well-formedness is prescribed
  for (f, class) in [("[1..2]", "range"), ("function(a) a", "function")] {
    out.push(Sample { feel: f.to_string(), expected: Js::Null, tck: None, expected_tck: None, class: format!("other:{}", class) });
  }
  out
}

fn tck_decode(v: &Js) -> Result<Js, String> {
  // {value:{simple|components|list}} -> plain JSON value (numbers by text, temporal values as strings)
  fn val(v: &Js) -> Result<Js, String> {
    if let Some(s) = v.get("simple").filter(|s| **s != Js::Null) {
      if s.get("isNil") == Some(&Js::Bool(true)) {
        return Ok(Js::Null);
      }
      let typ = match s.get("type") {
        Some(Js::Str(t)) => t.clone(),
        _ => return Err("simple value without type".into()),
      };
      let text = match s.get("text") {
        Some(Js::Str(t)) => t.clone(),
        _ => return Err("simple value without text".into()),
      };
      return Ok(match typ.as_str() {
        "xsd:string" => Js::Str(text),
        "xsd:decimal" | "xsd:integer" | "xsd:double" => Js::Num(text),
        "xsd:boolean" => Js::Bool(text == "true"),
        _ => Js::Str(format!("{}:{}", typ, text)),
      });
    }
    if let Some(Js::Arr(cs)) = v.get("components") {
      let mut es = vec![];
      for c in cs {
        let name = match c.get("name") {
          Some(Js::Str(n)) => n.clone(),
          _ => return Err("component without name".into()),
        };
        es.push((name, val(c.get("value").ok_or("component without value")?)?));
      }
      return Ok(Js::Obj(es));
    }
    if let Some(l) = v.get("list").filter(|s| **s != Js::Null) {
      if let Some(Js::Arr(items)) = l.get("items") {
        return Ok(Js::Arr(items.iter().map(val).collect::<Result<Vec<_>, _>>()?));
      }
    }
    Err(format!("value with neither simple, components nor list: {}", v.show()))
  }
  val(v.get("value").ok_or("no value member")?)
}

fn family_render(run: &Run, cnt: &Cnt, thorough: bool) {
  let server = match start_server() {
    Ok(s) => s,
    Err(e) => {
      run.machinery_error(&e);
      return;
    }
  };
  let port = server.port;
  let setup = [
    Req { method: "POST", path: "/definitions/clear".into(), content_type: None, body: vec![] },
    post_json("/definitions/add", format!("{{\"content\":\"{}\"}}", base64::encode(ECHO_XML))),
    Req { method: "POST", path: "/definitions/deploy".into(), content_type: None, body: vec![] },
  ];
  for r in &setup {
    match send(port, r) {
      Ok(resp) if parse_json(&resp.body).map(|d| d.get("data").is_some()).unwrap_or(false) => {}
      other => {
        run.machinery_error(&format!("echo model set-up request {} failed: {:?}", r.path, other.map(|r| String::from_utf8_lossy(&r.body).into_owned())));
        return;
      }
    }
  }
  // What a request leaves behind in the worker that served it: an input context that does not parse, with entry names
  // that read like expressions, is sent often enough to reach every worker of the service (connections are dealt to the
  // workers in turn; 4 rounds), then the same well-formed evaluation is asked of every worker again.
  {
    let workers = std::thread::available_parallelism().map(|n| n.get()).unwrap_or(16);
    let leftovers: [(&str, &str, &str); 4] = [
      ("{a-b: 1, x: ", "{a: 5, b: 2, x: a-b}", "3"),
      ("{a+b: 1, x: ", "{a: 5, b: 2, x: a+b}", "7"),
      ("{a b: 1, x: ", "{a: 5, b: 2, x: [a][1]}", "5"),
      ("{x: {a*b: 1}, y: ", "{a: 5, b: 2, x: a*b}", "10"),
    ];
    for (broken, probe, expected) in leftovers {
      let fault = Req { method: "POST", path: "/evaluate/echo/Echo".into(), content_type: Some("text/plain"), body: broken.as_bytes().to_vec() };
      let ask = Req { method: "POST", path: "/evaluate/echo/Echo".into(), content_type: Some("text/plain"), body: probe.as_bytes().to_vec() };
      let replay = json!({"engine":"c18","setup":"echo","requests":[req_json(&fault), req_json(&ask)],"repeat":[workers * 4, workers * 3],"expected":expected});
      for round in 0..2 {
        // round 0: before any malformed request; round 1: after every worker has seen it
        if round == 1 {
          for _ in 0..workers * 4 {
            cnt.requests.fetch_add(1, Ordering::Relaxed);
            match send(port, &fault) {
              Ok(resp) => {
                let _ = envelope(run, &format!("malformed input context `{}`", broken), "render:leftover:malformed-request", &resp, &replay);
              }
              Err(e) => run.violation("render:leftover:no-answer", &format!("malformed input context `{}`: no answer: {}", broken, e), replay.clone()),
            }
          }
        }
        for _ in 0..workers * 3 {
          cnt.requests.fetch_add(1, Ordering::Relaxed);
          match send(port, &ask) {
            Ok(resp) => {
              let what = format!("evaluation with the input `{}` {}", probe, if round == 0 { "on the fresh service".to_string() } else { format!("after the malformed input `{}` was answered by every worker", broken) });
              if let Some(res) = envelope(run, &what, "render:leftover:evaluate", &resp, &replay) {
                cnt.compared.fetch_add(1, Ordering::Relaxed);
                let shown = match &res {
                  Ok(d) => d.show(),
                  Err(e) => format!("errors `{}`", e),
                };
                if shown != expected {
                  run.violation(&format!("render:leftover:{}:another-value", if round == 0 { "fresh-service" } else { "after-a-malformed-request" }), &format!("{}: answers {} instead of {}", what, shown, expected), replay.clone());
                  break;
                }
              }
            }
            Err(e) => run.violation("render:leftover:no-answer", &format!("evaluation with the input `{}`: no answer: {}", probe, e), replay.clone()),
          }
        }
      }
    }
  }
  let all = samples(thorough);
  all.par_iter().for_each(|s| {
    // FEEL context body
    let r = Req { method: "POST", path: "/evaluate/echo/Echo".into(), content_type: Some("text/plain"), body: format!("{{x: {}}}", s.feel).into_bytes() };
    let replay = json!({"engine":"c18","setup":"echo","requests":[req_json(&r)],"expected":s.expected.show()});
    cnt.requests.fetch_add(1, Ordering::Relaxed);
    match send(port, &r) {
      Err(e) => run.violation(&format!("render:no-answer:{}", s.class), &format!("no answer for the echo of {}: {}", s.feel, e), replay.clone()),
      Ok(resp) => {
        let what = format!("echo of {} through /evaluate", s.feel);
        if let Some(res) = envelope(run, &what, &format!("render:evaluate:{}", s.class), &resp, &replay) {
          cnt.compared.fetch_add(1, Ordering::Relaxed);
          if !s.class.starts_with("other:") {
            cnt.nontrivial.fetch_add(1, Ordering::Relaxed);
            match res {
              Ok(d) if d.same(&s.expected) => {}
              Ok(d) => run.violation(&format!("render:evaluate:decodes-to-another-value:{}", s.class), &format!("{}: data decodes to {} instead of {}", what, d.show(), s.expected.show()), replay.clone()),
              Err(e) => run.violation(&format!("render:evaluate:error-instead-of-value:{}", s.class), &format!("{}: errors `{}` instead of {}", what, e, s.expected.show()), replay.clone()),
            }
          }
        }
      }
    }
    // typed TCK format
    if let Some(t) = &s.tck {
      let body = format!("{{\"model\":\"echo\",\"invocable\":\"Echo\",\"input\":[{{\"name\":\"x\",\"value\":{}}}]}}", t);
      let r = post_json("/tck/evaluate", body);
      let replay = json!({"engine":"c18","setup":"echo","requests":[req_json(&r)],"expected":s.expected_tck.as_ref().unwrap_or(&s.expected).show()});
      cnt.requests.fetch_add(1, Ordering::Relaxed);
      match send(port, &r) {
        Err(e) => run.violation(&format!("render:no-answer:{}", s.class), &format!("no answer for the typed echo of {}: {}", s.feel, e), replay.clone()),
        Ok(resp) => {
          let what = format!("echo of {} through /tck/evaluate", s.feel);
          if let Some(res) = envelope(run, &what, &format!("render:tck:{}", s.class), &resp, &replay) {
            cnt.compared.fetch_add(1, Ordering::Relaxed);
            cnt.nontrivial.fetch_add(1, Ordering::Relaxed);
            let want = s.expected_tck.as_ref().unwrap_or(&s.expected);
            match res.and_then(|d| tck_decode(&d)) {
              Ok(d) if d.same(want) => {}
              Ok(d) => run.violation(&format!("render:tck:value-changed:{}", s.class), &format!("{}: comes back as {} instead of {}", what, d.show(), want.show()), replay.clone()),
              Err(e) => run.violation(&format!("render:tck:error-instead-of-value:{}", s.class), &format!("{}: `{}` instead of {}", what, e, want.show()), replay.clone()),
            }
          }
        }
      }
    }
  });
  // typed scalars of the other xsd types must come back with the same type and text
  for (typ, text) in [
    ("xsd:integer", "42"),
    ("xsd:integer", "-7"),
    ("xsd:double", "1.5"),
    ("xsd:date", "2020-01-02"),
    ("xsd:time", "10:00:00"),
    ("xsd:time", "10:00:00Z"),
    ("xsd:dateTime", "2020-01-02T10:00:00"),
    ("xsd:dateTime", "2020-01-02T10:00:00+02:00"),
    ("xsd:duration", "P1D"),
    ("xsd:duration", "P1Y2M"),
    ("xsd:duration", "PT2H"),
  ] {
    let body = format!("{{\"model\":\"echo\",\"invocable\":\"Echo\",\"input\":[{{\"name\":\"x\",\"value\":{}}}]}}", tck_simple(typ, text));
    let r = post_json("/tck/evaluate", body);
    let replay = json!({"engine":"c18","setup":"echo","requests":[req_json(&r)],"expected":format!("{} {}", typ, text)});
    cnt.requests.fetch_add(1, Ordering::Relaxed);
    if let Ok(resp) = send(port, &r) {
      let what = format!("typed echo of {} {}", typ, text);
      if let Some(res) = envelope(run, &what, &format!("render:tck:{}", typ), &resp, &replay) {
        cnt.compared.fetch_add(1, Ordering::Relaxed);
        cnt.nontrivial.fetch_add(1, Ordering::Relaxed);
        let want_type = if matches!(typ, "xsd:integer" | "xsd:double") { "xsd:decimal" } else { typ };
        let got = res.ok().and_then(|d| d.get("value").and_then(|v| v.get("simple")).map(|s| (s.get("type").cloned(), s.get("text").cloned())));
        let ok = match &got {
          Some((Some(Js::Str(t)), Some(Js::Str(x)))) => t == want_type && (x == text || Js::Num(x.clone()).same(&Js::Num(text.to_string()))),
          _ => false,
        };
        if !ok {
          run.violation(&format!("render:tck:value-changed:{}", typ), &format!("{}: comes back as {:?}", what, got), replay.clone());
        }
      }
    } else {
      run.violation(&format!("render:no-answer:{}", typ), &format!("no answer for the typed echo of {} {}", typ, text), replay);
    }
  }
}

// ---------------------------------------------------------------- family: protocol and faults

/// Drives one request sequence (after a clear) against a server and a lock-step workspace.
/// `fault_at`: a malformed request inserted before the operation at that position (or at the end).
fn run_sequence(run: &Run, cnt: &Cnt, port: u16, seq: &[Op], fault: Option<(usize, &Fault)>, fresh: bool) {
  cnt.sequences.fetch_add(1, Ordering::Relaxed);
  let mut w = Workspace::new(None);
  let clear = Op::Clear.request();
  let mut trail: Vec<String> = vec!["clear".into()];
  let mut reqs: Vec<serde_json::Value> = vec![req_json(&clear)];
  if fresh {
    trail = vec!["(fresh service)".into()];
    reqs = vec![];
  }
  cnt.requests.fetch_add(1, Ordering::Relaxed);
  if !fresh && send(port, &clear).is_err() {
    run.violation("protocol:no-answer:clear", "the service does not answer the clearing request", json!({"engine":"c18","requests":reqs}));
    return;
  }
  let empty = FeelContext::default();
  let family = if fault.is_some() { "faults" } else { "protocol" };
  let observe = |w: &Workspace, trail: &Vec<String>, reqs: &Vec<serde_json::Value>, after: &str| {
    // which models evaluate, and which version answers
    for n in 1..=4u8 {
      let r = Req { method: "POST", path: format!("/evaluate/{}/D", name_text(n)), content_type: Some("text/plain"), body: b"{}".to_vec() };
      cnt.requests.fetch_add(1, Ordering::Relaxed);
      let want = w.evaluate_invocable(&name_text(n), "D", &empty).ok().map(|v| v.to_string());
      let mut rq = reqs.clone();
      rq.push(req_json(&r));
      let replay = json!({"engine":"c18","requests":rq,"expected":format!("{:?}", want)});
      match send(port, &r) {
        Err(e) => run.violation(&format!("{}:no-answer:evaluate", family), &format!("after {:?} the service does not answer an evaluation: {}", trail, e), replay),
        Ok(resp) => {
          let what = format!("after {:?}, evaluation of D of {}", trail, name_text(n));
          if let Some(res) = envelope(run, &what, &format!("{}:evaluate", family), &resp, &replay) {
            cnt.compared.fetch_add(1, Ordering::Relaxed);
            let got = match res {
              Ok(Js::Str(s)) => Some(format!("\"{}\"", s)),
              Ok(other) => Some(other.show()),
              Err(_) => None,
            };
            if want.is_some() {
              cnt.nontrivial.fetch_add(1, Ordering::Relaxed);
            }
            if got != want {
              run.violation(
                &format!("{}:evaluation-differs-from-workspace:{}", family, after),
                &format!("{}: the service gives {:?} but the same operations on a workspace give {:?}", what, got, want),
                replay,
              );
            }
          }
        }
      }
    }
  };
  // a second, independent oracle for what the definitions endpoints accept: the (namespace, name) pairs the requests leave
  // stored (None once a removal / replacement matched a stored model by one of the two only - which model goes is left open)
  let mut stored: Option<Vec<(u8, u8)>> = Some(vec![]);
  for (k, op) in seq.iter().enumerate() {
    if let Some((at, f)) = fault {
      if at == k {
        if !inject(run, cnt, port, f, &mut trail, &mut reqs, &mut w) {
          return;
        }
        observe(&w, &trail, &reqs, &format!("after-fault:{}", f.name));
      }
    }
    let r = op.request();
    trail.push(op.show());
    reqs.push(req_json(&r));
    cnt.requests.fetch_add(1, Ordering::Relaxed);
    let want_ok = op.apply(&mut w);
    if fault.is_none() {
      let relation = |s: &Vec<(u8, u8)>, ns: u8, name: u8| -> (bool, bool) { (s.iter().any(|x| x.0 == ns && x.1 == name), s.iter().any(|x| (x.0 == ns) != (x.1 == name))) };
      match op {
        Op::Add(k) => {
          let m = MODELS[*k].1;
          if let Some(s) = stored.as_mut() {
            let clash = s.iter().any(|x| x.0 == m.ns || x.1 == m.name);
            if want_ok == clash {
              run.violation(
                &format!("protocol:add:{}", if clash { "accepted-although-a-stored-model-has-its-namespace-or-name" } else { "rejected-although-no-stored-model-has-its-namespace-or-name" }),
                &format!("after {:?} the models stored are {:?}, yet the addition is {}", trail, s.iter().map(|x| (ns_text(x.0), name_text(x.1))).collect::<Vec<_>>(), if want_ok { "accepted" } else { "rejected" }),
                json!({"engine":"c18","requests":reqs,"expected":if clash { "errors" } else { "data" }}),
              );
            }
            if !clash {
              s.push((m.ns, m.name));
            }
          }
        }
        Op::Replace(k) => {
          let m = MODELS[*k].1;
          stored = match stored.take() {
            Some(mut s) => match relation(&s, m.ns, m.name) {
              (_, true) => None,
              (true, false) => Some(s),
              (false, false) => {
                s.push((m.ns, m.name));
                Some(s)
              }
            },
            None => None,
          };
        }
        Op::Remove(a, b) => {
          stored = match stored.take() {
            Some(s) => match relation(&s, *a, *b) {
              (_, true) => None,
              _ => Some(s.into_iter().filter(|x| !(x.0 == *a && x.1 == *b)).collect()),
            },
            None => None,
          };
        }
        Op::Clear => stored = Some(vec![]),
        Op::Deploy => {}
      }
    }
    let opname = match op {
      Op::Add(_) => "add",
      Op::Replace(_) => "replace",
      Op::Remove(..) => "remove",
      Op::Clear => "clear",
      Op::Deploy => "deploy",
    };
    let replay = json!({"engine":"c18","requests":reqs,"expected":if want_ok { "data" } else { "errors" }});
    match send(port, &r) {
      Err(e) => {
        run.violation(&format!("{}:no-answer:{}", family, opname), &format!("after {:?} the service does not answer: {}", trail, e), replay);
        return;
      }
      Ok(resp) => {
        let what = format!("after {:?}", trail);
        if let Some(res) = envelope(run, &what, &format!("{}:{}", family, opname), &resp, &replay) {
          cnt.compared.fetch_add(1, Ordering::Relaxed);
          if res.is_ok() != want_ok {
            run.violation(
              &format!("{}:{}:{}", family, opname, if want_ok { "fails-although-the-workspace-operation-succeeds" } else { "succeeds-although-the-workspace-operation-fails" }),
              &format!("{}: the service answers {} but the same operation on a workspace {}", what, match &res { Ok(d) => format!("data {}", d.show()), Err(e) => format!("errors `{}`", e) }, if want_ok { "succeeds" } else { "fails" }),
              replay.clone(),
            );
            // the two are out of step now
            return;
          }
        }
      }
    }
    observe(&w, &trail, &reqs, opname);
  }
  if let Some((at, f)) = fault {
    if at == seq.len() {
      if inject(run, cnt, port, f, &mut trail, &mut reqs, &mut w) {
        observe(&w, &trail, &reqs, &format!("after-fault:{}", f.name));
      }
    }
  }
}

struct Fault {
  name: &'static str,
  req: Req,
}

fn faults() -> Vec<Fault> {
  let b64 = |s: &[u8]| base64::encode(s);
  let add = |content: String| post_json("/definitions/add", format!("{{\"content\":\"{}\"}}", content));
  let mut v = vec![
    Fault { name: "truncated-json", req: post_json("/definitions/add", "{\"content\":\"PD94".into()) },
    Fault { name: "not-json", req: post_json("/definitions/add", "<definitions/>".into()) },
    Fault { name: "empty-body", req: post_json("/definitions/add", String::new()) },
    Fault { name: "json-of-another-shape", req: post_json("/definitions/add", "[1, 2, 3]".into()) },
    Fault { name: "content-of-another-type", req: post_json("/definitions/add", "{\"content\": 5}".into()) },
    Fault { name: "wrong-content-type", req: Req { method: "POST", path: "/definitions/add".into(), content_type: Some("text/plain"), body: b"{\"content\":\"\"}".to_vec() } },
    Fault { name: "missing-content", req: post_json("/definitions/add", "{}".into()) },
    Fault { name: "invalid-base64", req: add("***not base64***".into()) },
    Fault { name: "base64-of-invalid-utf8", req: add(b64(&[0xff, 0xfe, 0x3c, 0x80])) },
    Fault { name: "base64-of-malformed-xml", req: add(b64(b"<definitions><decision></definitions>")) },
    Fault { name: "base64-of-xml-that-is-no-model", req: add(b64(b"<html/>")) },
    Fault { name: "replace-with-invalid-base64", req: post_json("/definitions/replace", "{\"content\":\"%%%\"}".into()) },
    Fault { name: "remove-without-name", req: post_json("/definitions/remove", "{\"namespace\":\"x\"}".into()) },
    Fault { name: "remove-with-null-members", req: post_json("/definitions/remove", "{\"namespace\":null,\"name\":null}".into()) },
    Fault { name: "unknown-model", req: Req { method: "POST", path: "/evaluate/no-such-model/D".into(), content_type: Some("text/plain"), body: b"{}".to_vec() } },
    Fault { name: "unknown-invocable", req: Req { method: "POST", path: "/evaluate/model1/NoSuchInvocable".into(), content_type: Some("text/plain"), body: b"{}".to_vec() } },
    Fault { name: "input-context-that-does-not-parse", req: Req { method: "POST", path: "/evaluate/model1/D".into(), content_type: Some("text/plain"), body: b"{x: ".to_vec() } },
    Fault { name: "input-that-is-not-a-context", req: Req { method: "POST", path: "/evaluate/model1/D".into(), content_type: Some("text/plain"), body: b"1 + 1".to_vec() } },
    Fault { name: "input-of-invalid-utf8", req: Req { method: "POST", path: "/evaluate/model1/D".into(), content_type: Some("text/plain"), body: vec![b'{', 0xff, 0xfe, b'}'] } },
    Fault { name: "tck-without-input", req: post_json("/tck/evaluate", "{\"model\":\"model1\",\"invocable\":\"D\"}".into()) },
    Fault { name: "tck-with-unknown-type", req: post_json("/tck/evaluate", "{\"model\":\"model1\",\"invocable\":\"D\",\"input\":[{\"name\":\"x\",\"value\":{\"simple\":{\"type\":\"xsd:foo\",\"text\":\"1\",\"isNil\":false}}}]}".into()) },
    Fault { name: "tck-with-unparsable-number", req: post_json("/tck/evaluate", "{\"model\":\"model1\",\"invocable\":\"D\",\"input\":[{\"name\":\"x\",\"value\":{\"simple\":{\"type\":\"xsd:decimal\",\"text\":\"12abc\",\"isNil\":false}}}]}".into()) },
    Fault { name: "tck-with-empty-value", req: post_json("/tck/evaluate", "{\"model\":\"model1\",\"invocable\":\"D\",\"input\":[{\"name\":\"x\",\"value\":{}}]}".into()) },
    Fault { name: "wrong-method", req: Req { method: "GET", path: "/definitions/add".into(), content_type: None, body: vec![] } },
    Fault { name: "unknown-path", req: Req { method: "POST", path: "/no/such/endpoint".into(), content_type: None, body: vec![] } },
    Fault { name: "evaluate-path-with-too-few-segments", req: Req { method: "POST", path: "/evaluate/model1".into(), content_type: None, body: vec![] } },
  ];
  // a typed value that cannot be decoded (a number that is none, a type that does not exist, a date that does not exist),
  // not as the input value itself but nested in it: as an item of a list (first, middle, last, only), in a component, in a
  // list in a component, in a list in a list. The request is answered with errors, not evaluated on what is left of the input.
  {
    const NESTED: [&str; 21] = [
      "tck-invalid-number-in-list-only", "tck-invalid-number-in-list-first", "tck-invalid-number-in-list-middle", "tck-invalid-number-in-list-last", "tck-invalid-number-in-component", "tck-invalid-number-in-list-in-component", "tck-invalid-number-in-list-in-list",
      "tck-unknown-type-in-list-only", "tck-unknown-type-in-list-first", "tck-unknown-type-in-list-middle", "tck-unknown-type-in-list-last", "tck-unknown-type-in-component", "tck-unknown-type-in-list-in-component", "tck-unknown-type-in-list-in-list",
      "tck-impossible-date-in-list-only", "tck-impossible-date-in-list-first", "tck-impossible-date-in-list-middle", "tck-impossible-date-in-list-last", "tck-impossible-date-in-component", "tck-impossible-date-in-list-in-component", "tck-impossible-date-in-list-in-list",
    ];
    let good = tck_simple("xsd:decimal", "1");
    let list = |items: Vec<String>| format!("{{\"list\":{{\"items\":[{}],\"isNil\":false}}}}", items.join(","));
    let comp = |value: String| format!("{{\"components\":[{{\"name\":\"k\",\"value\":{},\"isNil\":false}}]}}", value);
    for (b, bad) in [tck_simple("xsd:decimal", "two"), tck_simple("xsd:foo", "1"), tck_simple("xsd:date", "2021-02-30")].iter().enumerate() {
      let shapes = vec![
        list(vec![bad.clone()]),
        list(vec![bad.clone(), good.clone(), good.clone()]),
        list(vec![good.clone(), bad.clone(), good.clone()]),
        list(vec![good.clone(), good.clone(), bad.clone()]),
        comp(bad.clone()),
        comp(list(vec![good.clone(), bad.clone()])),
        list(vec![list(vec![good.clone()]), list(vec![bad.clone(), good.clone()])]),
      ];
      for (k, value) in shapes.into_iter().enumerate() {
        v.push(Fault { name: NESTED[b * 7 + k], req: post_json("/tck/evaluate", format!("{{\"model\":\"model1\",\"invocable\":\"D\",\"input\":[{{\"name\":\"x\",\"value\":{}}}]}}", value)) });
      }
    }
  }
  // failures whose message repeats a long non-ASCII text of the request (three alignments of the multi-byte characters)
  const LONG_NAMES: [&str; 3] = ["unknown-model-with-a-long-non-ascii-name-0", "unknown-model-with-a-long-non-ascii-name-1", "unknown-model-with-a-long-non-ascii-name-2"];
  const LONG_INPUTS: [&str; 3] = ["long-non-ascii-input-that-does-not-parse-0", "long-non-ascii-input-that-does-not-parse-1", "long-non-ascii-input-that-does-not-parse-2"];
  const LONG_TCK: [&str; 3] = ["tck-with-a-long-non-ascii-model-name-0", "tck-with-a-long-non-ascii-model-name-1", "tck-with-a-long-non-ascii-model-name-2"];
  for k in 0..3 {
    let pct = format!("{}{}", "x".repeat(k), "%E6%97%A5%C5%BC".repeat(70));
    v.push(Fault { name: LONG_NAMES[k], req: Req { method: "POST", path: format!("/evaluate/{}/D", pct), content_type: Some("text/plain"), body: b"{}".to_vec() } });
    let text = format!("{}{}", "x".repeat(k), "\u{65E5}\u{17C}".repeat(70));
    v.push(Fault { name: LONG_INPUTS[k], req: Req { method: "POST", path: "/evaluate/model1/D".into(), content_type: Some("text/plain"), body: format!("{{{}: ", text).into_bytes() } });
    v.push(Fault { name: LONG_TCK[k], req: post_json("/tck/evaluate", format!("{{\"model\":\"{}\",\"invocable\":\"D\",\"input\":[]}}", text)) });
  }
  // a body over the JSON limit of 4 MiB
  v.push(Fault { name: "body-over-the-limit", req: post_json("/definitions/add", format!("{{\"content\":\"{}\"}}", "A".repeat(5 * 1024 * 1024))) });
  // an input context over the payload limit of the evaluate endpoint (256 KiB by default)
  v.push(Fault { name: "evaluate-body-over-the-limit", req: Req { method: "POST", path: "/evaluate/model1/D".into(), content_type: Some("text/plain"), body: format!("{{x: \"{}\"}}", "a".repeat(300 * 1024)).into_bytes() } });
  // a model that parses but does not build, and generated models whose mutants used to crash the evaluator (C12)
  v.push(Fault { name: "add-and-deploy-of-a-model-with-cyclic-requirements", req: add(b64(CYCLIC_XML.as_bytes())) });
  v.push(Fault { name: "add-of-a-table-with-a-short-rule", req: add(b64(SHORT_RULE_XML.as_bytes())) });
  v
}

const CYCLIC_XML: &str = r##"<?xml version="1.0" encoding="UTF-8"?>
<definitions namespace="https://verif/cyclic" name="cyclic" id="m" xmlns="https://www.omg.org/spec/DMN/20191111/MODEL/">
  <decision name="P" id="p"><variable name="P"/><informationRequirement><requiredDecision href="#q"/></informationRequirement><literalExpression><text>Q</text></literalExpression></decision>
  <decision name="Q" id="q"><variable name="Q"/><informationRequirement><requiredDecision href="#p"/></informationRequirement><literalExpression><text>P</text></literalExpression></decision>
</definitions>
"##;

const SHORT_RULE_XML: &str = r##"<?xml version="1.0" encoding="UTF-8"?>
<definitions namespace="https://verif/short" name="short" id="m" xmlns="https://www.omg.org/spec/DMN/20191111/MODEL/">
  <inputData name="x" id="x"><variable name="x" typeRef="number"/></inputData>
  <decision name="T" id="t"><variable name="T"/><informationRequirement><requiredInput href="#x"/></informationRequirement>
    <decisionTable hitPolicy="UNIQUE"><input><inputExpression><text>x</text></inputExpression></input><output/>
      <rule><inputEntry><text>1</text></inputEntry></rule>
    </decisionTable>
  </decision>
</definitions>
"##;

/// sends the malformed request; it must be answered with well-formed JSON carrying errors. false = no answer.
fn inject(run: &Run, cnt: &Cnt, port: u16, f: &Fault, trail: &mut Vec<String>, reqs: &mut Vec<serde_json::Value>, w: &mut Workspace) -> bool {
  trail.push(format!("<{}>", f.name));
  // the 5 MiB body is not stored in replays
  if f.req.body.len() < 100_000 {
    reqs.push(req_json(&f.req));
  } else {
    reqs.push(json!({"method": f.req.method, "path": f.req.path, "content_type": f.req.content_type, "body": format!("({} bytes)", f.req.body.len())}));
  }
  cnt.requests.fetch_add(1, Ordering::Relaxed);
  let replay = json!({"engine":"c18","requests":reqs,"expected":"well-formed JSON with errors"});
  match send(port, &f.req) {
    Err(e) => {
      run.violation(&format!("faults:no-answer:{}", f.name), &format!("after {:?} the service does not answer: {}", trail, e), replay);
      false
    }
    Ok(resp) => {
      let what = format!("after {:?}", trail);
      if let Some(res) = envelope(run, &what, &format!("faults:{}", f.name), &resp, &replay) {
        cnt.compared.fetch_add(1, Ordering::Relaxed);
        // the two generated models parse, so the add is a valid operation (the workspace mirrors it); deploying must skip
        // them, evaluating them must be answered with errors, and they are removed again
        if f.name.starts_with("add-") {
          let (ns, name, text) = if f.name.contains("cyclic") { ("https://verif/cyclic", "cyclic", CYCLIC_XML) } else { ("https://verif/short", "short", SHORT_RULE_XML) };
          let added = w.add(dmntk_model::parse(text).expect("generated model parses")).is_ok();
          if res.is_ok() != added {
            run.violation(&format!("faults:{}:add-differs-from-workspace", f.name), &format!("{}: the service answers {:?} but the workspace add gives {}", what, res, added), replay.clone());
          }
          let _ = w.deploy();
          w.remove(ns, name);
          for r in [
            Req { method: "POST", path: "/definitions/deploy".into(), content_type: None, body: vec![] },
            Req { method: "POST", path: format!("/evaluate/{}/P", name), content_type: Some("text/plain"), body: b"{}".to_vec() },
            post_json("/definitions/remove", format!("{{\"namespace\":{},\"name\":{}}}", js_text(ns), js_text(name))),
          ] {
            cnt.requests.fetch_add(1, Ordering::Relaxed);
            reqs.push(req_json(&r));
            let replay = json!({"engine":"c18","requests":reqs,"expected":"well-formed JSON"});
            match send(port, &r) {
              Err(e) => {
                run.violation(&format!("faults:no-answer:{}", f.name), &format!("after {:?} the service does not answer {}: {}", trail, r.path, e), replay);
                return false;
              }
              Ok(resp) => {
                let res = envelope(run, &format!("after {:?}, {}", trail, r.path), &format!("faults:{}", f.name), &resp, &replay);
                if r.path.starts_with("/evaluate/") {
                  if let Some(Ok(d)) = res {
                    run.violation(&format!("faults:{}:model-that-does-not-build-evaluates", f.name), &format!("after {:?} a model that cannot be built evaluates to {}", trail, d.show()), replay);
                  }
                }
              }
            }
          }
          return true;
        }
        // an unknown invocable is a null value at the workspace level (pinned by the repository's tests): data null is accepted
        if res.is_ok() && !(f.name == "unknown-invocable" && res == Ok(Js::Null)) {
          run.violation(&format!("faults:{}:answered-with-data", f.name), &format!("{}: the malformed request is answered with data {:?}", what, res), replay);
        }
      }
      true
    }
  }
}

pub fn run() {
  let run = Run::new("C18");
  let thorough = run.thorough();
  let cnt = Cnt {
    requests: AtomicU64::new(0),
    sequences: AtomicU64::new(0),
    compared: AtomicU64::new(0),
    nontrivial: AtomicU64::new(0),
  };
  family_render(&run, &cnt, thorough);
  // protocol: one server per worker thread
  let nservers = 8;
  let mut servers = vec![];
  for _ in 0..nservers {
    match start_server() {
      Ok(s) => servers.push(Mutex::new(s)),
      Err(e) => run.machinery_error(&e),
    }
  }
  if servers.is_empty() {
    drop(servers);
    run.finish();
  }
  let ops = protocol_alphabet(thorough);
  let depth = if thorough { 4 } else { 3 };
  let mut seqs: Vec<Vec<Op>> = vec![vec![]];
  let mut all: Vec<Vec<Op>> = vec![];
  for d in 1..=depth {
    let mut next = vec![];
    for s in &seqs {
      for op in &ops {
        // quick: the third operation is an observation point only for deploy / replace / add of the colliding models
        if !thorough && d == 3 && !matches!(op, Op::Deploy | Op::Replace(0) | Op::Replace(1) | Op::Add(2) | Op::Remove(1, 1)) {
          continue;
        }
        // thorough: the fourth operation likewise
        if thorough && d == 4 && !matches!(op, Op::Deploy | Op::Replace(0) | Op::Replace(1) | Op::Add(2) | Op::Remove(1, 1)) {
          continue;
        }
        let mut t = s.clone();
        t.push(*op);
        next.push(t);
      }
    }
    all.extend(next.iter().cloned());
    seqs = next;
  }
  let pool = rayon::ThreadPoolBuilder::new().num_threads(servers.len()).build().unwrap();
  pool.install(|| {
    all.par_iter().for_each(|seq| {
      let k = rayon::current_thread_index().unwrap_or(0) % servers.len();
      let guard = servers[k].lock().unwrap();
      run_sequence(&run, &cnt, guard.port, seq, None, false);
    });
  });
  let protocol_sequences = all.len();
  // "clear is the same as a fresh service": every sequence up to length 1 (thorough: 2) on a freshly started service
  let fresh_seqs: Vec<&Vec<Op>> = all.iter().filter(|s| s.len() <= if thorough { 2 } else { 1 }).collect();
  pool.install(|| {
    fresh_seqs.par_iter().for_each(|seq| match start_server() {
      Ok(s) => run_sequence(&run, &cnt, s.port, seq, None, true),
      Err(e) => run.machinery_error(&e),
    });
  });
  run.set("sequences_on_fresh_services", json!(fresh_seqs.len()));
  // faults: every fault at every position of every sequence up to length 2 (thorough) / 1 (quick) + the deploy-evaluate pair
  let fs = faults();
  let mut short: Vec<Vec<Op>> = vec![vec![], vec![Op::Add(0), Op::Deploy]];
  for op in &ops {
    short.push(vec![*op]);
  }
  if thorough {
    for a in &ops {
      for b in &ops {
        short.push(vec![*a, *b]);
      }
    }
  }
  let mut cases: Vec<(usize, usize, usize)> = vec![];
  for (si, s) in short.iter().enumerate() {
    for (fi, _) in fs.iter().enumerate() {
      for at in 0..=s.len() {
        cases.push((si, fi, at));
      }
    }
  }
  pool.install(|| {
    cases.par_iter().for_each(|(si, fi, at)| {
      let k = rayon::current_thread_index().unwrap_or(0) % servers.len();
      let guard = servers[k].lock().unwrap();
      run_sequence(&run, &cnt, guard.port, &short[*si], Some((*at, &fs[*fi])), false);
    });
  });
  // the services are still alive
  for s in &servers {
    let mut g = s.lock().unwrap();
    if let Ok(Some(st)) = g.child.try_wait() {
      run.violation("service-process-ended", &format!("a service process ended during the run: {:?}", st), json!({"engine":"c18","requests":[]}));
    }
  }
  if let Some(seq) = all.get(all.len() / 2) {
    run.sample(json!({"protocol_sequence": seq.iter().map(|o| o.show()).collect::<Vec<_>>()}));
  }
  if let Some((si, fi, at)) = cases.get(cases.len() / 2) {
    run.sample(json!({"fault_case": {"sequence": short[*si].iter().map(|o| o.show()).collect::<Vec<_>>(), "fault": fs[*fi].name, "inserted_at": at}}));
  }
  if let Some(s) = samples(thorough).get(77) {
    run.sample(json!({"echo_value": {"feel": s.feel, "expected_json": s.expected.show(), "class": s.class}}));
  }
  // the service processes are ended before the report is written (finish() leaves the process without unwinding)
  drop(servers);
  let (conc_exec, conc_scen) = family_concurrent(&run, thorough);
  run.set("concurrent_request_scenarios", json!(conc_scen));
  run.set("concurrent_request_interleavings", json!(conc_exec));
  run.set("states", json!(protocol_sequences + cases.len()));
  run.set("transitions", json!(cnt.requests.load(Ordering::Relaxed)));
  run.set("traces_validated_against_impl", json!(cnt.compared.load(Ordering::Relaxed)));
  run.set("evaluations", json!(cnt.requests.load(Ordering::Relaxed)));
  run.set("distinct_nontrivial", json!(cnt.nontrivial.load(Ordering::Relaxed)));
  run.set("rule", json!("responses compared with a prescribed non-error result: echo of every generated value through /evaluate and /tck/evaluate; evaluations of every model name after every request of every protocol sequence (all sequences to depth 3 (thorough 4) over add / replace of the model alphabet, remove of 6 pairs, deploy; the last position is restricted to deploy, replace of the identical-id models, add of the colliding model and remove; the short ones also on freshly started services) and after every malformed request inserted at every position of every short sequence"));
  run.set("exhaustive", json!(true));
  run.set("protocol_sequences", json!(protocol_sequences));
  run.set("fault_cases", json!(cases.len()));
  run.set("malformed_requests", json!(fs.len()));
  run.set("echo_values", json!(samples(thorough).len()));
  run.assume("the lock-step oracle is the real dmntk-workspace driven by the same operations (checked by C17); strict RFC 8259 parser in engines/c18.rs (duplicate member names are rejected); every sequence starts with /definitions/clear");
  run.finish();
}

/// Concurrent requests: the request handlers of the instrumented copy of the server called from two or three threads
/// under loom (harness/loomh/src/srv.rs); every interleaving within the preemption bound must answer like one sequential
/// order of the same requests. Request table: 0 add(A, already stored) 1 add(B) 2 replace(A by A2) 3 remove(A) 4 clear
/// 5 deploy 6 evaluate A {x} 7 tck evaluate A 8 evaluate B 9 evaluate A {y}
pub const CONCURRENT_PLANS_QUICK: &[&str] = &["0/6", "5/6", "4/6/7", "2,5/6,9", "1,5/6,8", "3/6,9", "5/6/7"];
pub const CONCURRENT_PLANS_THOROUGH: &[&str] = &["2,5/6,9/7", "4,0,5/6,9", "1,5,3/8,6", "2,5/2,5/6", "0,5/3,5/6,9"];

fn run_concurrent(root: &str, plan: &str, bound: &str) -> Result<(u64, u64, String), (String, String)> {
  let out = std::process::Command::new(format!("{}/target/loom/release/loomsrv", root))
    .arg(plan)
    .env("TZ", "UTC")
    .env("LOOM_MAX_PREEMPTIONS", bound)
    .env("LOOM_MAX_BRANCHES", "1000000")
    .env("LOOM_MAX_DURATION", "600")
    .env("RUST_BACKTRACE", "0")
    .output()
    .map_err(|e| ("machinery".to_string(), format!("loom harness could not be run: {}", e)))?;
  let stdout = String::from_utf8_lossy(&out.stdout).into_owned();
  let stderr = String::from_utf8_lossy(&out.stderr).into_owned();
  if out.status.success() {
    let num = |key: &str| stdout.lines().find_map(|l| l.strip_prefix(key).and_then(|v| v.trim().parse::<u64>().ok())).unwrap_or(0);
    if num("ELAPSED ") >= 600 {
      return Err(("machinery".to_string(), format!("scenario {} was cut by loom's time cap", plan)));
    }
    return Ok((num("EXECUTIONS "), num("OUTCOMES "), stdout.lines().find(|l| l.starts_with("SEQUENTIAL")).unwrap_or("").to_string()));
  }
  if let Some(why) = crate::engines::c20::loom_artefact(&stderr) {
    return Err(("not-explored".to_string(), why));
  }
  if let Some(l) = stderr.lines().find(|l| l.starts_with("MISMATCH")) {
    let class = if l.contains("after the concurrent requests") { "service-does-not-answer-afterwards" } else { "responses-of-no-sequential-order" };
    return Err((class.to_string(), l.chars().take(900).collect()));
  }
  if let Some(l) = stderr.lines().find(|l| l.contains("deadlock")) {
    return Err(("deadlock".to_string(), l.trim().to_string()));
  }
  if let Some(l) = stderr.lines().find(|l| l.contains("panicked at")) {
    let next = stderr.lines().skip_while(|x| !x.contains("panicked at")).nth(1).unwrap_or("");
    return Err(("panic-in-a-request-handler".to_string(), format!("{} {}", l.trim(), next.trim())));
  }
  Err(("machinery".to_string(), format!("loom harness ended abnormally: {}", stderr.lines().rev().take(4).collect::<Vec<_>>().join(" | "))))
}

fn family_concurrent(run: &Run, thorough: bool) -> (u64, u64) {
  if crate::engines::c20::prepare(run).is_none() {
    return (0, 0);
  }
  let root = crate::report::root();
  let bound = if thorough { "3" } else { "2" };
  let mut plans: Vec<&str> = CONCURRENT_PLANS_QUICK.to_vec();
  if thorough {
    plans.extend(CONCURRENT_PLANS_THOROUGH);
  }
  let results: Vec<(&str, Result<(u64, u64, String), (String, String)>)> = plans.par_iter().map(|p| (*p, run_concurrent(&root, p, bound))).collect();
  let mut executions = 0u64;
  for (plan, r) in &results {
    match r {
      Ok((ex, outcomes, seq)) => {
        executions += ex;
        run.outcome(&format!("concurrent:{}:{}-distinct-response-vectors", plan, outcomes));
        if *plan == "2,5/6,9" {
          run.sample(json!({"concurrent_requests": plan, "preemption_bound": bound, "interleavings": ex, "distinct_response_vectors": outcomes, "sequential": seq}));
        }
      }
      Err((class, detail)) if class == "machinery" => run.machinery_error(detail),
      Err((class, detail)) if class == "not-explored" => println!("NOTE: concurrent requests {} could not be explored - loom cannot model a construct of the instrumented code ({}); this check says nothing about that scenario", plan, detail),
      Err((class, detail)) => run.violation(
        &format!("concurrent-requests:{}", class),
        &format!("requests {} from concurrent clients (preemption bound {}): {}", plan, bound, detail),
        json!({"engine":"c18","kind":"concurrent","plan":plan,"preemption_bound":bound}),
      ),
    }
  }
  (executions, plans.len() as u64)
}

pub fn replay_case(case: &serde_json::Value) -> String {
  if case.get("kind").and_then(|k| k.as_str()) == Some("concurrent") {
    let plan = case.get("plan").and_then(|p| p.as_str()).unwrap_or("0/6");
    let bound = case.get("preemption_bound").and_then(|p| p.as_str()).unwrap_or("2");
    let root = crate::report::root();
    let _ = std::process::Command::new("python3").arg(format!("{}/bin/instr_c20.py", root)).env("VERIF_ROOT", &root).output();
    let _ = std::process::Command::new("cargo").args(["build", "--release", "--offline", "--quiet"]).current_dir(format!("{}/harness/loomh", root)).env_remove("CARGO_TARGET_DIR").output();
    return match run_concurrent(&root, plan, bound) {
      Ok((ex, outcomes, _)) => format!("PASS requests {} hold: {} interleavings, {} distinct response vectors", plan, ex, outcomes),
      Err((class, detail)) if class == "machinery" => format!("MACHINERY {}", detail),
      Err((class, detail)) if class == "not-explored" => format!("PASS requests {} could not be explored ({}): no verdict", plan, detail),
      Err((class, detail)) => format!("FAIL requests {}: {} {}", plan, class, detail),
    };
  }
  let server = match start_server() {
    Ok(s) => s,
    Err(e) => return format!("MACHINERY {}", e),
  };
  if case.get("setup").and_then(|s| s.as_str()) == Some("echo") {
    for r in [
      Req { method: "POST", path: "/definitions/clear".into(), content_type: None, body: vec![] },
      post_json("/definitions/add", format!("{{\"content\":\"{}\"}}", base64::encode(ECHO_XML))),
      Req { method: "POST", path: "/definitions/deploy".into(), content_type: None, body: vec![] },
    ] {
      let _ = send(server.port, &r);
    }
  }
  let mut last = String::from("(no request)");
  let mut verdict: Option<bool> = None;
  let expected = case.get("expected").and_then(|e| e.as_str()).unwrap_or("");
  if let Some(reqs) = case.get("requests").and_then(|r| r.as_array()) {
    let n = reqs.len();
    for (k, r) in reqs.iter().enumerate() {
      let method: &'static str = if r.get("method").and_then(|m| m.as_str()) == Some("GET") { "GET" } else { "POST" };
      let ct: Option<&'static str> = match r.get("content_type").and_then(|m| m.as_str()) {
        Some("application/json") => Some("application/json"),
        Some("text/plain") => Some("text/plain"),
        _ => None,
      };
      let body = r.get("body_base64").and_then(|b| b.as_str()).and_then(|b| base64::decode(b).ok()).unwrap_or_default();
      let req = Req { method, path: r.get("path").and_then(|p| p.as_str()).unwrap_or("/").to_string(), content_type: ct, body };
      // "repeat": how often each request is sent (to reach every worker of the service); every answer to the last one is judged
      let times = case.get("repeat").and_then(|x| x.as_array()).and_then(|a| a.get(k)).and_then(|x| x.as_u64()).unwrap_or(1);
      for _ in 0..times {
      if verdict == Some(false) {
        break;
      }
      match send(server.port, &req) {
        Ok(resp) => {
          last = format!("{} {} -> {} {}", req.method, req.path, resp.status, String::from_utf8_lossy(&resp.body).chars().take(300).collect::<String>());
          if k + 1 == n {
            // the last exchange is judged the way the engine judged it
            verdict = Some(match parse_json(&resp.body) {
              Err(_) => false,
              Ok(doc) => {
                let data = doc.get("data").cloned();
                let has_errors = matches!(doc.get("errors"), Some(Js::Arr(es)) if !es.is_empty());
                if expected.starts_with("well-formed JSON with errors") {
                  has_errors || (req.path.contains("NoSuchInvocable") && data == Some(Js::Null))
                } else if expected.starts_with("well-formed") || expected.is_empty() {
                  data.is_some() || has_errors
                } else if expected == "data" {
                  data.is_some()
                } else if expected == "errors" {
                  has_errors
                } else if req.path.starts_with("/tck/") {
                  match (data.as_ref().and_then(|d| tck_decode(d).ok()), parse_json(expected.as_bytes())) {
                    (Some(got), Ok(want)) => got.same(&want),
                    _ => false,
                  }
                } else if req.path.starts_with("/evaluate/echo/") {
                  match (data, parse_json(expected.as_bytes())) {
                    (Some(got), Ok(want)) => got.same(&want),
                    _ => false,
                  }
                } else if req.path.starts_with("/evaluate/") {
                  // expected is the Debug rendering of Option<String>: None, or Some("\"content 1\"")
                  let got = match data {
                    Some(Js::Str(s)) => Some(format!("\"{}\"", s)),
                    Some(other) => Some(other.show()),
                    None => None,
                  };
                  format!("{:?}", got) == expected
                } else {
                  data.is_some() || has_errors
                }
              }
            });
          }
        }
        Err(e) => {
          last = format!("{} {} -> no answer: {}", req.method, req.path, e);
          if k + 1 == n {
            verdict = Some(false);
          }
        }
      }
      }
    }
  }
  match verdict {
    Some(true) | None => format!("PASS {}", last),
    Some(false) => format!("FAIL {} (prescribed: {})", last, expected),
  }
}
