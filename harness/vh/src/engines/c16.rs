//! C16 — type conformance is a preorder and coercion yields a conforming value or null.

use crate::report::Run;
use crate::term::Ty;
use dmntk_feel::values::Value;
use dmntk_feel::{FeelType, Scope};
use rayon::prelude::*;
use serde_json::json;
use std::collections::BTreeSet;
use std::sync::atomic::{AtomicU64, Ordering};

pub fn simple() -> Vec<Ty> {
  vec![Ty::Any, Ty::Null, Ty::Boolean, Ty::Number, Ty::String, Ty::Date, Ty::Time, Ty::DateTime, Ty::Dtd, Ty::Ymd]
}

/// Reference equivalence.
pub fn equivalent(a: &Ty, b: &Ty) -> bool {
  match (a, b) {
    (Ty::List(x), Ty::List(y)) | (Ty::Range(x), Ty::Range(y)) => equivalent(x, y),
    (Ty::Context(x), Ty::Context(y)) => x.len() == y.len() && x.iter().all(|(k, t)| y.iter().any(|(k2, t2)| k == k2 && equivalent(t, t2))),
    (Ty::Function(p1, r1), Ty::Function(p2, r2)) => p1.len() == p2.len() && p1.iter().zip(p2.iter()).all(|(x, y)| equivalent(x, y)) && equivalent(r1, r2),
    (Ty::List(_), _) | (_, Ty::List(_)) | (Ty::Range(_), _) | (_, Ty::Range(_)) | (Ty::Context(_), _) | (_, Ty::Context(_)) | (Ty::Function(..), _) | (_, Ty::Function(..)) => false,
    (x, y) => x == y,
  }
}

/// Reference conformance: `a` conforms to `b`.
pub fn conforms(a: &Ty, b: &Ty) -> bool {
  if equivalent(a, b) || *a == Ty::Null || *b == Ty::Any {
    return true;
  }
  match (a, b) {
    (Ty::List(x), Ty::List(y)) | (Ty::Range(x), Ty::Range(y)) => conforms(x, y),
    (Ty::Context(x), Ty::Context(y)) => y.iter().all(|(k, t)| x.iter().any(|(k2, t2)| k == k2 && conforms(t2, t))),
    (Ty::Function(p1, r1), Ty::Function(p2, r2)) => p1.len() == p2.len() && p1.iter().zip(p2.iter()).all(|(x, y)| conforms(y, x)) && conforms(r1, r2),
    _ => false,
  }
}

fn contexts_over(types: &[Ty]) -> Vec<Ty> {
  let mut out = vec![Ty::Context(vec![])];
  for t in types {
    out.push(Ty::Context(vec![("a".into(), t.clone())]));
    out.push(Ty::Context(vec![("b".into(), t.clone())]));
  }
  for t in types {
    for u in types {
      out.push(Ty::Context(vec![("a".into(), t.clone()), ("b".into(), u.clone())]));
    }
  }
  out
}

fn functions_over(types: &[Ty], two_params: bool) -> Vec<Ty> {
  let mut out = vec![];
  for r in types {
    out.push(Ty::Function(vec![], Box::new(r.clone())));
    for p in types {
      out.push(Ty::Function(vec![p.clone()], Box::new(r.clone())));
      if two_params {
        for q in types {
          out.push(Ty::Function(vec![p.clone(), q.clone()], Box::new(r.clone())));
        }
      }
    }
  }
  out
}

/// Depth-1 universe: every constructor over the ten simple types.
pub fn depth1() -> Vec<Ty> {
  let s = simple();
  let mut out = s.clone();
  for t in &s {
    out.push(Ty::List(Box::new(t.clone())));
    out.push(Ty::Range(Box::new(t.clone())));
  }
  out.extend(contexts_over(&s));
  out.extend(functions_over(&s, true));
  out
}

/// A core of types used as components of the depth-2 universe and for the triples.
pub fn core(n_simple: usize) -> Vec<Ty> {
  let s: Vec<Ty> = simple().into_iter().take(n_simple).collect();
  let mut out = s.clone();
  let num = Ty::Number;
  let st = Ty::String;
  out.extend(vec![
    Ty::List(Box::new(num.clone())),
    Ty::List(Box::new(Ty::Any)),
    Ty::List(Box::new(Ty::Null)),
    Ty::List(Box::new(st.clone())),
    Ty::Range(Box::new(num.clone())),
    Ty::Range(Box::new(Ty::Any)),
    Ty::Context(vec![]),
    Ty::Context(vec![("a".into(), num.clone())]),
    Ty::Context(vec![("a".into(), Ty::Any)]),
    Ty::Context(vec![("a".into(), num.clone()), ("b".into(), st.clone())]),
    Ty::Context(vec![("b".into(), st.clone())]),
    Ty::Function(vec![], Box::new(num.clone())),
    Ty::Function(vec![], Box::new(st.clone())),
    Ty::Function(vec![], Box::new(Ty::Any)),
    Ty::Function(vec![num.clone()], Box::new(num.clone())),
    Ty::Function(vec![Ty::Any], Box::new(num.clone())),
    Ty::Function(vec![num.clone()], Box::new(Ty::Any)),
    Ty::Function(vec![Ty::Null], Box::new(num.clone())),
    Ty::Function(vec![num.clone(), st.clone()], Box::new(Ty::Boolean)),
    Ty::Function(vec![num.clone(), num.clone()], Box::new(num.clone())),
  ]);
  out
}

pub fn depth2(thorough: bool) -> Vec<Ty> {
  let c = core(if thorough { 10 } else { 5 });
  let mut out = vec![];
  for t in &c {
    out.push(Ty::List(Box::new(t.clone())));
    out.push(Ty::Range(Box::new(t.clone())));
    out.push(Ty::Context(vec![("a".into(), t.clone())]));
    out.push(Ty::Function(vec![], Box::new(t.clone())));
    for u in &c {
      out.push(Ty::Context(vec![("a".into(), t.clone()), ("b".into(), u.clone())]));
      out.push(Ty::Function(vec![t.clone()], Box::new(u.clone())));
      out.push(Ty::Function(vec![t.clone(), Ty::Number], Box::new(u.clone())));
    }
  }
  out
}

fn shape(t: &Ty) -> &'static str {
  match t {
    Ty::List(_) => "list",
    Ty::Range(_) => "range",
    Ty::Context(_) => "context",
    Ty::Function(p, _) => match p.len() {
      0 => "function/0",
      1 => "function/1",
      _ => "function/2",
    },
    Ty::Any => "Any",
    Ty::Null => "Null",
    _ => "simple",
  }
}

fn eval_value(text: &str) -> Value {
  let names: BTreeSet<String> = ["p", "q"].iter().map(|s| s.to_string()).collect();
  let ps = crate::rval::parse_scope_of(&names);
  match dmntk_feel_parser::parse_expression(&ps, text, false) {
    Ok(n) => dmntk_feel_evaluator::evaluate(&Scope::default(), &n).unwrap_or(Value::Null(None)),
    Err(_) => Value::Null(None),
  }
}

pub fn value_alphabet() -> Vec<(&'static str, Value)> {
  [
    "null",
    "true",
    "1",
    "\"a\"",
    "date(\"2020-01-01\")",
    "time(\"10:00:00Z\")",
    "date and time(\"2020-01-01T10:00:00Z\")",
    "duration(\"P1D\")",
    "duration(\"P1Y\")",
    "[]",
    "[1]",
    "[1, 2]",
    "[\"a\"]",
    "[1, \"a\"]",
    "[null]",
    "[1, null]",
    "[null, 1]",
    "[null, \"a\"]",
    "[[], [1, 2]]",
    "[{a: 1, b: 2}, {a: 1}]",
    "[[1, null]]",
    "{a: [null, 2]}",
    "{a: [1, \"a\"]}",
    "[{a: 1}, {a: null}]",
    "[{a: 1}, {a: 2, b: 3}]",
    "[[1]]",
    "[[1], [2]]",
    // neighbouring items that report one and the same type (a list with a null item is a list of anything) and differ
    "[[1, null], [\"a\", null]]",
    "[[\"a\", null], [1, null]]",
    "[[1, null], [1, null], [\"a\", null]]",
    "[{a: [1, null]}, {a: [\"a\", null]}]",
    "[[1, \"a\"], [1, null]]",
    "[1, 1, \"a\", \"a\"]",
    "[true]",
    "[{a: 1}]",
    "{}",
    "{a: 1}",
    "{a: \"x\"}",
    "{a: 1, b: \"x\"}",
    "{a: {b: 1}}",
    "{b: \"x\"}",
    "[1..2]",
    "[\"a\"..\"b\"]",
    "function() 1",
    "function(p) p",
    "function(p: number) p",
    "function(p: number, q: string) p",
    "[function(p: number) p]",
  ]
  .iter()
  .map(|t| (*t, eval_value(t)))
  .collect()
}

/// Conformance of a value to a type, decided on the value itself: a list conforms to list<T> when every item conforms to T
/// (its items need not share one type), a context conforms to context<k: T> when it has the entry and the entry conforms.
fn value_conforms(v: &Value, t: &Ty) -> bool {
  if matches!(v, Value::Null(_)) || *t == Ty::Any {
    return true;
  }
  match (v, t) {
    (Value::List(items), Ty::List(inner)) => items.as_vec().iter().all(|i| value_conforms(i, inner)),
    (Value::Context(ctx), Ty::Context(entries)) => entries.iter().all(|(k, et)| ctx.get_entry(&dmntk_feel::Name::from(k.as_str())).map(|e| value_conforms(e, et)).unwrap_or(false)),
    _ => conforms(&ty_of(&v.type_of()), t),
  }
}

/// Maps a FeelType back to Ty (for the reference relation on Value::type_of).
fn ty_of(t: &FeelType) -> Ty {
  match t {
    FeelType::Any => Ty::Any,
    FeelType::Null => Ty::Null,
    FeelType::Boolean => Ty::Boolean,
    FeelType::Number => Ty::Number,
    FeelType::String => Ty::String,
    FeelType::Date => Ty::Date,
    FeelType::Time => Ty::Time,
    FeelType::DateTime => Ty::DateTime,
    FeelType::DaysAndTimeDuration => Ty::Dtd,
    FeelType::YearsAndMonthsDuration => Ty::Ymd,
    FeelType::List(x) => Ty::List(Box::new(ty_of(x))),
    FeelType::Range(x) => Ty::Range(Box::new(ty_of(x))),
    FeelType::Context(es) => Ty::Context(es.iter().map(|(k, v)| (k.to_string(), ty_of(v))).collect()),
    FeelType::Function(ps, r) => Ty::Function(ps.iter().map(ty_of).collect(), Box::new(ty_of(r))),
  }
}

pub fn run() {
  let run = Run::new("C16");
  let thorough = run.thorough();
  let pairs_checked = AtomicU64::new(0);
  let triples_checked = AtomicU64::new(0);
  let coercions = AtomicU64::new(0);
  let calls = AtomicU64::new(0);
  let mut universe = depth1();
  universe.extend(depth2(thorough));
  universe.sort();
  universe.dedup();
  let feel: Vec<FeelType> = universe.iter().map(|t| t.feel()).collect();
  let n = universe.len();
  // all ordered pairs
  (0..n).into_par_iter().for_each(|i| {
    let (a, fa) = (&universe[i], &feel[i]);
    // reflexivity and the bounds
    if !fa.is_equivalent(fa) || !fa.is_conformant(fa) {
      run.violation(&format!("reflexive:{}", shape(a)), &format!("{} is not equivalent / conformant to itself", a.text()), json!({"engine":"c16","a":a.text()}));
    }
    if !fa.is_conformant(&FeelType::Any) {
      run.violation(&format!("conforms-to-Any:{}", shape(a)), &format!("{} does not conform to Any", a.text()), json!({"engine":"c16","a":a.text()}));
    }
    if !FeelType::Null.is_conformant(fa) {
      run.violation(&format!("Null-conforms:{}", shape(a)), &format!("Null does not conform to {}", a.text()), json!({"engine":"c16","a":a.text()}));
    }
    for j in 0..n {
      let (b, fb) = (&universe[j], &feel[j]);
      let eq_ab = fa.is_equivalent(fb);
      let eq_ba = fb.is_equivalent(fa);
      let c_ab = fa.is_conformant(fb);
      let c_ba = fb.is_conformant(fa);
      calls.fetch_add(4, Ordering::Relaxed);
      pairs_checked.fetch_add(1, Ordering::Relaxed);
      let case = || json!({"engine":"c16","a":a.text(),"b":b.text()});
      let sh = format!("{},{}", shape(a), shape(b));
      if eq_ab != eq_ba {
        run.violation(&format!("equivalence-symmetric:{}", sh), &format!("{} ~ {} is {} but the converse is {}", a.text(), b.text(), eq_ab, eq_ba), case());
      }
      if eq_ab && !(c_ab && c_ba) {
        run.violation(&format!("equivalent-but-not-conformant:{}", sh), &format!("{} ~ {} but they do not conform to each other", a.text(), b.text()), case());
      }
      let r_eq = equivalent(a, b);
      let r_c = conforms(a, b);
      if eq_ab != r_eq {
        run.violation(
          &format!("equivalence:{}:{}", sh, if eq_ab { "holds-but-should-not" } else { "should-hold" }),
          &format!("is_equivalent({}, {}) is {} but the reference relation gives {}", a.text(), b.text(), eq_ab, r_eq),
          case(),
        );
      }
      if c_ab != r_c {
        run.violation(
          &format!("conformance:{}:{}", sh, if c_ab { "holds-but-should-not" } else { "should-hold" }),
          &format!("is_conformant({} to {}) is {} but the reference relation gives {}", a.text(), b.text(), c_ab, r_c),
          case(),
        );
      }
    }
  });
  // all ordered triples of the core: transitivity
  let tcore: Vec<Ty> = {
    let mut c = core(10);
    if thorough {
      let extra: Vec<Ty> = depth1().into_iter().filter(|t| !c.contains(t)).step_by(5).collect();
      c.extend(extra);
    } else {
      let extra: Vec<Ty> = depth1().into_iter().filter(|t| !c.contains(t)).step_by(16).collect();
      c.extend(extra);
    }
    c
  };
  let tfeel: Vec<FeelType> = tcore.iter().map(|t| t.feel()).collect();
  let m = tcore.len();
  // relation matrices once, then pure index arithmetic
  let conf: Vec<Vec<bool>> = (0..m).into_par_iter().map(|i| (0..m).map(|j| tfeel[i].is_conformant(&tfeel[j])).collect()).collect();
  let equi: Vec<Vec<bool>> = (0..m).into_par_iter().map(|i| (0..m).map(|j| tfeel[i].is_equivalent(&tfeel[j])).collect()).collect();
  (0..m).into_par_iter().for_each(|i| {
    for j in 0..m {
      for k in 0..m {
        triples_checked.fetch_add(1, Ordering::Relaxed);
        if conf[i][j] && conf[j][k] && !conf[i][k] {
          run.violation(
            &format!("conformance-transitive:{},{},{}", shape(&tcore[i]), shape(&tcore[j]), shape(&tcore[k])),
            &format!("{} conforms to {} and that to {}, but {} does not conform to {}", tcore[i].text(), tcore[j].text(), tcore[k].text(), tcore[i].text(), tcore[k].text()),
            json!({"engine":"c16","a":tcore[i].text(),"b":tcore[j].text(),"c":tcore[k].text()}),
          );
        }
        if equi[i][j] && equi[j][k] && !equi[i][k] {
          run.violation(
            &format!("equivalence-transitive:{},{},{}", shape(&tcore[i]), shape(&tcore[j]), shape(&tcore[k])),
            &format!("{} ~ {} ~ {} but {} is not equivalent to {}", tcore[i].text(), tcore[j].text(), tcore[k].text(), tcore[i].text(), tcore[k].text()),
            json!({"engine":"c16","a":tcore[i].text(),"b":tcore[j].text(),"c":tcore[k].text()}),
          );
        }
      }
    }
  });
  // coercion: every target type of the core x every value
  let vals = value_alphabet();
  let targets: Vec<Ty> = {
    let mut t = core(10);
    t.extend(vec![
      Ty::List(Box::new(Ty::List(Box::new(Ty::Number)))),
      Ty::List(Box::new(Ty::Boolean)),
      Ty::List(Box::new(Ty::Context(vec![("a".into(), Ty::Number)]))),
      Ty::List(Box::new(Ty::Context(vec![("a".into(), Ty::List(Box::new(Ty::Number)))]))),
      Ty::Context(vec![("a".into(), Ty::List(Box::new(Ty::Number)))]),
      Ty::List(Box::new(Ty::List(Box::new(Ty::Any)))),
      Ty::Context(vec![("a".into(), Ty::Context(vec![("b".into(), Ty::Number)]))]),
      Ty::Range(Box::new(Ty::String)),
      Ty::List(Box::new(Ty::Function(vec![Ty::Number], Box::new(Ty::Any)))),
    ]);
    t
  };
  for target in &targets {
    let ft = target.feel();
    for (vt, v) in &vals {
      coercions.fetch_add(1, Ordering::Relaxed);
      let got = ft.coerced(v);
      // reference: the value itself, a singleton wrap, a singleton unwrap, or null - conformance decided on the value
      // (a list type as target is no exception: the wrap is tried when the value conforms to the item type, the unwrap when
      // the only item of the value conforms to the target)
      let wrap_conforms = matches!(target, Ty::List(inner) if value_conforms(v, inner));
      let unwrapped: Option<Value> = match v {
        Value::List(items) if items.len() == 1 && value_conforms(&items.as_vec()[0], target) => Some(items.as_vec()[0].clone()),
        _ => None,
      };
      let expected: Value = if value_conforms(v, target) {
        v.clone()
      } else if wrap_conforms {
        Value::List(dmntk_feel::values::Values::new(vec![v.clone()]))
      } else if let Some(u) = unwrapped {
        u
      } else {
        Value::Null(None)
      };
      let case = json!({"engine":"c16","target":target.text(),"value":vt});
      if got.to_string() != expected.to_string() {
        run.violation(
          &format!("coercion:{}:{}", shape(target), crate::rval::class_of_value(v)),
          &format!("coercing {} to {} gives {} but should give {}", vt, target.text(), got, expected),
          case.clone(),
        );
      }
      // the statement as written: a value whose type conforms to the target is returned as it is
      if v.type_of().is_conformant(&ft) && got.to_string() != v.to_string() {
        run.violation(
          &format!("coercion-of-a-value-whose-type-conforms:{}:{}", shape(target), crate::rval::class_of_value(v)),
          &format!("the type {} of {} conforms to {}, but coercing the value to that type gives {} instead of the value itself", v.type_of(), vt, target.text(), got),
          case.clone(),
        );
      }
      if !matches!(got, Value::Null(_)) && !value_conforms(&got, target) {
        run.violation(
          &format!("coercion-result-not-conformant:{}:{}", shape(target), crate::rval::class_of_value(v)),
          &format!("coercing {} to {} gives {}, whose type {} does not conform to the target", vt, target.text(), got, got.type_of()),
          case.clone(),
        );
      }
      // the same coercion applied to the result of a function whose declared result type is the target (function values
      // with a declared result type come from knowledge models and boxed functions; built here through the API)
      {
        let body_value = v.clone();
        let body = dmntk_feel::FunctionBody::LiteralExpression(std::sync::Arc::new(Box::new(move |_: &Scope| body_value.clone())));
        let mut c = dmntk_feel::context::FeelContext::default();
        c.set_entry(&dmntk_feel::Name::from("f"), Value::FunctionDefinition(vec![(dmntk_feel::Name::from("p"), dmntk_feel::FeelType::Any)], body, ft.clone()));
        let scope = Scope::from(c);
        for (form, text) in [("positional", "f(1)"), ("named", "f(p: 1)")] {
          if let Ok(node) = dmntk_feel_parser::parse_expression(&scope, text, false) {
            if let Ok(via) = dmntk_feel_evaluator::evaluate(&scope, &node) {
              coercions.fetch_add(1, Ordering::Relaxed);
              if via.to_string() != got.to_string() && !(matches!(via, Value::Null(_)) && matches!(got, Value::Null(_))) {
                run.violation(
                  &format!("coercion-of-a-function-result:{}:{}:{}", form, shape(target), crate::rval::class_of_value(v)),
                  &format!("a function with the declared result type {} whose body yields {} returns {} when invoked, but coercing that value to the type gives {}", target.text(), vt, via, got),
                  json!({"engine":"c16","target":target.text(),"value":vt,"through":"function-result"}),
                );
              }
            }
          }
        }
      }
      let again = ft.coerced(&got);
      if again.to_string() != got.to_string() {
        run.violation(
          &format!("coercion-not-idempotent:{}:{}", shape(target), crate::rval::class_of_value(v)),
          &format!("coercing {} to {} gives {}, coercing that again gives {}", vt, target.text(), got, again),
          case.clone(),
        );
      }
      // the same through a FEEL invocation of a function with a typed parameter
      // (the empty context type has no textual form; function values are covered through coerced() only)
      if !vt.contains("function") && !target.text().contains("context<>") {
        let text = format!("(function(p: {}) p)({})", target.text(), vt);
        let via = eval_value(&text);
        if via.to_string() != got.to_string() {
          run.violation(
            &format!("coercion-through-invocation:{}:{}", shape(target), crate::rval::class_of_value(v)),
            &format!("`{}` evaluates to {} but coerced() gives {}", text, via, got),
            json!({"engine":"c16","text":text}),
          );
        }
        // named arguments, the typed parameter second and a parameter of another type first, the arguments in the
        // declared and in the other order; positional with the typed parameter in the second place: every argument is
        // converted to the type of the parameter it is bound to
        let other = if target.text() == "boolean" { "number" } else { "boolean" };
        let other_value = if other == "boolean" { "true" } else { "1" };
        for (form, text) in [
          ("named-in-declared-order", format!("(function(o: {}, p: {}) [o, p])(o: {}, p: {})", other, target.text(), other_value, vt)),
          ("named-in-the-other-order", format!("(function(o: {}, p: {}) [o, p])(p: {}, o: {})", other, target.text(), vt, other_value)),
          ("positional-second-parameter", format!("(function(o: {}, p: {}) [o, p])({}, {})", other, target.text(), other_value, vt)),
          // a parameter without a type next to the typed one, before and after it, positional and named
          ("positional-after-an-untyped-parameter", format!("(function(o, p: {}) [o, p])({}, {})", target.text(), other_value, vt)),
          ("positional-before-an-untyped-parameter", format!("(function(p: {}, o) [o, p])({}, {})", target.text(), vt, other_value)),
          ("named-next-to-an-untyped-parameter", format!("(function(o, p: {}) [o, p])(p: {}, o: {})", target.text(), vt, other_value)),
          ("positional-next-to-a-parameter-typed-Any", format!("(function(o: Any, p: {}) [o, p])({}, {})", target.text(), other_value, vt)),
        ] {
          let via = eval_value(&text);
          let want = format!("[{}, {}]", other_value, got);
          if via.to_string() != want {
            run.violation(
              &format!("coercion-through-invocation:{}:{}:{}", form, shape(target), crate::rval::class_of_value(v)),
              &format!("`{}` evaluates to {} but each argument converted to its own parameter's type gives {}", text, via, want),
              json!({"engine":"c16","text":text}),
            );
          }
        }
      }
    }
  }
  run.sample(json!({"pair":["function<>->number","function<>->string"],"laws":["not equivalent: result types differ whatever the number of parameters"]}));
  run.sample(json!({"triple":["list<Null>","list<number>","list<Any>"],"law":"conformance is transitive"}));
  run.sample(json!({"coercion":{"target":"list<number>","value":"1","expected":"[1]"}}));
  run.set("states", json!(n as u64 * n as u64 + (m * m * m) as u64));
  run.set("transitions", json!(calls.load(Ordering::Relaxed) + (2 * m * m) as u64 + coercions.load(Ordering::Relaxed) * 3));
  run.set("traces_validated_against_impl", json!(pairs_checked.load(Ordering::Relaxed) + coercions.load(Ordering::Relaxed)));
  run.set("evaluations", json!(calls.load(Ordering::Relaxed) + coercions.load(Ordering::Relaxed) * 3));
  run.set("distinct_nontrivial", json!(pairs_checked.load(Ordering::Relaxed) + triples_checked.load(Ordering::Relaxed)));
  run.set("rule", json!("every ordered pair of the type universe (laws + agreement with the reference relations), every ordered triple of the triple core (transitivity), every (target type, value) coercion"));
  run.set("exhaustive", json!(true));
  run.set("type_universe", json!(n));
  run.set("triple_core", json!(m));
  run.set("pairs", json!(pairs_checked.load(Ordering::Relaxed)));
  run.set("triples", json!(triples_checked.load(Ordering::Relaxed)));
  run.set("coercions", json!(coercions.load(Ordering::Relaxed)));
  run.assume("reference relations: 25 lines in engines/c16.rs (structural equivalence; conformance covariant in element, entry and result types, contravariant in parameter types, arity and result significant for every arity)");
  run.finish();
}
