//! C10 — names with spaces and symbols resolve to their bound value (longest match).
//!
//! Oracle: renaming invariance. A text is generated from a template whose holes are filled with
//! spellings of bound names. A small reference tokeniser (longest-match rule, no lexer code) replaces
//! every occurrence of a bound name by the literal of its value (or, for binder names, by a fresh
//! single-word name); the implementation must give the same value for both texts.

use crate::report::Run;
use crate::rval::show_value;
use dmntk_feel::context::FeelContext;
use dmntk_feel::values::Value;
use dmntk_feel::{FeelNumber, Name, Scope};
use rayon::prelude::*;
use serde_json::json;
use std::collections::{BTreeMap, BTreeSet};
use std::sync::atomic::{AtomicU64, Ordering};

const SYMBOLS: &[char] = &['.', '/', '-', '\'', '+', '*'];
const KEYWORDS: &[&str] = &["if", "then", "else", "for", "in", "return", "some", "every", "satisfies", "and", "or", "between", "instance", "of", "true", "false", "null", "function", "not"];

/// A name as a list of parts: words and single-character symbols.
#[derive(Clone, Debug, PartialEq, Eq, PartialOrd, Ord, Hash)]
pub struct NameParts(pub Vec<String>);

impl NameParts {
  pub fn words(ws: &[&str]) -> Self {
    NameParts(ws.iter().map(|s| s.to_string()).collect())
  }
  pub fn joined(a: &str, sym: char, b: &str) -> Self {
    NameParts(vec![a.to_string(), sym.to_string(), b.to_string()])
  }
  /// normal form: words separated by one space, no spaces around symbols
  pub fn normal(&self) -> String {
    normal_of(&self.0)
  }
  /// spellings: normal form, and with spaces around every symbol
  pub fn spellings(&self) -> Vec<String> {
    let n = self.normal();
    let mut out = vec![n.clone()];
    if self.0.iter().any(|p| is_symbol_part(p)) {
      let spaced = self.0.join(" ");
      if spaced != n {
        out.push(spaced);
      }
    }
    if self.0.len() > 1 && !self.0.iter().any(|p| is_symbol_part(p)) {
      out.push(self.0.join("   "));
    }
    out
  }
}

fn is_symbol_part(p: &str) -> bool {
  p.chars().count() == 1 && SYMBOLS.contains(&p.chars().next().unwrap())
}

fn normal_of(parts: &[String]) -> String {
  let mut out = String::new();
  let mut prev_sym = true;
  for (i, p) in parts.iter().enumerate() {
    let sym = is_symbol_part(p);
    if i > 0 && !prev_sym && !sym {
      out.push(' ');
    }
    out.push_str(p);
    prev_sym = sym;
  }
  out
}

fn is_word_char(c: char) -> bool {
  c.is_alphanumeric() || c == '_' || c == '?'
}

/// Reference tokeniser: replaces every occurrence of a bound name (longest match over words and
/// additional symbols) by `subst[name]`; everything else is copied.
pub fn substitute(text: &str, subst: &BTreeMap<String, String>) -> String {
  let chars: Vec<char> = text.chars().collect();
  let mut out = String::new();
  let mut i = 0;
  while i < chars.len() {
    let c = chars[i];
    if c.is_alphabetic() || c == '_' || c == '?' {
      // keyword at token start?
      let mut j = i;
      while j < chars.len() && is_word_char(chars[j]) {
        j += 1;
      }
      let word: String = chars[i..j].iter().collect();
      let after = chars.get(j).copied();
      let kw = KEYWORDS.contains(&word.as_str()) && (after.map(|a| a.is_whitespace()).unwrap_or(true) || (word == "function" && after == Some('(')) || matches!(word.as_str(), "true" | "false" | "null"));
      if kw {
        out.push_str(&word);
        i = j;
        continue;
      }
      // collect the run of parts with the end position of each part
      let mut parts: Vec<String> = vec![];
      let mut ends: Vec<usize> = vec![];
      let mut k = i;
      loop {
        // skip spaces
        let mut s = k;
        while s < chars.len() && chars[s].is_whitespace() {
          s += 1;
        }
        if s >= chars.len() {
          break;
        }
        if is_word_char(chars[s]) {
          let mut e = s;
          while e < chars.len() && is_word_char(chars[e]) {
            e += 1;
          }
          parts.push(chars[s..e].iter().collect());
          ends.push(e);
          k = e;
        } else if SYMBOLS.contains(&chars[s]) {
          parts.push(chars[s].to_string());
          ends.push(s + 1);
          k = s + 1;
        } else {
          break;
        }
      }
      // longest bound prefix
      let mut matched = None;
      for n in (1..=parts.len()).rev() {
        let cand = normal_of(&parts[..n]);
        if let Some(rep) = subst.get(&cand) {
          matched = Some((ends[n - 1], rep.clone()));
          break;
        }
      }
      match matched {
        Some((end, rep)) => {
          out.push_str(&rep);
          i = end;
        }
        None => {
          out.push_str(&word);
          i = j;
        }
      }
    } else if c.is_ascii_digit() {
      // a numeral: copied as a whole so that its digits never start a name
      let mut j = i;
      while j < chars.len() && (chars[j].is_ascii_digit() || (chars[j] == '.' && j + 1 < chars.len() && chars[j + 1].is_ascii_digit())) {
        j += 1;
      }
      out.extend(chars[i..j].iter());
      i = j;
    } else {
      out.push(c);
      i += 1;
    }
  }
  out
}

pub fn catalogue(thorough: bool) -> Vec<NameParts> {
  let words = ["a", "b", "ab", "x1", "é", "foo"];
  let mut out: Vec<NameParts> = words.iter().map(|w| NameParts::words(&[w])).collect();
  let pairs: Vec<(&str, &str)> = if thorough {
    let mut v = vec![];
    for a in words {
      for b in words {
        v.push((a, b));
      }
    }
    v
  } else {
    vec![("a", "b"), ("b", "a"), ("a", "a"), ("ab", "a"), ("a", "ab"), ("foo", "x1"), ("é", "a"), ("x1", "é")]
  };
  for (a, b) in &pairs {
    out.push(NameParts::words(&[a, b]));
  }
  for (a, b) in [("a", "b"), ("b", "a"), ("ab", "x1"), ("é", "foo")] {
    for s in SYMBOLS {
      out.push(NameParts::joined(a, *s, b));
    }
  }
  out.push(NameParts::words(&["a", "b", "ab"]));
  out.push(NameParts::words(&["foo", "a", "b"]));
  out.push(NameParts(vec!["a".into(), "-".into(), "b".into(), "c1".into()]));
  out.push(NameParts(vec!["a".into(), "b".into(), "/".into(), "ab".into()]));
  if thorough {
    out.push(NameParts::words(&["a", "b", "ab", "x1"]));
    out.push(NameParts(vec!["é".into(), "'".into(), "é".into(), "+".into(), "x1".into()]));
    out.push(NameParts::words(&["é", "x1", "foo"]));
  }
  out.sort();
  out.dedup();
  out
}

/// Templates: `N` (and `M`) are holes for names bound to numbers.
pub fn number_templates() -> Vec<&'static str> {
  vec![
    "N",
    "N + 1",
    "1 + N",
    "N * 2",
    "2 * N",
    "N - 1",
    "10 - N",
    "N / 1",
    "12 / N",
    "N ** 2",
    "-N",
    "(N)",
    "N = 3",
    "3 = N",
    "N < 100",
    "N between 0 and 1000",
    "5 between 0 and N",
    "N in [1..1000]",
    "N in (1, 2, N)",
    "2 in (1, N)",
    "abs(N)",
    "max(N, 1)",
    "sum([N, 1])",
    "(function(p) p + 1)(N)",
    "(function(p, q) p - q)(q: 1, p: N)",
    "if N > 0 then N else 0",
    "if true then 1 else N",
    "if false then 1 else N",
    "for i in [N] return i",
    "for i in [1] return N",
    "for i in 1..N return i",
    "some i in [N] satisfies i = N",
    "every i in [1] satisfies N > 0",
    "[10, 20, 30, 40, 50, 60, 70, 80, 90, 100, 110, 120, 130, 140, 150, 160, 170, 180, 190, 200, 210, 220, 230][N]",
    "[N][1]",
    "[N, 1]",
    "[1, N]",
    "[1, 2, 3][item < N]",
    "{k: N}.k",
    "{k: N, m: k + N}.m",
    "{k: 1, m: N}",
    "N in [N..N]",
    "N instance of number",
    // the name read after a construct that introduced names of its own (or none) has ended
    "[function() 1, N + 1][2]",
    "[function(p) p, N * 2][2]",
    "[(function() 1)(), N - 1]",
    "{k: function() 1, m: N + 1}.m",
    "[{k: 1}.k, N + 1]",
    "[for i in [1] return i, N + 1]",
    "[some i in [1] satisfies i = 1, N / 1]",
    "[[1, 2][item > 1], N - 1]",
    // ... after an index into a list of contexts whose entries are spelled like the bound name
    // (the keys are written as string literals: they are the entries' names, not occurrences of the bound name)
    "[[{\"N\": 1000, k: 1}, {\"N\": 2000, k: 2}][1].k, N + 1]",
    "if [{\"N\": 1000, k: 1}][1].k > 0 then N - 1 else 0",
    "{k: [{\"N\": 1000, m: 1}][-1], m: N + 1}.m",
    // the name read in the body of a function that is invoked from a nested scope: from another entry of a context, from
    // the body of an iteration, of a quantified expression, of a filter, of another function
    "{f: function(p) p + N, r: f(1)}.r",
    "{f: function(p) p + N, r: [f(1), f(2)]}.r[2]",
    "{f: function(p) p + N, r: for q in [1, 2] return f(q)}.r",
    "{f: function(p) p * N, g: function(p) f(p) + 1, r: g(2)}.r",
    "{f: function(p) p + N, r: {s: f(1)}}.r.s",
    "for q in [1, 2] return (function(p) p + N)(q)",
    "some q in [1, 2] satisfies (function(p) p + N)(q) > 1",
    "every q in [1, 2] satisfies (function(p) p + N)(q) > 0",
    "[1, 2][(function(p) p + N)(item) > 0]",
    "(function(p) (function(q) q + N)(p))(1)",
    "(function(p) (function(q) q + N)(q: p))(p: 1)",
    "{f: function() N, r: for q in [1] return f()}.r",
  ]
}

pub fn two_hole_templates() -> Vec<&'static str> {
  vec!["N - M", "N + M", "N * M", "N / M", "N-M", "N+M", "N*M", "N/M", "N = M", "N < M", "[N, M]", "N between M and 1000", "N in [M..1000]", "max(N, M)", "if N > M then N else M", "for i in [N] return i + M"]
}

/// Templates for names bound to a context `{k: v}`: the name is a path head.
pub fn context_templates() -> Vec<&'static str> {
  vec!["N.k", "N.k + 1", "[N.k]", "1 + N.k", "N.k = 3", "if N.k > 0 then N.k else 0", "{m: N.k}.m", "[N][1].k"]
}

/// Templates whose binder (`B`) is a multi-word / symbol name introduced by the expression itself.
pub fn binder_templates() -> Vec<&'static str> {
  vec![
    "{B: 7, m: B + 1}.m",
    "{B: 7, m: [B, B]}.m",
    "{B: 7, m: B * 2 - B}.m",
    "(function(B) B + 1)(7)",
    "(function(B, q) B - q)(7, 1)",
    "(function(q, B) [q, B])(B: 7, q: 1)",
    "for B in [1, 2, 3] return B * 2",
    "for i in [1, 2], B in [10, 20] return i + B",
    "some B in [1, 2, 3] satisfies B > 2",
    "every B in [1, 2, 3] satisfies B > 0",
    "{B: {k: 7}, m: B.k}.m",
    // the introduced name read after a construct nested in its scope has ended
    "{B: 7, k: function() 1, m: B * 2}.m",
    "{B: 7, k: function(p) p, m: B - 1}.m",
    "for B in [1, 2] return [function() 0, B * 2]",
    "for B in [1, 2] return [{k: 1}.k, B + 1]",
    "(function(B) [function() 0, B + 1])(7)",
    "(function(B) [for i in [1] return i, B - 1])(7)",
    "some B in [1, 2] satisfies [function() 0, B * 2][2] > 3",
  ]
}

/// Templates that read the outer binding (`O`, spelled like the binder `B`) after an expression that introduced `B`:
/// the introduced name ends with its expression, whatever that expression evaluated to.
pub fn after_binder_templates() -> Vec<&'static str> {
  vec![
    "[every B in [1, 2, 3] satisfies B > 1, O]",
    "[every B in [1, 2, 3] satisfies B > 0, O]",
    "[every B in [3, 2, 1] satisfies B > 1, O]",
    "[some B in [1, 2, 3] satisfies B > 2, O]",
    "[some B in [1, 2, 3] satisfies B > 5, O]",
    "[some B in [1, null] satisfies B, O]",
    "[for B in [1, 2] return B, O]",
    "[(function(B) B + 1)(7), O]",
    "[{B: 7, m: B}.m, O]",
    "if (every B in [1, 2] satisfies B > 1) then 0 else O",
    "if (some B in [1, 2] satisfies B > 1) then O else 0",
    "[O, every B in [1, 2] satisfies B > 1, O, some B in [1, 2] satisfies B > 0, O]",
    "{k: every B in [1, 2] satisfies B > 1, m: O}.m",
    "(function(q) O + q)(if (every B in [2, 1] satisfies B > 1) then 0 else 1)",
    "for i in [1, 2] return [every B in [i] satisfies B > 1, O]",
  ]
}

/// Templates in which the introduced name is a path head whose value lacks the member, while an outer binding of the same
/// name is a context that has it (`{k: 999, year: 1}`): the innermost binding decides, also when the path cannot be followed.
pub fn path_head_templates() -> Vec<&'static str> {
  vec![
    "for B in [{m: 7}] return B.k",
    "for B in [date(\"2021-03-04\")] return B.year",
    "some B in [{m: 7}] satisfies B.k = 999",
    "every B in [date(\"2021-03-04\")] satisfies B.year = 2021",
    "(function(B) B.k)({m: 1})",
    "(function(B) B.k)([{k: 1}, {k: 2}])",
    "{B: {m: 1}, r: B.k}.r",
    "{B: 5, r: B.k}.r",
    "for B in [[{k: 10}, {k: 20}]] return B.k",
  ]
}

/// Templates whose binder is introduced by a context entry whose key is written as a string literal.
pub fn string_key_templates() -> Vec<&'static str> {
  vec![
    "{\"B\": 7, m: B + 1}.m",
    "{\"B\": 7, m: B * 2 - B}.m",
    "{\"B\": 7, \"m\": [B, B - 1]}.m",
    "{\"B\": {k: 7}, m: B.k}.m",
    "{\"B\": 7, m: (function(q) B * q)(2)}.m",
    "{\"B\": [1, 2], m: for i in B return i + 1}.m",
    "{k: 1, \"B\": k + 6, m: if B > 1 then B - 1 else 0}.m",
  ]
}

fn num(i: i128) -> Value {
  Value::Number(FeelNumber::from_i128(i))
}

/// The meaning text contains no bound names; its helper names (keys, parameters, variables) are declared to the parser only.
fn evaluate_meaning(text: &str) -> Result<Value, String> {
  let names: BTreeSet<String> = ["k", "m", "p", "q", "i", "zq", "item"].iter().map(|s| s.to_string()).collect();
  let ps = crate::rval::parse_scope_of(&names);
  let node = dmntk_feel_parser::parse_expression(&ps, text, false).map_err(|e| format!("parse error: {}", e))?;
  dmntk_feel_evaluator::evaluate(&Scope::default(), &node).map_err(|e| format!("evaluate error: {}", e))
}

fn evaluate_in(scope: &Scope, text: &str) -> Result<Value, String> {
  let node = dmntk_feel_parser::parse_expression(scope, text, false).map_err(|e| format!("parse error: {}", e))?;
  dmntk_feel_evaluator::evaluate(scope, &node).map_err(|e| format!("evaluate error: {}", e))
}

struct Cnt {
  cases: AtomicU64,
  compared: AtomicU64,
  nontrivial: AtomicU64,
  skipped: AtomicU64,
}

const PRIMES: [i128; 6] = [2, 3, 5, 7, 11, 13];

fn symbol_class(n: &NameParts) -> String {
  let syms: BTreeSet<&str> = n.0.iter().filter(|p| is_symbol_part(p)).map(|p| p.as_str()).collect();
  let words = n.0.iter().filter(|p| !is_symbol_part(p)).count();
  if syms.is_empty() {
    format!("{}-words", words)
  } else {
    format!("symbol[{}]", syms.into_iter().collect::<Vec<_>>().join(""))
  }
}

/// One check: `text` in a scope binding `set` vs the substituted text in an empty scope.
fn check(run: &Run, cnt: &Cnt, kind: &str, template: &str, text: &str, set: &[(NameParts, Value, String)], focus: &NameParts) {
  cnt.cases.fetch_add(1, Ordering::Relaxed);
  let mut ctx = FeelContext::default();
  let mut subst = BTreeMap::new();
  for (n, v, lit) in set {
    ctx.set_entry(&Name::from(n.normal().as_str()), v.clone());
    subst.insert(n.normal(), lit.clone());
  }
  let scope = Scope::from(ctx);
  let expected_text = substitute(text, &subst);
  // two operands side by side (the longest match consumed the operator): the generated text is not a
  // well-formed expression by its intended meaning either
  if expected_text.contains(") (") {
    cnt.skipped.fetch_add(1, Ordering::Relaxed);
    return;
  }
  let expected = match evaluate_meaning(&expected_text) {
    Ok(v) => v,
    Err(_) => {
      cnt.skipped.fetch_add(1, Ordering::Relaxed);
      return;
    }
  };
  let observed = evaluate_in(&scope, text);
  cnt.compared.fetch_add(1, Ordering::Relaxed);
  let ok = match &observed {
    Ok(v) => v.to_string() == expected.to_string(),
    Err(_) => false,
  };
  if !matches!(expected, Value::Null(_)) {
    cnt.nontrivial.fetch_add(1, Ordering::Relaxed);
  }
  if !ok {
    let names: Vec<String> = set.iter().map(|(n, _, _)| n.normal()).collect();
    let obs = match &observed {
      Ok(v) => show_value(v),
      Err(e) => e.chars().take(120).collect(),
    };
    run.violation(
      &format!("{}:`{}`:{}:set-of-{}", kind, template, symbol_class(focus), set.len()),
      &format!("with the bound names {:?}, `{}` evaluates to {} but its meaning `{}` evaluates to {}", names, text, obs, expected_text, show_value(&expected)),
      json!({"engine":"c10","text":text,"bound_names":names,"bound_literals":set.iter().map(|(n, _, lit)| json!([n.normal(), lit])).collect::<Vec<_>>(),"expected_text":expected_text,"expected":expected.to_string(),"template":template}),
    );
  }
}

/// replay of one recorded (text, bound names): the text is evaluated in a scope binding the names to their literals' values
pub fn replay_case(case: &serde_json::Value) -> String {
  let text = case.get("text").and_then(|x| x.as_str()).unwrap_or("");
  let expected = case.get("expected").and_then(|x| x.as_str()).unwrap_or("");
  let mut ctx = FeelContext::default();
  if let Some(bs) = case.get("bound_literals").and_then(|b| b.as_array()) {
    for b in bs {
      let name = b.get(0).and_then(|x| x.as_str()).unwrap_or("");
      let lit = b.get(1).and_then(|x| x.as_str()).unwrap_or("null");
      match evaluate_meaning(lit) {
        Ok(v) => ctx.set_entry(&Name::from(name), v),
        Err(e) => return format!("MACHINERY the recorded literal {} does not evaluate: {}", lit, e),
      }
    }
  } else {
    return "MACHINERY the recorded case has no bound literals".into();
  }
  let scope = Scope::from(ctx);
  let normalised = case.get("normalised").and_then(|x| x.as_bool()).unwrap_or(false);
  match evaluate_in(&scope, text) {
    Ok(v) if v.to_string() == expected || (normalised && crate::rval::show_value_full(&v) == expected) => format!("PASS `{}` evaluates to {}", text, show_value(&v)),
    Ok(v) => format!("FAIL `{}` evaluates to {} but its meaning evaluates to {}", text, show_value(&v), expected),
    Err(e) => format!("FAIL `{}` does not parse or evaluate ({}) but its meaning evaluates to {}", text, e.chars().take(100).collect::<String>(), expected),
  }
}

fn fill(template: &str, n: &str, m: Option<&str>) -> String {
  // holes are the standalone capital letters N and M
  let mut out = String::new();
  for ch in template.chars() {
    match ch {
      'N' => out.push_str(n),
      'M' => out.push_str(m.unwrap_or("M")),
      c => out.push(c),
    }
  }
  out
}

pub fn run() {
  let run = Run::new("C10");
  let thorough = run.thorough();
  let cat = catalogue(thorough);
  let cnt = Cnt {
    cases: AtomicU64::new(0),
    compared: AtomicU64::new(0),
    nontrivial: AtomicU64::new(0),
    skipped: AtomicU64::new(0),
  };
  // name sets: all singles, all pairs, triples (all in thorough; adversarial ones in quick)
  let mut sets: Vec<Vec<usize>> = vec![];
  for i in 0..cat.len() {
    sets.push(vec![i]);
  }
  for i in 0..cat.len() {
    for j in i + 1..cat.len() {
      sets.push(vec![i, j]);
    }
  }
  let idx_of = |n: &NameParts| cat.iter().position(|c| c == n);
  // adversarial triples: two names and every operator-joined / juxtaposed combination of them
  let mut triples: BTreeSet<Vec<usize>> = BTreeSet::new();
  for (a, b) in [("a", "b"), ("b", "a"), ("ab", "x1"), ("é", "foo")] {
    let ia = idx_of(&NameParts::words(&[a]));
    let ib = idx_of(&NameParts::words(&[b]));
    for s in SYMBOLS {
      if let (Some(ia), Some(ib), Some(ic)) = (ia, ib, idx_of(&NameParts::joined(a, *s, b))) {
        let mut t = vec![ia, ib, ic];
        t.sort();
        triples.insert(t);
      }
    }
    if let (Some(ia), Some(ib), Some(ic)) = (ia, ib, idx_of(&NameParts::words(&[a, b]))) {
      let mut t = vec![ia, ib, ic];
      t.sort();
      triples.insert(t);
    }
  }
  if thorough {
    for i in 0..cat.len() {
      for j in i + 1..cat.len() {
        for k in j + 1..cat.len() {
          triples.insert(vec![i, j, k]);
        }
      }
    }
  }
  sets.extend(triples.into_iter());
  let nt = number_templates();
  let tt = two_hole_templates();
  let ct = context_templates();
  let bt = binder_templates();
  sets.par_iter().for_each(|set_idx| {
    // numbers
    let set: Vec<(NameParts, Value, String)> = set_idx.iter().enumerate().map(|(k, i)| (cat[*i].clone(), num(PRIMES[k]), format!("({})", PRIMES[k]))).collect();
    for (n, _, _) in &set {
      for sp in n.spellings() {
        for t in &nt {
          check(&run, &cnt, "name-as-number", t, &fill(t, &sp, None), &set, n);
        }
      }
    }
    if set.len() >= 2 {
      for (n, _, _) in &set {
        for (m, _, _) in &set {
          if n == m {
            continue;
          }
          for t in &tt {
            check(&run, &cnt, "two-names", t, &fill(t, &n.normal(), Some(&m.normal())), &set, n);
          }
        }
      }
    }
    // contexts as values: path heads
    let cset: Vec<(NameParts, Value, String)> = set_idx
      .iter()
      .enumerate()
      .map(|(k, i)| {
        let mut c = FeelContext::default();
        c.set_entry(&Name::from("k"), num(PRIMES[k]));
        (cat[*i].clone(), Value::Context(c), format!("({{k: {}}})", PRIMES[k]))
      })
      .collect();
    for (n, _, _) in &cset {
      for sp in n.spellings() {
        for t in &ct {
          check(&run, &cnt, "name-as-path-head", t, &fill(t, &sp, None), &cset, n);
        }
      }
    }
    // binder names: the first name of the set is introduced by the expression itself, the others stay bound
    if let Some((b, _, _)) = set.first() {
      let others: Vec<(NameParts, Value, String)> = set.iter().skip(1).cloned().collect();
      for sp in b.spellings() {
        let after = after_binder_templates();
        let string_keys = string_key_templates();
        let path_heads = path_head_templates();
        // (string-literal keys: in the canonical spelling only, the key text is the name)
        let with_string_keys = sp == b.normal();
        for (t, shadow, reads_after) in bt
          .iter()
          .flat_map(|t| [(t, false, false), (t, true, false)])
          .chain(after.iter().map(|t| (t, true, true)))
          .chain(string_keys.iter().filter(|_| with_string_keys).flat_map(|t| [(t, false, true), (t, true, true)]))
          .chain(path_heads.iter().map(|t| (t, true, true)))
        {
          let outer_is_context = path_heads.contains(t);
          let text = t.replace('B', &sp).replace('O', &sp);
          // expected: the binder renamed to a fresh single word
          cnt.cases.fetch_add(1, Ordering::Relaxed);
          let mut ctx = FeelContext::default();
          let mut subst = BTreeMap::new();
          for (n, v, lit) in &others {
            ctx.set_entry(&Name::from(n.normal().as_str()), v.clone());
            subst.insert(n.normal(), lit.clone());
          }
          // shadowing: the introduced name is also bound outside, to another value; the innermost binding must win
          if shadow && outer_is_context {
            let mut outer = FeelContext::default();
            outer.set_entry(&Name::from("k"), num(999));
            outer.set_entry(&Name::from("year"), num(1));
            ctx.set_entry(&Name::from(b.normal().as_str()), Value::Context(outer));
          } else if shadow {
            ctx.set_entry(&Name::from(b.normal().as_str()), num(999));
          }
          let expected_text = if reads_after {
            // the introduced name renamed, the outer occurrences replaced by the outer value
            substitute(&t.replace('B', "zq").replace('O', "(999)"), &subst)
          } else {
            subst.insert(b.normal(), "zq".to_string());
            substitute(&text, &subst)
          };
          let scope = Scope::from(ctx);
          let expected = match evaluate_meaning(&expected_text) {
            Ok(v) => v,
            Err(_) => {
              cnt.skipped.fetch_add(1, Ordering::Relaxed);
              continue;
            }
          };
          let observed = evaluate_in(&scope, &text);
          cnt.compared.fetch_add(1, Ordering::Relaxed);
          if !matches!(expected, Value::Null(_)) {
            cnt.nontrivial.fetch_add(1, Ordering::Relaxed);
          }
          let ok = matches!(&observed, Ok(v) if v.to_string() == expected.to_string() || (matches!(v, Value::Null(_)) && matches!(expected, Value::Null(_))));
          if !ok {
            let names: Vec<String> = others.iter().map(|(n, _, _)| n.normal()).collect();
            run.violation(
              &format!("binder{}:`{}`:{}:set-of-{}", if outer_is_context { "-as-path-head-shadowing-an-outer-context" } else if t.contains("\"B\"") { "-introduced-by-a-string-literal-key" } else if reads_after { "-ended-outer-binding-read-again" } else if shadow { "-shadowing-an-outer-binding" } else { "" }, t, symbol_class(b), set.len()),
              &format!(
                "`{}` (other bound names {:?}) evaluates to {} but with the introduced name renamed, `{}`, it evaluates to {}",
                text,
                names,
                observed.as_ref().map(show_value).unwrap_or_else(|e| e.chars().take(120).collect()),
                expected_text,
                show_value(&expected)
              ),
              json!({"engine":"c10","text":text,"bound_names":names,"bound_literals":others.iter().map(|(n, _, lit)| json!([n.normal(), lit])).chain(if shadow { Some(json!([b.normal(), if outer_is_context { "{k: 999, year: 1}" } else { "999" }])) } else { None }).collect::<Vec<_>>(),"expected_text":expected_text,"expected":expected.to_string(),"template":t}),
            );
          }
        }
      }
    }
  });
  // member names: the catalogue name is the key of an entry INSIDE a bound value (a context, a context nested in a context,
  // rows of a list whose rows do not all have the entry), referred to through a path, a filter or an iteration. Oracle:
  // renaming the key to a fresh single word in the value and in the text does not change the result.
  {
    // (value text with the hole K, expression templates with the hole K; `zr` is the bound name)
    // (template, the same with the key renamed to `zq` and written so that nothing name-like stands next to it: the renamed
    // form is parsed with every name declared, so its value does not depend on what the lexer knows about the keys)
    let shapes: Vec<(&str, Vec<(&str, &str)>)> = vec![
      ("{K: 7}", vec![("zr.K + 1", "(zr.zq) + 1"), ("[zr.K, 1]", "[(zr.zq), 1]"), ("if zr.K > 0 then zr.K - 1 else 0", "if (zr.zq) > 0 then (zr.zq) - 1 else 0")]),
      ("{k: {K: 7}}", vec![("zr.k.K + 1", "((zr.k).zq) + 1"), ("(zr.k).K * 2", "((zr.k).zq) * 2")]),
      (
        "[{m: 1}, {m: 2, K: 7}]",
        vec![
          ("zr[2].K + 1", "(zr[2].zq) + 1"),
          ("for i in zr return i.K - 1", "for i in zr return (i.zq) - 1"),
          ("zr[K * m > 10]", "zr[(zq) * m > 10]"),
          ("zr[m = 2 and K - 1 > 0]", "zr[m = 2 and (zq) - 1 > 0]"),
          ("some i in zr satisfies i.K - 1 = 6", "some i in zr satisfies (i.zq) - 1 = 6"),
          ("count(zr[K + m > 0])", "count(zr[(zq) + m > 0])"),
        ],
      ),
      ("[null, {m: 2, K: 7}]", vec![("zr[2].K + 1", "(zr[2].zq) + 1"), ("for i in zr return i.K - 1", "for i in zr return (i.zq) - 1")]),
      ("[{K: 7, m: 1}, {m: 2}]", vec![("zr[1].K + 1", "(zr[1].zq) + 1"), ("for i in zr return i.K - 1", "for i in zr return (i.zq) - 1"), ("zr[K * m > 10]", "zr[(zq) * m > 10]")]),
      ("[{m: 1}, {m: 2}, {m: 3, K: 7}]", vec![("zr[3].K + 1", "(zr[3].zq) + 1"), ("zr[K - m > 0]", "zr[(zq) - m > 0]"), ("for i in zr return i.K - 1", "for i in zr return (i.zq) - 1")]),
      ("{k: [{m: 1}, {K: 7}]}", vec![("zr.k[2].K + 1", "((zr.k)[2].zq) + 1"), ("for i in zr.k return i.K - 1", "for i in (zr.k) return (i.zq) - 1")]),
    ];
    fn rename_key(v: &Value, from: &str, to: &str) -> Value {
      match v {
        Value::List(items) => Value::List(dmntk_feel::values::Values::new(items.as_vec().iter().map(|i| rename_key(i, from, to)).collect())),
        Value::Context(c) => {
          let mut out = FeelContext::default();
          for (k, e) in c.iter() {
            let name = if k.to_string() == from { Name::from(to) } else { k.clone() };
            out.set_entry(&name, rename_key(e, from, to));
          }
          Value::Context(out)
        }
        other => other.clone(),
      }
    }
    let helper: BTreeSet<String> = ["k", "m", "i", "zq", "zr", "item"].iter().map(|s| s.to_string()).collect();
    cat.par_iter().for_each(|n| {
      let key = n.normal();
      for (shape, templates) in &shapes {
        // the value is built by the implementation from its text, the key written as a string literal
        let build = |k: &str| -> Option<Value> {
          let text = shape.replace('K', &format!("\"{}\"", k));
          let ps = crate::rval::parse_scope_of(&helper);
          dmntk_feel_parser::parse_expression(&ps, &text, false).ok().and_then(|node| dmntk_feel_evaluator::evaluate(&Scope::default(), &node).ok())
        };
        let (value, renamed) = match (build(&key), build("zq")) {
          (Some(a), Some(b)) => (a, b),
          _ => continue,
        };
        let mut ctx = FeelContext::default();
        ctx.set_entry(&Name::from("zr"), value);
        let scope = Scope::from(ctx);
        let mut rctx = FeelContext::default();
        rctx.set_entry(&Name::from("zr"), renamed);
        let rscope = Scope::from(rctx);
        for (t, safe) in templates {
          let ps = crate::rval::parse_scope_of(&helper);
          let expected = match dmntk_feel_parser::parse_expression(&ps, safe, false).map_err(|e| e.to_string()).and_then(|node| dmntk_feel_evaluator::evaluate(&rscope, &node).map_err(|e| e.to_string())) {
            Ok(v) => rename_key(&v, "zq", &key),
            Err(_) => {
              cnt.skipped.fetch_add(1, Ordering::Relaxed);
              continue;
            }
          };
          for sp in n.spellings() {
            cnt.cases.fetch_add(1, Ordering::Relaxed);
            let text = t.replace('K', &sp);
            let observed = evaluate_in(&scope, &text);
            cnt.compared.fetch_add(1, Ordering::Relaxed);
            if !matches!(expected, Value::Null(_)) {
              cnt.nontrivial.fetch_add(1, Ordering::Relaxed);
            }
            let ok = matches!(&observed, Ok(v) if crate::rval::show_value_full(v) == crate::rval::show_value_full(&expected));
            if !ok {
              run.violation(
                &format!("member-name:`{}`:`{}`:{}", shape, t, symbol_class(n)),
                &format!(
                  "with zr bound to {}, `{}` evaluates to {} but with the key renamed to a single word it evaluates to {}",
                  shape.replace('K', &key),
                  text,
                  observed.as_ref().map(show_value).unwrap_or_else(|e| e.chars().take(120).collect()),
                  show_value(&expected)
                ),
                json!({"engine":"c10","text":text,"bound_names":["zr"],"bound_literals":[["zr", shape.replace('K', &format!("\"{}\"", key))]],"expected":crate::rval::show_value_full(&expected),"normalised":true,"template":t}),
              );
            }
          }
        }
      }
    });
  }
  // a name introduced by the expression that is spelled like a built-in function, bound to a function and invoked: the
  // innermost binding is the introduced one, in the function position of an invocation too (positional and named)
  {
    let built_ins = ["sum", "max", "min", "count", "abs", "floor", "not", "string length", "append", "contains", "date", "number", "list contains", "mean"];
    let templates = [
      "{B: function(p, q) p * 100 + q, m: B(2, 3)}.m",
      "{B: function(p, q) p * 100 + q, m: B(q: 3, p: 2)}.m",
      "{B: function(p, q) p * 100 + q, m: [B(2, 3), B(4, 5)]}.m",
      "{B: function(p, q) p * 100 + q, m: for i in [1, 2] return B(i, 3)}.m",
      "(function(B) B(2, 3))(function(p, q) p * 100 + q)",
      "for B in [function(p, q) p * 100 + q] return B(2, 3)",
      "some B in [function(p, q) p * 100 + q] satisfies B(2, 3) = 203",
      "{B: function(p) p * 100, m: B(2)}.m",
      "{B: function(p) p * 100, m: B([2][1])}.m",
    ];
    for b in built_ins {
      for t in templates {
        cnt.cases.fetch_add(1, Ordering::Relaxed);
        let text = t.replace('B', b);
        let expected_text = t.replace('B', "zq");
        let expected = match evaluate_meaning(&expected_text) {
          Ok(v) => v,
          Err(_) => {
            cnt.skipped.fetch_add(1, Ordering::Relaxed);
            continue;
          }
        };
        let observed = evaluate_in(&Scope::default(), &text);
        cnt.compared.fetch_add(1, Ordering::Relaxed);
        if !matches!(expected, Value::Null(_)) {
          cnt.nontrivial.fetch_add(1, Ordering::Relaxed);
        }
        let ok = matches!(&observed, Ok(v) if v.to_string() == expected.to_string());
        if !ok {
          run.violation(
            &format!("binder-spelled-like-a-built-in-invoked:{}:`{}`", b, t),
            &format!("`{}` evaluates to {} but with the introduced name renamed, `{}`, it evaluates to {}", text, observed.as_ref().map(show_value).unwrap_or_else(|e| e.chars().take(120).collect()), expected_text, show_value(&expected)),
            json!({"engine":"c10","text":text,"bindings":[],"expected":show_value(&expected)}),
          );
        }
      }
    }
  }
  run.sample(json!({"bound_names":["a","b","a-b"],"text":"a - b","meaning":"(5)","rule":"longest bound name wins"}));
  run.sample(json!({"bound_names":["a","b"],"text":"a - b","meaning":"(2) - (3)"}));
  run.sample(json!({"text":"for a b in [1, 2, 3] return a b * 2","meaning":"for zq in [1, 2, 3] return zq * 2"}));
  run.set("states", json!(sets.len()));
  run.set("transitions", json!(cnt.cases.load(Ordering::Relaxed) * 2));
  run.set("traces_validated_against_impl", json!(cnt.compared.load(Ordering::Relaxed)));
  run.set("evaluations", json!(cnt.cases.load(Ordering::Relaxed) * 2));
  run.set("distinct_nontrivial", json!(cnt.nontrivial.load(Ordering::Relaxed)));
  run.set("rule", json!("(name set, template, name, spelling) cases, distinct by construction, whose meaning evaluates to a non-null value; name sets: every single name, every pair, adversarial triples (all triples in thorough) of the name catalogue"));
  run.set("exhaustive", json!(true));
  run.set("name_catalogue", json!(cat.iter().map(|n| n.normal()).collect::<Vec<_>>()));
  run.set("name_sets", json!(sets.len()));
  run.set("templates", json!(nt.len() + tt.len() + ct.len() + bt.len()));
  run.set("meaning_not_evaluable_skipped", json!(cnt.skipped.load(Ordering::Relaxed)));
  run.assume("the reference tokeniser (longest bound name over words and additional symbols) in engines/c10.rs states the rule of the property; the values of the substituted texts come from the implementation itself (C01 covers those)");
  run.finish();
}
