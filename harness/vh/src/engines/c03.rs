//! C03 — decision tables return what their hit policy prescribes.
//! Every generated table goes through both construction paths (DMN XML -> model evaluator, and
//! DecisionTable struct -> build_decision_table_evaluator); both must agree with the reference.

use crate::dmn;
use crate::report::Run;
use dmntk_feel::context::FeelContext;
use dmntk_feel::values::Value;
use dmntk_feel::{FeelNumber, Name, Scope};
use dmntk_model::model::{BuiltinAggregator, DecisionRule, DecisionTable, DecisionTableOrientation, HitPolicy, InputClause, InputEntry, OutputClause, OutputEntry};
use dmntk_model_evaluator::ModelEvaluator;
use rayon::prelude::*;
use serde_json::json;
use std::sync::atomic::{AtomicU64, Ordering};

#[derive(Clone, Copy, Debug, PartialEq)]
pub enum Policy {
  Unique,
  Any,
  First,
  Priority,
  RuleOrder,
  OutputOrder,
  Collect,
  Sum,
  Min,
  Max,
  Count,
}

pub const POLICIES: [Policy; 11] = [
  Policy::Unique,
  Policy::Any,
  Policy::First,
  Policy::Priority,
  Policy::RuleOrder,
  Policy::OutputOrder,
  Policy::Collect,
  Policy::Sum,
  Policy::Min,
  Policy::Max,
  Policy::Count,
];

impl Policy {
  fn xml(&self) -> (&'static str, Option<&'static str>) {
    match self {
      Policy::Unique => ("UNIQUE", None),
      Policy::Any => ("ANY", None),
      Policy::First => ("FIRST", None),
      Policy::Priority => ("PRIORITY", None),
      Policy::RuleOrder => ("RULE ORDER", None),
      Policy::OutputOrder => ("OUTPUT ORDER", None),
      Policy::Collect => ("COLLECT", None),
      Policy::Sum => ("COLLECT", Some("SUM")),
      Policy::Min => ("COLLECT", Some("MIN")),
      Policy::Max => ("COLLECT", Some("MAX")),
      Policy::Count => ("COLLECT", Some("COUNT")),
    }
  }
  fn model(&self) -> HitPolicy {
    match self {
      Policy::Unique => HitPolicy::Unique,
      Policy::Any => HitPolicy::Any,
      Policy::First => HitPolicy::First,
      Policy::Priority => HitPolicy::Priority,
      Policy::RuleOrder => HitPolicy::RuleOrder,
      Policy::OutputOrder => HitPolicy::OutputOrder,
      Policy::Collect => HitPolicy::Collect(BuiltinAggregator::List),
      Policy::Sum => HitPolicy::Collect(BuiltinAggregator::Sum),
      Policy::Min => HitPolicy::Collect(BuiltinAggregator::Min),
      Policy::Max => HitPolicy::Collect(BuiltinAggregator::Max),
      Policy::Count => HitPolicy::Collect(BuiltinAggregator::Count),
    }
  }
  fn name(&self) -> &'static str {
    match self {
      Policy::Unique => "U",
      Policy::Any => "A",
      Policy::First => "F",
      Policy::Priority => "P",
      Policy::RuleOrder => "R",
      Policy::OutputOrder => "O",
      Policy::Collect => "C",
      Policy::Sum => "C+",
      Policy::Min => "C<",
      Policy::Max => "C>",
      Policy::Count => "C#",
    }
  }
}

/// Reference output values of this engine: small integers (single output clause) or, with several
/// clauses, a tuple (number, string, number).
#[derive(Clone, Debug, PartialEq)]
pub enum Out {
  Null,
  Num(i64),
  Str(String),
  Row(Vec<(String, OutCell)>),
  List(Vec<Out>),
  Unspec,
}

#[derive(Clone, Debug, PartialEq)]
pub enum OutCell {
  Num(i64),
  Str(String),
}

fn cell_text(c: &OutCell) -> String {
  match c {
    OutCell::Num(n) => n.to_string(),
    OutCell::Str(s) => format!("\"{}\"", s),
  }
}

impl Out {
  fn show(&self) -> String {
    match self {
      Out::Null => "null".into(),
      Out::Num(n) => n.to_string(),
      Out::Str(s) => format!("\"{}\"", s),
      Out::Row(es) => {
        let mut es: Vec<_> = es.iter().collect();
        es.sort_by(|a, b| a.0.cmp(&b.0));
        format!("{{{}}}", es.iter().map(|(k, v)| format!("{}: {}", k, cell_text(v))).collect::<Vec<_>>().join(", "))
      }
      Out::List(v) => format!("[{}]", v.iter().map(|x| x.show()).collect::<Vec<_>>().join(", ")),
      Out::Unspec => "<unspecified>".into(),
    }
  }
}

fn show_value(v: &Value) -> String {
  match v {
    Value::Null(_) => "null".into(),
    Value::List(items) => format!("[{}]", items.as_vec().iter().map(show_value).collect::<Vec<_>>().join(", ")),
    other => other.to_string(),
  }
}

/// A table specification shared by both construction paths and the reference.
#[derive(Clone, Debug)]
pub struct Spec {
  pub policy: Policy,
  /// input columns: (expression name, allowed input values)
  pub inputs: Vec<(String, Option<String>)>,
  /// output clauses: (component name, output values in priority order, default entry)
  pub outputs: Vec<(String, Option<Vec<OutCell>>, Option<OutCell>)>,
  /// rules: input entry texts, output cells
  pub rules: Vec<(Vec<String>, Vec<OutCell>)>,
}

impl Spec {
  fn dmn_table(&self) -> dmn::Table {
    let (hp, agg) = self.policy.xml();
    dmn::Table {
      hit_policy: hp.to_string(),
      aggregation: agg.map(|a| a.to_string()),
      output_label: None,
      inputs: self.inputs.iter().map(|(e, v)| dmn::TableInput { expr: e.clone(), type_ref: None, values: v.clone() }).collect(),
      outputs: self
        .outputs
        .iter()
        .map(|(n, vals, def)| dmn::TableOutput {
          name: if self.outputs.len() > 1 { Some(n.clone()) } else { None },
          type_ref: None,
          values: vals.as_ref().map(|v| v.iter().map(cell_text).collect::<Vec<_>>().join(",")),
          default: def.as_ref().map(cell_text),
        })
        .collect(),
      rules: self.rules.iter().map(|(i, o)| dmn::TableRule { inputs: i.clone(), outputs: o.iter().map(cell_text).collect() }).collect(),
    }
  }
  fn model_table(&self) -> DecisionTable {
    DecisionTable {
      information_item_name: None,
      input_clauses: self.inputs.iter().map(|(e, v)| InputClause { input_expression: e.clone(), input_values: v.clone() }).collect(),
      output_clauses: self
        .outputs
        .iter()
        .map(|(n, vals, def)| OutputClause {
          type_ref: None,
          name: if self.outputs.len() > 1 { Some(n.clone()) } else { None },
          output_values: vals.as_ref().map(|v| v.iter().map(cell_text).collect::<Vec<_>>().join(",")),
          default_output_entry: def.as_ref().map(cell_text),
        })
        .collect(),
      annotations: vec![],
      rules: self
        .rules
        .iter()
        .map(|(i, o)| DecisionRule {
          input_entries: i.iter().map(|t| InputEntry { text: t.clone() }).collect(),
          output_entries: o.iter().map(|c| OutputEntry { text: cell_text(c) }).collect(),
          annotation_entries: vec![],
        })
        .collect(),
      hit_policy: self.policy.model(),
      aggregation: None,
      preferred_orientation: DecisionTableOrientation::RuleAsRow,
      output_label: None,
    }
  }
  fn xml(&self) -> String {
    let mut m = dmn::Model::new("https://verif/c03", "c03");
    for (name, _) in &self.inputs {
      m.inputs.push(dmn::Input { name: name.clone(), type_ref: "number".into() });
    }
    m.decisions.push(dmn::Decision {
      name: "D".into(),
      type_ref: None,
      requires: dmn::Requires { inputs: self.inputs.iter().map(|(n, _)| n.clone()).collect(), ..Default::default() },
      logic: Some(dmn::Expr::Table(self.dmn_table())),
    });
    m.to_xml()
  }

  /// Reference: the result prescribed by the hit policy over the given matching rules.
  pub fn reference(&self, matches: &[bool]) -> Out {
    let matched: Vec<usize> = (0..self.rules.len()).filter(|i| matches[*i]).collect();
    let multi = self.outputs.len() > 1;
    let row = |i: usize| -> Out {
      if multi {
        Out::Row(self.outputs.iter().zip(self.rules[i].1.iter()).map(|((n, _, _), c)| (n.clone(), c.clone())).collect())
      } else {
        match &self.rules[i].1[0] {
          OutCell::Num(n) => Out::Num(*n),
          OutCell::Str(s) => Out::Str(s.clone()),
        }
      }
    };
    // aggregation over several output clauses is not a well-formed table
    // (the count of the matching rules does not depend on the output clauses: compared when a rule matches)
    if multi && (matches!(self.policy, Policy::Sum | Policy::Min | Policy::Max) || (self.policy == Policy::Count && matched.is_empty())) {
      return Out::Unspec;
    }
    if matched.is_empty() {
      // the default output entry if one is defined, null otherwise
      let defs: Vec<Option<&OutCell>> = self.outputs.iter().map(|o| o.2.as_ref()).collect();
      if defs.iter().all(|d| d.is_none()) {
        return Out::Null;
      }
      if !multi {
        return match defs[0] {
          Some(OutCell::Num(n)) => Out::Num(*n),
          _ => Out::Unspec,
        };
      }
      if defs.iter().all(|d| d.is_some()) {
        return Out::Row(self.outputs.iter().map(|(n, _, d)| (n.clone(), d.clone().unwrap())).collect());
      }
      return Out::Unspec; // some clauses with, some without a default
    }
    // priority of a rule: position of each output cell in its clause's output values
    let prio = |i: usize| -> Option<Vec<usize>> {
      let mut p = vec![];
      for (k, (_, vals, _)) in self.outputs.iter().enumerate() {
        match vals {
          Some(vals) => p.push(vals.iter().position(|v| *v == self.rules[i].1[k])?),
          None => p.push(0),
        }
      }
      Some(p)
    };
    let has_priorities = self.outputs.iter().any(|o| o.1.is_some());
    match self.policy {
      Policy::Unique => {
        if matched.len() == 1 {
          row(matched[0])
        } else {
          Out::Null
        }
      }
      Policy::Any => {
        let first = row(matched[0]);
        if matched.iter().all(|i| row(*i) == first) {
          first
        } else {
          Out::Null
        }
      }
      Policy::First => row(matched[0]),
      Policy::Priority | Policy::OutputOrder => {
        if !has_priorities {
          return Out::Unspec;
        }
        let mut keyed: Vec<(Vec<usize>, usize)> = vec![];
        for i in &matched {
          match prio(*i) {
            Some(p) => keyed.push((p, *i)),
            None => return Out::Unspec,
          }
        }
        keyed.sort(); // lexicographic over the output clauses, ties in rule order
        if self.policy == Policy::Priority {
          row(keyed[0].1)
        } else {
          Out::List(keyed.iter().map(|(_, i)| row(*i)).collect())
        }
      }
      Policy::RuleOrder | Policy::Collect => Out::List(matched.iter().map(|i| row(*i)).collect()),
      Policy::Sum | Policy::Min | Policy::Max => {
        if multi {
          return Out::Unspec;
        }
        // outputs that are not all numbers: the sum of anything but numbers is null; the least / greatest of strings
        // is a string; a mix of kinds under MIN / MAX is left open
        let strs: Vec<&String> = matched
          .iter()
          .filter_map(|i| match &self.rules[*i].1[0] {
            OutCell::Str(s) => Some(s),
            _ => None,
          })
          .collect();
        if !strs.is_empty() {
          return match self.policy {
            Policy::Sum => Out::Null,
            _ if strs.len() < matched.len() => Out::Unspec,
            Policy::Min => Out::Str((*strs.iter().min().unwrap()).clone()),
            _ => Out::Str((*strs.iter().max().unwrap()).clone()),
          };
        }
        let nums: Vec<i64> = matched
          .iter()
          .filter_map(|i| match &self.rules[*i].1[0] {
            OutCell::Num(n) => Some(*n),
            _ => None,
          })
          .collect();
        match self.policy {
          Policy::Sum => Out::Num(nums.iter().sum()),
          Policy::Min => Out::Num(*nums.iter().min().unwrap()),
          _ => Out::Num(*nums.iter().max().unwrap()),
        }
      }
      Policy::Count => Out::Num(matched.len() as i64),
    }
  }
}

fn num(i: i64) -> Value {
  Value::Number(FeelNumber::from_i128(i as i128))
}

/// Evaluates the table through both paths for every input context; returns one result text per context and path.
fn evaluate_both(spec: &Spec, contexts: &[FeelContext]) -> Result<(Vec<String>, Vec<String>), String> {
  // XML path
  let xml = spec.xml();
  let defs = dmntk_model::parse(&xml).map_err(|e| format!("model does not parse: {}", e))?;
  let me = ModelEvaluator::new(&defs).map_err(|e| format!("model does not build: {}", e))?;
  let via_xml: Vec<String> = contexts.iter().map(|c| show_value(&me.evaluate_invocable("D", c))).collect();
  // struct path: the parsing scope declares the input names
  let mut decl = FeelContext::default();
  for (n, _) in &spec.inputs {
    decl.set_entry(&Name::from(n.as_str()), Value::Null(None));
  }
  let pscope = Scope::from(decl);
  let ev = dmntk_model_evaluator::build_decision_table_evaluator(&pscope, &spec.model_table()).map_err(|e| format!("table evaluator does not build: {}", e))?;
  let via_struct: Vec<String> = contexts
    .iter()
    .map(|c| {
      let s = Scope::from(c.clone());
      show_value(&ev(&s))
    })
    .collect();
  Ok((via_xml, via_struct))
}

struct Cnt {
  tables: AtomicU64,
  evals: AtomicU64,
  compared: AtomicU64,
  nontrivial: AtomicU64,
  unspec: AtomicU64,
}

fn judge(run: &Run, cnt: &Cnt, family: &str, spec: &Spec, what_input: &str, ctx_text: &str, expected: &Out, via_xml: &str, via_struct: &str, class: &str) {
  // the generated models type their input data as numbers (input data must be typed): a string input
  // reaches the table only on the struct path
  let via_xml = if what_input.contains("Str(") { via_struct } else { via_xml };
  cnt.evals.fetch_add(2, Ordering::Relaxed);
  let case = || json!({"engine":"c03","family":family,"policy":spec.policy.name(),"xml":spec.xml(),"input":what_input,"ctx":ctx_text,"expected":expected.show()});
  if via_xml != via_struct {
    run.violation(
      &format!("paths-differ:{}:{}:{}", family, spec.policy.name(), class),
      &format!("hit policy {} table, input {}: the XML path gives {} but the struct path gives {}", spec.policy.name(), what_input, via_xml, via_struct),
      case(),
    );
  }
  if *expected == Out::Unspec {
    cnt.unspec.fetch_add(1, Ordering::Relaxed);
    return;
  }
  cnt.compared.fetch_add(1, Ordering::Relaxed);
  if *expected != Out::Null {
    cnt.nontrivial.fetch_add(1, Ordering::Relaxed);
  }
  let want = expected.show();
  if via_xml != want {
    run.violation(
      &format!("result:{}:{}:{}", family, spec.policy.name(), class),
      &format!("hit policy {} table ({} rules, {} outputs), input {}: evaluates to {} but the hit policy prescribes {}", spec.policy.name(), spec.rules.len(), spec.outputs.len(), what_input, via_xml, want),
      case(),
    );
  }
}

// ------------------------------------------------------------------------------------------------
// family B: hit-policy logic over all match vectors
// ------------------------------------------------------------------------------------------------

fn family_b_specs(max_rules: usize) -> Vec<Spec> {
  let mut out = vec![];
  let alphabet = [1i64, 2, 3];
  for n in 0..=max_rules {
    // every assignment of outputs
    let total = alphabet.len().pow(n as u32);
    for a in 0..total {
      let mut assign = vec![];
      let mut x = a;
      for _ in 0..n {
        assign.push(alphabet[x % alphabet.len()]);
        x /= alphabet.len();
      }
      for policy in POLICIES {
        for n_out in 1..=3usize {
          for with_default in [false, true] {
            // output values: on no clause, on the first and the second, on the second only (a clause without output
            // values before one that has them)
            for values_mode in 0..3 {
              if values_mode == 2 && n_out < 2 {
                continue;
              }
              let with_values = values_mode >= 1;
              // aggregating policies are defined for one output clause only
              let mut outputs = vec![(
                "o1".to_string(),
                if values_mode == 1 { Some(vec![OutCell::Num(3), OutCell::Num(1), OutCell::Num(2)]) } else { None },
                if with_default { Some(OutCell::Num(2)) } else { None },
              )];
              if n_out >= 2 {
                outputs.push((
                  "o2".to_string(),
                  // the second clause shares its values with the first one, in another priority order
                  if with_values { Some(vec![OutCell::Num(2), OutCell::Num(1)]) } else { None },
                  if with_default { Some(OutCell::Num(1)) } else { None },
                ));
              }
              if n_out >= 3 {
                outputs.push(("o3".to_string(), None, if with_default { Some(OutCell::Num(7)) } else { None }));
              }
              let rules: Vec<(Vec<String>, Vec<OutCell>)> = (0..n)
                .map(|i| {
                  // rule i matches the input masks that have bit i set
                  let masks: Vec<String> = (0..(1u32 << n)).filter(|m| m & (1 << i) != 0).map(|m| m.to_string()).collect();
                  let mut cells = vec![OutCell::Num(assign[i])];
                  if n_out >= 2 {
                    // second component alternates so that ties on the first are broken by the second
                    cells.push(OutCell::Num(if (i + assign[i] as usize) % 2 == 0 { 1 } else { 2 }));
                  }
                  if n_out >= 3 {
                    cells.push(OutCell::Num(7));
                  }
                  (vec![masks.join(",")], cells)
                })
                .collect();
              out.push(Spec { policy, inputs: vec![("m".to_string(), None)], outputs, rules });
            }
          }
        }
      }
    }
  }
  out
}

/// Family B over outputs that are not all numbers: one output clause, 1..=3 rules, every assignment of the cells
/// 1, 2, "a", "b" to the rules, every hit policy, every match vector. (A single matching rule under an aggregator still
/// goes through the aggregator: C+ of one string is null, not the string.)
fn family_b_other_kinds_specs() -> Vec<Spec> {
  let mut out = vec![];
  let alphabet = [OutCell::Num(1), OutCell::Num(2), OutCell::Str("a".into()), OutCell::Str("b".into())];
  for n in 1..=3usize {
    let total = alphabet.len().pow(n as u32);
    for a in 0..total {
      let mut assign = vec![];
      let mut x = a;
      for _ in 0..n {
        assign.push(alphabet[x % alphabet.len()].clone());
        x /= alphabet.len();
      }
      if assign.iter().all(|c| matches!(c, OutCell::Num(_))) {
        continue; // family B proper
      }
      for policy in POLICIES {
        let rules: Vec<(Vec<String>, Vec<OutCell>)> = (0..n)
          .map(|i| {
            let masks: Vec<String> = (0..(1u32 << n)).filter(|m| m & (1 << i) != 0).map(|m| m.to_string()).collect();
            (vec![masks.join(",")], vec![assign[i].clone()])
          })
          .collect();
        out.push(Spec { policy, inputs: vec![("m".to_string(), None)], outputs: vec![("o1".to_string(), None, None)], rules });
      }
    }
  }
  out
}

// ------------------------------------------------------------------------------------------------
// family A: matching
// ------------------------------------------------------------------------------------------------

/// Input values of family A: FEEL value and a reference view of it.
#[derive(Clone, Debug, PartialEq)]
enum In {
  Num(i64),
  Str(&'static str),
  Null,
  Missing,
}

fn in_alphabet() -> Vec<In> {
  vec![In::Num(0), In::Num(1), In::Num(2), In::Num(3), In::Num(4), In::Str("a"), In::Null, In::Missing]
}

/// Entry alphabet: text and a predicate over the input (None: unspecified for that input).
fn entry_matches(entry: &str, v: &In) -> Option<bool> {
  let n = match v {
    In::Num(n) => Some(*n),
    _ => None,
  };
  Some(match entry {
    "-" => match v {
      // whether `-` is satisfied by a null / missing input: the DMN text says "any value"; left open
      In::Null | In::Missing => return None,
      _ => true,
    },
    "1" => n == Some(1),
    "<2" => n.map(|x| x < 2).unwrap_or(false),
    ">=2" => n.map(|x| x >= 2).unwrap_or(false),
    "[1..2]" => n.map(|x| (1..=2).contains(&x)).unwrap_or(false),
    "(1..3)" | "]1..3[" => n.map(|x| x > 1 && x < 3).unwrap_or(false),
    "1,3" => n == Some(1) || n == Some(3),
    "not(1)" => match v {
      In::Num(x) => *x != 1,
      // negation of a test on a value of another kind / null: true by the implementation's reading, null by the letter
      _ => return None,
    },
    "not(1,2)" => match v {
      In::Num(x) => *x != 1 && *x != 2,
      _ => return None,
    },
    "\"a\"" => *v == In::Str("a"),
    "<=2" => n.map(|x| x <= 2).unwrap_or(false),
    ">2" => n.map(|x| x > 2).unwrap_or(false),
    "[1..3)" => n.map(|x| x >= 1 && x < 3).unwrap_or(false),
    "(1..3]" => n.map(|x| x > 1 && x <= 3).unwrap_or(false),
    // negated comparisons, intervals and disjunctions: defined on numbers, left open otherwise (as not(1))
    "not(<2)" | "not(<=2)" | "not(>=2)" | "not(>2)" | "not([1..2])" | "not((1..3))" | "not(<=1,>=3)" | "not(<1,[2..3])" => match v {
      In::Num(x) => {
        let x = *x;
        !match entry {
          "not(<2)" => x < 2,
          "not(<=2)" => x <= 2,
          "not(>=2)" => x >= 2,
          "not(>2)" => x > 2,
          "not([1..2])" => (1..=2).contains(&x),
          "not((1..3))" => x > 1 && x < 3,
          "not(<=1,>=3)" => x <= 1 || x >= 3,
          _ => x < 1 || (2..=3).contains(&x),
        }
      }
      _ => return None,
    },
    _ => return None,
  })
}

const ENTRIES: &[&str] = &[
  "-", "1", "<2", ">=2", "[1..2]", "(1..3)", "]1..3[", "1,3", "not(1)", "not(1,2)", "\"a\"", "<=2", ">2", "[1..3)", "(1..3]", "not(<2)", "not(<=2)", "not(>=2)", "not(>2)", "not([1..2])", "not((1..3))", "not(<=1,>=3)",
  "not(<1,[2..3])",
];
const ENTRIES_SMALL: &[&str] = &["-", "1", ">=2", "[1..2]", "not(1)", "not(<=2)"];

fn ctx_of(pairs: &[(&str, &In)]) -> FeelContext {
  let mut c = FeelContext::default();
  for (k, v) in pairs {
    match v {
      In::Num(n) => c.set_entry(&Name::from(*k), num(*n)),
      In::Str(s) => c.set_entry(&Name::from(*k), Value::String(s.to_string())),
      In::Null => c.set_entry(&Name::from(*k), Value::Null(None)),
      In::Missing => {}
    }
  }
  c
}

fn family_a_specs(thorough: bool) -> Vec<Spec> {
  let mut out = vec![];
  let outs = |n: usize| -> Vec<(String, Option<Vec<OutCell>>, Option<OutCell>)> {
    let _ = n;
    vec![("o1".to_string(), Some(vec![OutCell::Num(30), OutCell::Num(20), OutCell::Num(10)]), None)]
  };
  // one input, up to three rules
  let max_rules = 3;
  for n in 1..=max_rules {
    let total = ENTRIES.len().pow(n as u32);
    for a in 0..total {
      let mut es = vec![];
      let mut x = a;
      for _ in 0..n {
        es.push(ENTRIES[x % ENTRIES.len()]);
        x /= ENTRIES.len();
      }
      for policy in POLICIES {
        if !thorough && n == 3 && !matches!(policy, Policy::Unique | Policy::Priority | Policy::Collect | Policy::Sum) {
          continue;
        }
        for allowed in [None, Some("0,1,2".to_string())] {
          if allowed.is_some() && n == 3 && !thorough {
            continue;
          }
          out.push(Spec {
            policy,
            inputs: vec![("x".to_string(), allowed)],
            outputs: outs(n),
            rules: es.iter().enumerate().map(|(i, e)| (vec![e.to_string()], vec![OutCell::Num(10 * (i as i64 + 1))])).collect(),
          });
        }
      }
    }
  }
  // two inputs, up to two rules over the small entry set
  for n in 1..=2 {
    let per_rule = ENTRIES_SMALL.len() * ENTRIES_SMALL.len();
    let total = per_rule.pow(n as u32);
    for a in 0..total {
      let mut rules = vec![];
      let mut x = a;
      for i in 0..n {
        let r = x % per_rule;
        x /= per_rule;
        rules.push((vec![ENTRIES_SMALL[r % ENTRIES_SMALL.len()].to_string(), ENTRIES_SMALL[r / ENTRIES_SMALL.len()].to_string()], vec![OutCell::Num(10 * (i as i64 + 1))]));
      }
      for policy in [Policy::Unique, Policy::First, Policy::Collect, Policy::Count] {
        out.push(Spec { policy, inputs: vec![("x".to_string(), None), ("y".to_string(), None)], outputs: outs(n), rules: rules.clone() });
      }
    }
  }
  // three and four inputs, one constrained column per rule
  for cols in [3usize, 4] {
    for col in 0..cols {
      for e in ENTRIES_SMALL {
        let names: Vec<String> = (0..cols).map(|i| format!("i{}", i)).collect();
        let mut entries = vec!["-".to_string(); cols];
        entries[col] = e.to_string();
        let mut other = vec!["-".to_string(); cols];
        other[(col + 1) % cols] = ">=2".to_string();
        out.push(Spec {
          policy: Policy::Collect,
          inputs: names.iter().map(|n| (n.clone(), None)).collect(),
          outputs: outs(2),
          rules: vec![(entries, vec![OutCell::Num(10)]), (other, vec![OutCell::Num(20)])],
        });
      }
    }
  }
  out
}

/// Default output entries: a single output clause with and without a name, two clauses; the default written as a literal
/// and as an expression over the table's input; every hit policy; as a decision and as a knowledge model invoked by a
/// decision; each table evaluated on ONE evaluator for a sequence of inputs (no rule matches / a rule matches / no rule
/// matches with another input), so that a default computed once or at build time shows.
/// the inputs evaluated on the same evaluator before the given one (the sequence is 3, 1, 2, 3, 0; the second 3 is never
/// the first failure: a failure at 3 is reported at its first occurrence)
fn history_before(m: i64) -> Vec<i64> {
  match m {
    3 => vec![],
    2 => vec![3, 1],
    _ => vec![3, 1, 2, 3],
  }
}

fn family_defaults(run: &Run, cnt: &Cnt) -> u64 {
  let mut tables = 0u64;
  for policy in POLICIES {
    for shape in ["single-unnamed", "single-named", "two-named"] {
      for default_kind in ["literal", "expression-over-the-input"] {
        for host in ["decision", "knowledge-model"] {
          tables += 1;
          cnt.tables.fetch_add(1, Ordering::Relaxed);
          let (hp, agg) = policy.xml();
          let def = |k: i64| if default_kind == "literal" { format!("{}", 7 + k) } else { format!("m * 100 + {}", k) };
          let outputs = match shape {
            "single-unnamed" => vec![dmn::TableOutput { name: None, type_ref: None, values: None, default: Some(def(1)) }],
            "single-named" => vec![dmn::TableOutput { name: Some("o1".into()), type_ref: None, values: None, default: Some(def(1)) }],
            _ => vec![
              dmn::TableOutput { name: Some("o1".into()), type_ref: None, values: None, default: Some(def(1)) },
              dmn::TableOutput { name: Some("o2".into()), type_ref: None, values: None, default: Some(def(2)) },
            ],
          };
          let n_out = outputs.len();
          let table = dmn::Table {
            hit_policy: hp.to_string(),
            aggregation: agg.map(|a| a.to_string()),
            output_label: None,
            inputs: vec![dmn::TableInput { expr: "m".into(), type_ref: None, values: None }],
            outputs,
            rules: vec![dmn::TableRule { inputs: vec!["1".into()], outputs: (0..n_out).map(|k| format!("{}", 50 + k)).collect() }],
          };
          let mut m = dmn::Model::new("https://verif/c03d", "c03d");
          m.inputs.push(dmn::Input { name: "m".into(), type_ref: "number".into() });
          if host == "decision" {
            m.decisions.push(dmn::Decision { name: "D".into(), type_ref: None, requires: dmn::Requires { inputs: vec!["m".into()], ..Default::default() }, logic: Some(dmn::Expr::Table(table)) });
          } else {
            m.bkms.push(dmn::Bkm { name: "T".into(), type_ref: None, params: vec![("m".into(), Some("number".into()))], knowledge: vec![], logic: dmn::Expr::Table(table) });
            m.decisions.push(dmn::Decision { name: "D".into(), type_ref: None, requires: dmn::Requires { inputs: vec!["m".into()], knowledge: vec!["T".into()], ..Default::default() }, logic: Some(dmn::Expr::lit("T(m)")) });
          }
          let xml = m.to_xml();
          let me = match dmntk_model::parse(&xml).map_err(|e| e.to_string()).and_then(|d| dmntk_model_evaluator::ModelEvaluator::new(&d).map_err(|e| e.to_string())) {
            Ok(me) => me,
            Err(e) => {
              run.violation(&format!("build:defaults:{}", policy.name()), &format!("generated table does not load: {}", e), json!({"engine":"c03","xml":xml}));
              continue;
            }
          };
          // aggregation over several clauses is left open (see the assumptions)
          let aggregating = matches!(policy, Policy::Sum | Policy::Min | Policy::Max | Policy::Count);
          if aggregating && n_out > 1 {
            continue;
          }
          for mval in [3i64, 1, 2, 3, 0] {
            cnt.evals.fetch_add(1, Ordering::Relaxed);
            if mval == 1 {
              // a rule matches: covered by the other families, evaluated here for the history only
              let _ = me.evaluate_invocable("D", &ctx_of(&[("m", &In::Num(mval))]));
              continue;
            }
            let dv = |k: i64| if default_kind == "literal" { 7 + k } else { mval * 100 + k };
            let expected = if n_out == 1 { format!("{}", dv(1)) } else { format!("{{o1: {}, o2: {}}}", dv(1), dv(2)) };
            let ctx = ctx_of(&[("m", &In::Num(mval))]);
            let got = crate::rval::show_value_full(&me.evaluate_invocable("D", &ctx));
            cnt.compared.fetch_add(1, Ordering::Relaxed);
            cnt.nontrivial.fetch_add(1, Ordering::Relaxed);
            if got != expected {
              run.violation(
                &format!("result:defaults:{}:{}:{}:{}", policy.name(), shape, default_kind, host),
                &format!("hit policy {} table ({}, default output entr{} as {}, hosted by a {}), no rule matches for m = {} (after the inputs before it in 3, 1, 2, 3, 0 on the same evaluator): evaluates to {} but the default output entry gives {}", policy.name(), shape, if n_out == 1 { "y" } else { "ies" }, default_kind, host, mval, got, expected),
                json!({"engine":"c03","xml":xml,"invocable":"D","ctx":ctx.to_string(),"expected":expected,"history_before":history_before(mval)}),
              );
              break;
            }
          }
        }
      }
    }
  }
  tables
}

/// Entries over input values of the other kinds (boolean, string, date, time, date and time, durations): a literal, a
/// disjunction, their negations, and - for the ordered kinds - comparisons, intervals and their negations. One table per
/// kind under COLLECT: the result lists exactly the rules whose entry the input satisfies.
fn family_entry_kinds(run: &Run, cnt: &Cnt) -> u64 {
  // (typeRef, three values in ascending order (two for boolean), ordered)
  let kinds: Vec<(&str, Vec<&str>, bool)> = vec![
    ("boolean", vec!["false", "true"], false),
    ("string", vec!["\"a\"", "\"b\"", "\"c\""], true),
    ("date", vec!["date(\"2020-01-01\")", "date(\"2020-01-02\")", "date(\"2021-06-15\")"], true),
    ("time", vec!["time(\"10:00:00Z\")", "time(\"11:00:00Z\")", "time(\"12:30:00Z\")"], true),
    ("dateTime", vec!["date and time(\"2020-01-01T10:00:00Z\")", "date and time(\"2020-01-01T11:00:00Z\")", "date and time(\"2021-06-15T00:00:00Z\")"], true),
    ("dayTimeDuration", vec!["duration(\"P1D\")", "duration(\"P2D\")", "duration(\"P3DT1H\")"], true),
    ("yearMonthDuration", vec!["duration(\"P1Y\")", "duration(\"P2Y\")", "duration(\"P3Y1M\")"], true),
  ];
  let mut tables = 0u64;
  for (type_ref, vals, ordered) in &kinds {
    tables += 1;
    cnt.tables.fetch_add(1, Ordering::Relaxed);
    let v = |i: usize| vals[i.min(vals.len() - 1)];
    // (entry text, predicate over the index of the input value)
    let mut entries: Vec<(String, Box<dyn Fn(usize) -> bool>)> = vec![
      (v(0).to_string(), Box::new(|i| i == 0)),
      (format!("not({})", v(0)), Box::new(|i| i != 0)),
      (format!("{}, {}", v(0), v(1)), Box::new(|i| i <= 1)),
      (format!("not({}, {})", v(0), v(1)), Box::new(|i| i > 1)),
      (format!("not({})", v(1)), Box::new(|i| i != 1)),
      ("-".to_string(), Box::new(|_| true)),
    ];
    if *ordered {
      entries.push((format!("< {}", v(1)), Box::new(|i| i < 1)));
      entries.push((format!(">= {}", v(1)), Box::new(|i| i >= 1)));
      entries.push((format!("not(< {})", v(1)), Box::new(|i| i >= 1)));
      entries.push((format!("[{}..{}]", v(0), v(1)), Box::new(|i| i <= 1)));
      entries.push((format!("({}..{}]", v(0), v(2)), Box::new(|i| i >= 1)));
      entries.push((format!("not([{}..{}])", v(0), v(1)), Box::new(|i| i > 1)));
      entries.push((format!("not(<= {}, {})", v(0), v(2)), Box::new(|i| i == 1)));
    }
    let table = dmn::Table {
      hit_policy: "COLLECT".into(),
      aggregation: None,
      output_label: None,
      inputs: vec![dmn::TableInput { expr: "m".into(), type_ref: None, values: None }],
      outputs: vec![dmn::TableOutput { name: None, type_ref: None, values: None, default: None }],
      rules: entries.iter().enumerate().map(|(k, (e, _))| dmn::TableRule { inputs: vec![e.clone()], outputs: vec![format!("{}", k + 1)] }).collect(),
    };
    let mut m = dmn::Model::new("https://verif/c03k", "c03k");
    m.inputs.push(dmn::Input { name: "m".into(), type_ref: type_ref.to_string() });
    m.decisions.push(dmn::Decision { name: "D".into(), type_ref: None, requires: dmn::Requires { inputs: vec!["m".into()], ..Default::default() }, logic: Some(dmn::Expr::Table(table)) });
    let xml = m.to_xml();
    let me = match dmntk_model::parse(&xml).map_err(|e| e.to_string()).and_then(|d| dmntk_model_evaluator::ModelEvaluator::new(&d).map_err(|e| e.to_string())) {
      Ok(me) => me,
      Err(e) => {
        run.violation(&format!("build:entry-kinds:{}", type_ref), &format!("generated table over {} values does not load: {}", type_ref, e), json!({"engine":"c03","xml":xml}));
        continue;
      }
    };
    for (i, vt) in vals.iter().enumerate() {
      cnt.evals.fetch_add(1, Ordering::Relaxed);
      let ctx = match dmntk_feel_evaluator::evaluate_context(&dmntk_feel::Scope::default(), &format!("{{m: {}}}", vt)) {
        Ok(c) => c,
        Err(_) => continue,
      };
      let expected = format!("[{}]", entries.iter().enumerate().filter(|(_, (_, f))| f(i)).map(|(k, _)| (k + 1).to_string()).collect::<Vec<_>>().join(", "));
      let got = crate::rval::show_value_full(&me.evaluate_invocable("D", &ctx));
      cnt.compared.fetch_add(1, Ordering::Relaxed);
      cnt.nontrivial.fetch_add(1, Ordering::Relaxed);
      if got != expected {
        // name the entries that are judged wrongly
        let got_set: Vec<String> = got.trim_matches(|c| c == '[' || c == ']').split(", ").map(|s| s.to_string()).collect();
        let wrong: Vec<String> = entries.iter().enumerate().filter(|(k, (_, f))| f(i) != got_set.contains(&(k + 1).to_string())).map(|(_, (e, _))| e.clone()).collect();
        let negated = wrong.iter().all(|e| e.starts_with("not("));
        run.violation(
          &format!("result:entry-kinds:{}:{}", type_ref, if negated { "negated-entries" } else { "entries" }),
          &format!("COLLECT table over {} entries with m = {}: the rules {} match but {} are prescribed; entries judged wrongly: {:?}", type_ref, vt, got, expected, wrong),
          json!({"engine":"c03","xml":xml,"invocable":"D","ctx":ctx.to_string(),"expected":expected}),
        );
      }
    }
  }
  tables
}

pub fn run() {
  let run = Run::new("C03");
  let thorough = run.thorough();
  let cnt = Cnt {
    tables: AtomicU64::new(0),
    evals: AtomicU64::new(0),
    compared: AtomicU64::new(0),
    nontrivial: AtomicU64::new(0),
    unspec: AtomicU64::new(0),
  };
  // family B
  let mut b = family_b_specs(if thorough { 5 } else { 4 });
  b.extend(family_b_other_kinds_specs());
  b.par_iter().for_each(|spec| {
    cnt.tables.fetch_add(1, Ordering::Relaxed);
    let n = spec.rules.len();
    let masks: Vec<u32> = (0..(1u32 << n)).collect();
    let contexts: Vec<FeelContext> = masks
      .iter()
      .map(|m| {
        let mut c = FeelContext::default();
        c.set_entry(&Name::from("m"), num(*m as i64));
        c
      })
      .collect();
    match evaluate_both(spec, &contexts) {
      Err(e) => run.violation(&format!("build:hit-policy:{}", spec.policy.name()), &format!("generated table does not load: {}", e), json!({"engine":"c03","xml":spec.xml()})),
      Ok((vx, vs)) => {
        for (k, m) in masks.iter().enumerate() {
          let matches: Vec<bool> = (0..n).map(|i| m & (1 << i) != 0).collect();
          let expected = spec.reference(&matches);
          let n_match = matches.iter().filter(|x| **x).count();
          let class = format!(
            "{}-outputs:{}:{}",
            spec.outputs.len(),
            match n_match {
              0 => {
                if spec.outputs.iter().any(|o| o.2.is_some()) {
                  "no-match-with-default"
                } else {
                  "no-match"
                }
              }
              1 => "one-match",
              _ => "several-matches",
            },
            if spec.rules.iter().any(|r| r.1.iter().any(|c| matches!(c, OutCell::Str(_)))) {
              "outputs-not-all-numbers"
            } else if !matches!(spec.policy, Policy::Priority | Policy::OutputOrder) {
              "-"
            } else if spec.outputs[0].1.is_some() {
              "with-output-values"
            } else {
              "without-output-values"
            }
          );
          judge(&run, &cnt, "hit-policy", spec, &format!("match vector {:?}", matches), &contexts[k].to_string(), &expected, &vx[k], &vs[k], &class);
        }
      }
    }
  });
  // family A
  let a = family_a_specs(thorough);
  let ins = in_alphabet();
  a.par_iter().for_each(|spec| {
    cnt.tables.fetch_add(1, Ordering::Relaxed);
    let names: Vec<&str> = spec.inputs.iter().map(|(n, _)| n.as_str()).collect();
    // input tuples: full product for one and two inputs, the diagonal-plus-axes for more
    let mut tuples: Vec<Vec<In>> = vec![];
    match names.len() {
      1 => ins.iter().for_each(|v| tuples.push(vec![v.clone()])),
      2 => {
        for v in &ins {
          for w in &ins {
            tuples.push(vec![v.clone(), w.clone()]);
          }
        }
      }
      k => {
        for v in &ins {
          tuples.push(vec![v.clone(); k]);
          for col in 0..k {
            let mut t = vec![In::Num(2); k];
            t[col] = v.clone();
            tuples.push(t);
          }
        }
      }
    }
    let contexts: Vec<FeelContext> = tuples.iter().map(|t| ctx_of(&names.iter().cloned().zip(t.iter()).collect::<Vec<_>>())).collect();
    match evaluate_both(spec, &contexts) {
      Err(e) => run.violation(&format!("build:matching:{}", spec.policy.name()), &format!("generated table does not load: {}", e), json!({"engine":"c03","xml":spec.xml()})),
      Ok((vx, vs)) => {
        for (k, t) in tuples.iter().enumerate() {
          // which rules match by the reference predicates
          let mut matches = vec![];
          let mut unspec = false;
          for (entries, _) in &spec.rules {
            let mut all = true;
            for (col, e) in entries.iter().enumerate() {
              let allowed_ok = match &spec.inputs[col].1 {
                None => Some(true),
                Some(_) => match &t[col] {
                  In::Num(x) => Some((0..=2).contains(x)),
                  In::Str(_) => Some(false),
                  _ => None,
                },
              };
              match (allowed_ok, entry_matches(e, &t[col])) {
                (Some(true), Some(true)) => {}
                (Some(false), _) | (_, Some(false)) => all = false,
                _ => unspec = true,
              }
            }
            matches.push(all);
          }
          let expected = if unspec { Out::Unspec } else { spec.reference(&matches) };
          let class = format!("{}-inputs:{}", names.len(), if spec.inputs[0].1.is_some() { "with-input-values" } else { "plain" });
          let what = format!("{:?} against entries {:?}", t, spec.rules.iter().map(|r| r.0.clone()).collect::<Vec<_>>());
          judge(&run, &cnt, "matching", spec, &what, &contexts[k].to_string(), &expected, &vx[k], &vs[k], &class);
        }
      }
    }
  });
  let n_defaults = family_defaults(&run, &cnt);
  let n_kinds = family_entry_kinds(&run, &cnt);
  run.set("entry_kind_tables", json!(n_kinds));
  run.set("default_output_tables", json!(n_defaults));
  if let Some(s) = b.get(b.len() / 2) {
    run.sample(json!({"family":"hit-policy","policy":s.policy.name(),"rules":s.rules.len(),"outputs":s.outputs.len(),"xml_excerpt":s.xml().chars().take(600).collect::<String>()}));
  }
  if let Some(s) = a.get(a.len() / 3) {
    run.sample(json!({"family":"matching","policy":s.policy.name(),"entries":s.rules.iter().map(|r| r.0.clone()).collect::<Vec<_>>()}));
  }
  run.set("states", json!(cnt.tables.load(Ordering::Relaxed)));
  run.set("transitions", json!(cnt.evals.load(Ordering::Relaxed)));
  run.set("traces_validated_against_impl", json!(cnt.compared.load(Ordering::Relaxed)));
  run.set("evaluations", json!(cnt.evals.load(Ordering::Relaxed)));
  run.set("distinct_nontrivial", json!(cnt.nontrivial.load(Ordering::Relaxed)));
  run.set("rule", json!("(table, input) pairs, distinct by construction, whose prescribed result is not null; hit-policy family: every rule count up to the bound x every output assignment x every policy x 1..3 output clauses x default present/absent x output values present/absent x every match vector; matching family: every 1-input table of up to 3 rules over the entry alphabet, 2-input tables over the small alphabet, 3-4 input tables, x the input alphabet"));
  run.set("exhaustive", json!(true));
  run.set("hit_policy_tables", json!(b.len()));
  run.set("matching_tables", json!(a.len()));
  run.set("unspecified_not_compared", json!(cnt.unspec.load(Ordering::Relaxed)));
  run.assume("reference hit-policy table and entry predicates in engines/c03.rs; `-` on a null input, not(..) on a value of another kind, PRIORITY / OUTPUT ORDER without output values, aggregators over several output clauses, MIN / MAX over outputs of mixed kinds and partially defined defaults are left unspecified");
  run.finish();
}

/// replay of one recorded (table, input): the XML path is evaluated again and compared with the recorded expectation
pub fn replay_case(case: &serde_json::Value) -> String {
  let xml = case.get("xml").and_then(|x| x.as_str()).unwrap_or("");
  let expected = case.get("expected").and_then(|x| x.as_str()).unwrap_or("");
  let defs = match dmntk_model::parse(xml) {
    Ok(d) => d,
    Err(e) => return format!("FAIL the table model does not parse: {}", e),
  };
  let me = match ModelEvaluator::new(&defs) {
    Ok(m) => m,
    Err(e) => return format!("FAIL the table model does not build: {}", e),
  };
  let ctx_text = case.get("ctx").and_then(|x| x.as_str()).unwrap_or("{}");
  let ctx = match dmntk_feel_evaluator::evaluate_context(&Scope::default(), ctx_text) {
    Ok(c) => c,
    Err(e) => return format!("MACHINERY the recorded input {} does not evaluate: {}", ctx_text, e),
  };
  // the inputs that the same evaluator saw before the recorded one
  if let Some(h) = case.get("history_before").and_then(|h| h.as_array()) {
    for m in h.iter().filter_map(|m| m.as_i64()) {
      let _ = me.evaluate_invocable("D", &ctx_of(&[("m", &In::Num(m))]));
    }
  }
  let got = crate::rval::show_value_full(&me.evaluate_invocable("D", &ctx));
  if expected.is_empty() || expected == "<unspecified>" {
    format!("OBSERVED input {} gives {}", ctx_text, got)
  } else if got == expected {
    format!("PASS input {} gives {}", ctx_text, got)
  } else {
    format!("FAIL input {} gives {} but the hit policy prescribes {}", ctx_text, got, expected)
  }
}
