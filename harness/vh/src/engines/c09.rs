//! C09 — three-valued logic, equality and ordering obey their laws on all values.

use crate::report::Run;
use crate::rval::show_value;
use dmntk_feel::context::FeelContext;
use dmntk_feel::values::Value;
use dmntk_feel::{Evaluator, Name, Scope};
use dmntk_feel_evaluator::prepare;
use dmntk_feel_parser::parse_expression;
use rayon::prelude::*;
use serde_json::json;
use std::collections::BTreeSet;
use std::convert::TryFrom;
use std::sync::atomic::{AtomicU64, Ordering};

fn eval_text(text: &str) -> Value {
  let scope = Scope::default();
  match parse_expression(&scope, text, false) {
    Ok(n) => dmntk_feel_evaluator::evaluate(&scope, &n).unwrap_or(Value::Null(Some("evaluate error".into()))),
    Err(e) => Value::Null(Some(format!("parse error {}", e))),
  }
}

/// The value alphabet: FEEL text of each value (built by the implementation itself).
pub fn alphabet() -> Vec<&'static str> {
  vec![
    "null",
    // nulls produced by failed operations (they carry a diagnostic text, which is not part of the value)
    "(1 < \"a\")",
    "(1 / 0)",
    "true",
    "false",
    "-1",
    "0",
    "0.0",
    "1",
    "1.0",
    "1.00",
    "2",
    "1000000000000000000000000000000",
    "\"\"",
    "\"a\"",
    "\"b\"",
    "\"A\"",
    "\"ab\"",
    "date(\"2020-01-01\")",
    "date(\"2020-01-02\")",
    "date(\"0999-12-31\")",
    "date(\"-0001-01-01\")",
    "date(\"300000-01-01\")",
    "time(\"10:00:00Z\")",
    "time(\"10:00:00+01:00\")",
    "time(\"11:00:00+01:00\")",
    "date and time(\"2020-01-01T10:00:00Z\")",
    "date and time(\"2020-01-01T11:00:00+01:00\")",
    "date and time(\"2020-01-01T12:00:00+01:00\")",
    // close instants on different sides of a daylight-saving transition and of a change of date
    "date and time(\"2021-03-28T01:45:00Z\")",
    "date and time(\"2021-03-28T03:30:00@Europe/Warsaw\")",
    "date and time(\"2021-03-28T01:30:00Z\")",
    "date and time(\"2021-03-27T23:30:00-02:00\")",
    "duration(\"P1D\")",
    "duration(\"PT24H\")",
    "duration(\"P0D\")",
    "duration(\"-P0D\")",
    "duration(\"P1Y\")",
    "duration(\"P12M\")",
    "duration(\"P1M\")",
    "[]",
    "[1]",
    "[1, 2]",
    "[null]",
    "[[1], [2]]",
    "{}",
    "{a: 1}",
    "{a: 1, b: 2}",
    "{b: 2, a: 1}",
    // other keys, values of other kinds, nested values
    "{a: 1, c: \"x\"}",
    "{c: 1, d: 1}",
    "{a: \"x\"}",
    "{a: [1], b: {c: null}}",
    "[1, [2]]",
    "[{a: 1}]",
    "[1..2]",
    "(1..2)",
    "function(p) p",
  ]
}

fn kind(v: &Value) -> &'static str {
  match v {
    Value::Null(_) => "null",
    Value::Boolean(_) => "boolean",
    Value::Number(_) => "number",
    Value::String(_) => "string",
    Value::Date(_) => "date",
    Value::Time(_) => "time",
    Value::DateTime(_) => "date-time",
    Value::DaysAndTimeDuration(_) => "dt-duration",
    Value::YearsAndMonthsDuration(_) => "ym-duration",
    Value::List(_) => "list",
    Value::Context(_) => "context",
    Value::Range(..) => "range",
    Value::FunctionDefinition(..) => "function",
    _ => "other",
  }
}

/// tri-state boolean of a result
fn tri(v: &Value) -> Option<bool> {
  match v {
    Value::Boolean(b) => Some(*b),
    _ => None,
  }
}

fn tri_s(t: Option<bool>) -> &'static str {
  match t {
    Some(true) => "true",
    Some(false) => "false",
    None => "null",
  }
}

struct Laws {
  and_: Evaluator,
  or_: Evaluator,
  eq_ab: Evaluator,
  eq_ba: Evaluator,
  ne_ab: Evaluator,
  lt_ab: Evaluator,
  gt_ba: Evaluator,
  le_ab: Evaluator,
  ge_ba: Evaluator,
  gt_ab: Evaluator,
  between: Evaluator,
  in_cc: Evaluator,
  conj_cc: Evaluator,
  in_oo: Evaluator,
  conj_oo: Evaluator,
  in_oc: Evaluator,
  conj_oc: Evaluator,
  in_co: Evaluator,
  conj_co: Evaluator,
  /// end points that are constructor calls over names (dates only)
  in_cc_built: Evaluator,
  in_oc_built: Evaluator,
}

fn prep(text: &str) -> Evaluator {
  let names: BTreeSet<String> = ["a", "b", "c"].iter().map(|s| s.to_string()).collect();
  let ps = crate::rval::parse_scope_of(&names);
  let node = parse_expression(&ps, text, false).unwrap_or_else(|e| panic!("law expression `{}` does not parse: {}", text, e));
  prepare(&node).unwrap()
}

fn laws() -> Laws {
  Laws {
    and_: prep("a and b"),
    or_: prep("a or b"),
    eq_ab: prep("a = b"),
    eq_ba: prep("b = a"),
    ne_ab: prep("a != b"),
    lt_ab: prep("a < b"),
    gt_ba: prep("b > a"),
    le_ab: prep("a <= b"),
    ge_ba: prep("b >= a"),
    gt_ab: prep("a > b"),
    between: prep("a between b and c"),
    in_cc: prep("a in [b..c]"),
    conj_cc: prep("b <= a and a <= c"),
    in_oo: prep("a in (b..c)"),
    conj_oo: prep("b < a and a < c"),
    in_oc: prep("a in (b..c]"),
    conj_oc: prep("b < a and a <= c"),
    in_co: prep("a in [b..c)"),
    conj_co: prep("b <= a and a < c"),
    in_cc_built: prep("a in [date(string(b))..date(string(c))]"),
    in_oc_built: prep("a in (date(b.year, b.month, b.day)..date(c.year, c.month, c.day)]"),
  }
}

fn scope3(a: &Value, b: &Value, c: Option<&Value>) -> Scope {
  let mut ctx = FeelContext::default();
  ctx.set_entry(&Name::from("a"), a.clone());
  ctx.set_entry(&Name::from("b"), b.clone());
  if let Some(c) = c {
    ctx.set_entry(&Name::from("c"), c.clone());
  }
  Scope::from(ctx)
}

fn pair_class(ka: &str, kb: &str) -> String {
  if ka == "null" && kb != "null" {
    "(null,non-null)".into()
  } else if kb == "null" && ka != "null" {
    "(non-null,null)".into()
  } else {
    format!("({},{})", ka, kb)
  }
}

struct Cnt {
  evals: AtomicU64,
  instances: AtomicU64,
}

fn check_pair(run: &Run, l: &Laws, ta: &str, a: &Value, tb: &str, b: &Value, ordered_lattice: bool, cnt: &Cnt) {
  let s = scope3(a, b, None);
  let (ka, kb) = (kind(a), kind(b));
  let pc = pair_class(ka, kb);
  let case = |law: &str| json!({"engine":"c09","law":law,"a":ta,"b":tb});
  let mut n = 0u64;
  // L1 truth tables
  let (ba, bb) = (tri(a), tri(b));
  let exp_and = match (ba, bb) {
    (Some(false), _) | (_, Some(false)) => Some(false),
    (Some(true), Some(true)) => Some(true),
    _ => None,
  };
  let exp_or = match (ba, bb) {
    (Some(true), _) | (_, Some(true)) => Some(true),
    (Some(false), Some(false)) => Some(false),
    _ => None,
  };
  let r_and = (l.and_)(&s);
  let r_or = (l.or_)(&s);
  n += 2;
  let is_null_or_bool = |v: &Value| matches!(v, Value::Null(_) | Value::Boolean(_));
  if tri(&r_and) != exp_and || !is_null_or_bool(&r_and) {
    run.violation(&format!("and-table:{}", pc), &format!("`a and b` with a = {}, b = {} gives {} but the truth table gives {}", ta, tb, show_value(&r_and), tri_s(exp_and)), case("and"));
  }
  if tri(&r_or) != exp_or || !is_null_or_bool(&r_or) {
    run.violation(&format!("or-table:{}", pc), &format!("`a or b` with a = {}, b = {} gives {} but the truth table gives {}", ta, tb, show_value(&r_or), tri_s(exp_or)), case("or"));
  }
  // L2..L4
  let eq_ab = (l.eq_ab)(&s);
  let eq_ba = (l.eq_ba)(&s);
  let ne_ab = (l.ne_ab)(&s);
  let lt_ab = (l.lt_ab)(&s);
  let gt_ba = (l.gt_ba)(&s);
  let le_ab = (l.le_ab)(&s);
  let ge_ba = (l.ge_ba)(&s);
  n += 7;
  for (name, v) in [("a = b", &eq_ab), ("a != b", &ne_ab), ("a < b", &lt_ab), ("a <= b", &le_ab)] {
    if !is_null_or_bool(v) {
      run.violation(&format!("not-boolean-or-null:{}:{}", name, pc), &format!("`{}` with a = {}, b = {} gives {}", name, ta, tb, show_value(v)), case(name));
    }
  }
  if tri(&eq_ab) != tri(&eq_ba) {
    run.violation(
      &format!("eq-symmetric:{}", pc),
      &format!("`a = b` gives {} but `b = a` gives {} for a = {}, b = {}", tri_s(tri(&eq_ab)), tri_s(tri(&eq_ba)), ta, tb),
      case("eq-symmetric"),
    );
  }
  if tri(&ne_ab) != tri(&eq_ab).map(|x| !x) {
    run.violation(
      &format!("ne-is-negation:{}", pc),
      &format!("`a != b` gives {} but `a = b` gives {} for a = {}, b = {}", tri_s(tri(&ne_ab)), tri_s(tri(&eq_ab)), ta, tb),
      case("ne-is-negation"),
    );
  }
  if tri(&lt_ab) != tri(&gt_ba) {
    run.violation(
      &format!("lt-gt-mirror:{}", pc),
      &format!("`a < b` gives {} but `b > a` gives {} for a = {}, b = {}", tri_s(tri(&lt_ab)), tri_s(tri(&gt_ba)), ta, tb),
      case("lt-gt-mirror"),
    );
  }
  if tri(&le_ab) != tri(&ge_ba) {
    run.violation(
      &format!("le-ge-mirror:{}", pc),
      &format!("`a <= b` gives {} but `b >= a` gives {} for a = {}, b = {}", tri_s(tri(&le_ab)), tri_s(tri(&ge_ba)), ta, tb),
      case("le-ge-mirror"),
    );
  }
  // ordered kinds
  if ka == kb && matches!(ka, "number" | "string" | "date" | "date-time") {
    let gt_ab = (l.gt_ab)(&s);
    n += 1;
    let trues = [tri(&lt_ab), tri(&eq_ab), tri(&gt_ab)];
    let count_true = trues.iter().filter(|t| **t == Some(true)).count();
    let all_bool = trues.iter().all(|t| t.is_some());
    let lat = if ordered_lattice { "/lattice" } else { "" };
    if count_true != 1 || !all_bool {
      run.violation(
        &format!("trichotomy:{}{}", ka, lat),
        &format!("a < b, a = b, a > b give {}, {}, {} for a = {}, b = {} (exactly one must be true)", tri_s(trues[0]), tri_s(trues[1]), tri_s(trues[2]), ta, tb),
        case("trichotomy"),
      );
    }
    let exp_le = match (tri(&lt_ab), tri(&eq_ab)) {
      (Some(x), Some(y)) => Some(x || y),
      _ => None,
    };
    if tri(&le_ab) != exp_le {
      run.violation(
        &format!("le-is-lt-or-eq:{}{}", ka, lat),
        &format!("`a <= b` gives {} but a < b is {} and a = b is {} for a = {}, b = {}", tri_s(tri(&le_ab)), tri_s(tri(&lt_ab)), tri_s(tri(&eq_ab)), ta, tb),
        case("le-is-lt-or-eq"),
      );
    }
  }
  cnt.evals.fetch_add(n, Ordering::Relaxed);
  cnt.instances.fetch_add(1, Ordering::Relaxed);
}

fn check_triple(run: &Run, l: &Laws, ta: &str, a: &Value, tb: &str, b: &Value, tc: &str, c: &Value, cnt: &Cnt) {
  let (ka, kb, kc) = (kind(a), kind(b), kind(c));
  if !(ka == kb && kb == kc && matches!(ka, "number" | "string" | "date" | "date-time")) {
    return;
  }
  let s = scope3(a, b, Some(c));
  let case = |law: &str| json!({"engine":"c09","law":law,"a":ta,"b":tb,"c":tc});
  let bt = (l.between)(&s);
  let forms: [(&str, &Evaluator, &Evaluator); 4] = [("[b..c]", &l.in_cc, &l.conj_cc), ("(b..c)", &l.in_oo, &l.conj_oo), ("(b..c]", &l.in_oc, &l.conj_oc), ("[b..c)", &l.in_co, &l.conj_co)];
  for (i, (name, inn, conj)) in forms.iter().enumerate() {
    let vi = inn(&s);
    let vc = conj(&s);
    if tri(&vi) != tri(&vc) {
      run.violation(
        &format!("interval-vs-comparisons:{}:{}", name, ka),
        &format!("`a in {}` gives {} but the comparisons give {} for a = {}, b = {}, c = {}", name, tri_s(tri(&vi)), tri_s(tri(&vc)), ta, tb, tc),
        case("interval-vs-comparisons"),
      );
    }
    if i == 0 && tri(&bt) != tri(&vi) {
      run.violation(
        &format!("between-vs-interval:{}", ka),
        &format!("`a between b and c` gives {} but `a in [b..c]` gives {} for a = {}, b = {}, c = {}", tri_s(tri(&bt)), tri_s(tri(&vi)), ta, tb, tc),
        case("between-vs-interval"),
      );
    }
  }
  if ka == "date" {
    for (name, built, plain) in [("[date(string(b))..date(string(c))]", &l.in_cc_built, &l.in_cc), ("(date(b.year, b.month, b.day)..date(c.year, c.month, c.day)]", &l.in_oc_built, &l.in_oc)] {
      let (vb, vp) = (built(&s), plain(&s));
      if tri(&vb) != tri(&vp) {
        run.violation(
          "interval-with-end-points-built-from-names:date",
          &format!("`a in {}` gives {} but with the end points b and c themselves it gives {} for a = {}, b = {}, c = {}", name, tri_s(tri(&vb)), tri_s(tri(&vp)), ta, tb, tc),
          case("interval-with-end-points-built-from-names"),
        );
      }
    }
    cnt.evals.fetch_add(2, Ordering::Relaxed);
  }
  cnt.evals.fetch_add(9, Ordering::Relaxed);
  cnt.instances.fetch_add(1, Ordering::Relaxed);
}

/// Dense deterministic lattices of the ordered kinds.
pub fn number_lattice(thorough: bool) -> Vec<String> {
  let mut out: Vec<String> = vec![];
  let coefs: Vec<&str> = if thorough {
    vec!["0", "1", "2", "5", "9", "10", "15", "99", "100", "9999999999999999999999999999999999", "1000000000000000000000000000000000", "1234567890123456789012345678901234"]
  } else {
    vec!["0", "1", "9", "10", "9999999999999999999999999999999999", "1000000000000000000000000000000000"]
  };
  let exps: Vec<i32> = if thorough { vec![-40, -34, -33, -2, -1, 0, 1, 2, 33, 34] } else { vec![-34, -1, 0, 1, 33] };
  for c in &coefs {
    for e in &exps {
      for sign in ["", "-"] {
        // plain decimal text
        let text = if *e >= 0 {
          format!("{}{}{}", sign, c, "0".repeat(*e as usize))
        } else {
          let k = (-*e) as usize;
          let digits = if c.len() <= k { format!("{}{}", "0".repeat(k - c.len() + 1), c) } else { c.to_string() };
          let (ip, fp) = digits.split_at(digits.len() - k);
          format!("{}{}.{}", sign, ip, fp)
        };
        // FEEL numeric literals have no sign: written as negation
        out.push(text);
      }
    }
  }
  out.sort();
  out.dedup();
  out
}

pub fn string_lattice() -> Vec<String> {
  let base = ["", "a", "A", "aa", "ab", "b", "a ", " a", "é", "e", "z", "Z", "zz", "日本", "日", "🐎", "a🐎", "🐎a", "\u{FFFD}", "\u{10000}", "0", "1", "10", "2", "~", "a\u{0301}", "á"];
  base.iter().map(|s| s.to_string()).collect()
}

pub fn date_lattice(thorough: bool) -> Vec<String> {
  let mut out = vec![];
  let years: Vec<i64> = if thorough {
    vec![-999999999, -262145, -262144, -10000, -1, 0, 1, 999, 1000, 1999, 2000, 2020, 9999, 10000, 262143, 262144, 999999999]
  } else {
    vec![-999999999, -262145, -1, 1, 999, 2000, 2020, 262143, 262144, 999999999]
  };
  for y in years {
    for (m, d) in [(1, 1), (2, 28), (12, 31)] {
      let ys = if y < 0 { format!("-{:04}", -y) } else { format!("{:04}", y) };
      out.push(format!("{}-{:02}-{:02}", ys, m, d));
    }
  }
  out
}

pub fn run() {
  let run = Run::new("C09");
  let l = laws();
  let cnt = Cnt {
    evals: AtomicU64::new(0),
    instances: AtomicU64::new(0),
  };
  // alphabet
  let texts = alphabet();
  let vals: Vec<(&str, Value)> = texts.iter().map(|t| (*t, eval_text(t))).collect();
  let kinds: BTreeSet<&str> = vals.iter().map(|(_, v)| kind(v)).collect();
  for (t, v) in &vals {
    if matches!(v, Value::Null(_)) && *t != "null" && !t.starts_with('(') {
      // a value of the alphabet that the implementation cannot even build (e.g. a date it rejects): reported by
      // C14; here it simply acts as one more null
      run.sample(json!({"alphabet_value_is_null": t}));
    }
  }
  // all ordered pairs (sequential: Evaluator is not Sync)
  for (ta, a) in &vals {
    for (tb, b) in &vals {
      check_pair(&run, &l, ta, a, tb, b, false, &cnt);
    }
  }
  // all ordered triples
  for (ta, a) in &vals {
    for (tb, b) in &vals {
      for (tc, c) in &vals {
        check_triple(&run, &l, ta, a, tb, b, tc, c, &cnt);
      }
    }
  }
  run.sample(json!({"pair": ["null", "1"], "laws": ["and/or tables", "a = b ≡ b = a", "a != b ≡ not(a = b)", "a < b ≡ b > a", "a <= b ≡ b >= a"]}));
  run.sample(json!({"triple": ["1", "0", "2"], "laws": ["a between b and c ≡ a in [b..c] ≡ b <= a and a <= c", "open ends ≙ strict"]}));

  // dense lattices of the ordered kinds: each worker thread prepares its own law evaluators
  let nums: Vec<(String, Value)> = number_lattice(true)
    .into_iter()
    .map(|t| {
      let v = t.parse::<dmntk_feel::FeelNumber>().ok();
      (t, v)
    })
    .filter_map(|(t, v)| v.map(|n| (t, Value::Number(n))))
    .collect();
  let strs: Vec<(String, Value)> = string_lattice().into_iter().map(|s| (format!("{:?}", s), Value::String(s))).collect();
  let dates: Vec<(String, Value)> = date_lattice(true)
    .into_iter()
    .filter_map(|d| dmntk_feel::FeelDate::try_from(d.as_str()).ok().map(|v| (format!("date(\"{}\")", d), Value::Date(v))))
    .collect();
  // date and time values a few hours around midnight in offsets 22 hours apart and a named zone: the order of the
  // instants is not the order of the dates and times as written
  let mut dts: Vec<(String, Value)> = vec![];
  for day in 1..=4 {
    for hm in ["01:00:00", "23:00:00"] {
      for zone in ["-10:00", "Z", "+12:00", "@Europe/Warsaw"] {
        let text = format!("2020-01-{:02}T{}{}", day, hm, zone);
        if let Ok(v) = dmntk_feel::FeelDateTime::try_from(text.as_str()) {
          dts.push((format!("date and time(\"{}\")", text), Value::DateTime(v)));
        }
      }
    }
  }
  let lattice_sizes = json!({"numbers": nums.len(), "strings": strs.len(), "dates": dates.len(), "dates and times": dts.len()});
  for lat in [&nums, &strs, &dates, &dts] {
    (0..lat.len()).into_par_iter().for_each(|i| {
      let l = laws();
      let (ta, a) = &lat[i];
      for (tb, b) in lat.iter() {
        check_pair(&run, &l, ta, a, tb, b, true, &cnt);
      }
      // triples: every b, c for this a (thorough) / every 2nd (quick keeps all pairs, thins triples' third axis)
      for (tb, b) in lat.iter() {
        for (tc, c) in lat.iter() {
          check_triple(&run, &l, ta, a, tb, b, tc, c, &cnt);
        }
      }
    });
  }
  let n = vals.len() as u64;
  run.set("states", json!(n * n + n * n * n));
  run.set("transitions", json!(cnt.evals.load(Ordering::Relaxed)));
  run.set("traces_validated_against_impl", json!(cnt.instances.load(Ordering::Relaxed)));
  run.set("evaluations", json!(cnt.evals.load(Ordering::Relaxed)));
  run.set("distinct_nontrivial", json!(cnt.instances.load(Ordering::Relaxed)));
  run.set("rule", json!("law instances: every ordered pair of the value alphabet (all laws), every ordered triple of one ordered kind (between / interval / comparison agreement), plus all pairs and triples of the dense number, string, date and date-and-time lattices; all distinct by construction"));
  run.set("exhaustive", json!(true));
  run.set("alphabet", json!(texts));
  run.set("alphabet_kinds", json!(kinds.iter().collect::<Vec<_>>()));
  run.set("lattice_sizes", lattice_sizes);
  run.outcomes_bulk(kinds.iter().map(|k| k.to_string()));
  run.assume("the laws are checked between two observations of the implementation; no external oracle is involved except the and/or truth tables");
  run.finish();
}

/// replay of one recorded pair / triple: every law is evaluated again on exactly these operands
pub fn replay_case(case: &serde_json::Value) -> String {
  let g = |k: &str| case.get(k).and_then(|x| x.as_str()).map(|x| x.to_string());
  let (ta, tb, tc) = (g("a").unwrap_or_default(), g("b").unwrap_or_default(), g("c"));
  let law = g("law").unwrap_or_default();
  let run = Run::new("C09");
  let l = laws();
  let cnt = Cnt { evals: AtomicU64::new(0), instances: AtomicU64::new(0) };
  let (a, b) = (eval_text(&ta), eval_text(&tb));
  match &tc {
    Some(tc) => check_triple(&run, &l, &ta, &a, &tb, &b, tc, &eval_text(tc), &cnt),
    None => {
      check_pair(&run, &l, &ta, &a, &tb, &b, true, &cnt);
    }
  }
  let v = run.violations_snapshot();
  // the recorded law first, any other law broken by the same operands otherwise
  let hit = v.iter().find(|(k, _)| k.starts_with(&law)).or_else(|| v.first());
  match hit {
    Some((k, w)) => format!("FAIL {}: {}", k, w),
    None => format!("PASS every law holds for a = {}, b = {}{}", ta, tb, tc.map(|c| format!(", c = {}", c)).unwrap_or_default()),
  }
}
