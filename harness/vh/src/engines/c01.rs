//! C01 — FEEL core expressions evaluate to the value the semantics assigns.

use crate::gen_core::*;
use crate::ref_feel::Interp;
use crate::report::{load_known, Run};
use crate::rval::*;
use crate::term::*;
use dmntk_feel::context::FeelContext;
use dmntk_feel::values::Value;
use dmntk_feel::{Name, Scope};
use dmntk_feel_evaluator::evaluate;
use dmntk_feel_parser::parse_expression;
use rayon::prelude::*;
use serde_json::json;
use std::collections::{BTreeSet, HashSet};
use std::sync::atomic::{AtomicU64, Ordering};
use std::sync::Mutex;

pub struct Stats {
  pub terms: AtomicU64,
  pub evals: AtomicU64,
  pub compared: AtomicU64,
  pub skipped_unspec: AtomicU64,
  pub nontrivial: AtomicU64,
  pub parse_errors: AtomicU64,
  pub scope_checks: AtomicU64,
  pub outcomes: Mutex<HashSet<u64>>,
}

fn fnv(s: &str) -> u64 {
  let mut h: u64 = 0xcbf29ce484222325;
  for b in s.bytes() {
    h ^= b as u64;
    h = h.wrapping_mul(0x100000001b3);
  }
  h
}

pub fn bindings_for(t: &T, vals: &[RVal]) -> Vec<Vec<(String, RVal)>> {
  let (hx, hy) = free_names(t);
  let mut out = vec![];
  match (hx, hy) {
    (false, false) => out.push(vec![]),
    (true, false) => {
      for a in vals {
        out.push(vec![("x".to_string(), a.clone())])
      }
    }
    (false, true) => {
      for a in vals {
        out.push(vec![("y".to_string(), a.clone())])
      }
    }
    (true, true) => {
      for a in vals {
        for b in vals {
          out.push(vec![("x".to_string(), a.clone()), ("y".to_string(), b.clone())])
        }
      }
    }
  }
  out
}

/// A scope holding the same bindings plus unrelated entries and stacked contexts.
pub fn noisy_scope(bindings: &[(String, RVal)]) -> Scope {
  let mut bottom = FeelContext::default();
  bottom.set_entry(&Name::from("zz unrelated"), Value::Boolean(true));
  bottom.set_entry(&Name::from("other"), Value::String("noise".into()));
  let scope = Scope::from(bottom);
  // nulls - at any depth of a bound value - carry a diagnostic text here, as nulls produced by failed operations do:
  // the text is not part of the value
  fn annotate(v: Value, n: &mut u32) -> Value {
    match v {
      Value::Null(_) => {
        *n += 1;
        Value::Null(Some(format!("diagnostic text {}", n)))
      }
      Value::List(items) => Value::List(dmntk_feel::values::Values::new(items.as_vec().iter().map(|i| annotate(i.clone(), n)).collect())),
      Value::Context(ctx) => {
        let mut c = FeelContext::default();
        for (k, e) in ctx.iter() {
          c.set_entry(k, annotate(e.clone(), n));
        }
        Value::Context(c)
      }
      other => other,
    }
  }
  let mut n = 0u32;
  let mut mid = FeelContext::default();
  for (k, v) in bindings {
    if let Some(val) = v.to_value() {
      mid.set_entry(&Name::from(k.as_str()), annotate(val, &mut n));
    }
  }
  mid.set_entry(&Name::from("w"), Value::Null(None));
  scope.push(mid);
  scope.push(FeelContext::default());
  scope
}

fn kinds_of_children(t: &T, env: &Env, interp: &Interp) -> String {
  let mut ks = vec![];
  let mut n = 0;
  t.for_children(&mut |c| {
    if n < 3 && !binds_over(t, n) {
      ks.push(interp.eval(c, env).kind());
    }
    n += 1;
  });
  ks.join(",")
}

/// true when child `idx` of `t` is evaluated under binders introduced by `t` itself
fn binds_over(t: &T, idx: usize) -> bool {
  match t {
    T::For(doms, _) => {
      let n: usize = doms.iter().map(|(_, d)| if matches!(d, Dom::Range(..)) { 2 } else { 1 }).sum();
      idx >= n
    }
    T::Some_(doms, _) | T::Every(doms, _) => idx >= doms.len(),
    T::Filter(..) => idx == 1,
    T::Func(..) => true,
    T::Ctx(_) => idx >= 1,
    _ => false,
  }
}

pub fn node_name(t: &T) -> String {
  match t {
    T::Bin(op, _, _) => format!("`{}`", op.sym()),
    T::Neg(_) => "negation".into(),
    T::Between(..) => "between".into(),
    T::InList(..) => "in-tests".into(),
    T::If(..) => "if".into(),
    T::For(d, _) => format!("for/{}", d.len()),
    T::Some_(d, _) => format!("some/{}", d.len()),
    T::Every(d, _) => format!("every/{}", d.len()),
    T::List(_) => "list".into(),
    T::Ctx(_) => "context".into(),
    T::Path(..) => "path".into(),
    T::Filter(..) => "filter".into(),
    T::Call(..) => "invocation".into(),
    T::CallNamed(..) => "named-invocation".into(),
    T::Func(..) => "function".into(),
    T::Range(..) => "range".into(),
    T::Unary(..) => "unary-test".into(),
    T::InstanceOf(..) => "instance-of".into(),
    _ => "literal".into(),
  }
}

pub struct Checker {
  pub parse_names: BTreeSet<String>,
  pub allowed: BTreeSet<String>,
  pub check_scope_independence: bool,
}

pub enum Verdict {
  Ok,
  Skipped,
  Known(Vec<&'static str>),
  /// key, description, and (text, expected) of the smallest failing sub-term when attributed
  Violation(String, String, Option<(String, String)>),
}

impl Checker {
  pub fn impl_value(&self, text: &str, bindings: &[(String, RVal)]) -> Result<Value, String> {
    let pscope = parse_scope_of(&self.parse_names);
    let node = parse_expression(&pscope, text, false).map_err(|e| e.to_string())?;
    let escope = scope_of(bindings);
    evaluate(&escope, &node).map_err(|e| e.to_string())
  }

  /// Descends to the smallest closed sub-term whose own value disagrees while its children agree.
  fn attribute(&self, t: &T, bindings: &[(String, RVal)]) -> (String, String, Option<(String, String)>) {
    let env: Env = bindings.to_vec();
    let mut cur = t.clone();
    'descend: loop {
      let mut idx = 0;
      let mut next: Option<T> = None;
      cur.for_children(&mut |c| {
        // a function literal always "agrees" as a value: look into its body instead
        let c = if let T::Func(_, body) = c { &**body } else { c };
        if next.is_none() && c.size() > 1 {
          let txt = text(c);
          if let Ok(v) = self.impl_value(&txt, bindings) {
            let spec = Interp::new(false, &self.allowed).eval(c, &env);
            if compare(&v, &spec) == Cmp::Different {
              let dev = Interp::new(true, &self.allowed);
              let dv = dev.eval(c, &env);
              if compare(&v, &dv) != Cmp::Same {
                next = Some(c.clone());
              }
            }
          }
        }
        idx += 1;
      });
      match next {
        Some(n) => {
          cur = n;
          continue 'descend;
        }
        None => break,
      }
    }
    let interp = Interp::new(false, &self.allowed);
    let expected = interp.eval(&cur, &env);
    let observed = self.impl_value(&text(&cur), bindings);
    let obs_class = match &observed {
      Ok(v) => class_of_value(v).to_string(),
      Err(_) => "error".to_string(),
    };
    let key = format!("mismatch:{}:({}):{}->{}", node_name(&cur), kinds_of_children(&cur, &env, &interp), expected.kind(), obs_class);
    let what = format!(
      "`{}` with {} evaluates to {} but FEEL assigns {}",
      text(&cur),
      show_bindings(bindings),
      observed.map(|v| show_value(&v)).unwrap_or_else(|e| format!("error {}", e)),
      expected.show()
    );
    (key, what, Some((text(&cur), expected.show())))
  }

  pub fn check(&self, t: &T, node: &dmntk_feel::AstNode, bindings: &[(String, RVal)], stats: &Stats) -> Verdict {
    let env: Env = bindings.to_vec();
    let escope = scope_of(bindings);
    let before = escope.to_string();
    let observed = match evaluate(&escope, node) {
      Ok(v) => v,
      Err(e) => return Verdict::Violation("evaluate-error".into(), format!("evaluate fails for `{}`: {}", text(t), e), None),
    };
    stats.evals.fetch_add(1, Ordering::Relaxed);
    if escope.to_string() != before {
      return Verdict::Violation(
        format!("scope-changed:{}", node_name(t)),
        format!("evaluating `{}` changed the caller's scope from {} to {}", text(t), before, escope),
        None,
      );
    }
    if self.check_scope_independence {
      let noisy = noisy_scope(bindings);
      stats.scope_checks.fetch_add(1, Ordering::Relaxed);
      if let Ok(v2) = evaluate(&noisy, node) {
        if crate::rval::show_value_full(&v2) != crate::rval::show_value_full(&observed) {
          return Verdict::Violation(
            format!("scope-dependence:{}", node_name(t)),
            format!(
              "`{}` with {} gives {} in a minimal scope but {} in a scope with unrelated extra entries, stacked contexts and nulls that carry a diagnostic text",
              text(t),
              show_bindings(bindings),
              show_value(&observed),
              show_value(&v2)
            ),
            None,
          );
        }
      }
    }
    let spec = Interp::new(false, &self.allowed).eval(t, &env);
    {
      let mut h = stats.outcomes.lock().unwrap();
      if h.len() < 2_000_000 {
        h.insert(fnv(&show_value(&observed)));
      }
    }
    match compare(&observed, &spec) {
      Cmp::Same => {
        stats.compared.fetch_add(1, Ordering::Relaxed);
        if !matches!(spec, RVal::Null) {
          stats.nontrivial.fetch_add(1, Ordering::Relaxed);
        }
        Verdict::Ok
      }
      Cmp::Skipped => {
        stats.skipped_unspec.fetch_add(1, Ordering::Relaxed);
        Verdict::Skipped
      }
      Cmp::Different => {
        let dev = Interp::new(true, &self.allowed);
        let dv = dev.eval(t, &env);
        match compare(&observed, &dv) {
          Cmp::Same => {
            stats.compared.fetch_add(1, Ordering::Relaxed);
            let tags: Vec<&'static str> = dev.tags.borrow().iter().cloned().collect();
            if tags.is_empty() {
              let (k, w, c) = self.attribute(t, bindings);
              Verdict::Violation(k, w, c)
            } else {
              Verdict::Known(tags)
            }
          }
          Cmp::Skipped => {
            stats.skipped_unspec.fetch_add(1, Ordering::Relaxed);
            Verdict::Skipped
          }
          Cmp::Different => {
            let (k, w, c) = self.attribute(t, bindings);
            Verdict::Violation(k, w, c)
          }
        }
      }
    }
  }
}

pub fn show_bindings(b: &[(String, RVal)]) -> String {
  if b.is_empty() {
    return "no bindings".into();
  }
  b.iter().map(|(k, v)| format!("{} = {}", k, v.show())).collect::<Vec<_>>().join(", ")
}

pub fn bindings_json(b: &[(String, RVal)]) -> serde_json::Value {
  json!(b.iter().map(|(k, v)| json!({"name": k, "value": v.show()})).collect::<Vec<_>>())
}

pub fn process_term(run: &Run, chk: &Checker, stats: &Stats, label: &str, t: &T, vals: &[RVal]) {
  stats.terms.fetch_add(1, Ordering::Relaxed);
  let txt = text(t);
  let pscope = parse_scope_of(&chk.parse_names);
  let pbefore = pscope.to_string();
  let node = match parse_expression(&pscope, &txt, false) {
    Ok(n) => n,
    Err(e) => {
      stats.parse_errors.fetch_add(1, Ordering::Relaxed);
      if between_with_and_in_lower_bound(t) {
        run.violation("parse:between-and-token-inside-lower-bound", "", json!({"engine":"c01","text":txt,"label":label}));
        return;
      }
      run.violation(
        &format!("parse-error:{}", label.split('[').next().unwrap_or(label)),
        &format!("well-formed expression `{}` does not parse: {}", txt, e),
        json!({"engine":"c01","text":txt,"label":label}),
      );
      return;
    }
  };
  if pscope.to_string() != pbefore {
    run.violation(
      &format!("parse-scope-changed:{}", node_name(t)),
      &format!("parsing `{}` changed the parsing scope", txt),
      json!({"engine":"c01","text":txt,"label":label}),
    );
  }
  for b in bindings_for(t, vals) {
    match chk.check(t, &node, &b, stats) {
      Verdict::Ok | Verdict::Skipped => {}
      Verdict::Known(tags) => {
        for tag in tags {
          run.violation(tag, "", json!({"engine":"c01","text":txt,"bindings":bindings_json(&b),"label":label}));
        }
      }
      Verdict::Violation(k, w, c) => {
        let (ctext, expected) = match c {
          Some((a, e)) => (a, Some(e)),
          None => (txt.clone(), None),
        };
        run.violation(&k, &w, json!({"engine":"c01","text":ctext,"whole_text":txt,"bindings":bindings_json(&b),"label":label,"expected":expected}));
      }
    }
  }
}

fn contains_and_token(t: &T) -> bool {
  let mut found = matches!(t, T::Bin(Op::And, _, _) | T::Between(..));
  t.for_children(&mut |c| {
    if contains_and_token(c) {
      found = true
    }
  });
  found
}

pub fn between_with_and_in_lower_bound(t: &T) -> bool {
  let mut found = matches!(t, T::Between(_, lo, _) if contains_and_token(lo));
  t.for_children(&mut |c| {
    if between_with_and_in_lower_bound(c) {
      found = true
    }
  });
  found
}

pub fn new_stats() -> Stats {
  Stats {
    terms: AtomicU64::new(0),
    evals: AtomicU64::new(0),
    compared: AtomicU64::new(0),
    skipped_unspec: AtomicU64::new(0),
    nontrivial: AtomicU64::new(0),
    parse_errors: AtomicU64::new(0),
    scope_checks: AtomicU64::new(0),
    outcomes: Mutex::new(HashSet::new()),
  }
}

pub fn run() {
  let run = Run::new("C01");
  let thorough = run.thorough();
  let known = load_known("C01");
  let chk = Checker {
    parse_names: all_names(),
    allowed: known.keys().cloned().collect(),
    check_scope_independence: true,
  };
  let stats = new_stats();
  let vals = binding_values(thorough);

  // level 1
  let l1 = level1(&leaves_full());
  l1.par_iter().for_each(|(label, t)| process_term(&run, &chk, &stats, label, t, &vals));
  let n1 = l1.len();
  for (label, t) in l1.iter().step_by(l1.len() / 6 + 1) {
    run.sample(json!({"level":1,"label":label,"text":text(t)}));
  }
  // iteration products
  let ip = iteration_products();
  ip.par_iter().for_each(|(label, t)| process_term(&run, &chk, &stats, label, t, &vals));
  let nip = ip.len();
  for (label, t) in ip.iter().step_by(ip.len() / 4 + 1) {
    run.sample(json!({"level":"iteration-product","label":label,"text":text(t)}));
  }
  // lists in lists of lists
  let ll = lists_in_lists();
  ll.par_iter().for_each(|(label, t)| process_term(&run, &chk, &stats, label, t, &vals));
  run.set("list_in_lists_terms", json!(ll.len()));
  // level 2, streamed by chunk
  let inner = level1(&leaves_reduced(thorough));
  let chunks = level2_chunks();
  let n2 = AtomicU64::new(0);
  chunks.par_iter().for_each(|(ki, slot)| {
    // split the inner set further so that all cores stay busy
    inner.par_chunks(64).for_each(|part| {
      level2_chunk(thorough, *ki, *slot, part, &mut |label, t| {
        n2.fetch_add(1, Ordering::Relaxed);
        process_term(&run, &chk, &stats, &label, &t, &vals);
      });
    });
  });
  {
    let mut shown = 0;
    level2_chunk(thorough, 30, 1, &inner[inner.len() / 2..inner.len() / 2 + 3], &mut |label, t| {
      if shown < 3 {
        run.sample(json!({"level":2,"label":label,"text":text(&t)}));
        shown += 1;
      }
    });
  }
  // level 3 spines (thorough)
  let mut n3 = 0;
  if thorough {
    let l3 = level3_spines();
    n3 = l3.len();
    l3.par_iter().for_each(|(label, t)| process_term(&run, &chk, &stats, label, t, &vals));
    for (label, t) in l3.iter().step_by(l3.len() / 3 + 1) {
      run.sample(json!({"level":3,"label":label,"text":text(t)}));
    }
  }

  let terms = stats.terms.load(Ordering::Relaxed);
  let evals = stats.evals.load(Ordering::Relaxed);
  run.set("states", json!(terms));
  run.set("transitions", json!(evals + stats.scope_checks.load(Ordering::Relaxed)));
  run.set("traces_validated_against_impl", json!(stats.compared.load(Ordering::Relaxed)));
  run.set("evaluations", json!(evals));
  run.set("distinct_nontrivial", json!(stats.nontrivial.load(Ordering::Relaxed)));
  run.set("rule", json!("(expression, bindings) pairs, all distinct by construction, whose reference value is determined and not null; expressions: every construct over the leaf set in every slot (level 1), every construct with one slot filled by every level-1 term over the reduced leaf set (level 2), structural triples along one spine (level 3, thorough), all domain-shape combinations of 2-3 variable iterations; bindings: every value of the binding alphabet for each free name"));
  run.set("exhaustive", json!(true));
  run.set("level1_terms", json!(n1));
  run.set("iteration_product_terms", json!(nip));
  run.set("level2_terms", json!(n2.load(Ordering::Relaxed)));
  run.set("level3_terms", json!(n3));
  run.set("unspecified_not_compared", json!(stats.skipped_unspec.load(Ordering::Relaxed)));
  run.set("scope_independence_checks", json!(stats.scope_checks.load(Ordering::Relaxed)));
  run.set("binding_alphabet", json!(vals.iter().map(|v| v.show()).collect::<Vec<_>>()));
  run.set("constructs", json!(constructs().iter().map(|k| k.name).collect::<Vec<_>>()));
  let n_out = stats.outcomes.lock().unwrap().len();
  run.outcomes_bulk((0..n_out.min(99_999)).map(|i| i.to_string()));
  run.set("distinct_observed_values", json!(n_out));
  run.assume("the reference interpreter harness/vh/src/ref_feel.rs is the FEEL semantics of the fragment (DMN 1.3 10.3.2); where the text is silent the case is executed but not compared (counted in unspecified_not_compared)");
  run.assume("values outside the leaf and binding alphabets, nesting beyond level 2 (level-3 spines in thorough) are outside the bound");
  run.finish();
}

/// Replay of a case recorded by an expression engine: {"text":..,"bindings":[..]} against the reference.
pub fn replay_case(case: &serde_json::Value) -> String {
  let txt = case.get("text").and_then(|t| t.as_str()).unwrap_or("");
  let bindings = crate::replay::bindings_from_json(case.get("bindings").unwrap_or(&serde_json::Value::Null));
  let mut names = all_names();
  if let Some(extra) = case.get("parse_names").and_then(|n| n.as_array()) {
    for n in extra {
      if let Some(s) = n.as_str() {
        names.insert(s.to_string());
      }
    }
  }
  let pscope = parse_scope_of(&names);
  let node = match parse_expression(&pscope, txt, false) {
    Ok(n) => n,
    Err(e) => return format!("FAIL `{}` does not parse: {}", txt, e),
  };
  let escope = scope_of(&bindings);
  let before = escope.to_string();
  let observed = match evaluate(&escope, &node) {
    Ok(v) => v,
    Err(e) => return format!("FAIL evaluate error: {}", e),
  };
  let after = escope.to_string();
  let mut out = format!("`{}` with {} => {}", txt, show_bindings(&bindings), show_value(&observed));
  if before != after {
    return format!("FAIL scope changed: {} -> {}; {}", before, after, out);
  }
  if let Some(image) = case.get("image").and_then(|e| e.as_str()) {
    // C08 "alike": the same call on a string of as many ASCII letters; null for null, as many characters for a string
    let other = parse_expression(&pscope, image, false).ok().and_then(|n| evaluate(&escope, &n).ok());
    let count = |v: &dmntk_feel::values::Value| match v {
      dmntk_feel::values::Value::String(s) => Some(s.chars().count()),
      _ => None,
    };
    return match other {
      Some(o) if count(&o) == count(&observed) => format!("PASS {}; `{}` => {}", out, image, show_value(&o)),
      Some(o) => format!("FAIL {}; `{}` => {}", out, image, show_value(&o)),
      None => format!("FAIL {}; `{}` is not evaluated", out, image),
    };
  }
  if let Some(exp) = case.get("expected").and_then(|e| e.as_str()) {
    out = format!("{} (expected {})", out, exp);
    if crate::replay::value_to_rval(&observed).show() != exp {
      return format!("FAIL {}", out);
    }
    return format!("PASS {}", out);
  }
  format!("OBSERVED {}", out)
}
