//! C02 — FEEL numbers compute as IEEE 754-2008 decimal128. This engine enumerates the operand
//! lattice, runs every operator / numeric built-in at the `FeelNumber` API level and as a FEEL
//! expression, and writes the observed rows for the decimal oracle (oracles/dec_oracle.py);
//! `c02report` ingests the oracle's verdicts and writes evidence.

use crate::report::Run;
use dmntk_feel::context::FeelContext;
use dmntk_feel::values::Value;
use dmntk_feel::{Evaluator, FeelNumber, Name, Scope};
use rayon::prelude::*;
use serde_json::json;
use std::collections::BTreeSet;
use std::io::Write;

pub fn lattice(thorough: bool) -> Vec<String> {
  let nines = "9".repeat(34);
  let one_zeros = format!("1{}", "0".repeat(33));
  let one_zeros_one = format!("1{}1", "0".repeat(32));
  let four_nines = format!("4{}", "9".repeat(33));
  let five_zeros = format!("5{}", "0".repeat(33));
  let five_zeros_one = format!("5{}1", "0".repeat(32));
  let threes = "3".repeat(34);
  let sixes7 = format!("{}7", "6".repeat(33));
  let mixed = "1234567890123456789012345678901234".to_string();
  let mut coefs: Vec<String> = vec!["0", "1", "2", "5", "9", "10", "15", "25", "50", "99", "100"].into_iter().map(String::from).collect();
  coefs.extend(vec![nines, one_zeros, one_zeros_one, five_zeros, mixed]);
  if thorough {
    coefs.extend(vec!["3", "7", "49", "51", "999"].into_iter().map(String::from));
    coefs.extend(vec![four_nines, five_zeros_one, threes, sixes7]);
  }
  let exps: Vec<i32> = if thorough {
    vec![-6176, -6175, -6144, -6143, -6111, -6110, -40, -35, -34, -33, -17, -2, -1, 0, 1, 2, 17, 33, 34, 35, 6076, 6077, 6110, 6111]
  } else {
    vec![-6176, -6143, -6111, -35, -34, -33, -1, 0, 1, 33, 34, 6077, 6111]
  };
  let mut out = BTreeSet::new();
  for c in &coefs {
    for e in &exps {
      for s in ["", "-"] {
        // keep only representable values: adjusted exponent <= 6144
        if *e as i64 + c.len() as i64 - 1 > 6144 {
          continue;
        }
        out.insert(format!("{}{}E{}", s, c, e));
      }
    }
  }
  out.into_iter().collect()
}

/// Reduced operand set for the second operand of `**`, `modulo`, `decimal`.
pub fn small_operands() -> Vec<String> {
  vec!["-3", "-2", "-1", "0", "1", "2", "3", "0.5", "-0.5", "1.5", "0.3333333333333333333333333333333333", "10", "34", "-34", "100", "6144", "-6144", "1E34", "7", "-7", "0.1"]
    .into_iter()
    .map(String::from)
    .collect()
}

pub fn scales() -> Vec<String> {
  vec!["-6112", "-6111", "-35", "-34", "-2", "-1", "0", "1", "2", "33", "34", "6175", "6176", "1.5", "-0.5"].into_iter().map(String::from).collect()
}

fn sci(n: &FeelNumber) -> String {
  format!("{:?}", n)
}

fn val(v: &Value) -> String {
  match v {
    Value::Number(n) => sci(n),
    Value::Boolean(b) => b.to_string(),
    Value::Null(_) => "null".into(),
    other => format!("other:{}", other.to_string().chars().take(30).collect::<String>()),
  }
}

fn opt(n: Option<FeelNumber>) -> String {
  match n {
    Some(n) => sci(&n),
    None => "none".into(),
  }
}

struct Feel {
  add: Evaluator,
  sub: Evaluator,
  mul: Evaluator,
  div: Evaluator,
  pow: Evaluator,
  neg: Evaluator,
  eq: Evaluator,
  lt: Evaluator,
  le: Evaluator,
  abs: Evaluator,
  floor: Evaluator,
  ceiling: Evaluator,
  decimal: Evaluator,
  modulo: Evaluator,
  sqrt: Evaluator,
  exp: Evaluator,
  log: Evaluator,
  odd: Evaluator,
  even: Evaluator,
}

pub(crate) fn prep(text: &str) -> Evaluator {
  let names: BTreeSet<String> = ["a", "b"].iter().map(|s| s.to_string()).collect();
  let ps = crate::rval::parse_scope_of(&names);
  let node = dmntk_feel_parser::parse_expression(&ps, text, false).unwrap_or_else(|e| panic!("`{}` does not parse: {}", text, e));
  dmntk_feel_evaluator::prepare(&node).unwrap()
}

fn feel() -> Feel {
  Feel {
    add: prep("a + b"),
    sub: prep("a - b"),
    mul: prep("a * b"),
    div: prep("a / b"),
    pow: prep("a ** b"),
    neg: prep("-a"),
    eq: prep("a = b"),
    lt: prep("a < b"),
    le: prep("a <= b"),
    abs: prep("abs(a)"),
    floor: prep("floor(a)"),
    ceiling: prep("ceiling(a)"),
    decimal: prep("decimal(a, b)"),
    modulo: prep("modulo(a, b)"),
    sqrt: prep("sqrt(a)"),
    exp: prep("exp(a)"),
    log: prep("log(a)"),
    odd: prep("odd(a)"),
    even: prep("even(a)"),
  }
}

pub(crate) fn scope2(a: &FeelNumber, b: Option<&FeelNumber>) -> Scope {
  let mut c = FeelContext::default();
  c.set_entry(&Name::from("a"), Value::Number(*a));
  if let Some(b) = b {
    c.set_entry(&Name::from("b"), Value::Number(*b));
  }
  Scope::from(c)
}

/// Visits every (level, op, a, b, observed) row of the enumeration; numeric results are also handed to `num`.
pub fn enumerate(thorough: bool, rows: &(dyn Fn(&str, &str, &str, &str, String) + Sync), num: &(dyn Fn(&FeelNumber, &str) + Sync)) {
  let lat = lattice(thorough);
  let parsed: Vec<(String, FeelNumber)> = lat.iter().filter_map(|t| t.parse::<FeelNumber>().ok().map(|n| (t.clone(), n))).collect();
  let small: Vec<(String, FeelNumber)> = small_operands().iter().filter_map(|t| t.parse::<FeelNumber>().ok().map(|n| (t.clone(), n))).collect();
  let scs: Vec<(String, FeelNumber)> = scales().iter().filter_map(|t| t.parse::<FeelNumber>().ok().map(|n| (t.clone(), n))).collect();
  parsed.par_iter().for_each(|(ta, a)| {
    let f = feel();
    let emit_num = |level: &str, op: &str, tb: &str, n: FeelNumber| {
      num(&n, &format!("{} {} {} {}", level, op, ta, tb));
      rows(level, op, ta, tb, sci(&n));
    };
    let emit_val = |op: &str, tb: &str, v: Value| {
      if let Value::Number(n) = &v {
        num(n, &format!("feel {} {} {}", op, ta, tb));
      }
      rows("feel", op, ta, tb, val(&v));
    };
    // unary
    let s1 = scope2(a, None);
    emit_num("api", "abs", "", a.abs());
    emit_num("api", "floor", "", a.floor());
    emit_num("api", "ceiling", "", a.ceiling());
    emit_num("api", "neg", "", -*a);
    emit_num("api", "exp", "", a.exp());
    rows("api", "sqrt", ta, "", opt(a.sqrt()));
    rows("api", "ln", ta, "", opt(a.ln()));
    rows("api", "odd", ta, "", a.odd().to_string());
    rows("api", "even", ta, "", a.even().to_string());
    emit_val("abs", "", (f.abs)(&s1));
    emit_val("floor", "", (f.floor)(&s1));
    emit_val("ceiling", "", (f.ceiling)(&s1));
    emit_val("neg", "", (f.neg)(&s1));
    emit_val("exp", "", (f.exp)(&s1));
    emit_val("sqrt", "", (f.sqrt)(&s1));
    emit_val("log", "", (f.log)(&s1));
    emit_val("odd", "", (f.odd)(&s1));
    emit_val("even", "", (f.even)(&s1));
    // binary over the whole lattice
    for (tb, b) in &parsed {
      let s2 = scope2(a, Some(b));
      emit_num("api", "add", tb, *a + *b);
      emit_num("api", "sub", tb, *a - *b);
      emit_num("api", "mul", tb, *a * *b);
      emit_num("api", "div", tb, *a / *b);
      rows("api", "eq", ta, tb, (*a == *b).to_string());
      rows("api", "lt", ta, tb, (*a < *b).to_string());
      rows("api", "le", ta, tb, (*a <= *b).to_string());
      emit_val("add", tb, (f.add)(&s2));
      emit_val("sub", tb, (f.sub)(&s2));
      emit_val("mul", tb, (f.mul)(&s2));
      emit_val("div", tb, (f.div)(&s2));
      emit_val("eq", tb, (f.eq)(&s2));
      emit_val("lt", tb, (f.lt)(&s2));
      emit_val("le", tb, (f.le)(&s2));
    }
    // binary over the reduced second operand
    for (tb, b) in &small {
      let s2 = scope2(a, Some(b));
      rows("api", "pow", ta, tb, opt(a.pow(b)));
      emit_num("api", "rem", tb, *a % *b);
      emit_val("pow", tb, (f.pow)(&s2));
      emit_val("modulo", tb, (f.modulo)(&s2));
      // small operand on the left as well
      let s3 = scope2(b, Some(a));
      rows("feel", "pow", tb, ta, val(&(f.pow)(&s3)));
      rows("feel", "modulo", tb, ta, val(&(f.modulo)(&s3)));
    }
    for (tb, b) in &scs {
      let s2 = scope2(a, Some(b));
      emit_val("decimal", tb, (f.decimal)(&s2));
    }
  });
}

pub fn generate() {
  if std::env::var("TZ").is_err() {
    std::process::exit(2);
  }
  let tier = crate::report::tier_from_args();
  let thorough = tier == "thorough";
  let dir_s = format!("{}/target/c02", crate::report::root());
  let dir = dir_s.as_str();
  let _ = std::fs::remove_dir_all(dir);
  std::fs::create_dir_all(dir).unwrap();
  let shards: Vec<std::sync::Mutex<std::io::BufWriter<std::fs::File>>> = (0..16)
    .map(|i| std::sync::Mutex::new(std::io::BufWriter::new(std::fs::File::create(format!("{}/rows_{:02}.tsv", dir, i)).unwrap())))
    .collect();
  let printing_problems = std::sync::Mutex::new(Vec::<(String, String, String)>::new());
  let counter = std::sync::atomic::AtomicU64::new(0);
  enumerate(
    thorough,
    &|level, op, a, b, observed| {
      let n = counter.fetch_add(1, std::sync::atomic::Ordering::Relaxed);
      let mut w = shards[(n % 16) as usize].lock().unwrap();
      let _ = writeln!(w, "{}\t{}\t{}\t{}\t{}", level, op, a, b, observed);
    },
    &|_n, _origin| {},
  );
  for s in &shards {
    let _ = s.lock().unwrap().flush();
  }
  let _ = printing_problems;
  println!("rows={}", counter.load(std::sync::atomic::Ordering::Relaxed));
}

/// Ingests the oracle's output (one JSON object per line) and finishes the run.
pub fn report() {
  let run = Run::new("C02");
  let path_s = format!("{}/target/c02/verdicts.jsonl", crate::report::root());
  let path = path_s.as_str();
  let text = match std::fs::read_to_string(path) {
    Ok(t) => t,
    Err(e) => {
      run.machinery_error(&format!("oracle output {} missing: {}", path, e));
      run.finish();
    }
  };
  let mut summary = serde_json::Value::Null;
  for line in text.lines() {
    let j: serde_json::Value = match serde_json::from_str(line) {
      Ok(j) => j,
      Err(e) => {
        run.machinery_error(&format!("oracle output line does not parse: {}", e));
        continue;
      }
    };
    if j.get("summary").is_some() {
      summary = j;
      continue;
    }
    if let Some(err) = j.get("machinery_error").and_then(|e| e.as_str()) {
      run.machinery_error(err);
      continue;
    }
    let key = j.get("key").and_then(|k| k.as_str()).unwrap_or("?");
    let what = j.get("what").and_then(|k| k.as_str()).unwrap_or("");
    let count = j.get("count").and_then(|k| k.as_u64()).unwrap_or(1);
    let case = j.get("case").cloned().unwrap_or(serde_json::Value::Null);
    run.violation_n(key, what, json!({"engine":"c02","case":case.clone()}), count);
  }
  let compositions = check_compositions(&run) + check_exponent_compositions(&run);
  run.set("composition_cases", json!(compositions));
  let g = |k: &str| summary.get(k).cloned().unwrap_or(json!(0));
  if summary.is_null() {
    run.machinery_error("oracle wrote no summary");
  }
  run.set("states", g("rows"));
  run.set("transitions", g("rows"));
  run.set("traces_validated_against_impl", g("compared"));
  run.set("evaluations", g("rows"));
  run.set("distinct_nontrivial", g("compared_exact_nontrivial"));
  run.set("rule", json!("rows (level, operation, operands) are distinct by construction; non-trivial = the oracle determines a finite non-zero numeric result or a boolean and it was compared exactly (or within 2 ulp for exp, log and inexact powers)"));
  run.set("exhaustive", json!(true));
  run.set("unspecified_not_compared", g("unspecified"));
  run.set("expected_null_rows", g("expected_null"));
  run.set("per_operation", g("per_op"));
  run.set("lattice_size", g("lattice"));
  run.set("samples", summary.get("samples").cloned().unwrap_or(json!([{"op":"add","a":"9999999999999999999999999999999999E0","b":"5E-1"}])));
  run.outcomes_bulk((0..g("distinct_results").as_u64().unwrap_or(0).min(99_999)).map(|i| i.to_string()));
  run.assume("CPython's decimal module (libmpdec) with prec=34, Emax=6144, Emin=-6143, clamp=1, ROUND_HALF_EVEN is decimal128 arithmetic");
  run.assume("underflow to subnormal/zero and quantize overflow are unspecified between null and the rounded value and are not compared");
  run.finish();
}

/// operands of the compositions: small numbers, ties, and magnitudes whose products and quotients leave the range
fn composition_operands() -> Vec<&'static str> {
  vec![
    "0", "1", "2", "3", "7", "-1", "-3", "0.5", "1.5", "10", "0.3333333333333333333333333333333333", "6E-35", "5E-35", "1E+35", "2E+34", "9999999999999999999999999999999999", "1E-3000", "1E-4000", "1E+3000", "1E+4000", "-1E+3000", "1E+6144",
    "1E-6176", "9.999999999999999999999999999999999E+6144", "3E-3100",
  ]
}

fn binary_text(op: &str) -> &'static str {
  match op {
    "+" => "a + b",
    "-" => "a - b",
    "*" => "a * b",
    "**" => "a ** b",
    _ => "a / b",
  }
}

/// The same for expressions of two operations of which at least one is `**`, written with parentheses (and `a ** b ** c`,
/// which this parser groups to the left), over a small operand set with negative bases and fractional exponents: a power
/// of a power is two roundings and loses the sign of a negative base under an even inner exponent, `a ** (b * c)` does not.
fn check_exponent_compositions(run: &Run) -> u64 {
  let ops = ["+", "-", "*", "/", "**"];
  let operands: Vec<(String, FeelNumber)> = ["-8", "-2", "-0.5", "0", "0.5", "2", "3", "10"].iter().filter_map(|t| t.parse::<FeelNumber>().ok().map(|n| (t.to_string(), n))).collect();
  let count = std::sync::atomic::AtomicU64::new(0);
  let pairs: Vec<(usize, usize)> = (0..5).flat_map(|i| (0..5).map(move |j| (i, j))).filter(|(i, j)| *i == 4 || *j == 4).collect();
  pairs.par_iter().for_each(|(i, j)| {
    let (op1, op2) = (ops[*i], ops[*j]);
    let mut shapes: Vec<(String, bool)> = vec![(format!("(a {} b) {} c", op1, op2), true), (format!("a {} (b {} c)", op1, op2), false)];
    if op1 == "**" && op2 == "**" {
      shapes.push(("a ** b ** c".to_string(), true));
    }
    let names: BTreeSet<String> = ["a", "b", "c"].iter().map(|s| s.to_string()).collect();
    let ps = crate::rval::parse_scope_of(&names);
    let e1 = prep(binary_text(op1));
    let e2 = prep(binary_text(op2));
    for (text, left) in &shapes {
      let compound = dmntk_feel_evaluator::prepare(&dmntk_feel_parser::parse_expression(&ps, text, false).unwrap()).unwrap();
      for (ta, a) in &operands {
        for (tb, b) in &operands {
          for (tc, c) in &operands {
            count.fetch_add(1, std::sync::atomic::Ordering::Relaxed);
            let mut ctx = FeelContext::default();
            ctx.set_entry(&Name::from("a"), Value::Number(*a));
            ctx.set_entry(&Name::from("b"), Value::Number(*b));
            ctx.set_entry(&Name::from("c"), Value::Number(*c));
            let observed = val(&compound(&Scope::from(ctx)));
            let step = |e: &Evaluator, x: &Value, y: &Value| -> Value {
              match (x, y) {
                (Value::Number(x), Value::Number(y)) => e(&scope2(x, Some(y))),
                _ => Value::Null(None),
              }
            };
            let expected = if *left {
              let first = step(&e1, &Value::Number(*a), &Value::Number(*b));
              step(&e2, &first, &Value::Number(*c))
            } else {
              let inner = step(&e2, &Value::Number(*b), &Value::Number(*c));
              step(&e1, &Value::Number(*a), &inner)
            };
            let expected = val(&expected);
            if observed != expected {
              run.violation(
                &format!("composition:`{}`", text),
                &format!("`{}` with a = {}, b = {}, c = {} evaluates to {} but the two operations one after the other give {}", text, ta, tb, tc, observed, expected),
                json!({"engine":"c02","case":{"level":"composition","text":text,"a":ta,"b":tb,"c":tc,"expected":expected,"observed":observed}}),
              );
            }
          }
        }
      }
    }
  });
  count.load(std::sync::atomic::Ordering::Relaxed)
}

/// The result of an expression of two operations is the second operation applied to the (rounded) result of the first: every
/// combination of two of + - * / in the three ways of writing it, over every operand triple, evaluated as one FEEL text and
/// compared with the two operations evaluated one after the other (each single operation is judged by the oracle rows).
fn check_compositions(run: &Run) -> u64 {
  let ops = ["+", "-", "*", "/"];
  let operands: Vec<(String, FeelNumber)> = composition_operands().iter().filter_map(|t| t.parse::<FeelNumber>().ok().map(|n| (t.to_string(), n))).collect();
  let count = std::sync::atomic::AtomicU64::new(0);
  let pairs: Vec<(usize, usize)> = (0..4).flat_map(|i| (0..4).map(move |j| (i, j))).collect();
  pairs.par_iter().for_each(|(i, j)| {
    let (op1, op2) = (ops[*i], ops[*j]);
    let tight = |o: &str| o == "*" || o == "/";
    // (text, the first operation is applied to (a, b) and the second to (result, c) - or the inner one to (b, c))
    let natural_left = !(tight(op2) && !tight(op1));
    let shapes: Vec<(String, bool)> = vec![(format!("a {} b {} c", op1, op2), natural_left), (format!("(a {} b) {} c", op1, op2), true), (format!("a {} (b {} c)", op1, op2), false)];
    let names: BTreeSet<String> = ["a", "b", "c"].iter().map(|s| s.to_string()).collect();
    let ps = crate::rval::parse_scope_of(&names);
    let e1 = prep(binary_text(op1));
    let e2 = prep(binary_text(op2));
    for (text, left) in &shapes {
      let compound = dmntk_feel_evaluator::prepare(&dmntk_feel_parser::parse_expression(&ps, text, false).unwrap()).unwrap();
      for (ta, a) in &operands {
        for (tb, b) in &operands {
          for (tc, c) in &operands {
            count.fetch_add(1, std::sync::atomic::Ordering::Relaxed);
            let mut ctx = FeelContext::default();
            ctx.set_entry(&Name::from("a"), Value::Number(*a));
            ctx.set_entry(&Name::from("b"), Value::Number(*b));
            ctx.set_entry(&Name::from("c"), Value::Number(*c));
            let observed = val(&compound(&Scope::from(ctx)));
            let step = |e: &Evaluator, x: &Value, y: &Value| -> Value {
              match (x, y) {
                (Value::Number(x), Value::Number(y)) => e(&scope2(x, Some(y))),
                _ => Value::Null(None),
              }
            };
            let expected = if *left {
              let first = step(&e1, &Value::Number(*a), &Value::Number(*b));
              step(&e2, &first, &Value::Number(*c))
            } else {
              let inner = step(&e2, &Value::Number(*b), &Value::Number(*c));
              step(&e1, &Value::Number(*a), &inner)
            };
            let expected = val(&expected);
            if observed != expected {
              run.violation(
                &format!("composition:`{}`", text),
                &format!("`{}` with a = {}, b = {}, c = {} evaluates to {} but the two operations one after the other give {}", text, ta, tb, tc, observed, expected),
                json!({"engine":"c02","case":{"level":"composition","text":text,"a":ta,"b":tb,"c":tc,"expected":expected,"observed":observed}}),
              );
            }
          }
        }
      }
    }
  });
  // the same, with one, two or all three operands written as literals in the text (what an evaluator may do with constant
  // operands when it is built must not change the value): `a op1 b op2 c` without parentheses
  let plain: Vec<&(String, FeelNumber)> = operands.iter().filter(|(t, _)| t.chars().all(|c| c.is_ascii_digit() || c == '.')).collect();
  pairs.par_iter().for_each(|(i, j)| {
    let (op1, op2) = (ops[*i], ops[*j]);
    let tight = |o: &str| o == "*" || o == "/";
    let left = !(tight(op2) && !tight(op1));
    let names: BTreeSet<String> = ["a", "b", "c"].iter().map(|s| s.to_string()).collect();
    let ps = crate::rval::parse_scope_of(&names);
    let e1 = prep(binary_text(op1));
    let e2 = prep(binary_text(op2));
    let all: Vec<&(String, FeelNumber)> = operands.iter().collect();
    for mask in 1u8..8 {
      let pick = |bit: u8| if mask & bit != 0 { &plain } else { &all };
      for (ta, a) in pick(1).iter().map(|x| (&x.0, &x.1)) {
        for (tb, b) in pick(2).iter().map(|x| (&x.0, &x.1)) {
          for (tc, c) in pick(4).iter().map(|x| (&x.0, &x.1)) {
            count.fetch_add(1, std::sync::atomic::Ordering::Relaxed);
            let word = |bit: u8, name: &str, lit: &String| if mask & bit != 0 { lit.clone() } else { name.to_string() };
            let text = format!("{} {} {} {} {}", word(1, "a", ta), op1, word(2, "b", tb), op2, word(4, "c", tc));
            let node = match dmntk_feel_parser::parse_expression(&ps, &text, false) {
              Ok(n) => n,
              Err(e) => {
                run.violation("composition-with-literals:does-not-parse", &format!("`{}` does not parse: {}", text, e), json!({"engine":"c02","case":{"level":"composition","text":text,"a":ta,"b":tb,"c":tc,"expected":"","observed":""}}));
                continue;
              }
            };
            let mut ctx = FeelContext::default();
            ctx.set_entry(&Name::from("a"), Value::Number(*a));
            ctx.set_entry(&Name::from("b"), Value::Number(*b));
            ctx.set_entry(&Name::from("c"), Value::Number(*c));
            let observed = match dmntk_feel_evaluator::evaluate(&Scope::from(ctx), &node) {
              Ok(v) => val(&v),
              Err(e) => format!("error {}", e),
            };
            let step = |e: &Evaluator, x: &Value, y: &Value| -> Value {
              match (x, y) {
                (Value::Number(x), Value::Number(y)) => e(&scope2(x, Some(y))),
                _ => Value::Null(None),
              }
            };
            let expected = if left {
              let first = step(&e1, &Value::Number(*a), &Value::Number(*b));
              step(&e2, &first, &Value::Number(*c))
            } else {
              let inner = step(&e2, &Value::Number(*b), &Value::Number(*c));
              step(&e1, &Value::Number(*a), &inner)
            };
            let expected = val(&expected);
            if observed != expected {
              run.violation(
                &format!("composition-with-literals:`a {} b {} c`:{}", op1, op2, ["", "a", "b", "a-b", "c", "a-c", "b-c", "a-b-c"][mask as usize]),
                &format!("`{}` with a = {}, b = {}, c = {} evaluates to {} but the two operations one after the other give {}", text, ta, tb, tc, observed, expected),
                json!({"engine":"c02","case":{"level":"composition","text":text,"a":ta,"b":tb,"c":tc,"expected":expected,"observed":observed}}),
              );
            }
          }
        }
      }
    }
  });
  count.load(std::sync::atomic::Ordering::Relaxed)
}

/// replay of one recorded row: recomputes the observed value and compares it with the recorded expectation
pub fn replay_case(case: &serde_json::Value) -> String {
  let c = case.get("case").unwrap_or(case);
  if c.get("level").and_then(|x| x.as_str()) == Some("composition") {
    let g = |k: &str| c.get(k).and_then(|x| x.as_str()).unwrap_or("").to_string();
    let names: BTreeSet<String> = ["a", "b", "c"].iter().map(|s| s.to_string()).collect();
    let ps = crate::rval::parse_scope_of(&names);
    let node = match dmntk_feel_parser::parse_expression(&ps, &g("text"), false) {
      Ok(n) => n,
      Err(e) => return format!("MACHINERY the recorded text does not parse: {}", e),
    };
    let mut ctx = FeelContext::default();
    for k in ["a", "b", "c"] {
      match g(k).parse::<FeelNumber>() {
        Ok(n) => ctx.set_entry(&Name::from(k), Value::Number(n)),
        Err(_) => return format!("MACHINERY operand {} does not read", g(k)),
      }
    }
    let observed = match dmntk_feel_evaluator::evaluate(&Scope::from(ctx), &node) {
      Ok(v) => val(&v),
      Err(e) => format!("error {}", e),
    };
    return if observed == g("expected") {
      format!("PASS `{}` of {}, {}, {} gives {}", g("text"), g("a"), g("b"), g("c"), observed)
    } else {
      format!("FAIL `{}` of {}, {}, {} gives {} but the two operations one after the other give {}", g("text"), g("a"), g("b"), g("c"), observed, g("expected"))
    };
  }
  let g = |k: &str| c.get(k).and_then(|x| x.as_str()).unwrap_or("").to_string();
  let (level, op, ta, tb, expected) = (g("level"), g("op"), g("a"), g("b"), g("expected"));
  let a = match ta.parse::<FeelNumber>() {
    Ok(a) => a,
    Err(_) => return format!("MACHINERY operand {} does not read", ta),
  };
  let b = tb.parse::<FeelNumber>().ok();
  let text = match op.as_str() {
    "add" => "a + b",
    "sub" => "a - b",
    "mul" => "a * b",
    "div" => "a / b",
    "pow" => "a ** b",
    "neg" => "-a",
    "eq" => "a = b",
    "lt" => "a < b",
    "le" => "a <= b",
    "abs" => "abs(a)",
    "floor" => "floor(a)",
    "ceiling" => "ceiling(a)",
    "decimal" => "decimal(a, b)",
    "modulo" => "modulo(a, b)",
    "sqrt" => "sqrt(a)",
    "exp" => "exp(a)",
    "log" => "log(a)",
    "odd" => "odd(a)",
    "even" => "even(a)",
    other => return format!("MACHINERY no replay for operation {}", other),
  };
  let observed = if level == "feel" {
    val(&prep(text)(&scope2(&a, b.as_ref())))
  } else {
    let bb = b.unwrap_or(a);
    match op.as_str() {
      "add" => sci(&(a + bb)),
      "sub" => sci(&(a - bb)),
      "mul" => sci(&(a * bb)),
      "div" => sci(&(a / bb)),
      "rem" | "modulo" => sci(&(a % bb)),
      "neg" => sci(&(-a)),
      _ => val(&prep(text)(&scope2(&a, b.as_ref()))),
    }
  };
  let recorded = g("observed");
  let same = |x: &str, y: &str| x == y || x.eq_ignore_ascii_case(y) || matches!((x.parse::<FeelNumber>(), y.parse::<FeelNumber>()), (Ok(p), Ok(q)) if p == q);
  if same(&observed, &expected) {
    format!("PASS {} `{}` of {}, {} gives {} (expected {})", level, op, ta, tb, observed, expected)
  } else {
    format!("FAIL {} `{}` of {}, {} gives {} but {} is expected (recorded observation {})", level, op, ta, tb, observed, expected, recorded)
  }
}
