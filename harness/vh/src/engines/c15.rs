//! C15 — dates, date-times and durations follow the calendar and the UTC time line.

use crate::reftime::*;
use crate::report::Run;
use dmntk_feel::context::FeelContext;
use dmntk_feel::values::Value;
use dmntk_feel::{Evaluator, FeelDate, FeelDateTime, FeelDaysAndTimeDuration, FeelNumber, FeelYearsAndMonthsDuration, Name, Scope};
use rayon::prelude::*;
use serde_json::json;
use std::collections::BTreeSet;
use std::convert::TryFrom;
use std::sync::atomic::{AtomicU64, Ordering};

fn prep(text: &str) -> Evaluator {
  // property names are declared only where a path uses them: a declared `years` would split the
  // name of the built-in `years and months duration`
  let mut names: BTreeSet<String> = ["a", "b", "c"].iter().map(|s| s.to_string()).collect();
  if text.contains('.') {
    for n in ["year", "month", "day", "weekday", "hour", "minute", "second", "time offset", "timezone", "days", "hours", "minutes", "seconds", "years", "months"] {
      names.insert(n.to_string());
    }
  }
  let ps = crate::rval::parse_scope_of(&names);
  let node = dmntk_feel_parser::parse_expression(&ps, text, false).unwrap_or_else(|e| panic!("`{}` does not parse: {}", text, e));
  dmntk_feel_evaluator::prepare(&node).unwrap()
}

fn scope_abc(vals: &[(&str, Value)]) -> Scope {
  let mut c = FeelContext::default();
  for (k, v) in vals {
    c.set_entry(&Name::from(*k), v.clone());
  }
  Scope::from(c)
}

fn num_text(t: &str) -> Value {
  Value::Number(t.parse::<FeelNumber>().unwrap())
}

fn show(v: &Value) -> String {
  match v {
    Value::Null(_) => "null".into(),
    other => other.to_string(),
  }
}

struct Cnt {
  cases: AtomicU64,
  evals: AtomicU64,
  nontrivial: AtomicU64,
}

fn expect(run: &Run, cnt: &Cnt, key: &str, what: &str, observed: &Value, expected: &str, case: serde_json::Value) {
  cnt.evals.fetch_add(1, Ordering::Relaxed);
  let got = show(observed);
  if expected != "null" {
    cnt.nontrivial.fetch_add(1, Ordering::Relaxed);
  }
  if got != expected {
    let mut case = case;
    if let Some(o) = case.as_object_mut() {
      o.insert("what".into(), serde_json::Value::String(what.to_string()));
      o.insert("expected_text".into(), serde_json::Value::String(expected.to_string()));
    }
    run.violation(key, &format!("{} evaluates to {} but the calendar / time line gives {}", what, got, expected), case);
  }
}

/// replay of one recorded case: the recorded FEEL text is evaluated again and rendered as the engine renders it
pub fn replay_case(case: &serde_json::Value) -> String {
  let what = case.get("what").and_then(|x| x.as_str()).or_else(|| case.get("text").and_then(|x| x.as_str())).unwrap_or("");
  let expected = case.get("expected_text").and_then(|x| x.as_str());
  let mut names = std::collections::BTreeSet::new();
  if what.contains('.') {
    for n in ["year", "month", "day", "hour", "minute", "second", "time offset", "timezone", "weekday", "years", "months", "days", "hours", "minutes", "seconds"] {
      names.insert(n.to_string());
    }
  }
  let ps = crate::rval::parse_scope_of(&names);
  let v = match dmntk_feel_parser::parse_expression(&ps, what, false).ok().and_then(|n| dmntk_feel_evaluator::evaluate(&Scope::default(), &n).ok()) {
    Some(v) => v,
    None => return format!("OBSERVED `{}` is not a FEEL text that can be replayed on its own", what),
  };
  let got = show(&v);
  match expected {
    Some(e) if e == got => format!("PASS `{}` evaluates to {}", what, got),
    Some(e) => format!("FAIL `{}` evaluates to {} but the calendar / time line gives {}", what, got, e),
    None => format!("OBSERVED `{}` evaluates to {}", what, got),
  }
}

const NAMED_ZONES: &[&str] = &[
  "Europe/Warsaw", "Europe/London", "America/New_York", "America/Los_Angeles", "America/St_Johns", "Asia/Kolkata", "Asia/Kathmandu", "Australia/Sydney", "Australia/Adelaide", "Pacific/Auckland", "Africa/Johannesburg",
  "America/Sao_Paulo",
];
const LOCALS: &[&str] = &[
  "1990-01-15T00:00:00", "1999-12-31T23:59:59", "2000-02-29T12:00:00", "2010-07-15T06:30:00", "2020-01-15T12:00:00", "2020-07-15T12:00:00",
  // around a change of date and around daylight-saving transitions (mirrored in oracles/tz_oracle.py, which leaves out the
  // zones in which such a local time is ambiguous or does not exist)
  "2021-01-01T22:30:00", "2021-01-01T23:30:00", "2021-01-02T00:30:00", "2021-01-02T01:30:00", "2021-03-14T01:30:00", "2021-03-14T03:30:00", "2021-03-28T00:30:00", "2021-03-28T01:30:00", "2021-03-28T03:30:00", "2021-03-28T04:45:00", "2021-10-31T00:30:00", "2021-10-31T03:30:00",
  // centuries apart: differences beyond what 64 bits of nanoseconds hold
  "1600-01-01T00:00:00", "2300-06-15T12:00:00",
];
const FIRST_NEAR: usize = 6;

fn year_class(y: i64) -> &'static str {
  if y.abs() > 262142 {
    "year-at-or-beyond-chrono-range"
  } else if y < 1 {
    "year-below-1"
  } else {
    "year-in-range"
  }
}

pub fn run() {
  let run = Run::new("C15");
  let thorough = run.thorough();
  let cnt = Cnt {
    cases: AtomicU64::new(0),
    evals: AtomicU64::new(0),
    nontrivial: AtomicU64::new(0),
  };
  // zone offsets from the Python oracle
  let tz_path = format!("{}/target/c15/tz_table.json", crate::report::root());
  let tz: serde_json::Value = match std::fs::read_to_string(&tz_path).ok().and_then(|t| serde_json::from_str(&t).ok()) {
    Some(t) => t,
    None => {
      run.machinery_error(&format!("zone table {} missing (bin/check_c15.py writes it)", tz_path));
      run.finish();
    }
  };
  // the reference calendar against CPython's
  if let Some(w) = tz.get("_weekday_check").and_then(|w| w.as_object()) {
    for (d, wd) in w {
      let r = parse_date(d).unwrap();
      if weekday(r.year, r.month, r.day) as u64 != wd.as_u64().unwrap_or(0) {
        run.machinery_error(&format!("reference calendar disagrees with CPython on the weekday of {}", d));
      }
    }
  }

  // A. validity, components and weekday of date(y, m, d) for every day (and impossible day) of the year range
  let years: Vec<i64> = if thorough {
    (-1..=2400).collect()
  } else {
    vec![-1, 0, 1, 4, 100, 400, 999, 1000, 1582, 1600, 1700, 1800, 1899, 1900, 1999, 2000, 2001, 2019, 2020, 2021, 2023, 2024, 2100, 2200, 2300, 2399, 2400]
  };
  years.par_iter().for_each(|&y| {
    let e_date = prep("date(a, b, c)");
    let e_wd = prep("date(a, b, c).weekday");
    let e_parts = prep("[date(a, b, c).year, date(a, b, c).month, date(a, b, c).day]");
    for m in 0..=13u32 {
      for d in 0..=32u32 {
        cnt.cases.fetch_add(1, Ordering::Relaxed);
        let s = scope_abc(&[("a", num_text(&y.to_string())), ("b", num_text(&m.to_string())), ("c", num_text(&d.to_string()))]);
        let v = e_date(&s);
        let valid = valid_date(y, m, d);
        let case = json!({"engine":"c15","text":format!("date({}, {}, {})", y, m, d)});
        let exp = if valid { print_date(&RDate { year: y, month: m, day: d }) } else { "null".to_string() };
        let cause = if !valid {
          if !(1..=12).contains(&m) { "month-out-of-range" } else if d == 0 { "day-zero" } else { "day-beyond-month-end" }
        } else {
          year_class(y)
        };
        expect(&run, &cnt, &format!("date-from-numbers:{}", cause), &format!("date({}, {}, {})", y, m, d), &v, &exp, case.clone());
        if valid {
          expect(&run, &cnt, &format!("weekday:{}", year_class(y)), &format!("date({}, {}, {}).weekday", y, m, d), &e_wd(&s), &weekday(y, m, d).to_string(), case.clone());
          expect(&run, &cnt, &format!("date-properties:{}", year_class(y)), &format!("year/month/day of date({}, {}, {})", y, m, d), &e_parts(&s), &format!("[{}, {}, {}]", y, m, d), case);
        }
      }
    }
  });
  // components outside their range or not integer, in every position
  let bad = ["-1", "0", "12.5", "13", "32", "255", "256", "257", "2147483648", "4294967297", "1.0"];
  {
    let e_date = prep("date(a, b, c)");
    for (pos, base) in [(0usize, ["2020", "6", "15"]), (1, ["2020", "6", "15"]), (2, ["2020", "6", "15"])] {
      for b in bad {
        cnt.cases.fetch_add(1, Ordering::Relaxed);
        let mut parts = base.to_vec();
        parts[pos] = b;
        let s = scope_abc(&[("a", num_text(parts[0])), ("b", num_text(parts[1])), ("c", num_text(parts[2]))]);
        let v = e_date(&s);
        // expected by exact arithmetic on the component values
        let as_int = |t: &str| -> Option<i64> {
          let r = crate::rval::Rat::parse(t)?;
          if r.is_int() { Some(r.n as i64) } else { None }
        };
        let exp = match (as_int(parts[0]), as_int(parts[1]), as_int(parts[2])) {
          (Some(y), Some(m), Some(d)) if m >= 0 && d >= 0 && m <= u32::MAX as i64 && d <= u32::MAX as i64 && valid_date(y, m as u32, d as u32) => print_date(&RDate { year: y, month: m as u32, day: d as u32 }),
          _ => "null".to_string(),
        };
        let what = format!("date({}, {}, {})", parts[0], parts[1], parts[2]);
        expect(&run, &cnt, &format!("date-from-numbers:component-{}-value-{}", pos, b), &what, &v, &exp, json!({"engine":"c15","text":what}));
      }
    }
  }

  // B. ordering and equality of dates: all pairs of a lattice reaching +-999999999
  let mut date_lattice: Vec<RDate> = vec![];
  let ly: Vec<i64> = if thorough {
    vec![-999999999, -262145, -262144, -10000, -1, 1, 999, 1000, 1999, 2000, 2020, 9999, 10000, 262143, 262144, 999999999]
  } else {
    vec![-999999999, -262144, -1, 1, 999, 2000, 2020, 262143, 999999999]
  };
  for y in ly {
    for (m, d) in [(1, 1), (2, 28), (3, 1), (12, 31), (6, 15)] {
      date_lattice.push(RDate { year: y, month: m, day: d });
    }
  }
  let dvals: Vec<(RDate, Value)> = date_lattice.iter().filter_map(|r| FeelDate::try_from(print_date(r).as_str()).ok().map(|v| (r.clone(), Value::Date(v)))).collect();
  let cmp_ops: [(&str, fn(std::cmp::Ordering) -> bool); 6] = [
    ("<", |o| o == std::cmp::Ordering::Less),
    ("<=", |o| o != std::cmp::Ordering::Greater),
    (">", |o| o == std::cmp::Ordering::Greater),
    (">=", |o| o != std::cmp::Ordering::Less),
    ("=", |o| o == std::cmp::Ordering::Equal),
    ("!=", |o| o != std::cmp::Ordering::Equal),
  ];
  (0..dvals.len()).into_par_iter().for_each(|i| {
    let evs: Vec<Evaluator> = cmp_ops.iter().map(|(op, _)| prep(&format!("a {} b", op))).collect();
    let uevs: Vec<Evaluator> = cmp_ops.iter().take(4).map(|(op, _)| prep(&format!("a in ({} b)", op))).collect();
    let (ra, va) = &dvals[i];
    for (rb, vb) in &dvals {
      cnt.cases.fetch_add(1, Ordering::Relaxed);
      let s = scope_abc(&[("a", va.clone()), ("b", vb.clone())]);
      let o = (ra.year, ra.month, ra.day).cmp(&(rb.year, rb.month, rb.day));
      for (k, (op, f)) in cmp_ops.iter().enumerate() {
        let what = format!("date(\"{}\") {} date(\"{}\")", print_date(ra), op, print_date(rb));
        expect(&run, &cnt, &format!("date-comparison:{}", op), &what, &evs[k](&s), &f(o).to_string(), json!({"engine":"c15","text":what}));
        if k < 4 {
          let what = format!("date(\"{}\") in ({} date(\"{}\"))", print_date(ra), op, print_date(rb));
          expect(&run, &cnt, &format!("date-comparison-as-unary-test:{}", op), &what, &uevs[k](&s), &f(o).to_string(), json!({"engine":"c15","text":what}));
        }
      }
    }
  });

  // B2. a date tested against intervals of dates of every bracket kind, the date itself being one of the end points
  (0..dvals.len()).into_par_iter().for_each(|i| {
    let forms: Vec<(&str, bool, bool, bool)> = vec![
      // (text, a is the upper end, lower end closed, upper end closed)
      ("a in [b..a]", true, true, true),
      ("a in (b..a]", true, false, true),
      ("a in [b..a)", true, true, false),
      ("a in (b..a)", true, false, false),
      ("a in [a..b]", false, true, true),
      ("a in (a..b]", false, false, true),
      ("a in [a..b)", false, true, false),
      ("a in (a..b)", false, false, false),
      ("a in ]b..a]", true, false, true),
      ("a in [a..b[", false, true, false),
    ];
    let evs: Vec<Evaluator> = forms.iter().map(|(t, ..)| prep(t)).collect();
    let (ra, va) = &dvals[i];
    for (rb, vb) in &dvals {
      cnt.cases.fetch_add(1, Ordering::Relaxed);
      let s = scope_abc(&[("a", va.clone()), ("b", vb.clone())]);
      let o = (rb.year, rb.month, rb.day).cmp(&(ra.year, ra.month, ra.day)); // b against a
      for (k, (text, a_is_upper, lc, uc)) in forms.iter().enumerate() {
        let exp = if *a_is_upper {
          // lower end b, upper end a: b <(=) a and a <(=) a
          (if *lc { o != std::cmp::Ordering::Greater } else { o == std::cmp::Ordering::Less }) && *uc
        } else {
          // lower end a, upper end b
          *lc && (if *uc { o != std::cmp::Ordering::Less } else { o == std::cmp::Ordering::Greater })
        };
        let what = text.replace('a', &format!("@\"{}\"", print_date(ra))).replace('b', &format!("@\"{}\"", print_date(rb)));
        expect(&run, &cnt, &format!("date-in-interval:{}", &text[5..]), &what, &evs[k](&s), &exp.to_string(), json!({"engine":"c15","text":what}));
      }
    }
  });

  // D. date-times: comparison and subtraction by the instant on the UTC time line
  let mut offsets: Vec<i64> = vec![];
  let step = if thorough { 15 } else { 60 };
  let mut m = -14 * 60 - 45;
  while m <= 14 * 60 + 45 {
    offsets.push(m * 60);
    m += step;
  }
  for extra in [-14 * 60 - 45, -5 * 60 - 30, -15, 15, 5 * 60 + 30, 5 * 60 + 45, 12 * 60 + 45, 14 * 60 + 45] {
    if !offsets.contains(&(extra * 60)) {
      offsets.push(extra * 60);
    }
  }
  let mut dts: Vec<(String, i128, Value)> = vec![]; // literal, instant (ns), value
  for (li, l) in LOCALS.iter().enumerate() {
    let frac = if l.ends_with("59") { ".999999999" } else { "" };
    for off in &offsets {
      let z = if *off == 0 { RZone::Utc } else { RZone::Offset(*off) };
      let text = format!("{}{}{}", l, frac, print_zone(&z));
      if let Ok(r) = parse_date_time(&text, &crate::engines::c14::known_zone) {
        if let Ok(v) = FeelDateTime::try_from(text.as_str()) {
          dts.push((text, instant(&r, *off), Value::DateTime(v)));
        }
      }
    }
    // (the two local times centuries away are combined with offsets only: zone rules that far from today are extrapolated
    // differently by different zone databases, which is not what the property is about)
    let named: &[&str] = if l.starts_with("1600") || l.starts_with("2300") { &[] } else { NAMED_ZONES };
    for z in named {
      let off = tz.get(*z).and_then(|row| row.get(*l)).and_then(|o| o.as_i64());
      if let Some(off) = off {
        let text = format!("{}@{}", l, z);
        if let Ok(r) = parse_date_time(&text, &crate::engines::c14::known_zone) {
          if let Ok(v) = FeelDateTime::try_from(text.as_str()) {
            dts.push((text, instant(&r, off), Value::DateTime(v)));
          }
        }
      } else if li < FIRST_NEAR {
        run.machinery_error(&format!("zone table lacks {} at {}", z, l));
      }
    }
  }
  let n_dts = dts.len();
  (0..dts.len()).into_par_iter().for_each(|i| {
    let evs: Vec<Evaluator> = cmp_ops.iter().map(|(op, _)| prep(&format!("a {} b", op))).collect();
    let uevs: Vec<Evaluator> = cmp_ops.iter().take(4).map(|(op, _)| prep(&format!("a in ({} b)", op))).collect();
    let e_sub = prep("a - b");
    let e_between = prep("a between b and c");
    let e_in = prep("a in [b..c]");
    let (ta, ia, va) = &dts[i];
    for (tb, ib, vb) in &dts {
      cnt.cases.fetch_add(1, Ordering::Relaxed);
      let s = scope_abc(&[("a", va.clone()), ("b", vb.clone()), ("c", va.clone())]);
      let o = ia.cmp(ib);
      let zone_class = if ta.contains('@') || tb.contains('@') { "named-zone" } else { "offsets" };
      for (k, (op, f)) in cmp_ops.iter().enumerate() {
        let what = format!("@\"{}\" {} @\"{}\"", ta, op, tb);
        expect(&run, &cnt, &format!("date-time-comparison:{}:{}", op, zone_class), &what, &evs[k](&s), &f(o).to_string(), json!({"engine":"c15","text":what}));
        if k < 4 {
          let what = format!("@\"{}\" in ({} @\"{}\")", ta, op, tb);
          expect(&run, &cnt, &format!("date-time-comparison-as-unary-test:{}:{}", op, zone_class), &what, &uevs[k](&s), &f(o).to_string(), json!({"engine":"c15","text":what}));
        }
      }
      let what = format!("@\"{}\" - @\"{}\"", ta, tb);
      let sub_class = if (ia - ib).abs() > i64::MAX as i128 { "difference-beyond-64-bits-of-nanoseconds".to_string() } else { zone_class.to_string() };
      expect(&run, &cnt, &format!("date-time-subtraction:{}", sub_class), &what, &e_sub(&s), &print_dt_duration(ia - ib), json!({"engine":"c15","text":what}));
      // b <= a <= a
      let what = format!("@\"{}\" between @\"{}\" and @\"{}\"", ta, tb, ta);
      let exp = (ib <= ia).to_string();
      expect(&run, &cnt, &format!("date-time-between:{}", zone_class), &what, &e_between(&s), &exp, json!({"engine":"c15","text":what}));
      expect(&run, &cnt, &format!("date-time-in-range:{}", zone_class), &format!("@\"{}\" in [@\"{}\"..@\"{}\"]", ta, tb, ta), &e_in(&s), &exp, json!({"engine":"c15","text":what}));
    }
  });
  // D2. membership of a date and time value in intervals of date and time values, all three written in offsets up to 22 hours
  // apart a few hours around midnight: the instants decide, not the days and times as written
  {
    let mut lat: Vec<(String, i128, Value)> = vec![];
    for day in 1..=4 {
      for hm in ["01:00:00", "23:00:00"] {
        for (zt, off) in [("-10:00", -36000i64), ("Z", 0), ("+12:00", 43200), ("+05:30", 19800)] {
          let text = format!("2021-06-{:02}T{}{}", day, hm, zt);
          if let (Ok(r), Ok(v)) = (parse_date_time(&text, &crate::engines::c14::known_zone), FeelDateTime::try_from(text.as_str())) {
            lat.push((text, instant(&r, off), Value::DateTime(v)));
          }
        }
      }
    }
    (0..lat.len()).into_par_iter().for_each(|i| {
      let forms: Vec<(&str, Evaluator, bool, bool)> = vec![
        ("a between b and c", prep("a between b and c"), true, true),
        ("a in [b..c]", prep("a in [b..c]"), true, true),
        ("a in (b..c)", prep("a in (b..c)"), false, false),
        ("a in (b..c]", prep("a in (b..c]"), false, true),
        ("a in [b..c)", prep("a in [b..c)"), true, false),
      ];
      let (ta, ia, va) = &lat[i];
      for (tb, ib, vb) in &lat {
        for (tc, ic, vc) in &lat {
          cnt.cases.fetch_add(1, Ordering::Relaxed);
          let s = scope_abc(&[("a", va.clone()), ("b", vb.clone()), ("c", vc.clone())]);
          for (text, e, lc, uc) in &forms {
            let exp = (if *lc { ib <= ia } else { ib < ia }) && (if *uc { ia <= ic } else { ia < ic });
            let shown = match *text {
              "a between b and c" => "A between B and C".to_string(),
              other => other.replace('a', "A").replace('b', "B").replace('c', "C"),
            };
            let what = shown.replace('A', &format!("@\"{}\"", ta)).replace('B', &format!("@\"{}\"", tb)).replace('C', &format!("@\"{}\"", tc));
            expect(&run, &cnt, &format!("date-time-in-interval-of-other-offsets:{}", text), &what, &e(&s), &exp.to_string(), json!({"engine":"c15","text":what}));
          }
        }
      }
    });
  }
  // properties of date-times
  {
    let e = prep("[a.year, a.month, a.day, a.weekday, a.hour, a.minute, a.second]");
    let e_off = prep("a.time offset");
    let e_tz = prep("a.timezone");
    for (t, _, v) in &dts {
      cnt.cases.fetch_add(1, Ordering::Relaxed);
      let r = parse_date_time(t, &crate::engines::c14::known_zone).unwrap();
      let s = scope_abc(&[("a", v.clone())]);
      let exp = format!("[{}, {}, {}, {}, {}, {}, {}]", r.date.year, r.date.month, r.date.day, weekday(r.date.year, r.date.month, r.date.day), r.time.hour, r.time.minute, r.time.second);
      expect(&run, &cnt, "date-time-properties", &format!("year..second of @\"{}\"", t), &e(&s), &exp, json!({"engine":"c15","text":t}));
      match &r.time.zone {
        RZone::Named(z) => {
          let off = tz.get(z.as_str()).and_then(|row| row.get(&t[..19])).and_then(|o| o.as_i64()).unwrap_or(0);
          expect(&run, &cnt, "date-time-timezone", &format!("@\"{}\".timezone", t), &e_tz(&s), &format!("\"{}\"", z), json!({"engine":"c15","text":t}));
          expect(&run, &cnt, "date-time-offset:named-zone", &format!("@\"{}\".time offset", t), &e_off(&s), &print_dt_duration(off as i128 * 1_000_000_000), json!({"engine":"c15","text":t}));
        }
        RZone::Offset(o) => expect(&run, &cnt, "date-time-offset:offset", &format!("@\"{}\".time offset", t), &e_off(&s), &print_dt_duration(*o as i128 * 1_000_000_000), json!({"engine":"c15","text":t})),
        RZone::Utc => expect(&run, &cnt, "date-time-offset:utc", &format!("@\"{}\".time offset", t), &e_off(&s), "PT0S", json!({"engine":"c15","text":t})),
        RZone::Local => {}
      }
    }
  }

  // E. years and months duration between two dates: whole months
  let mut ym_dates: Vec<RDate> = vec![];
  let yy: Vec<i64> = if thorough { vec![1999, 2000, 2001, 2019, 2020, 2021, 2100] } else { vec![1999, 2000, 2020, 2021] };
  for y in yy {
    for m in 1..=12u32 {
      let last = days_in_month(y, m);
      let mut days = vec![1, 15, 28, last];
      if thorough {
        days.extend(vec![2, 29.min(last), 30.min(last)]);
      }
      days.sort();
      days.dedup();
      for d in days {
        ym_dates.push(RDate { year: y, month: m, day: d });
      }
    }
  }
  let ymv: Vec<(RDate, Value)> = ym_dates.iter().map(|r| (r.clone(), Value::Date(FeelDate::try_from(print_date(r).as_str()).unwrap()))).collect();
  let n_ym = ymv.len();
  (0..ymv.len()).into_par_iter().for_each(|i| {
    let e = prep("years and months duration(a, b)");
    let (ra, va) = &ymv[i];
    for (rb, vb) in &ymv {
      cnt.cases.fetch_add(1, Ordering::Relaxed);
      let s = scope_abc(&[("a", va.clone()), ("b", vb.clone())]);
      // whole months from a to b
      let mut months = (rb.year - ra.year) * 12 + (rb.month as i64 - ra.month as i64);
      if months > 0 && rb.day < ra.day {
        months -= 1;
      } else if months < 0 && rb.day > ra.day {
        months += 1;
      }
      let what = format!("years and months duration(date(\"{}\"), date(\"{}\"))", print_date(ra), print_date(rb));
      let class = if ra.day > 28 || rb.day > 28 { "month-end" } else { "plain" };
      expect(&run, &cnt, &format!("ym-duration-between-dates:{}:{}", if months < 0 { "backwards" } else { "forwards" }, class), &what, &e(&s), &print_ym_duration(months as i128), json!({"engine":"c15","text":what}));
    }
  });

  // F. durations: addition, negation, comparison, components
  let dt_texts = [
    "PT0S", "PT0.000000001S", "PT1S", "PT59S", "PT1M", "PT59M59.999999999S", "PT1H", "PT23H59M59S", "P1D", "P1DT1S", "P2D", "P30D", "P365D", "P999999999D", "PT36H", "PT90M", "PT3600S",
  ];
  let mut dtv: Vec<(i128, Value)> = vec![];
  for t in dt_texts {
    for sign in ["", "-"] {
      let text = format!("{}{}", sign, t);
      if let (Ok(n), Ok(v)) = (parse_dt_duration(&text), FeelDaysAndTimeDuration::try_from(text.as_str())) {
        dtv.push((n, Value::DaysAndTimeDuration(v)));
      }
    }
  }
  // more days than a 64-bit machine integer counts (the literal readers accept them, C14; the reference reader stops at
  // 18 digits, so the lengths are given here)
  for (t, days, extra_ns) in [("P18446744073709551615D", 18446744073709551615i128, 0i128), ("P18446744073709551617DT1H", 18446744073709551617, 3_600_000_000_000), ("P99999999999999999999D", 99999999999999999999, 0)] {
    for sign in ["", "-"] {
      let text = format!("{}{}", sign, t);
      if let Ok(v) = FeelDaysAndTimeDuration::try_from(text.as_str()) {
        let n = days * 86_400_000_000_000 + extra_ns;
        dtv.push((if sign.is_empty() { n } else { -n }, Value::DaysAndTimeDuration(v)));
      }
    }
  }
  let ym_texts = ["P0M", "P1M", "P11M", "P1Y", "P1Y1M", "P14M", "P100Y", "P999999999Y11M"];
  let mut ymd: Vec<(i128, Value)> = vec![];
  for t in ym_texts {
    for sign in ["", "-"] {
      let text = format!("{}{}", sign, t);
      if let (Ok(n), Ok(v)) = (parse_ym_duration(&text), FeelYearsAndMonthsDuration::try_from(text.as_str())) {
        ymd.push((n, Value::YearsAndMonthsDuration(v)));
      }
    }
  }
  for (kind, vals, printer) in [("dt-duration", &dtv, print_dt_duration as fn(i128) -> String), ("ym-duration", &ymd, print_ym_duration as fn(i128) -> String)] {
    let e_add = prep("a + b");
    let e_sub = prep("a - b");
    let e_neg = prep("-a");
    let evs: Vec<Evaluator> = cmp_ops.iter().map(|(op, _)| prep(&format!("a {} b", op))).collect();
    let uevs: Vec<Evaluator> = cmp_ops.iter().take(4).map(|(op, _)| prep(&format!("a in ({} b)", op))).collect();
    let e_btw = prep("a between b and b");
    let e_ivl = prep("a in [b..b]");
    let e_comp = if kind == "dt-duration" { prep("[a.days, a.hours, a.minutes, a.seconds]") } else { prep("[a.years, a.months]") };
    for (na, va) in vals.iter() {
      cnt.cases.fetch_add(1, Ordering::Relaxed);
      let s1 = scope_abc(&[("a", va.clone())]);
      expect(&run, &cnt, &format!("{}:negation", kind), &format!("-@\"{}\"", printer(*na)), &e_neg(&s1), &printer(-na), json!({"engine":"c15","text":format!("-{}", printer(*na))}));
      let abs = na.abs();
      let comp = if kind == "dt-duration" {
        let secs = abs / 1_000_000_000;
        format!("[{}, {}, {}, {}]", secs / 86400, (secs / 3600) % 24, (secs / 60) % 60, secs % 60)
      } else {
        format!("[{}, {}]", abs / 12, abs % 12)
      };
      // components of a negative duration: the specification gives them the sign of the duration
      let class = if kind == "dt-duration" && abs / 1_000_000_000 / 86400 > u64::MAX as i128 { ":more-days-than-64-bits-count" } else { "" };
      if *na >= 0 {
        expect(&run, &cnt, &format!("{}:components{}", kind, class), &format!("components of @\"{}\"", printer(*na)), &e_comp(&s1), &comp, json!({"engine":"c15","text":printer(*na)}));
      } else {
        // ... whichever convention is followed, it is the same for every component: all are the components of the opposite
        // duration, or all are their negations - then they add up to the total length or to its magnitude
        let negated = if kind == "dt-duration" {
          let secs = abs / 1_000_000_000;
          format!("[{}, {}, {}, {}]", -(secs / 86400), -((secs / 3600) % 24), -((secs / 60) % 60), -(secs % 60))
        } else {
          format!("[{}, {}]", -(abs / 12), -(abs % 12))
        };
        let got = show(&e_comp(&s1));
        cnt.evals.fetch_add(1, Ordering::Relaxed);
        if got != comp && got != negated {
          run.violation(
            &format!("{}:components-of-a-negative-duration{}", kind, class),
            &format!("components of @\"{}\" evaluate to {}: neither the components of the opposite duration {} nor their negations {}", printer(*na), got, comp, negated),
            json!({"engine":"c15","text":format!("@\"{}\".{}", printer(*na), if kind == "dt-duration" { "days" } else { "years" })}),
          );
        }
      }
      for (nb, vb) in vals.iter() {
        cnt.cases.fetch_add(1, Ordering::Relaxed);
        let s = scope_abc(&[("a", va.clone()), ("b", vb.clone())]);
        let what = format!("@\"{}\" + @\"{}\"", printer(*na), printer(*nb));
        expect(&run, &cnt, &format!("{}:addition", kind), &what, &e_add(&s), &printer(na + nb), json!({"engine":"c15","text":what}));
        let what = format!("@\"{}\" - @\"{}\"", printer(*na), printer(*nb));
        expect(&run, &cnt, &format!("{}:subtraction", kind), &what, &e_sub(&s), &printer(na - nb), json!({"engine":"c15","text":what}));
        let o = na.cmp(nb);
        for (k, (op, f)) in cmp_ops.iter().enumerate() {
          let what = format!("@\"{}\" {} @\"{}\"", printer(*na), op, printer(*nb));
          expect(&run, &cnt, &format!("{}:comparison:{}", kind, op), &what, &evs[k](&s), &f(o).to_string(), json!({"engine":"c15","text":what}));
          // the same comparison written as a unary test, and as the matching interval
          if k < 4 {
            let what = format!("@\"{}\" in ({} @\"{}\")", printer(*na), op, printer(*nb));
            expect(&run, &cnt, &format!("{}:comparison-as-unary-test:{}", kind, op), &what, &uevs[k](&s), &f(o).to_string(), json!({"engine":"c15","text":what}));
          }
        }
        let what = format!("@\"{}\" between @\"{}\" and @\"{}\"", printer(*na), printer(*nb), printer(*nb));
        expect(&run, &cnt, &format!("{}:comparison:between", kind), &what, &e_btw(&s), &(o == std::cmp::Ordering::Equal).to_string(), json!({"engine":"c15","text":what}));
        let what = format!("@\"{}\" in [@\"{}\"..@\"{}\"]", printer(*na), printer(*nb), printer(*nb));
        expect(&run, &cnt, &format!("{}:comparison:in-interval", kind), &what, &e_ivl(&s), &(o == std::cmp::Ordering::Equal).to_string(), json!({"engine":"c15","text":what}));
      }
    }
  }
  run.sample(json!({"text":"@\"2020-07-15T12:00:00@Europe/Warsaw\" - @\"2020-07-15T12:00:00+05:45\"","expected":print_dt_duration((5 * 3600 + 45 * 60 - 7200) as i128 * 1_000_000_000)}));
  run.sample(json!({"text":"date(1900, 2, 29)","expected":"null"}));
  run.sample(json!({"text":"years and months duration(date(\"2020-01-31\"), date(\"2020-02-29\"))","expected":"P0M"}));
  let cases = cnt.cases.load(Ordering::Relaxed);
  run.set("states", json!(cases));
  run.set("transitions", json!(cnt.evals.load(Ordering::Relaxed)));
  run.set("traces_validated_against_impl", json!(cnt.evals.load(Ordering::Relaxed)));
  run.set("evaluations", json!(cnt.evals.load(Ordering::Relaxed)));
  run.set("distinct_nontrivial", json!(cnt.nontrivial.load(Ordering::Relaxed)));
  run.set("rule", json!("expression instances, distinct by construction, whose expected value is not null: every (y, m, d) of the year set x months 0..13 x days 0..32; all pairs of the date lattice; all pairs of the date-time alphabet (local times x offsets x named zones); all pairs of the month-end date set; all pairs of the duration lattices"));
  run.set("exhaustive", json!(true));
  run.set("years_enumerated", json!(years.len()));
  run.set("date_lattice", json!(dvals.len()));
  run.set("date_times", json!(n_dts));
  run.set("ym_dates", json!(n_ym));
  run.set("durations", json!({"days_and_time": dtv.len(), "years_and_months": ymd.len()}));
  run.assume("reference calendar reftime.rs (days-from-civil; weekday spot-checked against CPython at run time); named-zone offsets from CPython zoneinfo for twelve zones at six local times away from transitions");
  run.assume("values are built through the literal readers checked by C14");
  run.finish();
}
