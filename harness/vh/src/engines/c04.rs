//! C04: a decision's value is its logic evaluated over its requirement graph.
//!
//! Every acyclic requirement graph up to the size bound is generated as a DMN model whose elements carry
//! *signature logic*: string concatenations that spell the element's own name and the (consumed) value of
//! everything it is wired to. A reference evaluation in topological order over the graph structure (not over
//! FEEL text) gives the expected signature; any mis-wiring (a requirement not bound, bound to the wrong
//! value, a knowledge model not callable, a service returning something else than its output decisions)
//! changes the string. One element at a time takes every boxed expression kind. Every invocable is invoked
//! with every presence/absence assignment of the inputs, and again with noise entries outside its
//! requirement closure, which must not change the result.

use crate::dmn::{self, Expr, Model};
use crate::report::Run;
use crate::rval::show_value_full as show_value;
use dmntk_feel::context::FeelContext;
use dmntk_feel::values::Value;
use dmntk_feel::{Name, Scope};
use dmntk_model_evaluator::ModelEvaluator;
use rayon::prelude::*;
use serde_json::json;
use std::collections::{BTreeMap, BTreeSet};
use std::sync::atomic::{AtomicU64, Ordering};

#[derive(Clone, Copy, PartialEq, Eq, Debug)]
pub enum Kind {
  Literal,
  Context,
  Table,
  Relation,
  Function,
  Invocation,
}

const NON_LITERAL: [Kind; 5] = [Kind::Context, Kind::Table, Kind::Relation, Kind::Function, Kind::Invocation];

impl Kind {
  fn name(&self) -> &'static str {
    match self {
      Kind::Literal => "literal",
      Kind::Context => "context",
      Kind::Table => "decision-table",
      Kind::Relation => "relation",
      Kind::Function => "function-definition",
      Kind::Invocation => "invocation",
    }
  }
}

/// what a consumer sees
#[derive(Clone, PartialEq, Debug)]
enum Shape {
  Str,
  Rel,
  Fun,
  /// context of several output decisions (name, shape)
  Ctx(Vec<(String, Shape)>),
}

#[derive(Clone, Debug)]
struct Dec {
  name: String,
  inputs: Vec<usize>,
  decisions: Vec<usize>,
  bkms: Vec<usize>,
  services: Vec<usize>,
  kind: Kind,
}

#[derive(Clone, Debug)]
struct Bk {
  name: String,
  bkms: Vec<usize>,
  services: Vec<usize>,
  kind: Kind,
}

#[derive(Clone, Debug)]
struct Sv {
  name: String,
  outputs: Vec<usize>,
  encapsulated: Vec<usize>,
  input_decisions: Vec<usize>,
  input_data: Vec<usize>,
}

#[derive(Clone, Debug)]
struct Graph {
  inputs: Vec<String>,
  decs: Vec<Dec>,
  bkms: Vec<Bk>,
  svcs: Vec<Sv>,
}

/// reference value
#[derive(Clone, PartialEq, Debug)]
enum V {
  Null,
  S(String),
  /// relation of one row: c1, c2
  Rel(String, String),
  /// function of one parameter q returning core + q
  Fun(String),
  Ctx(Vec<(String, V)>),
}

impl V {
  fn show(&self) -> String {
    match self {
      V::Null => "null".into(),
      V::S(s) => format!("\"{}\"", s),
      V::Rel(a, b) => format!("[{{c1: \"{}\", c2: \"{}\"}}]", a, b),
      V::Fun(_) => "<function>".into(),
      V::Ctx(es) => {
        // nested function values print through the implementation's Display
        let mut es: Vec<(Name, String)> = es.iter().map(|(k, v)| (Name::from(k.as_str()), if matches!(v, V::Fun(_)) { "FunctionDefinition".to_string() } else { v.show() })).collect();
        es.sort_by(|a, b| a.0.cmp(&b.0));
        format!("{{{}}}", es.iter().map(|(k, v)| format!("{}: {}", k, v)).collect::<Vec<_>>().join(", "))
      }
    }
  }
}

struct Env {
  inputs: Vec<Option<String>>,
  overrides: BTreeMap<usize, V>,
}

fn sigt(e: &str) -> String {
  format!("(if {e} = null then \"~\" else {e})")
}

fn consume_text(e: &str, shape: &Shape) -> String {
  match shape {
    Shape::Str => sigt(e),
    // parenthesised: a name the lexer does not know (c2) would otherwise merge with a following operator
    Shape::Rel => format!("({e}[1].c2)"),
    Shape::Fun => format!("{e}(\"k\")"),
    Shape::Ctx(es) => es.iter().map(|(n, s)| consume_text(&format!("({e}.{n})"), s)).collect::<Vec<_>>().join(" + "),
  }
}

fn consume(v: &V) -> String {
  match v {
    V::Null => "~".into(),
    V::S(s) => s.clone(),
    V::Rel(_, c2) => c2.clone(),
    V::Fun(core) => format!("{}k", core),
    V::Ctx(es) => es.iter().map(|(_, v)| consume(v)).collect::<Vec<_>>().join(""),
  }
}

impl Graph {
  fn dec_shape(&self, d: usize) -> Shape {
    let dec = &self.decs[d];
    match dec.kind {
      Kind::Relation => Shape::Rel,
      Kind::Function => Shape::Fun,
      Kind::Invocation => {
        if let Some(b) = dec.bkms.first() {
          self.bkm_shape(*b)
        } else if let Some(s) = dec.services.first() {
          self.svc_shape(*s)
        } else {
          Shape::Str
        }
      }
      _ => Shape::Str,
    }
  }
  fn bkm_shape(&self, b: usize) -> Shape {
    let bk = &self.bkms[b];
    match bk.kind {
      Kind::Relation => Shape::Rel,
      Kind::Function => Shape::Fun,
      Kind::Invocation => {
        if let Some(r) = bk.bkms.first() {
          self.bkm_shape(*r)
        } else if let Some(s) = bk.services.first() {
          self.svc_shape(*s)
        } else {
          Shape::Str
        }
      }
      _ => Shape::Str,
    }
  }
  fn svc_shape(&self, s: usize) -> Shape {
    let sv = &self.svcs[s];
    if sv.outputs.len() == 1 {
      self.dec_shape(sv.outputs[0])
    } else {
      Shape::Ctx(sv.outputs.iter().map(|o| (self.decs[*o].name.clone(), self.dec_shape(*o))).collect())
    }
  }

  /// named-argument call text of a service with constant arguments; `first` replaces the first argument
  fn svc_call_text(&self, s: usize, first: Option<&str>) -> String {
    let sv = &self.svcs[s];
    let mut args = vec![];
    for i in &sv.input_data {
      args.push(format!("{}: \"u\"", self.inputs[*i]));
    }
    for d in &sv.input_decisions {
      args.push(format!("{}: \"w\"", self.decs[*d].name));
    }
    if let (Some(f), Some(a0)) = (first, args.first_mut()) {
      let name = a0.split(':').next().unwrap().to_string();
      *a0 = format!("{}: {}", name, f);
    }
    format!("{}({})", sv.name, args.join(", "))
  }
  fn svc_bindings(&self, s: usize, first: Option<&str>) -> Vec<(String, Expr)> {
    let sv = &self.svcs[s];
    let mut out = vec![];
    for i in &sv.input_data {
      out.push((self.inputs[*i].clone(), Expr::lit("\"u\"")));
    }
    for d in &sv.input_decisions {
      out.push((self.decs[*d].name.clone(), Expr::lit("\"w\"")));
    }
    if let (Some(f), Some(a0)) = (first, out.first_mut()) {
      a0.1 = Expr::lit(f);
    }
    out
  }
  /// reference: service called with constant arguments (first argument optionally replaced by a string)
  fn svc_call_ref(&self, s: usize, first: Option<&str>) -> V {
    let sv = &self.svcs[s];
    let mut env = Env {
      inputs: vec![None; self.inputs.len()],
      overrides: BTreeMap::new(),
    };
    let mut k = 0;
    for i in &sv.input_data {
      env.inputs[*i] = Some(if k == 0 && first.is_some() { first.unwrap().to_string() } else { "u".to_string() });
      k += 1;
    }
    for d in &sv.input_decisions {
      env.overrides.insert(*d, V::S(if k == 0 && first.is_some() { first.unwrap().to_string() } else { "w".to_string() }));
      k += 1;
    }
    self.svc_ref(s, &env)
  }
  fn svc_ref(&self, s: usize, env: &Env) -> V {
    let sv = &self.svcs[s];
    if sv.outputs.len() == 1 {
      self.dec_ref(sv.outputs[0], env)
    } else {
      V::Ctx(sv.outputs.iter().map(|o| (self.decs[*o].name.clone(), self.dec_ref(*o, env))).collect())
    }
  }

  fn dec_part_texts(&self, d: usize) -> Vec<String> {
    let dec = &self.decs[d];
    let callee_bkm = if dec.kind == Kind::Invocation { dec.bkms.first().cloned() } else { None };
    let callee_svc = if dec.kind == Kind::Invocation && callee_bkm.is_none() { dec.services.first().cloned() } else { None };
    let mut parts = vec![];
    for i in &dec.inputs {
      parts.push(sigt(&self.inputs[*i]));
    }
    for e in &dec.decisions {
      parts.push(consume_text(&self.decs[*e].name, &self.dec_shape(*e)));
    }
    for b in &dec.bkms {
      if Some(*b) != callee_bkm {
        parts.push(consume_text(&format!("{}(\"{}\")", self.bkms[*b].name, dec.name), &self.bkm_shape(*b)));
      }
    }
    for s in &dec.services {
      if Some(*s) != callee_svc {
        parts.push(consume_text(&self.svc_call_text(*s, None), &self.svc_shape(*s)));
      }
    }
    parts
  }
  fn dec_ref(&self, d: usize, env: &Env) -> V {
    if let Some(v) = env.overrides.get(&d) {
      return v.clone();
    }
    let dec = &self.decs[d];
    let callee_bkm = if dec.kind == Kind::Invocation { dec.bkms.first().cloned() } else { None };
    let callee_svc = if dec.kind == Kind::Invocation && callee_bkm.is_none() { dec.services.first().cloned() } else { None };
    let mut core = format!("{}[", dec.name);
    for i in &dec.inputs {
      core.push_str(env.inputs[*i].as_deref().unwrap_or("~"));
    }
    for e in &dec.decisions {
      core.push_str(&consume(&self.dec_ref(*e, env)));
    }
    for b in &dec.bkms {
      if Some(*b) != callee_bkm {
        core.push_str(&consume(&self.bkm_ref(*b, &dec.name)));
      }
    }
    for s in &dec.services {
      if Some(*s) != callee_svc {
        core.push_str(&consume(&self.svc_call_ref(*s, None)));
      }
    }
    core.push(']');
    match dec.kind {
      Kind::Literal | Kind::Context | Kind::Table => V::S(core),
      Kind::Relation => V::Rel(dec.name.clone(), core),
      Kind::Function => V::Fun(core),
      Kind::Invocation => {
        if let Some(b) = callee_bkm {
          self.bkm_ref(b, &core)
        } else if let Some(s) = callee_svc {
          self.svc_call_ref(s, Some(&core))
        } else {
          V::S(core)
        }
      }
    }
  }
  fn bkm_part_texts(&self, b: usize) -> Vec<String> {
    let bk = &self.bkms[b];
    let callee_bkm = if bk.kind == Kind::Invocation { bk.bkms.first().cloned() } else { None };
    let callee_svc = if bk.kind == Kind::Invocation && callee_bkm.is_none() { bk.services.first().cloned() } else { None };
    let mut parts = vec!["p".to_string()];
    for r in &bk.bkms {
      if Some(*r) != callee_bkm {
        parts.push(consume_text(&format!("{}(p)", self.bkms[*r].name), &self.bkm_shape(*r)));
      }
    }
    for s in &bk.services {
      if Some(*s) != callee_svc {
        parts.push(consume_text(&self.svc_call_text(*s, None), &self.svc_shape(*s)));
      }
    }
    parts
  }
  fn bkm_ref(&self, b: usize, arg: &str) -> V {
    let bk = &self.bkms[b];
    let callee_bkm = if bk.kind == Kind::Invocation { bk.bkms.first().cloned() } else { None };
    let callee_svc = if bk.kind == Kind::Invocation && callee_bkm.is_none() { bk.services.first().cloned() } else { None };
    let mut core = format!("{}<{}", bk.name, arg);
    for r in &bk.bkms {
      if Some(*r) != callee_bkm {
        core.push_str(&consume(&self.bkm_ref(*r, arg)));
      }
    }
    for s in &bk.services {
      if Some(*s) != callee_svc {
        core.push_str(&consume(&self.svc_call_ref(*s, None)));
      }
    }
    core.push('>');
    match bk.kind {
      Kind::Literal | Kind::Context | Kind::Table => V::S(core),
      Kind::Relation => V::Rel(bk.name.clone(), core),
      Kind::Function => V::Fun(core),
      Kind::Invocation => {
        if let Some(r) = callee_bkm {
          self.bkm_ref(r, &core)
        } else if let Some(s) = callee_svc {
          self.svc_call_ref(s, Some(&core))
        } else {
          V::S(core)
        }
      }
    }
  }

  /// boxed expression of the given kind for a tag, brackets, parts and optional callee
  fn logic(&self, kind: Kind, tag: &str, open: char, close: char, parts: &[String], callee: Option<(String, Vec<(String, Expr)>)>) -> Expr {
    let mut core = format!("\"{}{}\"", tag, open);
    for p in parts {
      core.push_str(" + ");
      core.push_str(p);
    }
    core.push_str(&format!(" + \"{}\"", close));
    match kind {
      Kind::Literal => Expr::lit(&core),
      Kind::Context => {
        let mut entries = vec![];
        let mut res = format!("\"{}{}\"", tag, open);
        for (k, p) in parts.iter().enumerate() {
          entries.push((Some(format!("e{}", k + 1)), None, Expr::lit(p)));
          res.push_str(&format!(" + e{}", k + 1));
        }
        res.push_str(&format!(" + \"{}\"", close));
        entries.push((None, None, Expr::lit(&res)));
        Expr::Context(entries)
      }
      // the logic's expression is the output entry of the matching rule, or - for every other table - the default output
      // entry of a table in which no rule matches
      Kind::Table if core.len() % 2 == 1 => Expr::Table(dmn::Table {
        hit_policy: "UNIQUE".into(),
        aggregation: None,
        output_label: None,
        inputs: vec![dmn::TableInput {
          expr: "\"k\"".into(),
          type_ref: None,
          values: None,
        }],
        outputs: vec![dmn::TableOutput {
          name: None,
          type_ref: None,
          values: None,
          default: Some(core),
        }],
        rules: vec![dmn::TableRule {
          inputs: vec!["\"j\"".into()],
          outputs: vec!["\"wrong rule\"".into()],
        }],
      }),
      Kind::Table => Expr::Table(dmn::Table {
        hit_policy: "UNIQUE".into(),
        aggregation: None,
        output_label: None,
        inputs: vec![dmn::TableInput {
          expr: "\"k\"".into(),
          type_ref: None,
          values: None,
        }],
        outputs: vec![dmn::TableOutput {
          name: None,
          type_ref: None,
          values: None,
          default: None,
        }],
        rules: vec![
          dmn::TableRule {
            inputs: vec!["\"j\"".into()],
            outputs: vec!["\"wrong rule\"".into()],
          },
          dmn::TableRule {
            inputs: vec!["\"k\"".into()],
            outputs: vec![core],
          },
        ],
      }),
      Kind::Relation => Expr::Relation(vec!["c1".into(), "c2".into()], vec![vec![Expr::lit(&format!("\"{}\"", tag)), Expr::lit(&core)]]),
      Kind::Function => Expr::Function(vec![("q".into(), Some("string".into()))], Box::new(Expr::lit(&format!("{} + q", core)))),
      Kind::Invocation => match callee {
        Some((name, bindings)) => Expr::Invocation(name, bindings),
        None => Expr::lit(&core),
      },
    }
  }

  fn core_text(tag: &str, open: char, close: char, parts: &[String]) -> String {
    let mut core = format!("\"{}{}\"", tag, open);
    for p in parts {
      core.push_str(" + ");
      core.push_str(p);
    }
    core.push_str(&format!(" + \"{}\"", close));
    core
  }

  fn model(&self) -> Model {
    let mut m = Model::new("https://verif/c04", "c04");
    for i in &self.inputs {
      m.inputs.push(dmn::Input {
        name: i.clone(),
        type_ref: "string".into(),
      });
    }
    for (d, dec) in self.decs.iter().enumerate() {
      let parts = self.dec_part_texts(d);
      let callee = if dec.kind == Kind::Invocation {
        let core = Graph::core_text(&dec.name, '[', ']', &parts);
        if let Some(b) = dec.bkms.first() {
          Some((self.bkms[*b].name.clone(), vec![("p".to_string(), Expr::lit(&core))]))
        } else {
          dec.services.first().map(|s| (self.svcs[*s].name.clone(), self.svc_bindings(*s, Some(&core))))
        }
      } else {
        None
      };
      let mut knowledge: Vec<String> = dec.bkms.iter().map(|b| self.bkms[*b].name.clone()).collect();
      knowledge.extend(dec.services.iter().map(|s| self.svcs[*s].name.clone()));
      m.decisions.push(dmn::Decision {
        name: dec.name.clone(),
        type_ref: if self.dec_shape(d) == Shape::Str { Some("string".into()) } else { None },
        requires: dmn::Requires {
          inputs: dec.inputs.iter().map(|i| self.inputs[*i].clone()).collect(),
          decisions: dec.decisions.iter().map(|e| self.decs[*e].name.clone()).collect(),
          knowledge,
        },
        logic: Some(self.logic(dec.kind, &dec.name, '[', ']', &parts, callee)),
      });
    }
    for (b, bk) in self.bkms.iter().enumerate() {
      let parts = self.bkm_part_texts(b);
      let callee = if bk.kind == Kind::Invocation {
        let core = Graph::core_text(&bk.name, '<', '>', &parts);
        if let Some(r) = bk.bkms.first() {
          Some((self.bkms[*r].name.clone(), vec![("p".to_string(), Expr::lit(&core))]))
        } else {
          bk.services.first().map(|s| (self.svcs[*s].name.clone(), self.svc_bindings(*s, Some(&core))))
        }
      } else {
        None
      };
      let mut knowledge: Vec<String> = bk.bkms.iter().map(|r| self.bkms[*r].name.clone()).collect();
      knowledge.extend(bk.services.iter().map(|s| self.svcs[*s].name.clone()));
      m.bkms.push(dmn::Bkm {
        name: bk.name.clone(),
        type_ref: None,
        params: vec![("p".into(), Some("string".into()))],
        knowledge,
        logic: self.logic(bk.kind, &bk.name, '<', '>', &parts, callee),
      });
    }
    for sv in &self.svcs {
      m.services.push(dmn::Service {
        name: sv.name.clone(),
        type_ref: None,
        output_decisions: sv.outputs.iter().map(|d| self.decs[*d].name.clone()).collect(),
        encapsulated_decisions: sv.encapsulated.iter().map(|d| self.decs[*d].name.clone()).collect(),
        input_decisions: sv.input_decisions.iter().map(|d| self.decs[*d].name.clone()).collect(),
        input_data: sv.input_data.iter().map(|d| self.inputs[*d].clone()).collect(),
      });
    }
    m
  }

  /// names in the requirement closure of an element (its own name included)
  fn closure_dec(&self, d: usize, out: &mut BTreeSet<String>) {
    if !out.insert(self.decs[d].name.clone()) {
      return;
    }
    let dec = &self.decs[d];
    for i in &dec.inputs {
      out.insert(self.inputs[*i].clone());
    }
    for e in &dec.decisions {
      self.closure_dec(*e, out);
    }
    for b in &dec.bkms {
      self.closure_bkm(*b, out);
    }
    for s in &dec.services {
      self.closure_svc(*s, out);
    }
  }
  fn closure_bkm(&self, b: usize, out: &mut BTreeSet<String>) {
    if !out.insert(self.bkms[b].name.clone()) {
      return;
    }
    for r in &self.bkms[b].bkms {
      self.closure_bkm(*r, out);
    }
    for s in &self.bkms[b].services {
      self.closure_svc(*s, out);
    }
  }
  fn closure_svc(&self, s: usize, out: &mut BTreeSet<String>) {
    if !out.insert(self.svcs[s].name.clone()) {
      return;
    }
    let sv = &self.svcs[s];
    for i in &sv.input_data {
      out.insert(self.inputs[*i].clone());
    }
    for d in sv.outputs.iter().chain(sv.encapsulated.iter()) {
      self.closure_dec(*d, out);
    }
    for d in &sv.input_decisions {
      out.insert(self.decs[*d].name.clone());
    }
  }

  /// Is a function value (function-kind decision or knowledge model) of another element within reach of the invoked
  /// element? Such a value is used outside the scope that defined it (listed finding: it sees the caller's scope).
  fn function_escapes(&self, closure: &BTreeSet<String>, invoked: &str) -> bool {
    self.decs.iter().any(|d| d.kind == Kind::Function && d.name != invoked && closure.contains(&d.name))
      || self.bkms.iter().any(|b| b.kind == Kind::Function && b.name != invoked && closure.contains(&b.name))
  }
  fn variant(&self) -> String {
    let mut v = vec![];
    for d in &self.decs {
      if d.kind != Kind::Literal {
        v.push(format!("decision-as-{}", d.kind.name()));
      }
    }
    for b in &self.bkms {
      if b.kind != Kind::Literal {
        v.push(format!("knowledge-model-as-{}", b.kind.name()));
      }
    }
    if v.is_empty() {
      "all-literal".into()
    } else {
      v.sort();
      v.dedup();
      v.join("+")
    }
  }
}

struct Cnt {
  models: AtomicU64,
  evals: AtomicU64,
  compared: AtomicU64,
  nontrivial: AtomicU64,
  noise: AtomicU64,
}

fn ctx_of(pairs: &[(String, String)]) -> FeelContext {
  let mut c = FeelContext::default();
  for (k, v) in pairs {
    c.set_entry(&Name::from(k.as_str()), Value::String(v.clone()));
  }
  c
}

fn ctx_text(pairs: &[(String, String)]) -> String {
  format!("{{{}}}", pairs.iter().map(|(k, v)| format!("{}: \"{}\"", k, v)).collect::<Vec<_>>().join(", "))
}

const NOISE_NAMES: [&str; 8] = ["Zed", "p", "q", "k", "e1", "c1", "c2", "item"];

/// Checks one model: every invocable x every input assignment (+ noise).
fn check_graph(run: &Run, cnt: &Cnt, family: &str, g: &Graph, extra: &str) {
  cnt.models.fetch_add(1, Ordering::Relaxed);
  let xml = g.model().to_xml();
  let me = match dmntk_model::parse(&xml).map_err(|e| e.to_string()).and_then(|defs| ModelEvaluator::new(&defs).map_err(|e| e.to_string())) {
    Ok(me) => me,
    Err(e) => {
      let class: String = e.chars().take(60).collect::<String>().split(':').take(2).collect::<Vec<_>>().join(":");
      run.violation(
        &format!("{}:model-does-not-load:{}{}:{}", family, g.variant(), extra, class),
        &format!("generated well-formed model is rejected: {}", e),
        json!({"engine":"dmn","xml":xml,"invocable":"","ctx":[],"expected":"(model loads)"}),
      );
      return;
    }
  };
  let all_names: BTreeSet<String> = g
    .inputs
    .iter()
    .cloned()
    .chain(g.decs.iter().map(|d| d.name.clone()))
    .chain(g.bkms.iter().map(|d| d.name.clone()))
    .chain(g.svcs.iter().map(|d| d.name.clone()))
    .collect();
  let ni = g.inputs.len();
  let local_outcomes = std::cell::RefCell::new(BTreeSet::<String>::new());
  let judge = |invoked_kind: &str, invocable: &str, pairs: &[(String, String)], closure: &BTreeSet<String>, expected: &V, tag: &str| {
    let ctx = ctx_of(pairs);
    let got = show_value(&me.evaluate_invocable(invocable, &ctx));
    cnt.evals.fetch_add(1, Ordering::Relaxed);
    cnt.compared.fetch_add(1, Ordering::Relaxed);
    let exp = expected.show();
    local_outcomes.borrow_mut().insert(format!(
      "{}:{}",
      invoked_kind,
      match expected {
        V::Null => "null",
        V::S(_) => "signature-string",
        V::Rel(..) => "relation",
        V::Fun(_) => "function",
        V::Ctx(_) => "context-of-outputs",
      }
    ));
    if *expected != V::Null {
      cnt.nontrivial.fetch_add(1, Ordering::Relaxed);
    }
    if got != exp {
      let got_class = if got == "null" {
        "null"
      } else if got.starts_with('"') {
        "other-string"
      } else {
        "other-shape"
      };
      // one listed cause: a function value used outside the scope that defined it sees the caller's scope
      let key = if tag.is_empty() { format!("{}:{}:{}{}:{}", family, invoked_kind, g.variant(), extra, got_class) } else { tag.trim_start_matches(':').to_string() };
      run.violation(
        &key,
        &format!("{} `{}` invoked with {} gives {} but its logic over the requirement graph gives {}", invoked_kind, invocable, ctx_text(pairs), got, exp),
        json!({"engine":"dmn","xml":xml,"invocable":invocable,"ctx":pairs.iter().map(|(k,v)| json!([k,v])).collect::<Vec<_>>(),"expected":exp}),
      );
    }
    // an entry named like the invoked element itself: the element is not one of its own requirements
    if !pairs.iter().any(|(k, _)| k == invocable) {
      let mut own = pairs.to_vec();
      own.push((invocable.to_string(), "n".to_string()));
      let got_own = show_value(&me.evaluate_invocable(invocable, &ctx_of(&own)));
      cnt.evals.fetch_add(1, Ordering::Relaxed);
      cnt.noise.fetch_add(1, Ordering::Relaxed);
      if got_own != got {
        run.violation(
          &format!("{}:noise:{}:{}{}:entry-named-like-the-invoked-element", family, invoked_kind, g.variant(), extra),
          &format!("{} `{}`: an entry named like the element itself changes the result from {} (with {}) to {} (with {})", invoked_kind, invocable, got, ctx_text(pairs), got_own, ctx_text(&own)),
          json!({"engine":"dmn","xml":xml,"invocable":invocable,"ctx":own.iter().map(|(k,v)| json!([k,v])).collect::<Vec<_>>(),"expected":got}),
        );
      }
    }
    // noise: entries outside the requirement closure
    let mut noisy: Vec<(String, String)> = pairs.to_vec();
    for n in all_names.iter().map(|s| s.as_str()).chain(NOISE_NAMES.iter().cloned()) {
      if !closure.contains(n) && !pairs.iter().any(|(k, _)| k == n) {
        noisy.push((n.to_string(), "n".to_string()));
      }
    }
    let got_noisy = show_value(&me.evaluate_invocable(invocable, &ctx_of(&noisy)));
    cnt.evals.fetch_add(1, Ordering::Relaxed);
    cnt.noise.fetch_add(1, Ordering::Relaxed);
    if got_noisy != got {
      // attribute to single entries
      let mut culprits = vec![];
      for (k, v) in noisy.iter().skip(pairs.len()) {
        let mut one = pairs.to_vec();
        one.push((k.clone(), v.clone()));
        if show_value(&me.evaluate_invocable(invocable, &ctx_of(&one))) != got {
          culprits.push(if all_names.contains(k) { "name-of-unrelated-model-element".to_string() } else { format!("entry-{}", k) });
        }
      }
      culprits.sort();
      culprits.dedup();
      run.violation(
        &format!("{}:noise:{}:{}{}:{}", family, invoked_kind, g.variant(), extra, if culprits.is_empty() { "combination".to_string() } else { culprits.join("+") }),
        &format!(
          "{} `{}`: entries outside its requirement closure change the result from {} (with {}) to {} (with {})",
          invoked_kind,
          invocable,
          got,
          ctx_text(pairs),
          got_noisy,
          ctx_text(&noisy)
        ),
        json!({"engine":"dmn","xml":xml,"invocable":invocable,"ctx":noisy.iter().map(|(k,v)| json!([k,v])).collect::<Vec<_>>(),"expected":got}),
      );
    }
  };
  // decisions
  for d in 0..g.decs.len() {
    let mut closure = BTreeSet::new();
    g.closure_dec(d, &mut closure);
    let tag = if g.function_escapes(&closure, &g.decs[d].name) { ":function-value-leaves-defining-scope" } else { "" };
    for mask in 0..(1u32 << ni) {
      let mut env = Env {
        inputs: vec![None; ni],
        overrides: BTreeMap::new(),
      };
      let mut pairs = vec![];
      for i in 0..ni {
        if mask & (1 << i) != 0 {
          let v = ["x", "y", "z"][i % 3].to_string();
          env.inputs[i] = Some(v.clone());
          pairs.push((g.inputs[i].clone(), v));
        }
      }
      let expected = g.dec_ref(d, &env);
      judge("decision", &g.decs[d].name, &pairs, &closure, &expected, tag);
    }
  }
  // knowledge models invoked by name with their parameter
  for b in 0..g.bkms.len() {
    let mut closure = BTreeSet::new();
    g.closure_bkm(b, &mut closure);
    closure.insert("p".into());
    let expected = g.bkm_ref(b, "z");
    let tag = if g.function_escapes(&closure, &g.bkms[b].name) { ":function-value-leaves-defining-scope" } else { "" };
    judge("knowledge-model", &g.bkms[b].name, &[("p".to_string(), "z".to_string())], &closure, &expected, tag);
  }
  // services invoked by name
  for s in 0..g.svcs.len() {
    let sv = &g.svcs[s];
    let mut closure = BTreeSet::new();
    g.closure_svc(s, &mut closure);
    let tag = if g.function_escapes(&closure, &sv.name) { ":function-value-leaves-defining-scope" } else { "" };
    let np = sv.input_data.len() + sv.input_decisions.len();
    for mask in 0..(1u32 << np) {
      let mut env = Env {
        inputs: vec![None; ni],
        overrides: BTreeMap::new(),
      };
      let mut pairs = vec![];
      for (k, i) in sv.input_data.iter().enumerate() {
        if mask & (1 << k) != 0 {
          let v = ["x", "y", "z"][*i % 3].to_string();
          env.inputs[*i] = Some(v.clone());
          pairs.push((g.inputs[*i].clone(), v));
        }
      }
      for (k, d) in sv.input_decisions.iter().enumerate() {
        if mask & (1 << (k + sv.input_data.len())) != 0 {
          env.overrides.insert(*d, V::S(format!("w{}", d)));
          pairs.push((g.decs[*d].name.clone(), format!("w{}", d)));
        } else {
          env.overrides.insert(*d, V::Null);
        }
      }
      let expected = g.svc_ref(s, &env);
      judge("decision-service", &sv.name, &pairs, &closure, &expected, tag);
    }
  }
  run.outcomes_bulk(local_outcomes.into_inner());
}

struct Names {
  inputs: [&'static str; 2],
  decs: [&'static str; 4],
  bkms: [&'static str; 2],
  svc: &'static str,
}

const PLAIN: Names = Names {
  inputs: ["I1", "I2"],
  decs: ["D1", "D2", "D3", "D4"],
  bkms: ["B1", "B2"],
  svc: "S1",
};
/// names sharing words and prefixes
const COLLIDING: Names = Names {
  inputs: ["Alpha", "Alpha Beta"],
  decs: ["Beta", "Alpha Beta Gamma", "Gamma Alpha", "Gamma"],
  bkms: ["Fn", "Fn Alpha"],
  svc: "Svc",
};

fn bits(mask: u32, n: usize) -> Vec<usize> {
  (0..n).filter(|i| mask & (1 << i) != 0).collect()
}

/// graphs without services: every wiring of nd decisions over 2 inputs and 2 knowledge models
fn family_graphs(names: &Names, nd: usize, d_last_bkm_masks: &[u32]) -> Vec<Graph> {
  let mut out = vec![];
  // per-decision option lists
  let mut per: Vec<Vec<(u32, u32, u32)>> = vec![];
  for i in 0..nd {
    let mut opts = vec![];
    for im in 0..4u32 {
      for dm in 0..(1u32 << i) {
        let bm_list: Vec<u32> = if i + 1 == nd && nd >= 3 { d_last_bkm_masks.to_vec() } else { (0..4).collect() };
        for bm in bm_list {
          opts.push((im, dm, bm));
        }
      }
    }
    per.push(opts);
  }
  let mut idx = vec![0usize; nd];
  loop {
    for b12 in [false, true] {
      let decs: Vec<Dec> = (0..nd)
        .map(|i| {
          let (im, dm, bm) = per[i][idx[i]];
          Dec {
            name: names.decs[i].to_string(),
            inputs: bits(im, 2),
            decisions: bits(dm, i),
            bkms: bits(bm, 2),
            services: vec![],
            kind: Kind::Literal,
          }
        })
        .collect();
      let bkms = vec![
        Bk {
          name: names.bkms[0].to_string(),
          bkms: if b12 { vec![1] } else { vec![] },
          services: vec![],
          kind: Kind::Literal,
        },
        Bk {
          name: names.bkms[1].to_string(),
          bkms: vec![],
          services: vec![],
          kind: Kind::Literal,
        },
      ];
      out.push(Graph {
        inputs: names.inputs.iter().map(|s| s.to_string()).collect(),
        decs,
        bkms,
        svcs: vec![],
      });
    }
    // next
    let mut k = 0;
    loop {
      if k == nd {
        return out;
      }
      idx[k] += 1;
      if idx[k] < per[k].len() {
        break;
      }
      idx[k] = 0;
      k += 1;
    }
  }
}

/// every single-element kind variant of a graph (the all-literal graph first)
fn kind_variants(g: &Graph) -> Vec<Graph> {
  let mut out = vec![g.clone()];
  for d in 0..g.decs.len() {
    for k in NON_LITERAL {
      if k == Kind::Invocation && g.decs[d].bkms.is_empty() && g.decs[d].services.is_empty() {
        continue;
      }
      let mut h = g.clone();
      h.decs[d].kind = k;
      out.push(h);
    }
  }
  for b in 0..g.bkms.len() {
    // a knowledge model nobody requires is still invocable by name
    for k in NON_LITERAL {
      if k == Kind::Invocation && g.bkms[b].bkms.is_empty() && g.bkms[b].services.is_empty() {
        continue;
      }
      let mut h = g.clone();
      h.bkms[b].kind = k;
      out.push(h);
    }
  }
  out
}

/// transitive decision requirements of a set, stopping at `stop`
fn dec_closure(g: &Graph, roots: &[usize], stop: &BTreeSet<usize>) -> BTreeSet<usize> {
  let mut seen = BTreeSet::new();
  let mut todo: Vec<usize> = roots.to_vec();
  while let Some(d) = todo.pop() {
    if stop.contains(&d) || !seen.insert(d) {
      continue;
    }
    for e in &g.decs[d].decisions {
      todo.push(*e);
    }
  }
  seen
}

/// service family: every wiring of three decisions, every well-formed service over them, every caller style
fn family_services(names: &Names, thorough: bool) -> Vec<(Graph, String)> {
  let mut out = vec![];
  let base = family_graphs_nobkm(names, 3);
  for g in base {
    for om in 1..8u32 {
      let outputs = bits(om, 3);
      let full = dec_closure(&g, &outputs, &BTreeSet::new());
      let candidates: Vec<usize> = full.iter().cloned().filter(|d| !outputs.contains(d)).collect();
      for idm in 0..(1u32 << candidates.len()) {
        let input_decisions: Vec<usize> = bits(idm, candidates.len()).into_iter().map(|k| candidates[k]).collect();
        let stop: BTreeSet<usize> = input_decisions.iter().cloned().collect();
        let inside = dec_closure(&g, &outputs, &stop);
        // an input decision must actually be required by something inside
        if !input_decisions.iter().all(|d| inside.iter().any(|x| g.decs[*x].decisions.contains(d))) {
          continue;
        }
        let encapsulated: Vec<usize> = inside.iter().cloned().filter(|d| !outputs.contains(d)).collect();
        let mut input_data = BTreeSet::new();
        for d in &inside {
          for i in &g.decs[*d].inputs {
            input_data.insert(*i);
          }
        }
        let sv = Sv {
          name: names.svc.to_string(),
          outputs: outputs.clone(),
          encapsulated,
          input_decisions,
          input_data: input_data.into_iter().collect(),
        };
        let mut h = g.clone();
        h.svcs.push(sv);
        out.push((h.clone(), ":service-by-name".to_string()));
        // callers: a fourth decision requiring the service as knowledge
        let direct_opts: Vec<Vec<usize>> = if thorough { vec![vec![], vec![0], vec![2]] } else { vec![vec![], vec![0]] };
        for direct in direct_opts {
          for style in ["literal", "invocation", "through-knowledge-model", "through-knowledge-model-invocation", "through-knowledge-model-requiring-another-first"] {
            let mut c = h.clone();
            let mut caller = Dec {
              name: names.decs[3].to_string(),
              inputs: vec![],
              decisions: direct.clone(),
              bkms: vec![],
              services: vec![],
              kind: Kind::Literal,
            };
            match style {
              "literal" => caller.services = vec![0],
              "invocation" => {
                caller.services = vec![0];
                caller.kind = Kind::Invocation;
                if c.svcs[0].input_data.is_empty() && c.svcs[0].input_decisions.is_empty() {
                  continue;
                }
              }
              "through-knowledge-model" => {
                caller.bkms = vec![0];
                c.bkms.push(Bk {
                  name: names.bkms[0].to_string(),
                  bkms: vec![],
                  services: vec![0],
                  kind: Kind::Literal,
                });
              }
              "through-knowledge-model-requiring-another-first" => {
                // the knowledge model requires another knowledge model and, after it, the service
                caller.bkms = vec![0];
                c.bkms.push(Bk {
                  name: names.bkms[0].to_string(),
                  bkms: vec![1],
                  services: vec![0],
                  kind: Kind::Literal,
                });
                c.bkms.push(Bk {
                  name: names.bkms[1].to_string(),
                  bkms: vec![],
                  services: vec![],
                  kind: Kind::Literal,
                });
              }
              _ => {
                caller.bkms = vec![0];
                if c.svcs[0].input_data.is_empty() && c.svcs[0].input_decisions.is_empty() {
                  continue;
                }
                c.bkms.push(Bk {
                  name: names.bkms[0].to_string(),
                  bkms: vec![],
                  services: vec![0],
                  kind: Kind::Invocation,
                });
              }
            }
            c.decs.push(caller);
            out.push((c, format!(":service-called-{}{}", style, if direct.is_empty() { "" } else { "+direct-requirement" })));
          }
        }
      }
    }
  }
  out
}

fn family_graphs_nobkm(names: &Names, nd: usize) -> Vec<Graph> {
  let mut out = vec![];
  let mut per: Vec<Vec<(u32, u32)>> = vec![];
  for i in 0..nd {
    let mut opts = vec![];
    for im in 0..4u32 {
      for dm in 0..(1u32 << i) {
        opts.push((im, dm));
      }
    }
    per.push(opts);
  }
  let mut idx = vec![0usize; nd];
  loop {
    out.push(Graph {
      inputs: names.inputs.iter().map(|s| s.to_string()).collect(),
      decs: (0..nd)
        .map(|i| Dec {
          name: names.decs[i].to_string(),
          inputs: bits(per[i][idx[i]].0, 2),
          decisions: bits(per[i][idx[i]].1, i),
          bkms: vec![],
          services: vec![],
          kind: Kind::Literal,
        })
        .collect(),
      bkms: vec![],
      svcs: vec![],
    });
    let mut k = 0;
    loop {
      if k == nd {
        return out;
      }
      idx[k] += 1;
      if idx[k] < per[k].len() {
        break;
      }
      idx[k] = 0;
      k += 1;
    }
  }
}

/// family 3: boxed invocations and boxed contexts bind simultaneously / in order. A knowledge model with 2..3
/// parameters named like the decision's inputs is invoked by boxed invocation with every assignment of input
/// names to parameters (so a binding formula can name an earlier - or later - bound parameter) and every order of
/// the <binding> elements; the result must equal the same call written as a literal expression, i.e. every formula
/// is evaluated in the invoking scope. Boxed contexts: an entry may use earlier entries only.
fn family_bindings(run: &Run, cnt: &Cnt, thorough: bool) -> u64 {
  fn perms(n: usize) -> Vec<Vec<usize>> {
    if n == 1 {
      return vec![vec![0]];
    }
    let mut out = vec![];
    for p in perms(n - 1) {
      for k in 0..n {
        let mut q = p.clone();
        q.insert(k, n - 1);
        out.push(q);
      }
    }
    out
  }
  let mut models = 0u64;
  let names = ["a", "b", "c"];
  let values = ["x", "y", "z"];
  for n in 2..=(if thorough { 3 } else { 3 }) {
    // every function from parameters to input names (not only permutations)
    let mut assigns: Vec<Vec<usize>> = vec![vec![]];
    for _ in 0..n {
      assigns = assigns.into_iter().flat_map(|a| (0..n).map(move |k| { let mut b = a.clone(); b.push(k); b })).collect();
    }
    for assign in &assigns {
      for order in perms(n) {
        models += 1;
        cnt.models.fetch_add(1, Ordering::Relaxed);
        let mut m = Model::new("https://verif/c04b", "c04b");
        for k in 0..n {
          m.inputs.push(dmn::Input { name: names[k].into(), type_ref: "string".into() });
        }
        let body = format!("\"F<\" + {} + \">\"", (0..n).map(|k| names[k].to_string()).collect::<Vec<_>>().join(" + \",\" + "));
        // the knowledge model's body alternates between a literal expression and a boxed context with a result entry
        let body_as_context = (models % 2) == 0;
        let logic = if body_as_context {
          Expr::Context(vec![(Some("d".to_string()), None, Expr::lit(&body)), (None, None, Expr::lit("d"))])
        } else {
          Expr::lit(&body)
        };
        m.bkms.push(dmn::Bkm { name: "F".into(), type_ref: None, params: (0..n).map(|k| (names[k].to_string(), Some("string".to_string()))).collect(), knowledge: vec![], logic });
        // the inputs read after an invocation whose parameters are named like them: by literal call and inside a boxed context
        let args = (0..n).map(|k| names[assign[k]].to_string()).collect::<Vec<_>>().join(", ");
        let reads = (0..n).map(|k| names[k].to_string()).collect::<Vec<_>>().join(" + \",\" + ");
        m.decisions.push(dmn::Decision {
          name: "After".into(),
          type_ref: Some("string".into()),
          requires: dmn::Requires { inputs: (0..n).map(|k| names[k].to_string()).collect(), decisions: vec![], knowledge: vec!["F".into()] },
          logic: Some(Expr::lit(&format!("F({}) + \"|\" + {}", args, reads))),
        });
        m.decisions.push(dmn::Decision {
          name: "AfterBoxed".into(),
          type_ref: Some("string".into()),
          requires: dmn::Requires { inputs: (0..n).map(|k| names[k].to_string()).collect(), decisions: vec![], knowledge: vec!["F".into()] },
          logic: Some(Expr::Context(vec![
            (Some("t".to_string()), None, Expr::Invocation("F".into(), (0..n).map(|k| (names[k].to_string(), Expr::lit(names[assign[k]]))).collect())),
            (None, None, Expr::lit(&format!("t + \"|\" + {}", reads))),
          ])),
        });
        let bindings: Vec<(String, Expr)> = order.iter().map(|k| (names[*k].to_string(), Expr::lit(names[assign[*k]]))).collect();
        m.decisions.push(dmn::Decision {
          name: "Boxed".into(),
          type_ref: Some("string".into()),
          requires: dmn::Requires { inputs: (0..n).map(|k| names[k].to_string()).collect(), decisions: vec![], knowledge: vec!["F".into()] },
          logic: Some(Expr::Invocation("F".into(), bindings)),
        });
        // the same as a boxed context whose entries shadow the inputs one after the other: entry k is named like input k and
        // defined by the assigned name; an entry sees the entries before it (in document order) and the inputs otherwise
        let entries: Vec<(Option<String>, Option<String>, Expr)> = order
          .iter()
          .map(|k| (Some(names[*k].to_string()), None, Expr::lit(names[assign[*k]])))
          .chain(std::iter::once((None, None, Expr::lit(&(0..n).map(|k| names[k].to_string()).collect::<Vec<_>>().join(" + \",\" + ")))))
          .collect();
        m.decisions.push(dmn::Decision {
          name: "Ctx".into(),
          type_ref: Some("string".into()),
          requires: dmn::Requires { inputs: (0..n).map(|k| names[k].to_string()).collect(), decisions: vec![], knowledge: vec![] },
          logic: Some(Expr::Context(entries)),
        });
        let xml = m.to_xml();
        let me = match dmntk_model::parse(&xml).map_err(|e| e.to_string()).and_then(|d| ModelEvaluator::new(&d).map_err(|e| e.to_string())) {
          Ok(me) => me,
          Err(e) => {
            run.violation("bindings:model-does-not-load", &format!("generated well-formed model is rejected: {}", e), json!({"engine":"dmn","xml":xml,"invocable":"","ctx":[],"expected":"(model loads)"}));
            continue;
          }
        };
        let pairs: Vec<(String, String)> = (0..n).map(|k| (names[k].to_string(), values[k].to_string())).collect();
        let ctx = ctx_of(&pairs);
        // boxed invocation: simultaneous
        let want = format!("\"F<{}>\"", (0..n).map(|k| values[assign[k]].to_string()).collect::<Vec<_>>().join(","));
        let got = show_value(&me.evaluate_invocable("Boxed", &ctx));
        cnt.evals.fetch_add(2, Ordering::Relaxed);
        cnt.compared.fetch_add(2, Ordering::Relaxed);
        cnt.nontrivial.fetch_add(2, Ordering::Relaxed);
        let shape = if (0..n).any(|k| assign[k] != k) { "formula-names-another-parameter" } else { "identity" };
        if got != want {
          run.violation(
            &format!("bindings:boxed-invocation:{}", shape),
            &format!("boxed invocation of F with bindings {:?} (in this order) and inputs {} gives {} but every binding formula evaluated in the invoking scope gives {}", order.iter().map(|k| format!("{} := {}", names[*k], names[assign[*k]])).collect::<Vec<_>>(), ctx_text(&pairs), got, want),
            json!({"engine":"dmn","xml":xml,"invocable":"Boxed","ctx":pairs.iter().map(|(k,v)| json!([k,v])).collect::<Vec<_>>(),"expected":want}),
          );
        }
        // the inputs are still the inputs after the invocation
        let want_after = format!("\"F<{}>|{}\"", (0..n).map(|k| values[assign[k]].to_string()).collect::<Vec<_>>().join(","), (0..n).map(|k| values[k].to_string()).collect::<Vec<_>>().join(","));
        for inv in ["After", "AfterBoxed"] {
          let got = show_value(&me.evaluate_invocable(inv, &ctx));
          cnt.evals.fetch_add(1, Ordering::Relaxed);
          cnt.compared.fetch_add(1, Ordering::Relaxed);
          cnt.nontrivial.fetch_add(1, Ordering::Relaxed);
          if got != want_after {
            run.violation(
              &format!("bindings:names-after-invocation:{}:{}", if body_as_context { "knowledge-model-as-context" } else { "knowledge-model-as-literal" }, if inv == "After" { "literal-call" } else { "boxed-invocation" }),
              &format!("decision `{}` (invocation of F({}) followed by reading the inputs) with {} gives {} but {} is prescribed", inv, args, ctx_text(&pairs), got, want_after),
              json!({"engine":"dmn","xml":xml,"invocable":inv,"ctx":pairs.iter().map(|(k,v)| json!([k,v])).collect::<Vec<_>>(),"expected":want_after}),
            );
          }
        }
        // boxed context: sequential in document order
        let mut env: Vec<String> = (0..n).map(|k| values[k].to_string()).collect();
        for k in &order {
          env[*k] = env[assign[*k]].clone();
        }
        let want = format!("\"{}\"", env.join(","));
        let got = show_value(&me.evaluate_invocable("Ctx", &ctx));
        if got != want {
          run.violation(
            &format!("bindings:boxed-context:{}", shape),
            &format!("boxed context with entries {:?} and inputs {} gives {} but entries defined one after the other give {}", order.iter().map(|k| format!("{} := {}", names[*k], names[assign[*k]])).collect::<Vec<_>>(), ctx_text(&pairs), got, want),
            json!({"engine":"dmn","xml":xml,"invocable":"Ctx","ctx":pairs.iter().map(|(k,v)| json!([k,v])).collect::<Vec<_>>(),"expected":want}),
          );
        }
      }
    }
  }
  models
}

/// Knowledge models whose formal parameters carry every combination of "no type", a type the argument conforms to and a
/// type it does not conform to: an argument reaches the body unchanged unless its own parameter's type rejects it.
fn family_parameter_types(run: &Run, cnt: &Cnt) -> u64 {
  let names = ["a", "b", "c"];
  let values = ["x", "y", "z"];
  let types: [Option<&str>; 3] = [None, Some("string"), Some("number")];
  let mut models = 0u64;
  for n in 2..=3usize {
    let combos = 3usize.pow(n as u32);
    for combo in 0..combos {
      let tys: Vec<Option<&str>> = (0..n).map(|k| types[(combo / 3usize.pow(k as u32)) % 3]).collect();
      models += 1;
      cnt.models.fetch_add(1, Ordering::Relaxed);
      let mut m = Model::new("https://verif/c04p", "c04p");
      for k in 0..n {
        m.inputs.push(dmn::Input { name: names[k].into(), type_ref: "string".into() });
      }
      let body = format!("[{}]", (0..n).map(|k| names[k].to_string()).collect::<Vec<_>>().join(", "));
      m.bkms.push(dmn::Bkm { name: "F".into(), type_ref: None, params: (0..n).map(|k| (names[k].to_string(), tys[k].map(|t| t.to_string()))).collect(), knowledge: vec![], logic: Expr::lit(&body) });
      let requires = dmn::Requires { inputs: (0..n).map(|k| names[k].to_string()).collect(), decisions: vec![], knowledge: vec!["F".into()] };
      m.decisions.push(dmn::Decision {
        name: "Literal".into(),
        type_ref: None,
        requires: requires.clone(),
        logic: Some(Expr::lit(&format!("F({})", (0..n).map(|k| names[k].to_string()).collect::<Vec<_>>().join(", ")))),
      });
      m.decisions.push(dmn::Decision {
        name: "Named".into(),
        type_ref: None,
        requires: requires.clone(),
        logic: Some(Expr::lit(&format!("F({})", (0..n).rev().map(|k| format!("{}: {}", names[k], names[k])).collect::<Vec<_>>().join(", ")))),
      });
      m.decisions.push(dmn::Decision {
        name: "Boxed".into(),
        type_ref: None,
        requires,
        logic: Some(Expr::Invocation("F".into(), (0..n).map(|k| (names[k].to_string(), Expr::lit(names[k]))).collect())),
      });
      let xml = m.to_xml();
      let me = match dmntk_model::parse(&xml).map_err(|e| e.to_string()).and_then(|d| ModelEvaluator::new(&d).map_err(|e| e.to_string())) {
        Ok(me) => me,
        Err(e) => {
          run.violation("parameter-types:model-does-not-load", &format!("generated well-formed model is rejected: {}", e), json!({"engine":"dmn","xml":xml,"invocable":"","ctx":[],"expected":"(model loads)"}));
          continue;
        }
      };
      let pairs: Vec<(String, String)> = (0..n).map(|k| (names[k].to_string(), values[k].to_string())).collect();
      let ctx = ctx_of(&pairs);
      let want = format!("[{}]", (0..n).map(|k| if tys[k] == Some("number") { "null".to_string() } else { format!("\"{}\"", values[k]) }).collect::<Vec<_>>().join(", "));
      let shape = tys.iter().map(|t| t.unwrap_or("untyped")).collect::<Vec<_>>().join(",");
      for inv in ["Literal", "Named", "Boxed"] {
        let got = crate::rval::show_value_full(&me.evaluate_invocable(inv, &ctx));
        cnt.evals.fetch_add(1, Ordering::Relaxed);
        cnt.compared.fetch_add(1, Ordering::Relaxed);
        cnt.nontrivial.fetch_add(1, Ordering::Relaxed);
        if got != want {
          run.violation(
            &format!("parameter-types:{}:({})", inv, shape),
            &format!("knowledge model F with parameter types ({}) invoked by decision `{}` with {} gives {} but each argument checked against its own parameter's type gives {}", shape, inv, ctx_text(&pairs), got, want),
            json!({"engine":"dmn","xml":xml,"invocable":inv,"ctx":pairs.iter().map(|(k,v)| json!([k,v])).collect::<Vec<_>>(),"expected":want,"full":true}),
          );
        }
      }
    }
  }
  models
}

/// Typed input decisions of a decision service invoked by name: the value supplied for an input decision (and for an
/// input data) is bound inside the service as the value of that decision - checked against the type of its variable, so a
/// value of another kind is null inside, and a conforming one is passed unchanged. Every typing of two input decisions
/// and one input data x every kind of supplied value.
fn family_service_input_types(run: &Run, cnt: &Cnt) -> u64 {
  let types: [Option<&str>; 4] = [None, Some("string"), Some("number"), Some("boolean")];
  let values: [(&str, &str); 3] = [("\"s\"", "string"), ("1", "number"), ("true", "boolean")];
  let mut models = 0u64;
  for t1 in types {
    for t2 in types {
      for t3 in ["string", "number"] {
        models += 1;
        cnt.models.fetch_add(1, Ordering::Relaxed);
        let mut m = Model::new("https://verif/c04s", "c04s");
        m.inputs.push(dmn::Input { name: "i".into(), type_ref: t3.into() });
        for (n, t) in [("Level", t1), ("Grade", t2)] {
          m.decisions.push(dmn::Decision { name: n.into(), type_ref: t.map(|x| x.to_string()), requires: dmn::Requires::default(), logic: Some(Expr::lit("null")) });
        }
        m.decisions.push(dmn::Decision {
          name: "Out".into(),
          type_ref: None,
          requires: dmn::Requires { inputs: vec!["i".into()], decisions: vec!["Level".into(), "Grade".into()], knowledge: vec![] },
          logic: Some(Expr::lit("[Level, Grade, i]")),
        });
        m.services.push(dmn::Service {
          name: "S".into(),
          type_ref: None,
          output_decisions: vec!["Out".into()],
          encapsulated_decisions: vec![],
          input_decisions: vec!["Level".into(), "Grade".into()],
          input_data: vec!["i".into()],
        });
        let xml = m.to_xml();
        let me = match dmntk_model::parse(&xml).map_err(|e| e.to_string()).and_then(|d| ModelEvaluator::new(&d).map_err(|e| e.to_string())) {
          Ok(me) => me,
          Err(e) => {
            run.violation("service-input-types:model-does-not-load", &format!("generated well-formed model is rejected: {}", e), json!({"engine":"dmn","xml":xml,"invocable":"","ctx":[],"expected":"(model loads)"}));
            continue;
          }
        };
        let shape = format!("{},{},{}", t1.unwrap_or("untyped"), t2.unwrap_or("untyped"), t3);
        for v1 in values {
          for v2 in values {
            for v3 in values {
              let text = format!("{{Level: {}, Grade: {}, i: {}}}", v1.0, v2.0, v3.0);
              let scope = Scope::default();
              let ctx = match dmntk_feel_parser::parse_context(&scope, &text, false).ok().and_then(|n| dmntk_feel_evaluator::evaluate(&scope, &n).ok()) {
                Some(Value::Context(c)) => c,
                _ => {
                  run.machinery_error(&format!("input context does not evaluate: {}", text));
                  continue;
                }
              };
              let pass = |v: (&str, &str), t: Option<&str>| if t.is_none() || t == Some(v.1) { v.0.to_string() } else { "null".to_string() };
              let want = format!("[{}, {}, {}]", pass(v1, t1), pass(v2, t2), pass(v3, Some(t3)));
              let got = crate::rval::show_value_full(&me.evaluate_invocable("S", &ctx));
              cnt.evals.fetch_add(1, Ordering::Relaxed);
              cnt.compared.fetch_add(1, Ordering::Relaxed);
              cnt.nontrivial.fetch_add(1, Ordering::Relaxed);
              if got != want {
                run.violation(
                  &format!("service-input-types:typed-({})", shape),
                  &format!("decision service S with input decisions / input data typed ({}) invoked by name with {} gives {} but each supplied value checked against the type of the variable it is bound to gives {}", shape, text, got, want),
                  json!({"engine":"dmn","xml":xml,"invocable":"S","ctx":text,"expected":want,"full":true}),
                );
              }
            }
          }
        }
      }
    }
  }
  models
}

/// Boxed contexts nested in boxed contexts: the entries of the inner context are not visible to the entries that follow the
/// inner context in the outer one, also when they are named like an input, an outer entry or a parameter.
fn family_nested_contexts(run: &Run, cnt: &Cnt) -> u64 {
  let s = |t: &str| Expr::lit(t);
  let inner_plain = Expr::Context(vec![(Some("a".to_string()), None, s("\"inner\""))]);
  let inner_result = Expr::Context(vec![(Some("a".to_string()), None, s("\"inner\"")), (None, None, s("a + \"!\""))]);
  let inner_two = Expr::Context(vec![(Some("b".to_string()), None, s("\"B\"")), (Some("a".to_string()), None, s("b + \"A\""))]);
  // (decision name, logic, expected rendering for a = "x", b = "y")
  let cases: Vec<(&str, Expr, &str)> = vec![
    ("N1", Expr::Context(vec![(Some("p".to_string()), None, inner_plain.clone()), (Some("q".to_string()), None, s("a + b"))]), "{p: {a: \"inner\"}, q: \"xy\"}"),
    ("N2", Expr::Context(vec![(Some("p".to_string()), None, inner_result.clone()), (Some("q".to_string()), None, s("a + b"))]), "{p: \"inner!\", q: \"xy\"}"),
    ("N3", Expr::Context(vec![(Some("p".to_string()), None, inner_two.clone()), (None, None, s("a + b + p.a"))]), "\"xyBA\""),
    ("N4", Expr::Context(vec![(Some("a".to_string()), None, s("\"outer\"")), (Some("p".to_string()), None, inner_plain.clone()), (None, None, s("a + b"))]), "\"outery\""),
    (
      "N5",
      Expr::Context(vec![(Some("p".to_string()), None, Expr::Context(vec![(Some("q".to_string()), None, inner_two.clone()), (None, None, s("q.a + a"))])), (None, None, s("p + b"))]),
      "\"BAxy\"",
    ),
    ("N6", Expr::lit("G(b)"), "\"y\""),
    // relations: a cell is evaluated in the scope of the element, not in a scope that holds the row's earlier cells
    ("R1", Expr::Relation(vec!["a".into(), "b".into()], vec![vec![s("\"c1\""), s("a + b")], vec![s("a"), s("b + a")]]), "[{a: \"c1\", b: \"xy\"}, {a: \"x\", b: \"yx\"}]"),
    ("R2", Expr::Relation(vec!["b".into(), "a".into()], vec![vec![s("a + \"1\""), s("b + \"2\"")], vec![s("b"), s("a")]]), "[{a: \"y2\", b: \"x1\"}, {a: \"x\", b: \"y\"}]"),
    ("R3", Expr::Context(vec![(Some("p".to_string()), None, Expr::Relation(vec!["a".into(), "z".into()], vec![vec![s("\"k\""), s("a")]])), (Some("q".to_string()), None, s("a + b"))]), "{p: [{a: \"k\", z: \"x\"}], q: \"xy\"}"),
    ("R4", Expr::lit("G2(b)"), "[{a: \"k\", z: \"y\"}]"),
    // a cell naming a column that is nothing else: not a name of the element's scope
    ("R5", Expr::Relation(vec!["u".into(), "w".into()], vec![vec![s("a"), s("u")]]), "[{u: \"x\", w: null}]"),
    // boxed function definitions with several parameters, declared in an order that is not the alphabetical one, invoked with
    // positional and with named arguments: as an entry of a boxed context and as the logic of a required decision
    (
      "F1",
      Expr::Context(vec![
        (Some("f".to_string()), None, Expr::Function(vec![("q".into(), None), ("p".into(), None), ("k".into(), None)], Box::new(s("q + \"/\" + p + \"/\" + k")))),
        (None, None, s("f(a, b, \"c\") + \"|\" + f(k: \"c\", q: a, p: b)")),
      ]),
      "\"x/y/c|x/y/c\"",
    ),
    ("F2", Expr::lit("DF(a, b) + \"|\" + DF(second: b, first: a)"), "\"y-x|x-y\""),
    // a knowledge model invoked by name with entries for some of its parameters only (see the direct invocations below)
    ("G3call", Expr::lit("G3(a, null, b)"), "[\"x\", null, \"y\"]"),
    // a decision table whose output clauses are named like the inputs: an output entry reads the inputs, not the
    // entries of the clauses before it
    (
      "T1",
      Expr::Table(dmn::Table {
        hit_policy: "UNIQUE".into(),
        aggregation: None,
        output_label: None,
        inputs: vec![dmn::TableInput { expr: "a".into(), type_ref: Some("string".into()), values: None }],
        outputs: vec![dmn::TableOutput { name: Some("a".into()), type_ref: None, values: None, default: None }, dmn::TableOutput { name: Some("b".into()), type_ref: None, values: None, default: None }],
        rules: vec![dmn::TableRule { inputs: vec!["\"x\"".into()], outputs: vec!["\"o\"".into(), "a + b".into()] }],
      }),
      "{a: \"o\", b: \"xy\"}",
    ),
  ];
  let mut m = Model::new("https://verif/c04n", "c04n");
  for n in ["a", "b"] {
    m.inputs.push(dmn::Input { name: n.into(), type_ref: "string".into() });
  }
  // a knowledge model whose body nests a context that has an entry named like the parameter
  m.bkms.push(dmn::Bkm {
    name: "G".into(),
    type_ref: None,
    params: vec![("a".to_string(), Some("string".to_string()))],
    knowledge: vec![],
    logic: Expr::Context(vec![(Some("p".to_string()), None, inner_plain.clone()), (None, None, s("a"))]),
  });
  m.bkms.push(dmn::Bkm {
    name: "G2".into(),
    type_ref: None,
    params: vec![("a".to_string(), Some("string".to_string()))],
    knowledge: vec![],
    logic: Expr::Relation(vec!["a".into(), "z".into()], vec![vec![s("\"k\""), s("a")]]),
  });
  m.bkms.push(dmn::Bkm {
    name: "G3".into(),
    type_ref: None,
    params: vec![("first".to_string(), None), ("second".to_string(), None), ("third".to_string(), None)],
    knowledge: vec![],
    logic: s("[first, second, third]"),
  });
  m.decisions.push(dmn::Decision {
    name: "DF".into(),
    type_ref: None,
    requires: dmn::Requires::default(),
    logic: Some(Expr::Function(vec![("second".into(), Some("string".into())), ("first".into(), Some("string".into()))], Box::new(s("first + \"-\" + second")))),
  });
  for (name, logic, _) in &cases {
    m.decisions.push(dmn::Decision {
      name: name.to_string(),
      type_ref: None,
      requires: dmn::Requires { inputs: vec!["a".into(), "b".into()], decisions: if *name == "F2" { vec!["DF".into()] } else { vec![] }, knowledge: if *name == "N6" { vec!["G".into()] } else if *name == "R4" { vec!["G2".into()] } else if *name == "G3call" { vec!["G3".into()] } else { vec![] } },
      logic: Some(logic.clone()),
    });
  }
  let xml = m.to_xml();
  cnt.models.fetch_add(1, Ordering::Relaxed);
  let me = match dmntk_model::parse(&xml).map_err(|e| e.to_string()).and_then(|d| ModelEvaluator::new(&d).map_err(|e| e.to_string())) {
    Ok(me) => me,
    Err(e) => {
      run.violation("nested-contexts:model-does-not-load", &format!("generated well-formed model is rejected: {}", e), json!({"engine":"dmn","xml":xml,"invocable":"","ctx":[],"expected":"(model loads)"}));
      return 1;
    }
  };
  // the knowledge model G3(first, second, third) invoked by name with every subset of its parameters supplied
  for mask in 0..8u32 {
    let names = ["first", "second", "third"];
    let supplied: Vec<(String, String)> = (0..3).filter(|k| mask & (1 << k) != 0).map(|k| (names[k].to_string(), format!("v{}", k))).collect();
    let want = format!("[{}]", (0..3).map(|k| if mask & (1 << k) != 0 { format!("\"v{}\"", k) } else { "null".to_string() }).collect::<Vec<_>>().join(", "));
    let got = crate::rval::show_value_full(&me.evaluate_invocable("G3", &ctx_of(&supplied)));
    cnt.evals.fetch_add(1, Ordering::Relaxed);
    cnt.compared.fetch_add(1, Ordering::Relaxed);
    cnt.nontrivial.fetch_add(1, Ordering::Relaxed);
    if got != want {
      run.violation(
        "nested-contexts:knowledge-model-by-name-with-some-parameters",
        &format!("knowledge model G3(first, second, third) = [first, second, third] invoked by name with {} gives {} but its logic gives {}", ctx_text(&supplied), got, want),
        json!({"engine":"dmn","xml":xml,"invocable":"G3","ctx":supplied.iter().map(|(k,v)| json!([k,v])).collect::<Vec<_>>(),"expected":want}),
      );
    }
  }
  let pairs: Vec<(String, String)> = vec![("a".into(), "x".into()), ("b".into(), "y".into())];
  let ctx = ctx_of(&pairs);
  for (name, _, want) in &cases {
    let got = crate::rval::show_value_full(&me.evaluate_invocable(name, &ctx));
    cnt.evals.fetch_add(1, Ordering::Relaxed);
    cnt.compared.fetch_add(1, Ordering::Relaxed);
    cnt.nontrivial.fetch_add(1, Ordering::Relaxed);
    if got != *want {
      run.violation(
        &format!("nested-contexts:{}", name),
        &format!("decision `{}` (a boxed context nested in a boxed context / a relation / a table with output clauses, a part named like an outer name) with {} gives {} but its logic gives {}", name, ctx_text(&pairs), got, want),
        json!({"engine":"dmn","xml":xml,"invocable":name,"ctx":pairs.iter().map(|(k,v)| json!([k,v])).collect::<Vec<_>>(),"expected":want}),
      );
    }
  }
  1
}

pub fn run() {
  let run = Run::new("C04");
  let thorough = run.thorough();
  let cnt = Cnt {
    models: AtomicU64::new(0),
    evals: AtomicU64::new(0),
    compared: AtomicU64::new(0),
    nontrivial: AtomicU64::new(0),
    noise: AtomicU64::new(0),
  };
  let mut n_graphs = 0u64;
  // family 1: graphs without services, every single-element kind variant
  for (scheme, names) in [("plain", &PLAIN), ("colliding-names", &COLLIDING)] {
    let mut sizes = vec![1, 2];
    if thorough {
      sizes.push(3);
    }
    for nd in sizes {
      let masks: Vec<u32> = if scheme == "plain" { vec![0, 1, 3] } else { vec![0, 3] };
      let graphs = family_graphs(names, nd, &masks);
      n_graphs += graphs.len() as u64;
      let extra = if scheme == "plain" { "" } else { ":colliding-names" };
      graphs.par_iter().for_each(|g| {
        for h in kind_variants(g) {
          check_graph(&run, &cnt, "graph", &h, extra);
        }
      });
    }
  }
  // family 3: simultaneous bindings of boxed invocations, sequential entries of boxed contexts
  n_graphs += family_bindings(&run, &cnt, thorough);
  n_graphs += family_parameter_types(&run, &cnt);
  n_graphs += family_service_input_types(&run, &cnt);
  n_graphs += family_nested_contexts(&run, &cnt);
  // family 2: decision services
  for (scheme, names) in [("plain", &PLAIN), ("colliding-names", &COLLIDING)] {
    if scheme != "plain" && !thorough {
      continue;
    }
    let cases = family_services(names, thorough);
    n_graphs += cases.len() as u64;
    let extra0 = if scheme == "plain" { "" } else { ":colliding-names" };
    cases.par_iter().for_each(|(g, extra)| {
      check_graph(&run, &cnt, "service", g, &format!("{}{}", extra, extra0));
      if thorough {
        // one decision inside the service takes every other kind
        for d in 0..3 {
          for k in [Kind::Context, Kind::Table, Kind::Relation, Kind::Function] {
            let mut h = g.clone();
            h.decs[d].kind = k;
            // an input decision is supplied as a string: keep those literal
            if h.svcs[0].input_decisions.contains(&d) {
              continue;
            }
            check_graph(&run, &cnt, "service", &h, &format!("{}{}", extra, extra0));
          }
        }
      }
    });
  }
  {
    let g = family_graphs(&PLAIN, 2, &[3]).into_iter().last().unwrap();
    let env = Env { inputs: vec![Some("x".into()), None], overrides: BTreeMap::new() };
    run.sample(json!({"family":"graph","invocable":"D2","input":"{I1: \"x\"}","expected":g.dec_ref(1, &env).show(),"model_excerpt":g.model().to_xml().chars().take(900).collect::<String>()}));
    if let Some((s, extra)) = family_services(&PLAIN, false).into_iter().nth(200) {
      run.sample(json!({"family":"service","variant":extra,"service":format!("{:?}", s.svcs[0])}));
    }
  }
  run.set("states", json!(cnt.models.load(Ordering::Relaxed)));
  run.set("transitions", json!(cnt.evals.load(Ordering::Relaxed)));
  run.set("traces_validated_against_impl", json!(cnt.compared.load(Ordering::Relaxed)));
  run.set("evaluations", json!(cnt.evals.load(Ordering::Relaxed)));
  run.set("distinct_nontrivial", json!(cnt.nontrivial.load(Ordering::Relaxed)));
  run.set("rule", json!("(model, invocable, input assignment) triples, distinct by construction, whose prescribed result is not null; models = every wiring of up to 2 (quick) / 3 (thorough) decisions over 2 inputs and 2 knowledge models (one optionally requiring the other) x every single element taking each boxed expression kind x 2 naming schemes, plus every well-formed decision service over every wiring of three decisions x 5 caller styles; inputs = every presence/absence assignment; each evaluation repeated with noise entries outside the requirement closure"));
  run.set("exhaustive", json!(true));
  run.set("requirement_graphs", json!(n_graphs));
  run.set("noise_evaluations", json!(cnt.noise.load(Ordering::Relaxed)));
  run.assume("signature logic: strings spelling the element name and each consumed requirement; reference evaluation over the graph structure in engines/c04.rs; entries named like an element inside the requirement closure are not used as noise (the implementation lets them override, the property leaves it open)");
  run.finish();
}

/// A few generated models for the fault-injection corpus of C12.
pub fn sample_models() -> Vec<String> {
  let mut out = vec![];
  // three decisions in a diamond over two inputs and two knowledge models, mixed boxed kinds
  let mut g = family_graphs(&PLAIN, 3, &[3]).into_iter().last().unwrap();
  g.decs[0].kind = Kind::Context;
  g.decs[1].kind = Kind::Table;
  g.decs[2].kind = Kind::Invocation;
  g.bkms[1].kind = Kind::Relation;
  out.push(g.model().to_xml());
  let mut h = g.clone();
  h.decs[0].kind = Kind::Function;
  h.decs[1].kind = Kind::Relation;
  h.decs[2].kind = Kind::Literal;
  h.bkms[0].kind = Kind::Invocation;
  h.bkms[1].kind = Kind::Context;
  out.push(h.model().to_xml());
  // decision services with input, encapsulated and output decisions and a caller of each style
  let cases = family_services(&PLAIN, false);
  let picks: [&dyn Fn(&Graph, &str) -> bool; 4] = [
    &|g, x| !g.svcs[0].input_decisions.is_empty() && !g.svcs[0].encapsulated.is_empty() && x.contains("called-literal"),
    &|g, x| g.svcs[0].outputs.len() == 2 && !g.svcs[0].input_decisions.is_empty() && x.contains("through-knowledge-model") && !x.contains("invocation"),
    &|g, x| g.svcs[0].outputs.len() == 1 && !g.svcs[0].input_decisions.is_empty() && x.contains("called-invocation") && x.contains("direct"),
    &|g, x| g.svcs[0].outputs.len() == 3 && x.contains("by-name"),
  ];
  for pick in picks {
    if let Some((s, _)) = cases.iter().rev().find(|(g, x)| pick(g, x)) {
      out.push(s.model().to_xml());
    }
  }
  if let Some((s, _)) = family_services(&COLLIDING, false).into_iter().find(|(g, x)| g.svcs[0].outputs.len() == 1 && !g.svcs[0].encapsulated.is_empty() && x.contains("called-invocation")) {
    out.push(s.model().to_xml());
  }
  out
}
