//! C08 — built-in functions return their specified value for all arguments.
//! One independent reference function per built-in; positional and named invocations must agree.

use crate::report::Run;
use crate::rval::*;
use dmntk_feel::context::FeelContext;
use dmntk_feel::{Name, Scope};
use rayon::prelude::*;
use serde_json::json;
use std::collections::BTreeSet;
use std::sync::atomic::{AtomicU64, Ordering};

use RVal::*;

fn s(x: &str) -> RVal {
  Str(x.to_string())
}
fn n(i: i64) -> RVal {
  RVal::int(i)
}
fn q(a: i128, b: i128) -> RVal {
  Num(Rat::new(a, b).unwrap())
}
fn l(v: Vec<RVal>) -> RVal {
  List(v)
}

fn int_of(v: &RVal) -> Option<i128> {
  match v {
    Num(r) if r.is_int() => Some(r.n),
    _ => None,
  }
}

fn chars(x: &str) -> Vec<char> {
  x.chars().collect()
}

// ------------------------------------------------------------------------------------------------
// a small backtracking regular-expression matcher for the pattern alphabet of this engine
// ------------------------------------------------------------------------------------------------

#[derive(Clone, Debug)]
enum Re {
  Char(char),
  Any,
  Class(Vec<char>, bool),
  Group(Box<Re>, usize),
  Cat(Vec<Re>),
  Alt(Vec<Re>),
  Star(Box<Re>),
  Plus(Box<Re>),
  Opt(Box<Re>),
  Bol,
  Eol,
}

struct ReParser {
  c: Vec<char>,
  i: usize,
  groups: usize,
}

impl ReParser {
  fn alt(&mut self) -> Option<Re> {
    let mut alts = vec![self.cat()?];
    while self.i < self.c.len() && self.c[self.i] == '|' {
      self.i += 1;
      alts.push(self.cat()?);
    }
    Some(if alts.len() == 1 { alts.pop().unwrap() } else { Re::Alt(alts) })
  }
  fn cat(&mut self) -> Option<Re> {
    let mut items = vec![];
    while self.i < self.c.len() && self.c[self.i] != '|' && self.c[self.i] != ')' {
      let atom = self.atom()?;
      let atom = if self.i < self.c.len() {
        match self.c[self.i] {
          '*' => {
            self.i += 1;
            Re::Star(Box::new(atom))
          }
          '+' => {
            self.i += 1;
            Re::Plus(Box::new(atom))
          }
          '?' => {
            self.i += 1;
            Re::Opt(Box::new(atom))
          }
          _ => atom,
        }
      } else {
        atom
      };
      items.push(atom);
    }
    Some(Re::Cat(items))
  }
  fn atom(&mut self) -> Option<Re> {
    let ch = self.c[self.i];
    self.i += 1;
    match ch {
      '.' => Some(Re::Any),
      '^' => Some(Re::Bol),
      '$' => Some(Re::Eol),
      '(' => {
        self.groups += 1;
        let g = self.groups;
        let inner = self.alt()?;
        if self.i < self.c.len() && self.c[self.i] == ')' {
          self.i += 1;
          Some(Re::Group(Box::new(inner), g))
        } else {
          None
        }
      }
      '[' => {
        let mut neg = false;
        if self.i < self.c.len() && self.c[self.i] == '^' {
          neg = true;
          self.i += 1;
        }
        let mut set = vec![];
        while self.i < self.c.len() && self.c[self.i] != ']' {
          set.push(self.c[self.i]);
          self.i += 1;
        }
        if self.i >= self.c.len() {
          return None;
        }
        self.i += 1;
        Some(Re::Class(set, neg))
      }
      '\\' => {
        if self.i < self.c.len() {
          let e = self.c[self.i];
          self.i += 1;
          match e {
            's' => Some(Re::Class(vec![' ', '\t', '\n', '\r'], false)),
            'd' => Some(Re::Class(('0'..='9').collect(), false)),
            other => Some(Re::Char(other)),
          }
        } else {
          None
        }
      }
      '*' | '+' | '?' | ')' | ']' | '{' | '}' => None,
      c => Some(Re::Char(c)),
    }
  }
}

fn re_parse(p: &str) -> Option<(Re, usize)> {
  let mut rp = ReParser { c: chars(p), i: 0, groups: 0 };
  let r = rp.alt()?;
  if rp.i != rp.c.len() {
    return None;
  }
  Some((r, rp.groups))
}

type Caps = Vec<Option<(usize, usize)>>;

/// Continuation-passing backtracking matcher.
fn re_match(re: &Re, t: &[char], i: usize, caps: &mut Caps, ci: bool, k: &mut dyn FnMut(usize, &mut Caps) -> bool) -> bool {
  let eqc = |a: char, b: char| if ci { a.to_lowercase().eq(b.to_lowercase()) } else { a == b };
  match re {
    Re::Char(c) => i < t.len() && eqc(t[i], *c) && k(i + 1, caps),
    Re::Any => i < t.len() && t[i] != '\n' && k(i + 1, caps),
    Re::Class(set, neg) => i < t.len() && (set.iter().any(|c| eqc(t[i], *c)) != *neg) && k(i + 1, caps),
    Re::Bol => i == 0 && k(i, caps),
    Re::Eol => i == t.len() && k(i, caps),
    Re::Group(inner, g) => {
      let g = *g;
      let old = caps[g];
      let ok = re_match(inner, t, i, caps, ci, &mut |j, caps: &mut Caps| {
        let prev = caps[g];
        caps[g] = Some((i, j));
        if k(j, caps) {
          true
        } else {
          caps[g] = prev;
          false
        }
      });
      if !ok {
        caps[g] = old;
      }
      ok
    }
    Re::Cat(items) => re_cat(items, t, i, caps, ci, k),
    Re::Alt(alts) => {
      for a in alts {
        if re_match(a, t, i, caps, ci, k) {
          return true;
        }
      }
      false
    }
    Re::Opt(inner) => re_match(inner, t, i, caps, ci, k) || k(i, caps),
    Re::Star(inner) => re_star(inner, t, i, caps, ci, k),
    Re::Plus(inner) => re_match(inner, t, i, caps, ci, &mut |j, caps: &mut Caps| j > i && re_star(inner, t, j, caps, ci, k) || (j == i && k(j, caps))),
  }
}

fn re_star(inner: &Re, t: &[char], i: usize, caps: &mut Caps, ci: bool, k: &mut dyn FnMut(usize, &mut Caps) -> bool) -> bool {
  // greedy
  if re_match(inner, t, i, caps, ci, &mut |j, caps: &mut Caps| j > i && re_star(inner, t, j, caps, ci, k)) {
    return true;
  }
  k(i, caps)
}

fn re_cat(items: &[Re], t: &[char], i: usize, caps: &mut Caps, ci: bool, k: &mut dyn FnMut(usize, &mut Caps) -> bool) -> bool {
  if items.is_empty() {
    return k(i, caps);
  }
  re_match(&items[0], t, i, caps, ci, &mut |j, caps: &mut Caps| re_cat(&items[1..], t, j, caps, ci, k))
}

/// Leftmost match starting at or after `from`: (start, end, captures)
fn re_search(re: &Re, groups: usize, t: &[char], from: usize, ci: bool) -> Option<(usize, usize, Caps)> {
  for start in from..=t.len() {
    let mut caps: Caps = vec![None; groups + 1];
    let mut end = None;
    let mut result_caps = caps.clone();
    if re_match(re, t, start, &mut caps, ci, &mut |j, c: &mut Caps| {
      end = Some(j);
      result_caps = c.clone();
      true
    }) {
      return Some((start, end.unwrap(), result_caps));
    }
  }
  None
}

fn re_can_match_empty(re: &Re, groups: usize, ci: bool) -> bool {
  matches!(re_search(re, groups, &[], 0, ci), Some((0, 0, _)))
}

// ------------------------------------------------------------------------------------------------
// reference functions
// ------------------------------------------------------------------------------------------------

fn feel_eq(a: &RVal, b: &RVal) -> Option<bool> {
  match crate::ref_feel::equal(a, b) {
    crate::ref_feel::Eq3::True => Some(true),
    crate::ref_feel::Eq3::False => Some(false),
    crate::ref_feel::Eq3::Null => Some(false), // different kinds are not equal for membership purposes
    crate::ref_feel::Eq3::Unspec => None,
  }
}

fn all_nums(v: &[RVal]) -> Option<Vec<Rat>> {
  v.iter()
    .map(|x| match x {
      Num(r) => Some(*r),
      _ => None,
    })
    .collect()
}

fn cmp_vals(a: &RVal, b: &RVal) -> Option<std::cmp::Ordering> {
  match (a, b) {
    (Num(x), Num(y)) => x.cmp_(y),
    (Str(x), Str(y)) => Some(x.cmp(y)),
    _ => None,
  }
}

/// positions: 1-based, negative from the end; returns the 0-based start index
fn position(len: usize, start: i128) -> Option<usize> {
  if start >= 1 && start as usize <= len {
    Some(start as usize - 1)
  } else if start <= -1 && (-start) as usize <= len {
    Some(len - (-start) as usize)
  } else {
    None
  }
}

/// The argument is required to be a list; FEEL may convert a single value to a singleton list: unspecified here.
fn as_list(v: &RVal) -> Result<&Vec<RVal>, RVal> {
  match v {
    List(items) => Ok(items),
    Null => Err(Null),
    _ => Err(Unspec),
  }
}

fn plain(v: &RVal) -> RVal {
  match v {
    NumLit(_, r) => Num(*r),
    List(items) => List(items.iter().map(plain).collect()),
    Ctx(es) => Ctx(es.iter().map(|(k, v)| (k.clone(), plain(v))).collect()),
    other => other.clone(),
  }
}

pub fn reference(name: &str, a: &[RVal]) -> RVal {
  let normalised: Vec<RVal> = a.iter().map(plain).collect();
  let a = &normalised[..];
  if a.iter().any(|x| x.is_unspec_deep()) {
    return Unspec;
  }
  match (name, a.len()) {
    ("string length", 1) => match &a[0] {
      Str(x) => n(x.chars().count() as i64),
      _ => Null,
    },
    ("upper case", 1) => match &a[0] {
      Str(x) => Str(x.to_uppercase()),
      _ => Null,
    },
    ("lower case", 1) => match &a[0] {
      Str(x) => Str(x.to_lowercase()),
      _ => Null,
    },
    ("substring", 2) | ("substring", 3) => {
      let x = match &a[0] {
        Str(x) => chars(x),
        _ => return Null,
      };
      let start = match &a[1] {
        Num(r) if r.is_int() => r.n,
        Num(_) => return Unspec, // fractional position: truncation or null, the text is silent
        _ => return Null,
      };
      let len = if a.len() == 3 {
        match &a[2] {
          Num(r) if r.is_int() => Some(r.n),
          Num(_) => return Unspec,
          Null => return Unspec, // explicit null length: "no length" or error
          _ => return Null,
        }
      } else {
        None
      };
      if start == 0 {
        return Null;
      }
      let idx = match position(x.len(), start) {
        Some(i) => i,
        None => return Unspec, // start beyond the string: empty string or null
      };
      match len {
        None => Str(x[idx..].iter().collect()),
        Some(k) => {
          if k < 1 {
            return Null;
          }
          if idx + k as usize > x.len() {
            return Unspec; // length running past the end
          }
          Str(x[idx..idx + k as usize].iter().collect())
        }
      }
    }
    ("substring before", 2) => match (&a[0], &a[1]) {
      (Str(x), Str(m)) => Str(match x.find(m.as_str()) {
        Some(i) => x[..i].to_string(),
        None => String::new(),
      }),
      _ => Null,
    },
    ("substring after", 2) => match (&a[0], &a[1]) {
      (Str(x), Str(m)) => Str(match x.find(m.as_str()) {
        Some(i) => x[i + m.len()..].to_string(),
        None => String::new(),
      }),
      _ => Null,
    },
    ("contains", 2) => match (&a[0], &a[1]) {
      (Str(x), Str(m)) => Bool(x.contains(m.as_str())),
      _ => Null,
    },
    ("starts with", 2) => match (&a[0], &a[1]) {
      (Str(x), Str(m)) => Bool(x.starts_with(m.as_str())),
      _ => Null,
    },
    ("ends with", 2) => match (&a[0], &a[1]) {
      (Str(x), Str(m)) => Bool(x.ends_with(m.as_str())),
      _ => Null,
    },
    ("matches", 2) | ("matches", 3) => {
      let (x, p) = match (&a[0], &a[1]) {
        (Str(x), Str(p)) => (chars(x), p),
        _ => return Null,
      };
      // flags s, m and x make no difference for the alphabets used here (no line breaks in the inputs, no white space in
      // the patterns); i compares letters without regard to case
      let ci = match a.get(2) {
        None => false,
        Some(Str(f)) if f.chars().all(|c| "smix".contains(c)) => f.contains('i'),
        Some(Null) => return Unspec,
        Some(Str(_)) => return Unspec,
        Some(_) => return Null,
      };
      match re_parse(p) {
        Some((re, g)) => Bool(re_search(&re, g, &x, 0, ci).is_some()),
        None => Unspec,
      }
    }
    ("replace", 3) | ("replace", 4) => {
      let (x, p, rep) = match (&a[0], &a[1], &a[2]) {
        (Str(x), Str(p), Str(r)) => (chars(x), p, chars(r)),
        _ => return Null,
      };
      // flags s, m and x make no difference for the alphabets used here (no line breaks in the inputs, no white space in
      // the patterns); i compares letters without regard to case
      let ci = match a.get(3) {
        None => false,
        Some(Str(f)) if f.chars().all(|c| "smix".contains(c)) => f.contains('i'),
        Some(Str(f)) if f.contains('q') => false,
        Some(Null) => return Unspec,
        Some(Str(_)) => return Unspec,
        Some(_) => return Null,
      };
      // flag q (alone or with i): every character of the pattern and of the replacement stands for itself
      let literal = matches!(a.get(3), Some(Str(f)) if f.contains('q'));
      if literal && !matches!(a.get(3), Some(Str(f)) if f.chars().all(|c| "qi".contains(c))) {
        return Unspec;
      }
      let ci = if literal { matches!(a.get(3), Some(Str(f)) if f.contains('i')) } else { ci };
      let (re, g) = if literal {
        (Re::Cat(chars(p).into_iter().map(Re::Char).collect()), 0)
      } else {
        match re_parse(p) {
          Some(x) => x,
          None => return Unspec,
        }
      };
      if re_can_match_empty(&re, g, ci) {
        return Unspec; // a pattern matching the zero-length string is an error in XPath replace
      }
      let mut out = String::new();
      let mut i = 0;
      while i <= x.len() {
        match re_search(&re, g, &x, i, ci) {
          Some((st, en, caps)) => {
            out.extend(x[i..st].iter());
            let mut r = 0;
            while r < rep.len() {
              if literal {
                out.push(rep[r]);
                r += 1;
              } else if rep[r] == '$' && r + 1 < rep.len() && rep[r + 1].is_ascii_digit() {
                let gi = rep[r + 1].to_digit(10).unwrap() as usize;
                if gi == 0 {
                  out.extend(x[st..en].iter());
                } else if gi <= g {
                  if let Some((cs, ce)) = caps[gi] {
                    out.extend(x[cs..ce].iter());
                  }
                } else {
                  return Unspec;
                }
                r += 2;
              } else if rep[r] == '$' || rep[r] == '\\' {
                return Unspec;
              } else {
                out.push(rep[r]);
                r += 1;
              }
            }
            if en == st {
              return Unspec;
            }
            i = en;
          }
          None => break,
        }
      }
      if i <= x.len() {
        out.extend(x[i..].iter());
      }
      Str(out)
    }
    ("split", 2) => {
      let (x, p) = match (&a[0], &a[1]) {
        (Str(x), Str(p)) => (chars(x), p),
        _ => return Null,
      };
      let (re, g) = match re_parse(p) {
        Some(x) => x,
        None => return Unspec,
      };
      if re_can_match_empty(&re, g, false) {
        return Unspec;
      }
      let mut out = vec![];
      let mut i = 0;
      loop {
        match re_search(&re, g, &x, i, false) {
          Some((st, en, _)) => {
            out.push(Str(x[i..st].iter().collect()));
            i = en;
          }
          None => {
            out.push(Str(x[i..].iter().collect()));
            break;
          }
        }
      }
      List(out)
    }
    ("list contains", 2) => {
      let items = match as_list(&a[0]) {
        Ok(i) => i,
        Err(e) => return e,
      };
      let mut unsure = false;
      for it in items {
        match feel_eq(it, &a[1]) {
          Some(true) => return Bool(true),
          Some(false) => {}
          None => unsure = true,
        }
      }
      if unsure {
        Unspec
      } else {
        Bool(false)
      }
    }
    ("count", 1) => match as_list(&a[0]) {
      Ok(i) => n(i.len() as i64),
      Err(e) => e,
    },
    ("min", _) | ("max", _) => {
      let items: Vec<RVal> = if a.len() == 1 {
        match as_list(&a[0]) {
          Ok(i) => i.clone(),
          Err(Null) => return Null,
          Err(_) => vec![a[0].clone()],
        }
      } else {
        a.to_vec()
      };
      if a.is_empty() {
        return Null;
      }
      if items.is_empty() {
        return Null;
      }
      // a null item cannot be compared with the others: no minimum / maximum
      if items.iter().any(|x| matches!(x, Null)) {
        return Null;
      }
      let mut best = items[0].clone();
      if !matches!(best, Num(_) | Str(_)) {
        return Null;
      }
      for it in &items[1..] {
        match cmp_vals(it, &best) {
          Some(o) => {
            if (name == "min" && o == std::cmp::Ordering::Less) || (name == "max" && o == std::cmp::Ordering::Greater) {
              best = it.clone();
            }
          }
          None => return Null,
        }
      }
      best
    }
    ("sum", _) | ("mean", _) => {
      let items: Vec<RVal> = if a.len() == 1 {
        match as_list(&a[0]) {
          Ok(i) => i.clone(),
          Err(Null) => return Null,
          Err(_) => vec![a[0].clone()],
        }
      } else {
        a.to_vec()
      };
      if a.is_empty() || items.is_empty() {
        return Null;
      }
      match all_nums(&items) {
        Some(ns) => {
          let mut acc = Rat::int(0);
          for x in &ns {
            acc = match acc.add(*x) {
              Some(v) => v,
              None => return Unspec,
            };
          }
          if name == "mean" {
            acc = match acc.div(Rat::int(ns.len() as i128)) {
              Some(v) => v,
              None => return Unspec,
            };
          }
          Num(acc)
        }
        None => Null,
      }
    }
    ("median", _) => {
      let items: Vec<RVal> = if a.len() == 1 {
        match as_list(&a[0]) {
          Ok(i) => i.clone(),
          Err(Null) => return Null,
          Err(_) => vec![a[0].clone()],
        }
      } else {
        a.to_vec()
      };
      if a.is_empty() || items.is_empty() {
        return Null;
      }
      match all_nums(&items) {
        Some(mut ns) => {
          ns.sort_by(|x, y| x.cmp_(y).unwrap_or(std::cmp::Ordering::Equal));
          let k = ns.len();
          if k % 2 == 1 {
            Num(ns[k / 2])
          } else {
            ns[k / 2 - 1].add(ns[k / 2]).and_then(|s| s.div(Rat::int(2))).map(Num).unwrap_or(Unspec)
          }
        }
        None => Null,
      }
    }
    ("stddev", _) => {
      let items: Vec<RVal> = if a.len() == 1 {
        match as_list(&a[0]) {
          Ok(i) => i.clone(),
          Err(Null) => return Null,
          Err(_) => vec![a[0].clone()],
        }
      } else {
        a.to_vec()
      };
      if a.is_empty() || items.len() < 2 {
        return if items.len() == 1 && matches!(items[0], Num(_)) { Unspec } else { Null };
      }
      match all_nums(&items) {
        Some(ns) => {
          // the deviations from the mean in exact rational arithmetic (binary floating point loses items of 18 digits
          // that differ in the last one); only the final square root is approximate
          let exact = || -> Option<Rat> {
            let mut sum = Rat::int(0);
            for r in &ns {
              sum = sum.add(*r)?;
            }
            let mean = sum.div(Rat::int(ns.len() as i128))?;
            let mut squares = Rat::int(0);
            for r in &ns {
              let d = r.sub(mean)?;
              squares = squares.add(d.mul(d)?)?;
            }
            squares.div(Rat::int(ns.len() as i128 - 1))
          };
          match exact() {
            Some(var) if var.n == 0 => Num(Rat::int(0)),
            Some(var) => Approx((var.n as f64 / var.d as f64).sqrt()),
            None => Unspec,
          }
        }
        None => Null,
      }
    }
    ("mode", _) => {
      let items: Vec<RVal> = if a.len() == 1 {
        match as_list(&a[0]) {
          Ok(i) => i.clone(),
          Err(Null) => return Null,
          Err(_) => vec![a[0].clone()],
        }
      } else {
        a.to_vec()
      };
      if a.is_empty() {
        return Null;
      }
      if items.is_empty() {
        return List(vec![]);
      }
      match all_nums(&items) {
        Some(ns) => {
          let mut counts: Vec<(Rat, usize)> = vec![];
          for x in &ns {
            match counts.iter_mut().find(|(v, _)| v == x) {
              Some(e) => e.1 += 1,
              None => counts.push((*x, 1)),
            }
          }
          let best = counts.iter().map(|c| c.1).max().unwrap();
          let mut modes: Vec<Rat> = counts.iter().filter(|c| c.1 == best).map(|c| c.0).collect();
          modes.sort_by(|x, y| x.cmp_(y).unwrap_or(std::cmp::Ordering::Equal));
          List(modes.into_iter().map(Num).collect())
        }
        None => Null,
      }
    }
    ("all", _) | ("any", _) => {
      let items: Vec<RVal> = if a.len() == 1 {
        match as_list(&a[0]) {
          Ok(i) => i.clone(),
          Err(Null) => return Unspec,
          Err(_) => vec![a[0].clone()],
        }
      } else {
        a.to_vec()
      };
      if a.is_empty() {
        return Null;
      }
      let decisive = name == "any";
      if items.iter().any(|x| matches!(x, Bool(b) if *b == decisive)) {
        return Bool(decisive);
      }
      if items.iter().all(|x| matches!(x, Bool(_))) {
        Bool(!decisive)
      } else {
        Null
      }
    }
    ("sublist", 2) | ("sublist", 3) => {
      let items = match as_list(&a[0]) {
        Ok(i) => i,
        Err(e) => return e,
      };
      let start = match &a[1] {
        Num(r) if r.is_int() => r.n,
        Num(_) => return Unspec,
        _ => return Null,
      };
      let len = if a.len() == 3 {
        match &a[2] {
          Num(r) if r.is_int() => Some(r.n),
          Num(_) => return Unspec,
          Null => return Unspec,
          _ => return Null,
        }
      } else {
        None
      };
      if start == 0 {
        return Null;
      }
      let idx = match position(items.len(), start) {
        Some(i) => i,
        None => return Unspec,
      };
      match len {
        None => List(items[idx..].to_vec()),
        Some(k) => {
          if k < 0 {
            return Null;
          }
          if k == 0 {
            return Unspec;
          }
          if idx + k as usize > items.len() {
            return Unspec;
          }
          List(items[idx..idx + k as usize].to_vec())
        }
      }
    }
    ("append", _) if !a.is_empty() => match as_list(&a[0]) {
      Ok(i) => {
        let mut out = i.clone();
        out.extend(a[1..].iter().cloned());
        List(out)
      }
      Err(e) => e,
    },
    ("concatenate", _) if !a.is_empty() => {
      let mut out = vec![];
      for x in a {
        match as_list(x) {
          Ok(i) => out.extend(i.iter().cloned()),
          Err(e) => return e,
        }
      }
      List(out)
    }
    ("insert before", 3) => {
      let items = match as_list(&a[0]) {
        Ok(i) => i,
        Err(e) => return e,
      };
      let pos = match &a[1] {
        Num(r) if r.is_int() => r.n,
        Num(_) => return Unspec,
        _ => return Null,
      };
      if pos == 0 {
        return Null;
      }
      match position(items.len(), pos) {
        Some(idx) => {
          let mut out = items.clone();
          out.insert(idx, a[2].clone());
          List(out)
        }
        None => Unspec,
      }
    }
    ("remove", 2) => {
      let items = match as_list(&a[0]) {
        Ok(i) => i,
        Err(e) => return e,
      };
      let pos = match &a[1] {
        Num(r) if r.is_int() => r.n,
        Num(_) => return Unspec,
        _ => return Null,
      };
      if pos == 0 {
        return Null;
      }
      match position(items.len(), pos) {
        Some(idx) => {
          let mut out = items.clone();
          out.remove(idx);
          List(out)
        }
        None => Unspec,
      }
    }
    ("reverse", 1) => match as_list(&a[0]) {
      Ok(i) => List(i.iter().rev().cloned().collect()),
      Err(e) => e,
    },
    ("index of", 2) => {
      let items = match as_list(&a[0]) {
        Ok(i) => i,
        Err(e) => return e,
      };
      let mut out = vec![];
      for (k, it) in items.iter().enumerate() {
        match feel_eq(it, &a[1]) {
          Some(true) => out.push(n(k as i64 + 1)),
          Some(false) => {}
          None => return Unspec,
        }
      }
      List(out)
    }
    ("union", _) | ("distinct values", 1) if !a.is_empty() => {
      let mut all = vec![];
      for x in a {
        match as_list(x) {
          Ok(i) => all.extend(i.iter().cloned()),
          Err(e) => return e,
        }
      }
      let mut out: Vec<RVal> = vec![];
      for it in all {
        let mut dup = false;
        for o in &out {
          match feel_eq(o, &it) {
            Some(true) => {
              dup = true;
              break;
            }
            Some(false) => {}
            None => return Unspec,
          }
        }
        if !dup {
          out.push(it);
        }
      }
      List(out)
    }
    ("flatten", 1) => match as_list(&a[0]) {
      Ok(i) => {
        fn fl(v: &[RVal], out: &mut Vec<RVal>) {
          for x in v {
            match x {
              List(inner) => fl(inner, out),
              other => out.push(other.clone()),
            }
          }
        }
        let mut out = vec![];
        fl(i, &mut out);
        List(out)
      }
      Err(e) => e,
    },
    ("get value", 2) => match (&a[0], &a[1]) {
      (Ctx(es), Str(k)) => es.iter().find(|(k2, _)| k2 == k).map(|(_, v)| v.clone()).unwrap_or(Null),
      _ => Null,
    },
    ("get entries", 1) => match &a[0] {
      Ctx(es) => {
        let mut es: Vec<_> = es.clone();
        es.sort_by(|x, y| x.0.cmp(&y.0));
        List(es.into_iter().map(|(k, v)| Ctx(vec![("key".into(), Str(k)), ("value".into(), v)])).collect())
      }
      _ => Null,
    },
    ("not", 1) => match &a[0] {
      Bool(b) => Bool(!b),
      _ => Null,
    },
    ("number", 3) => {
      let x = match &a[0] {
        Str(x) => x.clone(),
        _ => return Null,
      };
      let g = match &a[1] {
        Null => None,
        Str(g) if g == " " || g == "," || g == "." => Some(g.clone()),
        _ => return Null,
      };
      let d = match &a[2] {
        Null => None,
        Str(d) if d == "." || d == "," => Some(d.clone()),
        _ => return Null,
      };
      if g.is_some() && g == d {
        return Null;
      }
      let mut t = x.clone();
      if let Some(g) = &g {
        t = t.replace(g.as_str(), "");
      }
      if let Some(d) = &d {
        if d != "." {
          if t.contains('.') {
            return Unspec; // a period next to a comma decimal separator: accepted by the letter, doubtful by intent
          }
          t = t.replace(d.as_str(), ".");
        }
      }
      // FEEL number syntax: optional sign, digits, optional fraction
      let body = t.strip_prefix('-').unwrap_or(&t);
      let ok = !body.is_empty() && body.chars().all(|c| c.is_ascii_digit() || c == '.') && body.matches('.').count() <= 1 && body != "." && !body.ends_with('.');
      if !ok {
        return if t.contains('e') || t.contains('E') || t.starts_with('+') || t.contains(' ') || body.ends_with('.') { Unspec } else { Null };
      }
      let norm = if body.starts_with('.') { format!("{}0{}", if t.starts_with('-') { "-" } else { "" }, body) } else { t.clone() };
      Rat::parse(&norm).map(Num).unwrap_or(Unspec)
    }
    ("string", 1) => match &a[0] {
      Null => Null,
      Str(x) => Str(x.clone()),
      Bool(b) => Str(b.to_string()),
      Num(r) => r.to_decimal_text().map(Str).unwrap_or(Unspec),
      _ => Unspec,
    },
    ("sort", 2) => Unspec, // handled by a dedicated family (needs a function argument)
    // wrong arity
    _ => Null,
  }
}

// ------------------------------------------------------------------------------------------------
// argument alphabets
// ------------------------------------------------------------------------------------------------

fn strings() -> Vec<RVal> {
  ["", "a", "ab", "abc", "aXbXc", "é", "日本", "🐎", "a🐎b", " a "].iter().map(|x| s(x)).collect()
}

fn matches_() -> Vec<RVal> {
  ["", "a", "b", "X", "bc", "é", "🐎", "c", "本"].iter().map(|x| s(x)).collect()
}

fn patterns() -> Vec<RVal> {
  ["a", "b", "X", ".", "a+", "[ab]", "[^a]", "(a)(b)", "a|b", "^a", "c$", "b.", "(X)", "a*", "X?", "é", "🐎", "ab?c", "(a|b)+", "\\s"].iter().map(|x| s(x)).collect()
}

fn positions(len: usize) -> Vec<RVal> {
  let k = len as i64;
  let mut v: Vec<RVal> = (-(k + 2)..=k + 2).map(n).collect();
  v.extend(vec![q(1, 2), q(3, 2), NumLit("1.0".into(), Rat::int(1)), NumLit("-1.0".into(), Rat::int(-1)), NumLit("2.00".into(), Rat::int(2))]);
  v
}

fn item_alphabet() -> Vec<RVal> {
  vec![n(1), n(2), Null, s("a"), l(vec![n(1)])]
}

fn lists(thorough: bool) -> Vec<RVal> {
  let items = item_alphabet();
  let mut out = vec![l(vec![])];
  for a in &items {
    out.push(l(vec![a.clone()]));
    for b in &items {
      out.push(l(vec![a.clone(), b.clone()]));
      for c in &items {
        out.push(l(vec![a.clone(), b.clone(), c.clone()]));
      }
    }
  }
  out.push(l((1..=4).map(n).collect()));
  out.push(l((1..=4).rev().map(n).collect()));
  out.push(l(vec![n(2), n(2), n(2), n(2)]));
  out.push(l(vec![n(1), n(2), n(2), n(3)]));
  out.push(l(vec![n(3), n(1), n(2), n(1), n(3)]));
  if thorough {
    out.push(l((1..=8).map(n).collect()));
    out.push(l((1..=8).rev().map(n).collect()));
    out.push(l(vec![n(1); 8]));
    for d in 0..8 {
      let mut v: Vec<RVal> = (1..=7).map(n).collect();
      let dup = v[d % 7].clone();
      v.insert(d, dup);
      out.push(l(v));
    }
    out.push(l(vec![l(vec![n(1), l(vec![n(2), l(vec![n(3)])])]), n(4), l(vec![])]));
  }
  out
}

fn gcd(a: i64, b: i64) -> i64 {
  if b == 0 {
    a.abs()
  } else {
    gcd(b, a % b)
  }
}

fn number_lists(thorough: bool) -> Vec<RVal> {
  let items = vec![n(1), n(2), n(3), q(5, 2), n(-1), n(0)];
  let mut out = vec![l(vec![])];
  for a in &items {
    out.push(l(vec![a.clone()]));
    for b in &items {
      out.push(l(vec![a.clone(), b.clone()]));
      for c in &items {
        out.push(l(vec![a.clone(), b.clone(), c.clone()]));
        if thorough {
          for d in &items {
            out.push(l(vec![a.clone(), b.clone(), c.clone(), d.clone()]));
          }
        }
      }
    }
  }
  // longer lists in scrambled orders (library sorting and selection routines switch algorithm with the length)
  for len in [9i64, 16, 17, 18, 20, 21, 32, 33, 50, 64, 65] {
    for mult in [7i64, 11, 23] {
      // k -> (k * mult + 3) mod len is a permutation of 0..len when mult is coprime to len
      if gcd(mult, len) != 1 {
        continue;
      }
      out.push(l((0..len).map(|k| n((k * mult + 3) % len + 1)).collect()));
      // and a fixed irregular arrangement of the same items (Fisher-Yates driven by a linear congruential sequence)
      let mut items: Vec<i64> = (1..=len).collect();
      let mut state: u64 = (len as u64) * 2654435761 + mult as u64;
      for i in (1..items.len()).rev() {
        state = state.wrapping_mul(6364136223846793005).wrapping_add(1442695040888963407);
        let j = ((state >> 33) % (i as u64 + 1)) as usize;
        items.swap(i, j);
      }
      out.push(l(items.into_iter().map(n).collect()));
      // the same with one duplicate and one fraction
      let mut v: Vec<RVal> = (0..len).map(|k| n((k * mult + 3) % len + 1)).collect();
      v[1] = v[0].clone();
      v[2] = q(5, 2);
      out.push(l(v));
    }
  }
  // equal items with many digits, and items that share a large offset (sums of squares lose what the deviations keep)
  out.push(l(vec![q(1, 3), q(1, 3), q(1, 3)]));
  out.push(l(vec![q(2, 3), q(2, 3)]));
  out.push(l(vec![q(100, 3), q(100, 3), q(100, 3), q(100, 3)]));
  out.push(l(vec![q(1, 7), q(1, 7)]));
  out.push(l(vec![n(100000000000000001), n(100000000000000002), n(100000000000000003)]));
  out.push(l(vec![n(1000000000000000001), n(1000000000000000003)]));
  out.push(l(vec![q(2000000000000000001, 2), q(2000000000000000003, 2)]));
  out.push(l(vec![n(1000000007), n(1000000008), n(1000000010)]));
  out.push(l(vec![n(6), n(3), n(9), n(6), n(6)]));
  out.push(l(vec![n(6), n(1), n(9), n(6), n(1)]));
  out.push(l(vec![n(2), n(4), n(4), n(4), n(5), n(5), n(7), n(9)]));
  out.push(l(vec![s("b"), s("a"), s("c")]));
  out.push(l(vec![n(1), s("a")]));
  out.push(l(vec![n(1), Null]));
  out.push(l(vec![Bool(true), Bool(false)]));
  out
}

fn kinds() -> Vec<RVal> {
  vec![Null, Bool(true), n(1), s("a"), l(vec![n(1)]), Ctx(vec![("a".into(), n(1))])]
}

fn contexts() -> Vec<RVal> {
  vec![
    Ctx(vec![]),
    Ctx(vec![("a".into(), n(1))]),
    Ctx(vec![("b".into(), s("x")), ("a".into(), Null)]),
    Ctx(vec![("a b".into(), l(vec![n(1)])), ("c".into(), Ctx(vec![("d".into(), n(2))]))]),
  ]
}

/// (function name, parameter names for the named form (None when the form is variadic), argument tuples)
pub struct Spec {
  pub name: &'static str,
  pub params: Option<Vec<&'static str>>,
  pub tuples: Vec<Vec<RVal>>,
}

fn cross2(a: &[RVal], b: &[RVal]) -> Vec<Vec<RVal>> {
  let mut out = vec![];
  for x in a {
    for y in b {
      out.push(vec![x.clone(), y.clone()]);
    }
  }
  out
}

fn with_wrong_kinds(valid: &[RVal], arity: usize) -> Vec<Vec<RVal>> {
  // every kind in every position while the others hold a valid value
  let mut out = vec![];
  for pos in 0..arity {
    for k in kinds() {
      let mut t: Vec<RVal> = valid.to_vec();
      t[pos] = k;
      out.push(t);
    }
  }
  out
}

pub fn specs(thorough: bool) -> Vec<Spec> {
  let strs = strings();
  let ms = matches_();
  let pats = patterns();
  let ls = lists(thorough);
  let nls = number_lists(thorough);
  let mut out = vec![];
  // string functions
  let mut t: Vec<Vec<RVal>> = strs.iter().map(|x| vec![x.clone()]).collect();
  t.extend(with_wrong_kinds(&[s("ab")], 1));
  out.push(Spec { name: "string length", params: Some(vec!["string"]), tuples: t.clone() });
  out.push(Spec { name: "upper case", params: Some(vec!["string"]), tuples: t.clone() });
  out.push(Spec { name: "lower case", params: Some(vec!["string"]), tuples: t });
  let mut t2 = vec![];
  let mut t3 = vec![];
  for x in &strs {
    let len = match x {
      Str(x) => x.chars().count(),
      _ => 0,
    };
    for p in positions(len) {
      t2.push(vec![x.clone(), p.clone()]);
      for k in positions(len) {
        t3.push(vec![x.clone(), p.clone(), k]);
      }
    }
  }
  t2.extend(with_wrong_kinds(&[s("abc"), n(1)], 2));
  t3.extend(with_wrong_kinds(&[s("abc"), n(1), n(1)], 3));
  out.push(Spec { name: "substring", params: Some(vec!["string", "start position"]), tuples: t2 });
  out.push(Spec { name: "substring", params: Some(vec!["string", "start position", "length"]), tuples: t3 });
  for name in ["contains", "starts with", "ends with", "substring before", "substring after"] {
    let mut t = cross2(&strs, &ms);
    t.extend(with_wrong_kinds(&[s("abc"), s("b")], 2));
    out.push(Spec { name, params: Some(vec!["string", "match"]), tuples: t });
  }
  let mut t = cross2(&strs, &pats);
  t.extend(with_wrong_kinds(&[s("abc"), s("b")], 2));
  out.push(Spec { name: "matches", params: Some(vec!["input", "pattern"]), tuples: t });
  let flag_sets: Vec<RVal> = if thorough { vec!["", "i", "s", "m", "x", "si", "smix"] } else { vec!["", "i", "s", "x"] }.iter().map(|x| s(x)).collect();
  let mixed_case: Vec<RVal> = ["ABC", "aBc", "AxB"].iter().map(|x| s(x)).collect();
  let mut t = vec![];
  for x in strs.iter().chain(mixed_case.iter()) {
    for p in &pats {
      for f in &flag_sets {
        t.push(vec![x.clone(), p.clone(), f.clone()]);
      }
    }
  }
  t.push(vec![s("ABC"), s("b"), s("i")]);
  t.push(vec![s("ABC"), s("b"), s("")]);
  out.push(Spec { name: "matches", params: Some(vec!["input", "pattern", "flags"]), tuples: t });
  let reps: Vec<RVal> = ["", "#", "$1", "[$2$1]", "ab", "$1c$2", "$1_", "$0$0", "$10"].iter().map(|x| s(x)).collect();
  let mut t = vec![];
  for x in &strs {
    for p in &pats {
      for r in &reps {
        t.push(vec![x.clone(), p.clone(), r.clone()]);
      }
    }
  }
  t.extend(with_wrong_kinds(&[s("abc"), s("b"), s("#")], 3));
  out.push(Spec { name: "replace", params: Some(vec!["input", "pattern", "replacement"]), tuples: t });
  // with flags: the whole space of the three-argument form x every set of flags (the flags other than i make no difference
  // on these alphabets, so every one of them must give the result of the three-argument form)
  let mut t = vec![];
  for x in strs.iter().chain(mixed_case.iter()) {
    for p in &pats {
      for r in &reps {
        for f in &flag_sets {
          t.push(vec![x.clone(), p.clone(), r.clone(), f.clone()]);
        }
      }
    }
  }
  for x in [s("abc"), s("ABC"), s("aXbXc")] {
    for p in [s("b"), s("x"), s("[ab]")] {
      for f in [s(""), s("i")] {
        t.push(vec![x.clone(), p.clone(), s("#"), f.clone()]);
      }
    }
  }
  // flag q: the pattern and the replacement are literal texts
  for x in [s("abc"), s("a.c"), s("a$1c"), s("aBc"), s("a\\b"), s("(a)")] {
    for p in [s("b"), s("."), s("$1"), s("B"), s("\\"), s("(a)"), s("a|b")] {
      for r in [s("#"), s("$1"), s("\\"), s("$")] {
        for f in [s("q"), s("qi"), s("iq")] {
          t.push(vec![x.clone(), p.clone(), r.clone(), f.clone()]);
        }
      }
    }
  }
  out.push(Spec { name: "replace", params: Some(vec!["input", "pattern", "replacement", "flags"]), tuples: t });
  let delims: Vec<RVal> = ["X", "b", ";", " ", "é", "🐎", "[Xb]", "ab", "\\s"].iter().map(|x| s(x)).collect();
  let mut t = cross2(&strs, &delims);
  t.push(vec![s("a;b;c;;"), s(";")]);
  t.push(vec![s("John Doe"), s("\\s")]);
  t.extend(with_wrong_kinds(&[s("abc"), s("b")], 2));
  out.push(Spec { name: "split", params: Some(vec!["string", "delimiter"]), tuples: t });
  // list functions
  let items = item_alphabet();
  let mut t = cross2(&ls, &items);
  t.extend(with_wrong_kinds(&[l(vec![n(1)]), n(1)], 2));
  out.push(Spec { name: "list contains", params: Some(vec!["list", "element"]), tuples: t.clone() });
  out.push(Spec { name: "index of", params: Some(vec!["list", "match"]), tuples: t });
  let mut t1: Vec<Vec<RVal>> = ls.iter().map(|x| vec![x.clone()]).collect();
  t1.extend(with_wrong_kinds(&[l(vec![n(1)])], 1));
  for name in ["count", "reverse", "distinct values", "flatten"] {
    out.push(Spec { name, params: Some(vec!["list"]), tuples: t1.clone() });
  }
  let mut tn: Vec<Vec<RVal>> = nls.iter().map(|x| vec![x.clone()]).collect();
  tn.extend(with_wrong_kinds(&[l(vec![n(1)])], 1));
  for name in ["min", "max", "sum", "mean", "median", "mode", "stddev"] {
    out.push(Spec { name, params: Some(vec!["list"]), tuples: tn.clone() });
    // variadic forms
    let nums = vec![n(1), n(2), n(3), q(5, 2), n(-1)];
    let mut tv = vec![];
    for a in &nums {
      for b in &nums {
        tv.push(vec![a.clone(), b.clone()]);
        for c in &nums {
          tv.push(vec![a.clone(), b.clone(), c.clone()]);
        }
      }
    }
    tv.push(vec![]);
    // a list among several arguments is not "the list": the arguments are the items, and a list is not a number
    for first in [l(vec![n(1), n(2)]), l(vec![]), l(vec![n(5)])] {
      tv.push(vec![first.clone(), n(3)]);
      tv.push(vec![n(3), first.clone()]);
      tv.push(vec![first.clone(), l(vec![n(3), n(4)])]);
      tv.push(vec![first.clone(), n(3), n(4)]);
    }
    out.push(Spec { name, params: None, tuples: tv });
  }
  let bools = vec![Bool(true), Bool(false), Null, n(1)];
  let mut tb = vec![vec![l(vec![])]];
  for a in &bools {
    tb.push(vec![l(vec![a.clone()])]);
    for b in &bools {
      tb.push(vec![l(vec![a.clone(), b.clone()])]);
      for c in &bools {
        tb.push(vec![l(vec![a.clone(), b.clone(), c.clone()])]);
      }
    }
  }
  // (a single value that is no list, positional and named: it is taken for a list of one item)
  for single in [Bool(true), Bool(false), Null, n(1)] {
    tb.push(vec![single]);
  }
  for name in ["all", "any"] {
    out.push(Spec { name, params: Some(vec!["list"]), tuples: tb.clone() });
    let mut tv = vec![vec![]];
    for a in &bools {
      for b in &bools {
        tv.push(vec![a.clone(), b.clone()]);
      }
    }
    for first in [l(vec![Bool(true), Bool(true)]), l(vec![]), l(vec![Bool(false)])] {
      tv.push(vec![first.clone(), Bool(true)]);
      tv.push(vec![Bool(true), first.clone()]);
      tv.push(vec![first.clone(), l(vec![Bool(true)])]);
    }
    out.push(Spec { name, params: None, tuples: tv });
  }
  let mut t2 = vec![];
  let mut t3 = vec![];
  for x in ls.iter().filter(|x| matches!(x, List(v) if v.len() <= 4 && v.iter().all(|i| matches!(i, Num(_))))).chain([l(vec![s("a"), Null, l(vec![n(1)])])].iter()) {
    let len = match x {
      List(v) => v.len(),
      _ => 0,
    };
    for p in positions(len) {
      t2.push(vec![x.clone(), p.clone()]);
      for k in positions(len) {
        t3.push(vec![x.clone(), p.clone(), k]);
      }
    }
  }
  t2.extend(with_wrong_kinds(&[l(vec![n(1), n(2)]), n(1)], 2));
  t3.extend(with_wrong_kinds(&[l(vec![n(1), n(2)]), n(1), n(1)], 3));
  out.push(Spec { name: "sublist", params: Some(vec!["list", "start position"]), tuples: t2.clone() });
  out.push(Spec { name: "sublist", params: Some(vec!["list", "start position", "length"]), tuples: t3 });
  out.push(Spec { name: "remove", params: Some(vec!["list", "position"]), tuples: t2.clone() });
  let mut ti = vec![];
  for t in &t2 {
    for it in [n(9), Null, l(vec![n(9)])] {
      ti.push(vec![t[0].clone(), t[1].clone(), it]);
    }
  }
  out.push(Spec { name: "insert before", params: Some(vec!["list", "position", "newItem"]), tuples: ti });
  let small_lists: Vec<RVal> = ls.iter().filter(|x| matches!(x, List(v) if v.len() <= 2)).cloned().collect();
  let mut ta = vec![];
  for a in &small_lists {
    for it in &items {
      ta.push(vec![a.clone(), it.clone()]);
      ta.push(vec![a.clone(), it.clone(), n(7)]);
    }
  }
  ta.extend(with_wrong_kinds(&[l(vec![n(1)]), n(1)], 2));
  out.push(Spec { name: "append", params: None, tuples: ta });
  let mut tc = cross2(&small_lists, &small_lists);
  for a in small_lists.iter().take(8) {
    for b in small_lists.iter().take(8) {
      tc.push(vec![a.clone(), b.clone(), l(vec![n(1), n(1)])]);
    }
  }
  tc.extend(with_wrong_kinds(&[l(vec![n(1)]), l(vec![n(2)])], 2));
  // a single list (with equal items, with a nested list, produced by another list function): the functions take any number of lists
  for a in ls.iter().filter(|x| matches!(x, List(v) if v.len() <= 4)) {
    tc.push(vec![a.clone()]);
  }
  tc.push(vec![l(vec![n(1), n(2), n(1), n(2), n(3)])]);
  tc.push(vec![l(vec![l(vec![n(1)]), l(vec![n(1)]), n(1)])]);
  tc.push(vec![l(vec![Null, Null])]);
  tc.push(vec![n(1)]);
  tc.push(vec![Null]);
  out.push(Spec { name: "concatenate", params: None, tuples: tc.clone() });
  out.push(Spec { name: "union", params: None, tuples: tc });
  // contexts
  let keys = vec![s("a"), s("b"), s("a b"), s("zz"), s("")];
  let mut tg = cross2(&contexts(), &keys);
  tg.extend(with_wrong_kinds(&[Ctx(vec![("a".into(), n(1))]), s("a")], 2));
  out.push(Spec { name: "get value", params: Some(vec!["m", "key"]), tuples: tg });
  let mut te: Vec<Vec<RVal>> = contexts().into_iter().map(|c| vec![c]).collect();
  te.extend(with_wrong_kinds(&[Ctx(vec![])], 1));
  out.push(Spec { name: "get entries", params: Some(vec!["m"]), tuples: te });
  // boolean and conversions
  out.push(Spec { name: "not", params: Some(vec!["negand"]), tuples: kinds().into_iter().chain(vec![Bool(false)]).map(|k| vec![k]).collect() });
  let froms: Vec<RVal> = ["1", "1.5", "-1.5", "1 000", "1,000.5", "1.000,5", "1 000,5", ".5", "1.", "abc", "", "1e3", "+1", "1,5", "1.5.5", "10 00.00"].iter().map(|x| s(x)).collect();
  let groups = vec![Null, s(" "), s(","), s("."), s("x")];
  let decs = vec![Null, s("."), s(","), s("x")];
  let mut tnum = vec![];
  for f in &froms {
    for g in &groups {
      for d in &decs {
        tnum.push(vec![f.clone(), g.clone(), d.clone()]);
      }
    }
  }
  tnum.extend(with_wrong_kinds(&[s("1"), s(","), s(".")], 3));
  out.push(Spec { name: "number", params: Some(vec!["from", "grouping separator", "decimal separator"]), tuples: tnum });
  let mut tstr: Vec<Vec<RVal>> = vec![Null, Bool(true), Bool(false), n(1), q(3, 2), n(-5), q(-1, 8), s("a"), s(""), s("a\"b"), n(1000000), q(1, 1000000)].into_iter().map(|x| vec![x]).collect();
  tstr.push(vec![l(vec![n(1)])]);
  out.push(Spec { name: "string", params: Some(vec!["from"]), tuples: tstr });
  out
}

// ------------------------------------------------------------------------------------------------
// engine
// ------------------------------------------------------------------------------------------------

fn scope_with(args: &[RVal]) -> Option<Scope> {
  let mut c = FeelContext::default();
  for (i, a) in args.iter().enumerate() {
    c.set_entry(&Name::from(format!("p{}", i)), a.to_value()?);
  }
  Some(Scope::from(c))
}

/// The same bindings with every null - at any depth - carrying a diagnostic text of its own, the way nulls produced by
/// failed operations do: the text is not part of the value, so no result may depend on it.
fn scope_with_annotated_nulls(args: &[RVal]) -> Option<Scope> {
  use dmntk_feel::values::{Value, Values};
  fn annotate(v: Value, n: &mut u32) -> Value {
    match v {
      Value::Null(_) => {
        *n += 1;
        Value::Null(Some(format!("diagnostic text {}", n)))
      }
      Value::List(items) => Value::List(Values::new(items.as_vec().iter().map(|i| annotate(i.clone(), n)).collect())),
      Value::Context(ctx) => {
        let mut c = FeelContext::default();
        for (k, e) in ctx.iter() {
          c.set_entry(k, annotate(e.clone(), n));
        }
        Value::Context(c)
      }
      other => other,
    }
  }
  let mut n = 0u32;
  let mut c = FeelContext::default();
  for (i, a) in args.iter().enumerate() {
    c.set_entry(&Name::from(format!("p{}", i)), annotate(a.to_value()?, &mut n));
  }
  if n == 0 {
    return None;
  }
  Some(Scope::from(c))
}

fn eval_text(scope: &Scope, text: &str) -> Result<dmntk_feel::values::Value, String> {
  let node = dmntk_feel_parser::parse_expression(scope, text, false).map_err(|e| e.to_string())?;
  dmntk_feel_evaluator::evaluate(scope, &node).map_err(|e| e.to_string())
}

/// Known defect classes are recognised by their cause, so that the finding stays specific.
fn defect_class(name: &str, args: &[RVal], expected: &RVal, observed: &dmntk_feel::values::Value) -> Option<String> {
  use dmntk_feel::values::Value;
  // max: null items after the first item are skipped (min yields null for the same list)
  if name == "max" && matches!(expected, Null) && !matches!(observed, Value::Null(_)) {
    let items: Vec<RVal> = if args.len() == 1 {
      match &args[0] {
        List(i) => i.clone(),
        other => vec![other.clone()],
      }
    } else {
      args.to_vec()
    };
    let without_nulls: Vec<RVal> = items.iter().filter(|i| !matches!(i, Null)).cloned().collect();
    if !items.is_empty() && !matches!(items[0], Null) && without_nulls.len() < items.len() && !matches!(reference("max", &[List(without_nulls)]), Null) {
      return Some("max:null-items-after-the-first-are-skipped".to_string());
    }
  }
  // all / any: a non-boolean item hides a decisive boolean item
  if matches!(name, "all" | "any") && matches!(expected, Bool(_)) && matches!(observed, Value::Null(_)) {
    let items: Vec<RVal> = if args.len() == 1 {
      match &args[0] {
        List(i) => i.clone(),
        other => vec![other.clone()],
      }
    } else {
      args.to_vec()
    };
    if items.iter().any(|i| !matches!(i, Bool(_))) {
      return Some(format!("{}:non-boolean-item-hides-the-decisive-item", name));
    }
  }
  // results that lose their leading / trailing white space
  if matches!(name, "upper case" | "lower case" | "replace") {
    if let (Str(e), Value::String(o)) = (expected, observed) {
      if e.trim() == o.as_str() && e != o {
        return Some(format!("{}:result-is-trimmed", name));
      }
    }
  }
  None
}

fn kinds_key(args: &[RVal]) -> String {
  args.iter().map(|a| a.kind()).collect::<Vec<_>>().join(",")
}

fn permutations(n: usize) -> Vec<Vec<usize>> {
  fn go(cur: &mut Vec<usize>, used: &mut Vec<bool>, n: usize, out: &mut Vec<Vec<usize>>) {
    if cur.len() == n {
      out.push(cur.clone());
      return;
    }
    for i in 0..n {
      if !used[i] {
        used[i] = true;
        cur.push(i);
        go(cur, used, n, out);
        cur.pop();
        used[i] = false;
      }
    }
  }
  let mut out = vec![];
  go(&mut vec![], &mut vec![false; n], n, &mut out);
  out
}

pub fn run() {
  let run = Run::new("C08");
  let thorough = run.thorough();
  let sp = specs(thorough);
  let cases = AtomicU64::new(0);
  let compared = AtomicU64::new(0);
  let nontrivial = AtomicU64::new(0);
  let unspec = AtomicU64::new(0);
  let named_checks = AtomicU64::new(0);
  let functions: BTreeSet<&str> = sp.iter().map(|x| x.name).collect();
  sp.par_iter().for_each(|spec| {
    // declared arity +1 and 0 arguments
    let mut tuples = spec.tuples.clone();
    if let Some(p) = &spec.params {
      if let Some(first) = spec.tuples.first() {
        let mut extra = first.clone();
        extra.push(n(1));
        if extra.len() == p.len() + 1 && !matches!(spec.name, "substring" | "sublist" | "matches" | "replace") {
          tuples.push(extra);
        }
      }
      tuples.push(vec![]);
    }
    for args in &tuples {
      cases.fetch_add(1, Ordering::Relaxed);
      let scope = match scope_with(args) {
        Some(s) => s,
        None => continue,
      };
      let text = format!("{}({})", spec.name, (0..args.len()).map(|i| format!("p{}", i)).collect::<Vec<_>>().join(", "));
      let observed = match eval_text(&scope, &text) {
        Ok(v) => v,
        Err(e) => {
          run.violation(&format!("error:{}", spec.name), &format!("`{}` with {:?} fails: {}", text, args, e), json!({"engine":"c08","text":text}));
          continue;
        }
      };
      let expected = reference(spec.name, args);
      let shown_args = args.iter().map(|a| a.show()).collect::<Vec<_>>().join(", ");
      // nulls that carry a diagnostic text (as produced by failed operations) must behave like the literal null
      if let Some(ascope) = scope_with_annotated_nulls(args) {
        cases.fetch_add(1, Ordering::Relaxed);
        if let Ok(v) = eval_text(&ascope, &text) {
          if crate::rval::show_value_full(&v) != crate::rval::show_value_full(&observed) {
            run.violation(
              &format!("null-diagnostic-text-observable:{}/{}", spec.name, args.len()),
              &format!("{}({}) gives {} but {} when the nulls among the arguments carry a diagnostic text (as nulls produced by failed operations do)", spec.name, shown_args, show_value(&observed), show_value(&v)),
              json!({"engine":"c08","text":format!("{}({})", spec.name, shown_args.replace("null", "(1 + \"a\")")),"bindings":[],"expected":crate::replay::value_to_rval(&observed).show()}),
            );
          }
        }
      }
      match compare(&observed, &expected) {
        Cmp::Same => {
          compared.fetch_add(1, Ordering::Relaxed);
          if !matches!(expected, Null) {
            nontrivial.fetch_add(1, Ordering::Relaxed);
          }
        }
        Cmp::Skipped => {
          unspec.fetch_add(1, Ordering::Relaxed);
        }
        Cmp::Different => {
          compared.fetch_add(1, Ordering::Relaxed);
          let class = format!("{}->{}", expected.kind(), class_of_value(&observed));
          let key = match defect_class(spec.name, args, &expected, &observed) {
            Some(k) => k,
            None => format!("value:{}/{}:({}):{}", spec.name, args.len(), kinds_key(args), class),
          };
          run.violation(
            &key,
            &format!("{}({}) evaluates to {} but the specification gives {}", spec.name, shown_args, show_value(&observed), expected.show()),
            json!({"engine":"c08","text":format!("{}({})", spec.name, shown_args),"bindings":[],"expected":expected.show()}),
          );
        }
      }
      // named invocation, every order of the parameter names: must agree with the positional one
      if let Some(p) = &spec.params {
        if p.len() == args.len() && !args.is_empty() {
          for perm in permutations(p.len()) {
            named_checks.fetch_add(1, Ordering::Relaxed);
            let ntext = format!("{}({})", spec.name, perm.iter().map(|i| format!("{}: p{}", p[*i], i)).collect::<Vec<_>>().join(", "));
            match eval_text(&scope, &ntext) {
              Ok(v) => {
                if v.to_string() != observed.to_string() && !(matches!(v, dmntk_feel::values::Value::Null(_)) && matches!(observed, dmntk_feel::values::Value::Null(_))) {
                  let nkey = if !matches!(args[0], List(_)) && p[0] == "list" && matches!(v, dmntk_feel::values::Value::Null(_)) {
                    format!("named-differs:single-value-for-list-not-converted:{}", spec.name)
                  } else {
                    format!("named-differs:{}/{}", spec.name, args.len())
                  };
                  run.violation(
                    &nkey,
                    &format!("`{}` with ({}) gives {} but the positional invocation gives {}", ntext, shown_args, show_value(&v), show_value(&observed)),
                    json!({"engine":"c08","text":format!("{}({})", spec.name, perm.iter().map(|i| format!("{}: {}", p[*i], args[*i].show())).collect::<Vec<_>>().join(", ")),"bindings":[],"positional":format!("{}({})", spec.name, shown_args),"expected":crate::replay::value_to_rval(&observed).show()}),
                  );
                }
              }
              Err(e) => run.violation(
                &format!("named-error:{}/{}", spec.name, args.len()),
                &format!("`{}` does not parse or evaluate: {}", ntext, e.chars().take(100).collect::<String>()),
                json!({"engine":"c08","text":ntext}),
              ),
            }
          }
        }
      }
    }
  });
  // sort with a precedes function
  let sort_cases: Vec<(&str, &str)> = vec![
    ("sort([3, 1, 2], function(x, y) x < y)", "[1, 2, 3]"),
    ("sort([3, 1, 2], function(x, y) x > y)", "[3, 2, 1]"),
    ("sort([], function(x, y) x < y)", "[]"),
    ("sort([1], function(x, y) x < y)", "[1]"),
    ("sort([2, 2, 1, 1], function(x, y) x < y)", "[1, 1, 2, 2]"),
    ("sort([\"b\", \"a\", \"c\"], function(x, y) x < y)", "[\"a\", \"b\", \"c\"]"),
    ("sort([8, 7, 6, 5, 4, 3, 2, 1], function(x, y) x < y)", "[1, 2, 3, 4, 5, 6, 7, 8]"),
    ("sort([{a: 2}, {a: 1}], function(x, y) x.a < y.a)", "[{a: 1}, {a: 2}]"),
    ("sort(list: [3, 1, 2], precedes: function(x, y) x < y)", "[1, 2, 3]"),
    ("sort(precedes: function(x, y) x < y, list: [3, 1, 2])", "[1, 2, 3]"),
    ("sort([3, 1, 2])", "null"),
    ("sort(1, function(x, y) x < y)", "null"),
    ("sort([3, 1, 2], 1)", "null"),
  ];
  let sort_names: BTreeSet<String> = ["x", "y", "a", "list", "precedes"].iter().map(|s| s.to_string()).collect();
  for (text, want) in &sort_cases {
    cases.fetch_add(1, Ordering::Relaxed);
    let ps = parse_scope_of(&sort_names);
    let got = dmntk_feel_parser::parse_expression(&ps, text, false).map_err(|e| e.to_string()).and_then(|n| dmntk_feel_evaluator::evaluate(&Scope::default(), &n).map_err(|e| e.to_string()));
    let got_s = match &got {
      Ok(v) => crate::replay::value_to_rval(v).show(),
      Err(e) => format!("error {}", e),
    };
    compared.fetch_add(1, Ordering::Relaxed);
    nontrivial.fetch_add(1, Ordering::Relaxed);
    if got_s != *want {
      run.violation(&format!("value:sort:{}", text), &format!("`{}` evaluates to {} but the specification gives {}", text, got_s, want), json!({"engine":"c08","text":text,"expected":want}));
    }
  }
  // sort, enumerated: every list of the number-list alphabet (incl. the 9..65 item lists) and string lists x precedes functions
  // that are strict or non-strict orders in both directions; lists of contexts with distinct keys in every arrangement.
  // Where every pair of items is comparable the sorted sequence is unique as a sequence of values (equal items are
  // indistinguishable); a list with incomparable items (precedes yields null) is executed and not compared.
  {
    let precedes: Vec<(&str, bool)> = vec![
      ("function(x, y) x < y", true),
      ("function(x, y) x > y", false),
      ("function(x, y) x <= y", true),
      ("function(x, y) y < x", false),
      ("function(a, b) if a < b then true else false", true),
      ("function(x, y) not(x >= y)", true),
    ];
    let mut sort_lists: Vec<RVal> = number_lists(thorough);
    let words = ["b", "a", "c", "", "é", "ab", "B", "🐎", "日本"];
    for i in 0..words.len() {
      for j in 0..words.len() {
        sort_lists.push(l(vec![s(words[i]), s(words[j])]));
        for k in 0..words.len() {
          if i < 4 && j < 5 {
            sort_lists.push(l(vec![s(words[i]), s(words[j]), s(words[k])]));
          }
        }
      }
    }
    sort_lists.push(l(words.iter().map(|w| s(w)).collect()));
    let names: BTreeSet<String> = ["x", "y", "a", "b", "k", "v", "list", "precedes", "p0"].iter().map(|s| s.to_string()).collect();
    sort_lists.par_iter().for_each(|lst| {
      let ps = parse_scope_of(&names);
      let items = match lst {
        List(v) => v.clone(),
        _ => return,
      };
      let comparable = items.iter().all(|a| items.iter().all(|b| cmp_vals(a, b).is_some()));
      let scope = match scope_with(&[lst.clone()]) {
        Some(s) => s,
        None => return,
      };
      for (f, ascending) in &precedes {
        for form in 0..3 {
          let text = match form {
            0 => format!("sort(p0, {})", f),
            1 => format!("sort(list: p0, precedes: {})", f),
            _ => format!("sort(precedes: {}, list: p0)", f),
          };
          cases.fetch_add(1, Ordering::Relaxed);
          let got = dmntk_feel_parser::parse_expression(&ps, &text, false).map_err(|e| e.to_string()).and_then(|n| dmntk_feel_evaluator::evaluate(&scope, &n).map_err(|e| e.to_string()));
          let observed = match got {
            Ok(v) => v,
            Err(e) => {
              run.violation("error:sort", &format!("`{}` with {} fails: {}", text, lst.show(), e), json!({"engine":"c08","text":text}));
              continue;
            }
          };
          if !comparable {
            unspec.fetch_add(1, Ordering::Relaxed);
            continue;
          }
          let mut sorted = items.clone();
          sorted.sort_by(|a, b| cmp_vals(a, b).unwrap());
          if !*ascending {
            sorted.reverse();
          }
          let expected = l(sorted);
          compared.fetch_add(1, Ordering::Relaxed);
          nontrivial.fetch_add(1, Ordering::Relaxed);
          if !matches!(compare(&observed, &expected), Cmp::Same) {
            let kind = if items.iter().all(|i| matches!(i, Str(_))) { "strings" } else { "numbers" };
            let size = if items.len() <= 4 { "up-to-4-items" } else if items.len() <= 20 { "5-to-20-items" } else { "more-than-20-items" };
            run.violation(
              &format!("value:sort/2:{}:{}:{}", kind, size, if form == 0 { "positional" } else { "named" }),
              &format!("{} evaluates to {} but the specification gives {}", text.replace("p0", &lst.show()), show_value(&observed), expected.show()),
              json!({"engine":"c08","text":text.replace("p0", &lst.show()),"bindings":[],"expected":expected.show()}),
            );
          }
        }
      }
    });
    // lists of contexts with distinct keys: every arrangement of 3 and of 4 items, sorted by the key in both directions;
    // the other entry travels with its context
    let ps = parse_scope_of(&names);
    for size in [3usize, 4] {
      for perm in permutations(size) {
        let items: Vec<RVal> = perm.iter().map(|i| Ctx(vec![("k".into(), n(*i as i64 + 1)), ("v".into(), s(&format!("v{}", i)))])).collect();
        let lst = l(items.clone());
        let scope = match scope_with(&[lst.clone()]) {
          Some(s) => s,
          None => continue,
        };
        for (f, ascending) in [("function(x, y) x.k < y.k", true), ("function(x, y) x.k > y.k", false), ("function(x, y) x.v < y.v", true)] {
          let text = format!("sort(p0, {})", f);
          cases.fetch_add(1, Ordering::Relaxed);
          let got = dmntk_feel_parser::parse_expression(&ps, &text, false).map_err(|e| e.to_string()).and_then(|n| dmntk_feel_evaluator::evaluate(&scope, &n).map_err(|e| e.to_string()));
          let mut sorted = items.clone();
          sorted.sort_by_key(|c| match c {
            Ctx(e) => int_of(&e[0].1).unwrap_or(0),
            _ => 0,
          });
          if !ascending {
            sorted.reverse();
          }
          let expected = l(sorted);
          compared.fetch_add(1, Ordering::Relaxed);
          nontrivial.fetch_add(1, Ordering::Relaxed);
          let ok = match &got {
            Ok(v) => matches!(compare(v, &expected), Cmp::Same),
            Err(_) => false,
          };
          if !ok {
            let shown = match &got {
              Ok(v) => show_value(v),
              Err(e) => format!("error {}", e),
            };
            run.violation(
              "value:sort/2:contexts-by-an-entry",
              &format!("{} evaluates to {} but the specification gives {}", text.replace("p0", &lst.show()), shown, expected.show()),
              json!({"engine":"c08","text":text.replace("p0", &lst.show()),"bindings":[],"expected":expected.show()}),
            );
          }
        }
      }
    }
  }
  // positions are counted in characters also where the text leaves the result open (a start behind the string, a length
  // running past its end): whatever a string of n ASCII letters gives there, a string of n other characters gives the
  // same, character by character. Positions and lengths reach past the byte and the UTF-16 lengths of the strings.
  {
    let words = ["é", "日本", "🐎", "a🐎b", "żółw", "🐎ab", "ab🐎", "日a本"];
    let letters: Vec<char> = "klmnopqr".chars().collect();
    let ps = parse_scope_of(&BTreeSet::new());
    let sc = Scope::default();
    for w in words {
      let cs = chars(w);
      let image: String = (0..cs.len()).map(|i| letters[i]).collect();
      let reach = (w.len() + 3) as i64;
      for p in -reach..=reach {
        for k in std::iter::once(None).chain((1..=reach).map(Some)) {
          let call = |x: &str| match k {
            None => format!("substring(\"{}\", {})", x, p),
            Some(k) => format!("substring(\"{}\", {}, {})", x, p, k),
          };
          cases.fetch_add(2, Ordering::Relaxed);
          let ev = |text: &str| dmntk_feel_parser::parse_expression(&ps, text, false).map_err(|e| e.to_string()).and_then(|n| dmntk_feel_evaluator::evaluate(&sc, &n).map_err(|e| e.to_string()));
          let (a, b) = (ev(&call(w)), ev(&call(&image)));
          compared.fetch_add(1, Ordering::Relaxed);
          let back = |v: &dmntk_feel::values::Value| match v {
            dmntk_feel::values::Value::String(x) => Some(x.chars().map(|c| letters.iter().position(|l| *l == c).and_then(|i| cs.get(i).copied()).unwrap_or('?')).collect::<String>()),
            _ => None,
          };
          let same = match (&a, &b) {
            (Ok(dmntk_feel::values::Value::String(x)), Ok(vb)) => back(vb).as_deref() == Some(x.as_str()),
            (Ok(dmntk_feel::values::Value::Null(_)), Ok(dmntk_feel::values::Value::Null(_))) => true,
            _ => false,
          };
          if !same {
            let shown = |r: &Result<dmntk_feel::values::Value, String>| match r {
              Ok(v) => show_value(v),
              Err(e) => format!("error {}", e),
            };
            run.violation(
              &format!("value:substring/{}:characters-counted-alike:{}", if k.is_some() { 3 } else { 2 }, if p < 0 { "from-the-end" } else { "from-the-start" }),
              &format!("{} evaluates to {} while {} evaluates to {}: the same positions in strings of the same number of characters", call(w), shown(&a), call(&image), shown(&b)),
              json!({"engine":"c08","kind":"alike","text":call(w),"image":call(&image),"word":w,"letters":image}),
            );
          } else if matches!(a, Ok(dmntk_feel::values::Value::String(_))) {
            nontrivial.fetch_add(1, Ordering::Relaxed);
          }
        }
      }
    }
  }
  run.sample(json!({"call":"substring(\"a🐎b\", -2, 1)","reference":"\"🐎\""}));
  run.sample(json!({"call":"replace(\"aXbXc\", \"(a)(b)\", \"[$2$1]\")","named":"replace(replacement: p2, input: p0, pattern: p1)"}));
  run.sample(json!({"call":"mode([6, 1, 9, 6, 1])","reference":"[1, 6]"}));
  let total = cases.load(Ordering::Relaxed);
  run.set("states", json!(total));
  run.set("transitions", json!(total + named_checks.load(Ordering::Relaxed)));
  run.set("traces_validated_against_impl", json!(compared.load(Ordering::Relaxed)));
  run.set("evaluations", json!(total + named_checks.load(Ordering::Relaxed)));
  run.set("distinct_nontrivial", json!(nontrivial.load(Ordering::Relaxed)));
  run.set("rule", json!("(function, argument tuple) cases, distinct by construction, whose reference value is determined and not null; argument alphabets: strings incl. non-BMP, every position/length -(n+2)..n+2 plus non-integers, all lists up to length 3 over a 5-item alphabet plus canonical longer ones, every value kind in every position, arity 0 and declared+1"));
  run.set("exhaustive", json!(true));
  run.set("functions", json!(functions.iter().collect::<Vec<_>>()));
  run.set("unspecified_not_compared", json!(unspec.load(Ordering::Relaxed)));
  run.set("named_invocation_checks", json!(named_checks.load(Ordering::Relaxed)));
  run.assume("the reference functions in engines/c08.rs state DMN 1.3 10.3.4; where the text is silent (length past the end, fractional positions, zero-length regex matches, null items in aggregates, implicit singleton conversion) the case is executed but not compared");
  run.assume("regular expressions are limited to the pattern alphabet understood by the 150-line reference matcher");
  run.finish();
}
