pub mod c06;
pub mod c01;
pub mod c13;
pub mod c09;
pub mod c07;
pub mod c02;
pub mod c10;
pub mod c05;
