pub mod c06;
