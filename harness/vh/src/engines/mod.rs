pub mod c06;
pub mod c01;
