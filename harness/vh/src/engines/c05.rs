//! C05 — FEEL parsing and evaluation are total: a result or an error, never a crash.
//! Crash-isolated exhaustive enumeration (see isolate.rs), in two build profiles.

use crate::isolate::{self, Progress};
use crate::report::Run;
use dmntk_feel::context::FeelContext;
use dmntk_feel::values::Value;
use dmntk_feel::{FeelNumber, Name, Scope};
use dmntk_feel_evaluator::evaluate;
use dmntk_feel_parser::*;
use serde_json::{json, Value as J};
use std::io::Write;
use std::time::Duration;

pub const ENTRY_POINTS: &[&str] = &["expression", "textual_expression", "textual_expressions", "unary_tests", "boxed_expression", "context", "name"];

fn scope_of_kind(kind: u64) -> Scope {
  if kind == 0 {
    return Scope::default();
  }
  let mut c = FeelContext::default();
  let n = |i: i128| Value::Number(FeelNumber::from_i128(i));
  c.set_entry(&Name::from("a"), n(1));
  c.set_entry(&Name::from("x"), Value::String("s".into()));
  c.set_entry(&Name::new(&["b", "c"]), Value::List(dmntk_feel::values::Values::new(vec![n(1), n(2)])));
  let mut inner = FeelContext::default();
  inner.set_entry(&Name::from("k"), n(1));
  c.set_entry(&Name::new(&["d", "-", "e"]), Value::Context(inner));
  c.set_entry(&Name::from("in x"), n(7));
  Scope::from(c)
}

/// Parses with the given entry point and evaluates what parses.
fn parse_and_evaluate(entry: u64, scope: &Scope, text: &str) {
  let node = match entry {
    0 => parse_expression(scope, text, false),
    1 => parse_textual_expression(scope, text, false),
    2 => parse_textual_expressions(scope, text, false),
    3 => parse_unary_tests(scope, text, false),
    4 => parse_boxed_expression(scope, text, false),
    5 => parse_context(scope, text, false),
    _ => {
      let _ = parse_name(scope, text, false);
      let _ = parse_longest_name(text);
      return;
    }
  };
  if let Ok(node) = node {
    let _ = evaluate(scope, &node);
  }
}

// ------------------------------------------------------------------------------------------------
// family 1: token strings
// ------------------------------------------------------------------------------------------------

pub const TOKENS: &[&str] = &[
  "if", "then", "else", "for", "in", "return", "some", "every", "satisfies", "and", "or", "between", "instance of", "not", "function", "true", "null", "(", ")", "[", "]", "{", "}", ",", ":", ".", "..", "+",
  "-", "*", "/", "**", "=", "<", ">=", "1", ".5", "\"s\"", "@\"2020-01-01\"", "a", "b c", "d-e", "item", "date", "x",
];

fn tokens_max_len(_tier: &str) -> u32 {
  3
}

/// thorough adds every string of length 4 over a core of 20 structural tokens and of length 5 over a core of 10
const CORE20: &[&str] = &["if", "then", "else", "for", "in", "return", "some", "satisfies", "between", "and", "not", "function", "(", ")", "[", "]", "{", ",", "..", "a", "."];
const CORE10: &[&str] = &["for", "in", "return", "if", "(", ")", "[", "..", "-", "a", "."];

/// Token strings are rendered with one space between the tokens at all entry points and both scopes, and with every other
/// choice of "space or nothing" in each gap (`in.a`, `1..5`, `a-b`, `for in.a`) at the expression and unary tests entry points.
fn token_classes(tier: &str) -> Vec<(&'static [&'static str], u32)> {
  let mut out: Vec<(&'static [&'static str], u32)> = (1..=tokens_max_len(tier)).map(|l| (TOKENS, l)).collect();
  if tier == "thorough" {
    out.push((CORE20, 4));
    out.push((CORE10, 5));
  }
  out
}

fn variants_per_string(len: u32) -> u64 {
  (ENTRY_POINTS.len() * 2) as u64 + 2 * ((1u64 << (len - 1)) - 1)
}

fn tokens_count(tier: &str) -> u64 {
  token_classes(tier).iter().map(|(a, l)| (a.len() as u64).pow(*l) * variants_per_string(*l)).sum()
}

fn tokens_case(tier: &str, idx: u64) -> (String, u64, u64) {
  let mut rest = idx;
  for (alphabet, len) in token_classes(tier) {
    let m = alphabet.len() as u64;
    let per = variants_per_string(len);
    let c = m.pow(len) * per;
    if rest >= c {
      rest -= c;
      continue;
    }
    let mut s = rest / per;
    let variant = rest % per;
    let mut toks = vec![];
    for _ in 0..len {
      toks.push(alphabet[(s % m) as usize]);
      s /= m;
    }
    let spaced = (ENTRY_POINTS.len() * 2) as u64;
    if variant < spaced {
      return (toks.join(" "), variant / 2, variant % 2);
    }
    // gap pattern 1.. : bit k set = no space in gap k; entry point expression (0) or unary tests (3), scope 1
    let v = variant - spaced;
    let pattern = v / 2 + 1;
    let entry = if v % 2 == 0 { 0 } else { 3 };
    let mut text = String::new();
    for (k, t) in toks.iter().enumerate() {
      if k > 0 && (pattern >> (k - 1)) & 1 == 0 {
        text.push(' ');
      }
      text.push_str(t);
    }
    return (text, entry, 1);
  }
  (String::new(), 0, 0)
}

// ------------------------------------------------------------------------------------------------
// family 2: every single edit of every expression harvested from the repository's tests
// ------------------------------------------------------------------------------------------------

const SUBSTITUTES: &[char] = &['"', '\\', '\n', '\0', '\u{FEFF}', '\u{00A0}', '\u{1F40E}', '\u{0301}', '.', '-', '(', '[', '{', ','];

/// Extracts string literals (ordinary and raw) from Rust source text.
pub fn harvest_literals(src: &str, out: &mut Vec<String>) {
  let b: Vec<char> = src.chars().collect();
  let mut i = 0;
  while i < b.len() {
    // raw string r#"..."#
    if b[i] == 'r' && i + 1 < b.len() && (b[i + 1] == '#' || b[i + 1] == '"') && (i == 0 || !b[i - 1].is_alphanumeric()) {
      let mut j = i + 1;
      let mut hashes = 0;
      while j < b.len() && b[j] == '#' {
        hashes += 1;
        j += 1;
      }
      if j < b.len() && b[j] == '"' {
        j += 1;
        let start = j;
        let mut end = None;
        while j < b.len() {
          if b[j] == '"' {
            let mut k = 0;
            while k < hashes && j + 1 + k < b.len() && b[j + 1 + k] == '#' {
              k += 1;
            }
            if k == hashes {
              end = Some(j);
              break;
            }
          }
          j += 1;
        }
        if let Some(e) = end {
          out.push(b[start..e].iter().collect());
          i = e + 1 + hashes;
          continue;
        }
      }
    }
    if b[i] == '\'' {
      // char literal or lifetime: skip 'x' and '\x'
      if i + 2 < b.len() && b[i + 2] == '\'' {
        i += 3;
        continue;
      }
      if i + 3 < b.len() && b[i + 1] == '\\' && b[i + 3] == '\'' {
        i += 4;
        continue;
      }
    }
    if b[i] == '"' {
      let mut j = i + 1;
      let mut s = String::new();
      while j < b.len() && b[j] != '"' {
        if b[j] == '\\' && j + 1 < b.len() {
          match b[j + 1] {
            'n' => s.push('\n'),
            't' => s.push('\t'),
            'r' => s.push('\r'),
            '"' => s.push('"'),
            '\\' => s.push('\\'),
            '0' => s.push('\0'),
            other => {
              s.push('\\');
              s.push(other)
            }
          }
          j += 2;
        } else {
          s.push(b[j]);
          j += 1;
        }
      }
      out.push(s);
      i = j + 1;
      continue;
    }
    if b[i] == '/' && i + 1 < b.len() && b[i + 1] == '/' {
      while i < b.len() && b[i] != '\n' {
        i += 1;
      }
      continue;
    }
    i += 1;
  }
}

fn walk(dir: &str, files: &mut Vec<String>) {
  if let Ok(rd) = std::fs::read_dir(dir) {
    let mut entries: Vec<_> = rd.flatten().map(|e| e.path()).collect();
    entries.sort();
    for p in entries {
      if p.is_dir() {
        walk(p.to_str().unwrap(), files);
      } else if p.extension().map(|e| e == "rs").unwrap_or(false) {
        files.push(p.to_str().unwrap().to_string());
      }
    }
  }
}

pub fn harvest(tier: &str) -> Vec<String> {
  let mut files = vec![];
  for d in ["/repo/feel-evaluator/src/tests", "/repo/feel-parser/src/tests"] {
    walk(d, &mut files);
  }
  let mut lits = vec![];
  for f in &files {
    if let Ok(src) = std::fs::read_to_string(f) {
      harvest_literals(&src, &mut lits);
    }
  }
  let mut seen = std::collections::BTreeSet::new();
  let mut out = vec![];
  for l in lits {
    let n = l.chars().count();
    // expression-like texts only: not the AST dumps / error messages the tests compare with
    if n == 0 || n > 120 || l.contains('\n') && l.trim_start().starts_with(|c: char| c.is_uppercase() || c == '└' || c == '├') || l.contains("└─") {
      continue;
    }
    if seen.insert(l.clone()) {
      out.push(l);
    }
  }
  if tier != "thorough" {
    // quick: the texts of up to 22 characters
    out.retain(|l| l.chars().count() <= 22);
  }
  out
}

struct Edits {
  seeds: Vec<Vec<char>>,
  /// prefix sums of the number of edits per seed
  offsets: Vec<u64>,
}

fn edits_per_seed(len: u64) -> u64 {
  // delete, duplicate, transpose at every position + each substitute at every position + insert each substitute at every gap
  len * 3 + len * SUBSTITUTES.len() as u64 + (len + 1) * SUBSTITUTES.len() as u64 + 1
}

impl Edits {
  fn new(tier: &str) -> Edits {
    let seeds: Vec<Vec<char>> = harvest(tier).into_iter().map(|s| s.chars().collect()).collect();
    let mut offsets = vec![0u64];
    for s in &seeds {
      let last = *offsets.last().unwrap();
      offsets.push(last + edits_per_seed(s.len() as u64));
    }
    Edits { seeds, offsets }
  }
  fn count(&self) -> u64 {
    *self.offsets.last().unwrap() * 2
  }
  fn case(&self, idx: u64) -> (String, u64) {
    let scope_kind = idx % 2;
    let e = idx / 2;
    let si = match self.offsets.binary_search(&e) {
      Ok(i) => i.min(self.seeds.len() - 1),
      Err(i) => i - 1,
    };
    let seed = &self.seeds[si];
    let mut k = e - self.offsets[si];
    let len = seed.len() as u64;
    let ns = SUBSTITUTES.len() as u64;
    let mut out: Vec<char> = seed.clone();
    if k == 0 {
      return (out.into_iter().collect(), scope_kind); // the seed itself
    }
    k -= 1;
    if k < len {
      out.remove(k as usize);
    } else if k < 2 * len {
      let p = (k - len) as usize;
      let c = out[p];
      out.insert(p, c);
    } else if k < 3 * len {
      let p = (k - 2 * len) as usize;
      if p + 1 < out.len() {
        out.swap(p, p + 1);
      }
    } else if k < 3 * len + len * ns {
      let r = k - 3 * len;
      out[(r / ns) as usize] = SUBSTITUTES[(r % ns) as usize];
    } else {
      let r = k - 3 * len - len * ns;
      out.insert((r / ns) as usize, SUBSTITUTES[(r % ns) as usize]);
    }
    (out.into_iter().collect(), scope_kind)
  }
}

// ------------------------------------------------------------------------------------------------
// family 3: nesting towers
// ------------------------------------------------------------------------------------------------

const TOWERS: &[(&str, &str, &str, &str)] = &[
  // (name, opening repeated, core, closing repeated)
  ("parentheses", "(", "1", ")"),
  ("lists", "[", "1", "]"),
  ("contexts", "{a: ", "1", "}"),
  ("negation", "-", "1", ""),
  ("negation-spaced", "- ", "a", ""),
  ("if-else-chain", "if false then 0 else ", "1", ""),
  ("if-condition-chain", "if ", "true", " then true else false"),
  ("filters", "", "[1]", "[1]"),
  ("paths", "", "{a: 1}", ".a"),
  ("invocations", "(function(p) ", "1", ")(1)"),
  ("for-in-for", "for i in [1] return ", "i", ""),
  ("some-in-some", "some i in [true] satisfies ", "i", ""),
  ("function-literals", "function(p) ", "p", ""),
  ("additions", "1 + ", "1", ""),
  ("exponent", "2 ** ", "1", ""),
  ("not-calls", "not(", "true", ")"),
  ("list-of-contexts", "[{a: ", "1", "}]"),
  ("in-chain", "1 in ", "[1]", ""),
  ("between-chain", "", "1", " between 0 and 2"),
  ("instance-of-chain", "", "1", " instance of number"),
  ("unary-tests", "not(", "1", ")"),
];

fn tower_depths(tier: &str) -> Vec<u64> {
  if tier == "thorough" {
    (1..=200).collect()
  } else {
    (1..=24).chain((30..=200).step_by(10)).collect()
  }
}

fn towers_count(tier: &str) -> u64 {
  TOWERS.len() as u64 * tower_depths(tier).len() as u64 * 2
}

fn towers_case(tier: &str, idx: u64) -> (String, u64, String) {
  let depths = tower_depths(tier);
  let nd = depths.len() as u64;
  let scope_kind = idx % 2;
  let t = (idx / 2) / nd;
  let depth = depths[((idx / 2) % nd) as usize];
  let (name, open, core, close) = TOWERS[t as usize];
  let text = format!("{}{}{}", open.repeat(depth as usize), core, close.repeat(depth as usize));
  (text, scope_kind, format!("{} depth {}", name, depth))
}

// ------------------------------------------------------------------------------------------------
// family 4: built-in functions x extreme argument tuples
// ------------------------------------------------------------------------------------------------

pub fn bif_names() -> Vec<String> {
  let src = std::fs::read_to_string("/repo/feel/src/bif.rs").unwrap_or_default();
  let mut out = vec![];
  for line in src.lines() {
    let l = line.trim();
    if l.starts_with('"') && l.contains("=> Ok(Self::") {
      if let Some(end) = l[1..].find('"') {
        out.push(l[1..1 + end].to_string());
      }
    }
  }
  out.sort();
  out.dedup();
  out
}

/// FEEL texts building the extreme values (built once per child, each under catch_unwind).
pub const EXTREMES: &[&str] = &[
  "null",
  "true",
  "0",
  "1",
  "-1",
  "0.5",
  "1.0",
  "9223372036854775808",
  "18446744073709551616",
  "number(\"9999999999999999999999999999999999E6111\")",
  "number(\"-9999999999999999999999999999999999E6111\")",
  "number(\"1E-6176\")",
  "\"\"",
  "\"a\"",
  "\"\u{1F40E}\"",
  "\"a\u{1F40E}b\u{00E9}\"",
  "\"(\"",
  "[]",
  "[1]",
  "[[[[[[[[[[[[[[[[[[[[[[[[[[[[[[[[[[[[[[[[[[[[[[[[[[1]]]]]]]]]]]]]]]]]]]]]]]]]]]]]]]]]]]]]]]]]]]]]]]]]]",
  "{}",
  "date(\"-999999999-01-01\")",
  "date(\"999999999-12-31\")",
  "time(\"23:59:59.999999999+14:00\")",
  "date and time(\"2021-03-28T02:30:00@Europe/Warsaw\")",
  "date and time(\"2021-10-31T02:30:00@Europe/Warsaw\")",
  "duration(\"P999999999DT23H59M59.999999999S\")",
  "duration(\"-P999999999Y11M\")",
  "[1..2]",
  "function(p) p",
  // 30.. : added after the round-4 review (values that only operators, properties and 4-argument built-ins reach)
  "duration(\"P2D\")",
  "duration(\"-PT14H1M\")",
  "duration(\"P106751DT23H47M16.854775807S\")",
  "duration(\"-P106751DT23H47M16.854775808S\")",
  "duration(\"P9223372036854775807M\")",
  "duration(\"-P9223372036854775807M\")",
  "duration(\"P1M\")",
  "time(\"02:30:00@Europe/Warsaw\")",
  "time(\"00:00:00\")",
  "date and time(\"999999999-12-31T23:59:59.999999999+14:00\")",
  "date and time(\"-999999999-01-01T00:00:00-14:00\")",
  "date and time(\"2021-03-28T01:30:00\")",
  "date(\"2021-03-28\")",
  "[date(\"2021-01-01\")..date(\"2021-12-31\")]",
  "{a: 1, b: [null]}",
  "[null, 1, \"a\", [2]]",
  "(function(a: number, b) a)",
  "2",
  "time(10, 0, 0, duration(\"P2D\"))",
  "time(10, 0, 0, duration(\"-PT23H59M59S\"))",
  "date and time(\"2021-10-31T02:30:00@Europe/Warsaw\") + duration(\"PT1H\")",
  "date and time(date(\"2021-03-28\"), time(\"02:30:00@Europe/Warsaw\"))",
  // numbers that are not finite (the arithmetic lets them escape, see the C02 findings): no consumer may crash on them
  "decimal(1000000000000000000000000000000.5, 10)",
  "exp(99999)",
  "-exp(99999)",
  // the largest values of the machine integer types as numbers (positions, lengths, counts)
  "18446744073709551615",
  "9223372036854775807",
  "4294967295",
  "2147483647",
  // a list long enough for the library's merge sort, with items that are not ordered with the others
  "for i in 1..45 return if modulo(i, 3) = 0 then decimal(1000000000000000000000000000000.5, 10) else 50 - i",
  // the zero with a sign, which no literal denotes: it is neither positive nor negative, and its text is not a machine integer's
  "0 * -1",
  // the smallest negative values of the machine integer types
  "-2147483648",
  "-9223372036854775808",
];

fn build_extremes(results: &mut std::fs::File) -> Vec<Value> {
  let mut out = vec![];
  for (i, t) in EXTREMES.iter().enumerate() {
    let r = std::panic::catch_unwind(|| {
      let scope = Scope::default();
      match parse_expression(&scope, t, false) {
        Ok(n) => evaluate(&scope, &n).unwrap_or(Value::Null(None)),
        Err(_) => Value::Null(None),
      }
    });
    match r {
      Ok(v) => out.push(v),
      Err(_) => {
        let line = json!({"kind":"panic","idx":i,"message":"building the argument value panics","case":{"family":"bif-arguments","text":t}});
        let _ = writeln!(results, "{}", line);
        out.push(Value::Null(None));
      }
    }
  }
  // the numbers `number("..E6111")` may not be accepted by number(): build them directly
  for (i, t) in [(9usize, "9999999999999999999999999999999999E6111"), (10, "-9999999999999999999999999999999999E6111"), (11, "1E-6176")] {
    assert!(EXTREMES[i].starts_with("number("));
    if let Ok(n) = t.parse::<FeelNumber>() {
      out[i] = Value::Number(n);
    }
  }
  out
}

fn bif_max_arity(tier: &str) -> u32 {
  if tier == "thorough" {
    3
  } else {
    2
  }
}

/// quick: arity 0..2 over all values, arity 3 over a 9-value core; thorough: arity 0..3 over all values, arity 4 over the core
const CORE: &[usize] = &[0, 2, 4, 6, 9, 13, 15, 18, 21, 30, 34, 24, 37, 52, 53, 55, 56];

/// quick only: arity 4 over a 7-value core (a number, null, a string, a small duration, a date-time in a daylight-saving gap,
/// a time in a named zone, a date), so that 4-argument forms such as time(h, m, s, offset) are reached on every change
const CORE4: &[usize] = &[0, 3, 13, 30, 24, 37, 21, 52, 53];

fn bif_tuples(tier: &str) -> u64 {
  let n = EXTREMES.len() as u64;
  let c = CORE.len() as u64;
  let full: u64 = (0..=bif_max_arity(tier)).map(|a| n.pow(a)).sum();
  full + c.pow(bif_max_arity(tier) + 1) + if tier == "thorough" { 0 } else { (CORE4.len() as u64).pow(4) }
}

fn bif_case(tier: &str, names: &[String], idx: u64) -> (String, Vec<usize>) {
  let per = bif_tuples(tier);
  let name = &names[(idx / per) as usize];
  let mut t = idx % per;
  let n = EXTREMES.len() as u64;
  let mut args: Vec<usize> = vec![];
  let mut arity = 0;
  let mut found = false;
  while arity <= bif_max_arity(tier) {
    let c = n.pow(arity);
    if t < c {
      for _ in 0..arity {
        args.push((t % n) as usize);
        t /= n;
      }
      found = true;
      break;
    }
    t -= c;
    arity += 1;
  }
  if !found {
    let c = CORE.len() as u64;
    if t < c.pow(arity) {
      for _ in 0..arity {
        args.push(CORE[(t % c) as usize]);
        t /= c;
      }
    } else {
      t -= c.pow(arity);
      let c4 = CORE4.len() as u64;
      for _ in 0..4 {
        args.push(CORE4[(t % c4) as usize]);
        t /= c4;
      }
    }
  }
  let text = format!("{}({})", name, args.iter().map(|a| format!("v{}", a)).collect::<Vec<_>>().join(", "));
  (text, args)
}

// ------------------------------------------------------------------------------------------------
// family 6: operators, properties, typed parameters and conversions over the extreme values
// ------------------------------------------------------------------------------------------------

/// (number of operand places, template); `#0 #1 #2` are replaced by the names of extreme values
pub fn operator_templates() -> Vec<(u32, String)> {
  let mut out: Vec<(u32, String)> = vec![];
  for op in ["+", "-", "*", "/", "**", "=", "!=", "<", "<=", ">", ">=", "and", "or", "in"] {
    out.push((2, format!("#0 {} #1", op)));
  }
  for t in [
    "#0[#1]", "#0 in [#0..#1]", "#0 in (#1..#0)", "[#0..#1]", "#0 in (< #1)", "#0 in (>= #1)", "[#0, #1][item < #0]", "[#0, #1][item = #1]", "{a: #0, b: a + #1}", "for i in #0 return i + #1",
    "some i in #0 satisfies i = #1", "every i in #0 satisfies i < #1", "#0(#1)", "#0(a: #1)", "[#0, #1] = [#1, #0]", "{k: #0} = {k: #1}", "sort([#0, #1], function(x, y) x < y)", "min(#0, #1)", "max([#0, #1])", "string(#0) + string(#1)",
  ] {
    out.push((2, t.to_string()));
  }
  for t in ["#0 between #1 and #2", "if #0 then #1 else #2", "#2 in [#0..#1]", "#0 + #1 - #2", "#0 - #1 = #2", "(#0 - #1) / #2", "#0 + #1 < #2", "[#0..#1] = [#0..#2]", "#0 in (#1, #2)"] {
    out.push((3, t.to_string()));
  }
  out.push((1, "-#0".to_string()));
  out.push((1, "- - #0".to_string()));
  out.push((1, "#0 + #0".to_string()));
  out.push((1, "#0 - #0".to_string()));
  out.push((1, "#0 = #0".to_string()));
  out.push((1, "#0 < #0".to_string()));
  out.push((1, "string(#0)".to_string()));
  out.push((1, "[#0][1]".to_string()));
  out.push((1, "#0[1]".to_string()));
  out.push((1, "#0[-1]".to_string()));
  out.push((1, "#0[0]".to_string()));
  out.push((1, "#0[true]".to_string()));
  out.push((1, "#0()".to_string()));
  for prop in [
    "year", "month", "day", "weekday", "hour", "minute", "second", "time offset", "timezone", "days", "hours", "minutes", "seconds", "years", "months", "start", "end", "start included", "end included", "a", "b", "k",
  ] {
    out.push((1, format!("#0.{}", prop)));
    out.push((1, format!("[#0].{}", prop)));
  }
  for ty in [
    "number", "string", "boolean", "date", "time", "date and time", "days and time duration", "years and months duration", "Any", "Null", "list<number>", "list<Any>", "range<number>", "range<date>", "context<a: number>",
    "function<number>->number",
  ] {
    out.push((1, format!("#0 instance of {}", ty)));
    out.push((1, format!("(function(p: {}) p)(#0)", ty)));
    out.push((1, format!("(function(p: {}) p)(p: #0)", ty)));
    out.push((1, format!("(function(q, p: {}) [p, q])(#0, #0)", ty)));
  }
  out
}

fn operators_count(templates: &[(u32, String)]) -> u64 {
  let n = EXTREMES.len() as u64;
  templates.iter().map(|(a, _)| n.pow(*a)).sum()
}

fn operators_case(templates: &[(u32, String)], idx: u64) -> (String, Vec<usize>) {
  let n = EXTREMES.len() as u64;
  let mut t = idx;
  for (a, tpl) in templates {
    let c = n.pow(*a);
    if t < c {
      let mut args = vec![];
      let mut text = tpl.clone();
      for k in 0..*a {
        let v = (t % n) as usize;
        t /= n;
        args.push(v);
        text = text.replace(&format!("#{}", k), &format!("v{}", v));
      }
      return (text, args);
    }
    t -= c;
  }
  (String::new(), vec![])
}

// ------------------------------------------------------------------------------------------------
// family 5: iteration
// ------------------------------------------------------------------------------------------------

pub fn iteration_cases() -> Vec<String> {
  let mut out = vec![];
  // string escapes at the boundaries of the UTF-16 surrogate ranges and of the code space: every single escape,
  // every ordered pair and every triple of \u forms over the boundary code units, and the long \U forms
  let units = ["0000", "0041", "D7FF", "D800", "DBFF", "DC00", "DFFF", "E000", "FFFF"];
  for a in units {
    out.push(format!("\"\\u{}\"", a));
    out.push(format!("string length(\"x\\u{}\")", a));
    for b in units {
      out.push(format!("\"\\u{}\\u{}\"", a, b));
      out.push(format!("{{k: \"\\u{}\\u{}\"}}", a, b));
      for c in units {
        out.push(format!("\"\\u{}\\u{}\\u{}\"", a, b, c));
      }
    }
  }
  for long in ["000000", "00D800", "00DFFF", "010000", "10FFFF", "110000", "FFFFFF", "00000000", "0010FFFF", "FFFFFFFF"] {
    out.push(format!("\"\\U{}\"", long));
    out.push(format!("\"\\U{}\\uDC00\"", long));
    out.push(format!("\"\\uD800\\U{}\"", long));
  }
  for bad in ["\\u", "\\u1", "\\u12", "\\u123", "\\uD800\\u", "\\uD800\\uDC", "\\uZZZZ", "\\U", "\\U12345", "\\x41", "\\"] {
    out.push(format!("\"{}\"", bad));
    out.push(format!("\"a{}", bad));
  }
  let sizes = [0, 1, 2, 16, 64];
  for a in sizes {
    for b in sizes {
      out.push(format!("for i in 1..{}, j in 1..{} return i * j", a.max(1), b.max(1)));
      out.push(format!("some i in (for k in 1..{} return k), j in (for k in 1..{} return k) satisfies i > j", a.max(1), b.max(1)));
      out.push(format!("every i in (for k in 1..{} return k), j in (for k in 1..{} return k) satisfies i + j > 0", a.max(1), b.max(1)));
      for c in [1, 16] {
        if a.max(1) * b.max(1) * c <= 4096 {
          out.push(format!("for i in 1..{}, j in 1..{}, k in 1..{} return [i, j, k]", a.max(1), b.max(1), c));
        }
      }
    }
  }
  let bounds = [
    "0", "1", "-1", "1.5", "3.5", "0.5", "-0.5", "9223372036854775806", "9223372036854775807", "9223372036854775808", "-9223372036854775807", "-9223372036854775808", "-9223372036854775809", "1E30", "-1E30", "null", "\"a\"",
    "true", "[1]", "1E-6176",
  ];
  for a in bounds {
    for b in bounds {
      // only ranges that cannot be legitimately long-running
      let near = |x: &str, y: &str| -> bool {
        let px = x.parse::<f64>();
        let py = y.parse::<f64>();
        match (px, py) {
          (Ok(p), Ok(q)) => (p - q).abs() < 5000.0,
          _ => true,
        }
      };
      if near(a, b) {
        out.push(format!("for i in {}..{} return i", a, b));
        out.push(format!("for i in {}..{}, j in [1, 2] return [i, j]", a, b));
        out.push(format!("for j in [1, 2], i in {}..{} return partial", a, b));
      }
    }
  }
  // temporal literals and constructor calls whose components sit at the limits of the integer types
  {
    let limits = [
      "0", "1", "12", "13", "24", "60", "61", "999999999", "1000000000", "2147483647", "2147483648", "4294967295", "4294967296", "768614336404564650", "768614336404564651", "9223372036854775807", "9223372036854775808",
      "18446744073709551615", "18446744073709551616", "1000000000000000000000000000000",
    ];
    for n in limits {
      for sign in ["", "-"] {
        for t in [
          format!("P{}Y", n), format!("P{}M", n), format!("P{}Y{}M", n, n), format!("P1Y{}M", n), format!("P{}Y1M", n), format!("P{}D", n), format!("PT{}H", n), format!("PT{}M", n), format!("PT{}S", n), format!("PT0.{}S", n),
          format!("P{}DT{}H{}M{}S", n, n, n, n), format!("PT{}.{}S", n, n),
        ] {
          out.push(format!("duration(\"{}{}\")", sign, t));
          out.push(format!("@\"{}{}\"", sign, t));
          out.push(format!("string(duration(\"{}{}\")) + string(- duration(\"{}{}\")) + string(duration(\"{}{}\") * 2)", sign, t, sign, t, sign, t));
        }
        for t in [
          format!("date(\"{}{}-01-01\")", sign, n), format!("date(\"2020-{}-01\")", n), format!("date(\"2020-01-{}\")", n), format!("date({}{}, 1, 1)", sign, n), format!("date(2020, {}{}, 1)", sign, n), format!("date(2020, 1, {}{})", sign, n),
          format!("time({}{}, 0, 0)", sign, n), format!("time(0, {}{}, 0)", sign, n), format!("time(0, 0, {}{})", sign, n), format!("time(0, 0, 0.{})", n), format!("time(\"{}:00:00\")", n), format!("time(\"00:{}:00\")", n),
          format!("time(\"00:00:{}\")", n), format!("time(\"00:00:00.{}\")", n), format!("time(\"10:00:00{}{}:00\")", if sign.is_empty() { "+" } else { "-" }, n), format!("time(\"10:00:00+00:{}\")", n),
          format!("time(10, 0, 0, duration(\"{}PT{}H\"))", sign, n), format!("time(10, 0, 0, duration(\"{}PT{}S\"))", sign, n), format!("date and time(\"{}{}-01-01T00:00:00\")", sign, n),
          format!("date and time(\"2020-01-01T{}:00:00\")", n), format!("date and time(\"2020-01-01T00:00:00+{}:00\")", n), format!("date and time(date(\"2020-01-01\"), time(10, 0, 0, duration(\"{}PT{}H\")))", sign, n),
          format!("date(\"2020-01-31\") + duration(\"{}P{}M\")", sign, n), format!("date(\"2020-01-31\") + duration(\"{}P{}D\")", sign, n), format!("date and time(\"2020-01-31T00:00:00\") + duration(\"{}P{}M\")", sign, n),
          format!("date and time(\"2020-01-31T00:00:00@Europe/Warsaw\") + duration(\"{}PT{}S\")", sign, n), format!("time(\"10:00:00\") + duration(\"{}PT{}S\")", sign, n),
          format!("years and months duration(date(\"{}{}-01-01\"), date(\"2020-01-01\"))", sign, n), format!("duration(\"P1D\") * {}{}", sign, n), format!("duration(\"P1M\") * {}{}", sign, n), format!("duration(\"P{}M\") / 0.001", n),
          format!("duration(\"P{}D\") / duration(\"PT0.000000001S\")", n),
        ] {
          out.push(t.clone());
          out.push(format!("{} = {}", t, t));
          out.push(format!("string({})", t));
        }
      }
    }
  }
  // binder names made of the keyword `in`, ordinary words and the additional name symbols, with and without spaces
  {
    let parts = ["in", "a", "item", "x"];
    let seps = [".", "-", "+", "*", "/", "'", " ", "", " . ", "- "];
    let mut names: Vec<String> = parts.iter().map(|p| p.to_string()).collect();
    for a in parts {
      for s1 in seps {
        for b in parts {
          names.push(format!("{}{}{}", a, s1, b));
          for s2 in seps {
            for c in ["in", "a"] {
              names.push(format!("{}{}{}{}{}", a, s1, b, s2, c));
            }
          }
        }
      }
    }
    for n in &names {
      out.push(format!("for {} in [1] return 1", n));
      out.push(format!("some {} in [1] satisfies true", n));
      out.push(format!("for i in [1], {} in [2] return i", n));
      out.push(format!("{{{}: 1}}", n));
      out.push(format!("function({}) 1", n));
    }
  }
  for t in [
    "for in in [1] return 1",
    "for in in in return in",
    "some in in [1] satisfies true",
    "every in in [true] satisfies in",
    "for x in in return 1",
    "for i in [1] return in",
    "for i in in [1] return 1",
    "for  in [1] return 1",
    "for i j in k in [1] return i",
    "some in satisfies in",
    "for in",
    "for in in",
    "some in in",
    "for item in [1] return item",
    "for partial in [1, 2] return partial",
    "for i in [1, 2] return partial[-1]",
    "for i in [] return partial[0]",
    "for i in [1, 2, 3] return sum(partial) + i",
    "for i in [[1]], j in i return j",
    // sort with a precedes function that is no strict order, on lists longer than the library's small-slice threshold
    "sort(for i in 1..60 return i, function(x, y) true)",
    "sort(for i in 1..60 return 60 - i, function(x, y) false)",
    "sort(for i in 1..60 return modulo(i * 7, 60), function(x, y) x != y)",
    "sort(for i in 1..60 return modulo(i * 7, 60), function(x, y) modulo(x + y, 3) = 0)",
    "sort(for i in 1..60 return modulo(i * 7, 60), function(x, y) null)",
    "sort(for i in 1..60 return if modulo(i, 3) = 0 then null else i, function(x, y) x < y)",
    // precedes functions that contradict themselves, on lists of 20 .. 120 items (every residue pattern of a linear form)
    "sort(for i in 1..24 return modulo(i * 7919, 101), function(a, b) modulo(a * 7 + b * 13, 3) = 0)",
    "sort(for i in 1..50 return modulo(i * 7919, 101), function(a, b) modulo(a * 7 + b * 13, 3) = 0)",
    "sort(for i in 1..120 return modulo(i * 7919, 101), function(a, b) modulo(a * 7 + b * 13, 3) = 0)",
    "sort(for i in 1..24 return modulo(i * 7919, 101), function(a, b) modulo(a + 2 * b, 3) = 1)",
    "sort(for i in 1..33 return modulo(i * 31, 17), function(a, b) modulo(a * b, 2) = 0)",
    "sort(for i in 1..64 return modulo(i * 31, 17), function(a, b) a < b or modulo(a + b, 5) = 0)",
    "sort(for i in 1..21 return i, function(a, b) modulo(a + b, 2) = 1)",
    "sort(for i in 1..40 return modulo(i * 13, 7), function(a, b) a >= b)",
    "sort(for i in 1..40 return [modulo(i * 13, 7), i], function(a, b) a[1] <= b[1])",
    // a chain of entries each made of the one before, for every operator and built-in that reports its operands: what an
    // error value carries along must not grow without bound
    // a chain of entries each made of the one before: what an error value carries along must not grow without bound
    "{a00: 1 / \"x\", a01: a00 / a00, a02: a01 / a01, a03: a02 / a02, a04: a03 / a03, a05: a04 / a04, a06: a05 / a05, a07: a06 / a06, a08: a07 / a07, a09: a08 / a08, a10: a09 / a09, a11: a10 / a10, a12: a11 / a11, a13: a12 / a12, a14: a13 / a13, a15: a14 / a14, a16: a15 / a15, a17: a16 / a16, a18: a17 / a17, a19: a18 / a18, a20: a19 / a19, a21: a20 / a20, a22: a21 / a21, a23: a22 / a22, a24: a23 / a23, a25: a24 / a24, a26: a25 / a25, a27: a26 / a26, a28: a27 / a27, a29: a28 / a28}.a29",
    // a value grown by applying an operator to the result of the step before, far beyond what a literal can denote
    "for i in 1..40 return if i = 1 then @\"P18446744073709551615D\" else partial[-1] + partial[-1]",
    "for i in 1..40 return if i = 1 then @\"-P18446744073709551615D\" else partial[-1] + partial[-1]",
    "for i in 1..40 return if i = 1 then @\"P18446744073709551615DT23H59M59.999999999S\" else partial[-1] - (-partial[-1])",
    "for i in 1..40 return if i = 1 then @\"-P18446744073709551615D\" else -(partial[-1] + partial[-1])",
    "(for i in 1..40 return if i = 1 then @\"P18446744073709551615D\" else partial[-1] + partial[-1])[-1].days",
    "string((for i in 1..40 return if i = 1 then @\"P18446744073709551615D\" else partial[-1] + partial[-1])[-1])",
    "for i in 1..70 return if i = 1 then @\"P9223372036854775807M\" else partial[-1] + partial[-1]",
    "for i in 1..70 return if i = 1 then @\"P999999999Y\" else partial[-1] + partial[-1]",
    "for i in 1..40 return if i = 1 then 9E6144 else partial[-1] * partial[-1]",
    "for i in 1..40 return if i = 1 then 1E-6143 else partial[-1] * partial[-1]",
    "for i in 1..40 return if i = 1 then date and time(\"999999999-12-31T23:59:59Z\") else partial[-1] + @\"P18446744073709551615D\"",
    "for i in 1..40 return if i = 1 then date(\"999999999-12-31\") else partial[-1] + @\"P999999999Y\"",
    // a difference / sum / opposite at the limit of what a duration holds, then printed, taken apart and made absolute
    "string(@\"-P1000000000000000000000000D\" - @\"P1000000000000000000000000D\")",
    "(@\"-P1000000000000000000000000D\" - @\"P1000000000000000000000000D\").days",
    "abs(@\"-P1000000000000000000000000D\" - @\"P1000000000000000000000000D\")",
    "string(@\"-PT170141183460469231731687303715.884105727S\" - @\"PT0.000000001S\")",
    "string(-(@\"-PT170141183460469231731687303715.884105727S\" - @\"PT0.000000001S\"))",
    "string(@\"-P1000000000000000000000000D\" + @\"-P1000000000000000000000000D\")",
    "[(@\"-P1000000000000000000000000D\" + @\"-P1000000000000000000000000D\").hours, (@\"P1000000000000000000000000D\" - @\"-P1000000000000000000000000D\").seconds]",
    "string(@\"-P9223372036854775807M\" - @\"P1M\")",
    "string(@\"P9223372036854775807M\" - @\"-P9223372036854775807M\")",
    "(@\"-P9223372036854775807M\" + @\"-P1M\").years",
    // recursion of a user-defined function: bounded depths, and without a base case
    "{f: function(n) if n <= 0 then 0 else 1 + f(n - 1), r: f(10)}.r",
    "{f: function(n) if n <= 0 then 0 else 1 + f(n - 1), r: f(100)}.r",
    "{f: function(n) if n <= 0 then 0 else 1 + f(n - 1), r: f(200)}.r",
    "{f: function(n) if n <= 0 then 0 else g(n - 1), g: function(n) f(n), r: f(200)}.r",
    "{f: function(n) f(n + 1), r: f(1)}.r",
  ] {
    out.push(t.to_string());
  }
  // chains of 32 entries, each made of the entry before it, for every operator and built-in that answers a wrong operand with
  // a null that reports its operands
  for template in [
    "after(_, _)", "before(_, _)", "coincides(_, _)", "meets(_, _)", "met by(_, _)", "overlaps(_, _)", "includes(_, _)", "during(_, _)", "starts(_, _)", "finishes(_, _)", "_ + _", "_ - _", "_ * _", "_ ** _", "_ < _", "_ >= _", "_ = _",
    "_ != _", "_ and _", "_ or _", "_ between _ and _", "_ in [_.._]", "substring(_, _)", "contains(_, _)", "matches(_, _)", "replace(_, _, _)", "min(_, _)", "max(_, _)", "sum(_, _)", "mean(_, _)", "decimal(_, _)", "modulo(_, _)",
    "number(_, _, _)", "date(_, _, _)", "time(_, _, _)", "date and time(_, _)", "duration(_)", "years and months duration(_, _)", "string length(_)", "abs(_)", "sqrt(_)", "-_", "not(_)", "get value(_, _)", "sublist(_, _)", "append(_, _)[1]",
    "index of(_, _)", "list contains(_, _)", "_[_]", "_._", "if _ then _ else _", "_ instance of number", "is(_, _)",
    // the same with the entry before as an item of a list or an entry of a context
    "after([_], [_])", "coincides({k: _}, _)", "[_] + [_]", "[_] - [_]", "[_] * [_]", "[_] / [_]", "[_] ** [_]", "{k: _} - {k: [_]}", "[_] < [_]", "[_] = {k: _}", "[_] between [_] and [_]", "substring([_], [_])", "abs([_])",
    "date([_], [_], [_])", "decimal([_], [_])", "sum([_], [_])", "-[_]", "not([_])", "[_] and [_]", "if [_] then 1 else 2", "[_] in [[_]..[_]]", "[_] instance of number",
    // the entry before twice in one operand: as two items, as two entries, as both end points of a range, and as a value
    // that is invoked or asked for a member
    "decimal(1, [_, _])", "decimal([_, _], 1)", "[_, _](1)", "[_, _](p: 1)", "{k: _, l: _}.zz", "[{k: _, l: _}].zz", "[_.._] - 1", "[_.._] + [_.._]", "-[_.._]", "[_.._] = 1", "[_.._] < 1", "after([_.._], 1)", "[_, _][{k: _}]",
    "[_, _] instance of number", "abs([_, _])", "string length({k: _, l: _})", "substring([_, _], [_, _])", "date({k: _, l: _})", "time([_, _])", "duration([_, _])", "number([_, _], \".\", \",\")", "get value({k: _, l: _}, \"zz\")",
    "get value([_, _], \"k\")", "sublist([_, _], 5)", "[_, _][5]", "if [_, _] then 1 else 2", "1 in [_, _][1]", "sort([_, _], [_, _])", "sort([_, _], function(a, b) [_, _])[1]", "mean([_, _])", "sum([[_, _]])", "min([_, _], [_, _])",
    "modulo([_, _], 1)", "[_, _] ** 2", "[_, _] between 1 and 2", "1 between [_, _] and 2", "not([_, _])", "is([_, _], 1)", "{k: _, l: _} / 2", "2 / {k: _, l: _}", "[_.._] / 2", "[_.._] * 2", "[_.._] ** 2", "[_.._] and true",
    "[_.._] instance of number", "abs([_.._])", "decimal([_.._], 1)", "[_.._].zz", "[_.._](1)", "[_.._][{k: _}]", "(function(x: number) x)([_, _])", "(function(x) -> number [_, _])(1)[1]",
  ] {
    let mut text = String::from("{a00: 1 / \"x\"");
    for k in 1..32 {
      let prev = format!("a{:02}", k - 1);
      text.push_str(&format!(", a{:02}: {}", k, template.replace("._", &format!(".{}", prev)).replace('_', &prev)));
    }
    text.push_str("}.a31");
    out.push(text);
  }
  out
}

// ------------------------------------------------------------------------------------------------
// worker and parent
// ------------------------------------------------------------------------------------------------

pub const FAMILIES: &[&str] = &["tokens", "edits", "towers", "bifs", "iteration", "operators"];

struct Ctx {
  tier: String,
  edits: Option<Edits>,
  bifs: Vec<String>,
  iteration: Vec<String>,
  operators: Vec<(u32, String)>,
}

fn family_count(family: &str, ctx: &Ctx) -> u64 {
  match family {
    "tokens" => tokens_count(&ctx.tier),
    "edits" => ctx.edits.as_ref().map(|e| e.count()).unwrap_or(0),
    "towers" => towers_count(&ctx.tier),
    "bifs" => ctx.bifs.len() as u64 * bif_tuples(&ctx.tier),
    "iteration" => ctx.iteration.len() as u64 * 2,
    "operators" => operators_count(&ctx.operators),
    _ => 0,
  }
}

fn family_describe(family: &str, ctx: &Ctx, idx: u64) -> J {
  match family {
    "tokens" => {
      let (text, entry, scope) = tokens_case(&ctx.tier, idx);
      json!({"family":family,"text":text,"entry_point":ENTRY_POINTS[entry as usize],"scope":scope})
    }
    "edits" => {
      let (text, scope) = ctx.edits.as_ref().unwrap().case(idx);
      json!({"family":family,"text":text,"entry_point":"expression","scope":scope})
    }
    "towers" => {
      let (text, scope, what) = towers_case(&ctx.tier, idx);
      json!({"family":family,"text":text,"tower":what,"entry_point":"expression","scope":scope})
    }
    "bifs" => {
      let (text, args) = bif_case(&ctx.tier, &ctx.bifs, idx);
      json!({"family":family,"text":text,"arguments":args.iter().map(|a| EXTREMES[*a].chars().take(60).collect::<String>()).collect::<Vec<_>>()})
    }
    "iteration" => json!({"family":family,"text":ctx.iteration[(idx / 2) as usize],"scope":idx % 2}),
    "operators" => {
      let (text, args) = operators_case(&ctx.operators, idx);
      json!({"family":family,"text":text,"arguments":args.iter().map(|a| EXTREMES[*a].chars().take(60).collect::<String>()).collect::<Vec<_>>()})
    }
    _ => J::Null,
  }
}

fn make_ctx(family: &str, tier: &str) -> Ctx {
  Ctx {
    tier: tier.to_string(),
    edits: if family == "edits" { Some(Edits::new(tier)) } else { None },
    bifs: if family == "bifs" { bif_names() } else { vec![] },
    iteration: if family == "iteration" { iteration_cases() } else { vec![] },
    operators: if family == "operators" { operator_templates() } else { vec![] },
  }
}

/// `vh c05worker <family> <tier> <shard> <nshards> <start> <progress> <results>`
pub fn worker(args: &[String]) {
  let family = args[0].as_str();
  let tier = args[1].as_str();
  let shard: u64 = args[2].parse().unwrap();
  let nshards: u64 = args[3].parse().unwrap();
  let start: u64 = args[4].parse().unwrap();
  let progress = Progress::open(&args[5]);
  let mut results = std::fs::OpenOptions::new().create(true).append(true).open(&args[6]).unwrap();
  isolate::limit_address_space(4 << 30);
  isolate::silence_panics();
  let ctx = make_ctx(family, tier);
  let total = family_count(family, &ctx);
  let mut done = 0u64;
  let scopes = [scope_of_kind(0), scope_of_kind(1)];
  // bif family: argument values bound once
  let bif_scope = if family == "bifs" || family == "operators" {
    let vals = build_extremes(&mut results);
    let mut c = FeelContext::default();
    for (i, v) in vals.into_iter().enumerate() {
      c.set_entry(&Name::from(format!("v{}", i)), v);
    }
    Some(Scope::from(c))
  } else {
    None
  };
  let mut idx = start;
  // contiguous blocks of 64 cases are dealt round-robin to the shards
  while idx < total {
    if (idx / 64) % nshards == shard {
      let describe = || family_describe(family, &ctx, idx);
      match family {
        "tokens" => {
          let (text, entry, sk) = tokens_case(tier, idx);
          isolate::run_case(&progress, &mut results, idx, &describe, &mut || parse_and_evaluate(entry, &scopes[sk as usize], &text));
        }
        "edits" => {
          let (text, sk) = ctx.edits.as_ref().unwrap().case(idx);
          isolate::run_case(&progress, &mut results, idx, &describe, &mut || {
            parse_and_evaluate(0, &scopes[sk as usize], &text);
            parse_and_evaluate(3, &scopes[sk as usize], &text);
          });
        }
        "towers" => {
          let (text, sk, _) = towers_case(tier, idx);
          isolate::run_case(&progress, &mut results, idx, &describe, &mut || {
            parse_and_evaluate(0, &scopes[sk as usize], &text);
            parse_and_evaluate(3, &scopes[sk as usize], &text);
          });
        }
        "bifs" => {
          let (text, _) = bif_case(tier, &ctx.bifs, idx);
          let sc = bif_scope.as_ref().unwrap();
          isolate::run_case(&progress, &mut results, idx, &describe, &mut || parse_and_evaluate(0, sc, &text));
        }
        "operators" => {
          let (text, _) = operators_case(&ctx.operators, idx);
          let sc = bif_scope.as_ref().unwrap();
          isolate::run_case(&progress, &mut results, idx, &describe, &mut || parse_and_evaluate(0, sc, &text));
        }
        "iteration" => {
          let text = &ctx.iteration[(idx / 2) as usize];
          isolate::run_case(&progress, &mut results, idx, &describe, &mut || parse_and_evaluate(0, &scopes[(idx % 2) as usize], text));
        }
        _ => {}
      }
      done += 1;
      progress.set_done(done);
      idx += 1;
    } else {
      // jump to this shard's next block
      idx = (idx / 64 + 1) * 64;
    }
  }
  let _ = writeln!(results, "{}", json!({"kind":"done","count":done}));
  let _ = results.flush();
}

/// Iteration over range domains whose size product is beyond a few thousand is legitimate long-running work (the property
/// says so): a case of the generated families that contains such ranges and does not finish within the time limit is not a hang.
fn long_running_iteration(text: &str) -> bool {
  let chars: Vec<char> = text.chars().collect();
  let mut product: u128 = 1;
  let mut i = 0;
  while i + 1 < chars.len() {
    if chars[i] == '.' && chars[i + 1] == '.' {
      // digits directly before and after the `..` (white space allowed)
      let mut a = i;
      while a > 0 && chars[a - 1].is_whitespace() {
        a -= 1;
      }
      let mut a0 = a;
      while a0 > 0 && chars[a0 - 1].is_ascii_digit() {
        a0 -= 1;
      }
      let mut b = i + 2;
      while b < chars.len() && chars[b].is_whitespace() {
        b += 1;
      }
      let mut b1 = b;
      while b1 < chars.len() && chars[b1].is_ascii_digit() {
        b1 += 1;
      }
      let lo: Option<u128> = chars[a0..a].iter().collect::<String>().parse().ok();
      let hi: Option<u128> = chars[b..b1].iter().collect::<String>().parse().ok();
      if let (Some(lo), Some(hi)) = (lo, hi) {
        product = product.saturating_mul(lo.abs_diff(hi) + 1);
      }
      i += 2;
    } else {
      i += 1;
    }
  }
  product > 3000
}

fn classify(case: &J, kind: &str, detail: &str) -> String {
  let family = case.get("family").and_then(|f| f.as_str()).unwrap_or("?");
  let text = case.get("text").and_then(|f| f.as_str()).unwrap_or("");
  // location of the panic, when the message carries one, else a shape of the input
  let what: String = match family {
    "bifs" => text.split('(').next().unwrap_or("").to_string(),
    "operators" => {
      // the template: operand names replaced by a place holder
      let mut out = String::new();
      let mut it = text.chars().peekable();
      while let Some(c) = it.next() {
        if c == 'v' && it.peek().map(|d| d.is_ascii_digit()).unwrap_or(false) && !out.ends_with(|p: char| p.is_alphanumeric()) {
          while it.peek().map(|d| d.is_ascii_digit()).unwrap_or(false) {
            it.next();
          }
          out.push('_');
        } else {
          out.push(c);
        }
      }
      out
    }
    "towers" => case.get("tower").and_then(|t| t.as_str()).map(|t| t.split(" depth").next().unwrap_or("").to_string()).unwrap_or_default(),
    "tokens" => format!("{}", case.get("entry_point").and_then(|e| e.as_str()).unwrap_or("")),
    // a user-defined function that invokes itself unconditionally
    "iteration" if text.contains("function(n) f(n + 1)") => "user-function-recursion-without-base-case".to_string(),
    _ => String::new(),
  };
  let msg: String = detail.chars().take(60).collect::<String>().replace(|c: char| c.is_ascii_digit(), "#");
  format!("{}:{}:{}:{}", kind, family, what, msg)
}

pub fn run() {
  let run = Run::new("C05");
  let tier = run.tier.clone();
  let release = format!("{}/target/release/vh", crate::report::root());
  let checked = format!("{}/target/checked/vh", crate::report::root());
  let mut total_cases = 0u64;
  let mut total_done = 0u64;
  let mut per_family = serde_json::Map::new();
  let mut long_running = 0u64;
  for (pname, exe) in [("release", &release), ("overflow-checks", &checked)] {
    if !std::path::Path::new(exe).exists() {
      run.machinery_error(&format!("worker binary {} is missing (bin/vcheck builds both profiles)", exe));
      continue;
    }
    for family in FAMILIES {
      let ctx = make_ctx(family, &tier);
      let total = family_count(family, &ctx);
      total_cases += total;
      let stall = Duration::from_secs(if tier == "thorough" { 30 } else { 20 });
      let t0 = std::time::Instant::now();
      let (outcomes, done, machinery) = isolate::drive(exe, &["c05worker".to_string(), family.to_string(), tier.clone()], 16, total, stall, &format!("c05_{}_{}", pname, family));
      for m in machinery {
        run.machinery_error(&m);
      }
      total_done += done;
      per_family.insert(format!("{}:{}", pname, family), json!({"cases": total, "completed": done, "abnormal": outcomes.len(), "wall_s": t0.elapsed().as_secs_f64()}));
      for o in outcomes {
        let case = if o.case.is_null() { family_describe(family, &ctx, o.idx) } else { o.case.clone() };
        if o.kind == "hang" && matches!(*family, "edits" | "tokens") && long_running_iteration(case.get("text").and_then(|t| t.as_str()).unwrap_or("")) {
          long_running += 1;
          continue;
        }
        let key = classify(&case, &o.kind, &o.detail);
        let what = match o.kind.as_str() {
          "panic" => format!("panic `{}` on {} (profile {})", o.detail, case, pname),
          "death" => format!("the process died ({}) on {} (profile {})", o.detail, case, pname),
          _ => format!("no result within the time limit ({}) on {} (profile {})", o.detail, case, pname),
        };
        run.violation(&key, &what, json!({"engine":"c05","profile":pname,"family":family,"idx":o.idx,"outcome":o.kind,"detail":o.detail,"case":case}));
      }
      if pname == "release" {
        run.sample(family_describe(family, &ctx, total / 3));
      }
    }
  }
  run.set("states", json!(total_cases));
  run.set("transitions", json!(total_done));
  run.set("long_running_iterations_not_judged", json!(long_running));
  run.set("traces_validated_against_impl", json!(total_done));
  run.set("evaluations", json!(total_done));
  run.set("distinct_nontrivial", json!(total_cases / 2));
  run.set("rule", json!("cases are distinct by construction within a build profile (token strings up to the length bound x 7 entry points x 2 scopes; every single edit of every harvested test expression; nesting towers 1..200; every built-in x argument tuples over the extreme-value alphabet; iteration forms); each is run in both profiles, distinct_nontrivial counts them once"));
  run.set("exhaustive", json!(total_done >= total_cases));
  run.set("per_profile_and_family", J::Object(per_family));
  run.set("token_alphabet", json!(TOKENS.len()));
  run.set("extreme_values", json!(EXTREMES.len()));
  run.assume("a case that neither panics, dies nor stalls returned a result or an error; values are not judged here");
  run.assume("stall limit 20-30 s per case; address space of a worker limited to 4 GiB");
  run.finish();
}

/// replay of one recorded case in this process: a panic is caught and reported, a crash or hang is the replay's own
pub fn replay_case(case: &J) -> String {
  let c = case.get("case").unwrap_or(case);
  let text = c.get("text").and_then(|t| t.as_str()).unwrap_or("").to_string();
  let entry = c.get("entry_point").and_then(|e| e.as_str()).and_then(|e| ENTRY_POINTS.iter().position(|x| *x == e)).unwrap_or(0) as u64;
  let family = c.get("family").and_then(|f| f.as_str()).unwrap_or("");
  let scope = if family == "bifs" {
    let mut results = std::fs::OpenOptions::new().write(true).open("/dev/null").unwrap();
    let vals = build_extremes(&mut results);
    let mut fc = FeelContext::default();
    for (i, v) in vals.into_iter().enumerate() {
      fc.set_entry(&Name::from(format!("v{}", i)), v);
    }
    Scope::from(fc)
  } else {
    scope_of_kind(c.get("scope").and_then(|s| s.as_u64()).unwrap_or(0))
  };
  isolate::silence_panics();
  let r = std::panic::catch_unwind(std::panic::AssertUnwindSafe(|| {
    parse_and_evaluate(entry, &scope, &text);
    if family != "tokens" {
      parse_and_evaluate(3, &scope, &text);
    }
  }));
  match r {
    Ok(()) => format!("PASS `{}` is parsed / evaluated without incident", text.chars().take(120).collect::<String>()),
    Err(_) => format!("FAIL `{}` panics", text.chars().take(120).collect::<String>()),
  }
}
