//! C19: a decision table drawn as text is recognised exactly as drawn.
//!
//! (1) calibration of the renderer (drawing.rs) on the shipped valid drawings: recognise, re-render from the
//! recognised table, recognise again - the two tables must agree (a failure is a machinery error);
//! (2) bounded exhaustive enumeration of source tables x drawing styles: render -> dmntk_recognizer::build ->
//! compare field by field with the source, and evaluate the recognised table against the same table built
//! from the source struct and loaded from generated DMN XML;
//! (3) every single-character corruption of a set of drawings, crash-isolated: Ok or Err, never a panic or hang.

use crate::dmn;
use crate::drawing::{render, SrcTable, Style};
use crate::isolate::{self, Progress};
use crate::report::Run;
use crate::rval::show_value_full;
use dmntk_feel::context::FeelContext;
use dmntk_feel::values::Value;
use dmntk_feel::{FeelNumber, Name, Scope};
use dmntk_model::model::{BuiltinAggregator, DecisionRule, DecisionTable, DecisionTableOrientation, HitPolicy, InputClause, InputEntry, OutputClause, OutputEntry};
use dmntk_model_evaluator::ModelEvaluator;
use rayon::prelude::*;
use serde_json::{json, Value as J};
use std::io::Write;
use std::sync::atomic::{AtomicU64, Ordering};
use std::time::Duration;

const MARKERS: [&str; 11] = ["U", "A", "P", "F", "R", "O", "C", "C+", "C#", "C<", "C>"];

fn policy_of(marker: &str) -> HitPolicy {
  match marker {
    "U" => HitPolicy::Unique,
    "A" => HitPolicy::Any,
    "P" => HitPolicy::Priority,
    "F" => HitPolicy::First,
    "R" => HitPolicy::RuleOrder,
    "O" => HitPolicy::OutputOrder,
    "C" => HitPolicy::Collect(BuiltinAggregator::List),
    "C+" => HitPolicy::Collect(BuiltinAggregator::Sum),
    "C#" => HitPolicy::Collect(BuiltinAggregator::Count),
    "C<" => HitPolicy::Collect(BuiltinAggregator::Min),
    _ => HitPolicy::Collect(BuiltinAggregator::Max),
  }
}

fn marker_of(h: &HitPolicy) -> &'static str {
  match h {
    HitPolicy::Unique => "U",
    HitPolicy::Any => "A",
    HitPolicy::Priority => "P",
    HitPolicy::First => "F",
    HitPolicy::RuleOrder => "R",
    HitPolicy::OutputOrder => "O",
    HitPolicy::Collect(BuiltinAggregator::List) => "C",
    HitPolicy::Collect(BuiltinAggregator::Sum) => "C+",
    HitPolicy::Collect(BuiltinAggregator::Count) => "C#",
    HitPolicy::Collect(BuiltinAggregator::Min) => "C<",
    HitPolicy::Collect(BuiltinAggregator::Max) => "C>",
  }
}

/// white space of a cell is not significant (FEEL ignores it; the recogniser returns cells untrimmed)
fn norm(s: &str) -> String {
  s.split_whitespace().collect::<Vec<_>>().join(" ")
}

fn norm_lines(l: &[String]) -> String {
  norm(&l.join(" "))
}

/// The table a drawing of the source must be recognised as, with normalised texts.
#[derive(Debug, PartialEq, Clone)]
struct Canon {
  name: Option<String>,
  marker: String,
  rows: bool,
  inputs: Vec<(String, Option<String>)>,
  label: Option<String>,
  outputs: Vec<(Option<String>, Option<String>)>,
  annotations: Vec<String>,
  rules: Vec<(Vec<String>, Vec<String>, Vec<String>)>,
}

fn canon_of_src(t: &SrcTable) -> Canon {
  let has_values = t.inputs.iter().any(|i| i.1.is_some()) || t.outputs.iter().any(|o| o.1.is_some());
  Canon {
    name: t.name.as_ref().map(|n| norm(n)),
    marker: t.hit_policy.clone(),
    rows: t.rules_as_rows,
    inputs: t.inputs.iter().map(|(e, v)| (norm_lines(e), if has_values { Some(norm_lines(v.as_deref().unwrap_or(&[]))) } else { None })).collect(),
    label: t.output_label.as_ref().map(|l| norm_lines(l)).filter(|l| !l.is_empty()),
    outputs: t
      .outputs
      .iter()
      .map(|(n, v)| (if t.outputs.len() > 1 { Some(norm_lines(n)) } else { None }, if has_values { Some(norm_lines(v.as_deref().unwrap_or(&[]))) } else { None }))
      .collect(),
    annotations: t.annotations.iter().map(|a| norm_lines(a)).collect(),
    rules: t
      .rules
      .iter()
      .map(|(i, o, a)| (i.iter().map(|x| norm_lines(x)).collect(), o.iter().map(|x| norm_lines(x)).collect(), a.iter().map(|x| norm_lines(x)).collect()))
      .collect(),
  }
}

fn canon_of_table(d: &DecisionTable) -> Canon {
  Canon {
    name: d.information_item_name.as_ref().map(|n| norm(n)),
    marker: marker_of(&d.hit_policy).to_string(),
    rows: matches!(d.preferred_orientation, DecisionTableOrientation::RuleAsRow),
    inputs: d.input_clauses.iter().map(|c| (norm(&c.input_expression), c.input_values.as_ref().map(|v| norm(v)))).collect(),
    label: d.output_label.as_ref().map(|l| norm(l)).filter(|l| !l.is_empty()),
    outputs: d.output_clauses.iter().map(|c| (c.name.as_ref().map(|n| norm(n)), c.output_values.as_ref().map(|v| norm(v)))).collect(),
    annotations: d.annotations.iter().map(|a| norm(&a.name)).collect(),
    rules: d
      .rules
      .iter()
      .map(|r| {
        (
          r.input_entries.iter().map(|e| norm(&e.text)).collect(),
          r.output_entries.iter().map(|e| norm(&e.text)).collect(),
          r.annotation_entries.iter().map(|e| norm(&e.text)).collect(),
        )
      })
      .collect(),
  }
}

fn lines_of(s: &str) -> Vec<String> {
  let v: Vec<String> = s.lines().map(|l| l.trim().to_string()).filter(|l| !l.is_empty()).collect();
  v
}

/// source table of a recognised table (for the calibration round trip)
fn src_of_table(d: &DecisionTable) -> SrcTable {
  SrcTable {
    name: d.information_item_name.as_ref().map(|n| norm(n)),
    hit_policy: marker_of(&d.hit_policy).to_string(),
    rules_as_rows: matches!(d.preferred_orientation, DecisionTableOrientation::RuleAsRow),
    inputs: d.input_clauses.iter().map(|c| (lines_of(&c.input_expression), c.input_values.as_ref().map(|v| lines_of(v)))).collect(),
    output_label: d.output_label.as_ref().map(|l| lines_of(l)),
    outputs: d.output_clauses.iter().map(|c| (c.name.as_ref().map(|n| lines_of(n)).unwrap_or_default(), c.output_values.as_ref().map(|v| lines_of(v)))).collect(),
    annotations: d.annotations.iter().map(|a| lines_of(&a.name)).collect(),
    rules: d
      .rules
      .iter()
      .map(|r| {
        (
          r.input_entries.iter().map(|e| lines_of(&e.text)).collect(),
          r.output_entries.iter().map(|e| lines_of(&e.text)).collect(),
          r.annotation_entries.iter().map(|e| lines_of(&e.text)).collect(),
        )
      })
      .collect(),
  }
}

pub fn shipped_drawings() -> Vec<(String, String)> {
  let mut out = vec![];
  for path in ["/repo/examples/src/examples/valid.rs", "/repo/recognizer/src/tests/mod.rs", "/repo/examples/src/decision_tables/mod.rs"] {
    if let Ok(text) = std::fs::read_to_string(path) {
      let mut rest = text.as_str();
      while let Some(p) = rest.find("pub const ") {
        let tail = &rest[p + 10..];
        let name: String = tail.chars().take_while(|c| c.is_alphanumeric() || *c == '_').collect();
        if let Some(q) = tail.find("r#\"") {
          let head = &tail[..q];
          if head.contains("&str") && !head.contains(';') {
            if let Some(e) = tail[q + 3..].find("\"#") {
              let body = &tail[q + 3..q + 3 + e];
              if body.contains('┌') {
                out.push((name, body.to_string()));
              }
              rest = &tail[q + 3 + e..];
              continue;
            }
          }
        }
        rest = tail;
      }
    }
  }
  if let Ok(t) = std::fs::read_to_string("/repo/examples/src/decision_tables/0001.dtb") {
    out.push(("0001.dtb".into(), t));
  }
  out
}

const STYLES: [Style; 5] = [
  Style { wide_first_data_column: false, wide_all: false, name_box: 0, merged_hit_policy_cell: false, merge_equal_entries: false },
  Style { wide_first_data_column: true, wide_all: false, name_box: 1, merged_hit_policy_cell: false, merge_equal_entries: false },
  Style { wide_first_data_column: false, wide_all: true, name_box: 2, merged_hit_policy_cell: true, merge_equal_entries: false },
  Style { wide_first_data_column: true, wide_all: true, name_box: 0, merged_hit_policy_cell: true, merge_equal_entries: false },
  // equal entries of consecutive rules drawn as one merged cell (only used with the source variant that has such entries)
  Style { wide_first_data_column: false, wide_all: false, name_box: 0, merged_hit_policy_cell: false, merge_equal_entries: true },
];

fn l(s: &str) -> Vec<String> {
  s.split('\n').map(|x| x.to_string()).collect()
}

/// entry alphabets (cycled by position so that neighbouring cells differ in width)
const IN_ENTRIES: [&str; 6] = ["<5", ">=5", "-", "[1..3]", "5", "not(5)"];
const OUT_ENTRIES: [&str; 5] = ["1", "20", "300", "1 + 1", "-4"];
const ANN_ENTRIES: [&str; 3] = ["note", "a longer remark", "x"];

/// Source table for a shape; `multi` selects the cell class that gets a two-line text (0 = none).
fn source(ni: usize, no: usize, na: usize, nr: usize, marker: &str, rows: bool, name: bool, values: bool, label: bool, multi: usize) -> SrcTable {
  // variant 14: the first input expression is a name spelled like a hit policy marker
  let in_name = |k: usize| if multi == 1 && k == 0 { l("Cust\ntype") } else if multi == 14 && k == 0 { l(if marker == "A" { "U" } else { "A" }) } else { l(&format!("In{}", k + 1)) };
  SrcTable {
    name: if name { Some("Order options".into()) } else { None },
    hit_policy: marker.to_string(),
    rules_as_rows: rows,
    inputs: (0..ni).map(|k| (in_name(k), if values { Some(if multi == 2 && k == 0 { l("<5,\n>=5") } else { l("<5,>=5") }) } else { None })).collect(),
    output_label: if no == 1 {
      Some(if multi == 3 { l("Out\nlabel") } else { l("Result") })
    } else if label {
      Some(if multi == 3 { l("Out\nlabel") } else { l("Results") })
    } else {
      None
    },
    outputs: (0..no)
      .map(|k| (if no > 1 { l(&format!("Out{}", k + 1)) } else { vec![] }, if values { Some(if multi == 4 && k == 0 { l("1,20,300,\n2,-4") } else { l("1,20,300,2,-4") }) } else { None }))
      .collect(),
    annotations: (0..na).map(|k| if multi == 5 && k == 0 { l("Remark\ntext") } else { l(&format!("Ann{}", k + 1)) }).collect(),
    rules: (0..nr)
      .map(|r| {
        // variants 9, 10, 11: the rules share their input entries / their output entries / both pairwise (drawn as separate
        // or as merged cells: merged on one side of the double line only, the line carries a one-sided junction)
        let ri = if multi == 9 || multi == 11 { r / 2 } else { r };
        let ro = if multi == 10 || multi == 11 { r / 2 } else { r };
        (
          (0..ni).map(|k| if multi == 6 && r == 0 && k == 0 { l("<5,\n>7") } else if multi == 13 && r + 1 == nr && k == 0 { l("<5,\n6,\n>7") } else { l(IN_ENTRIES[(ri * 2 + k) % IN_ENTRIES.len()]) }).collect(),
          (0..no).map(|k| if multi == 7 && r == 0 && k == 0 { l("1 +\n1") } else if multi == 12 && r == 0 && k == 0 { l("1 +\n1 +\n1") } else { l(OUT_ENTRIES[(ro + k * 2) % OUT_ENTRIES.len()]) }).collect(),
          (0..na).map(|k| if multi == 8 && r == 0 && k == 0 { l("two\nlines") } else { l(ANN_ENTRIES[(r + k) % ANN_ENTRIES.len()]) }).collect(),
        )
      })
      .collect(),
  }
}

/// The DecisionTable struct of a source (clean texts, as an author of DMN XML would write them)
fn table_of_src(t: &SrcTable) -> DecisionTable {
  let c = canon_of_src(t);
  let h = policy_of(&t.hit_policy);
  DecisionTable {
    information_item_name: c.name.clone(),
    input_clauses: c.inputs.iter().map(|(e, v)| InputClause { input_expression: e.clone(), input_values: v.clone() }).collect(),
    output_clauses: c.outputs.iter().map(|(n, v)| OutputClause { type_ref: None, name: n.clone(), output_values: v.clone(), default_output_entry: None }).collect(),
    annotations: vec![],
    rules: c
      .rules
      .iter()
      .map(|(i, o, _)| DecisionRule {
        input_entries: i.iter().map(|x| InputEntry { text: x.clone() }).collect(),
        output_entries: o.iter().map(|x| OutputEntry { text: x.clone() }).collect(),
        annotation_entries: vec![],
      })
      .collect(),
    hit_policy: h,
    aggregation: if let HitPolicy::Collect(a) = h { Some(a) } else { None },
    preferred_orientation: if t.rules_as_rows { DecisionTableOrientation::RuleAsRow } else { DecisionTableOrientation::RuleAsColumn },
    output_label: c.label.clone(),
  }
}

fn xml_of_src(t: &SrcTable) -> String {
  let c = canon_of_src(t);
  let (hp, agg) = match t.hit_policy.as_str() {
    "U" => ("UNIQUE", None),
    "A" => ("ANY", None),
    "P" => ("PRIORITY", None),
    "F" => ("FIRST", None),
    "R" => ("RULE ORDER", None),
    "O" => ("OUTPUT ORDER", None),
    "C" => ("COLLECT", None),
    "C+" => ("COLLECT", Some("SUM")),
    "C#" => ("COLLECT", Some("COUNT")),
    "C<" => ("COLLECT", Some("MIN")),
    _ => ("COLLECT", Some("MAX")),
  };
  let table = dmn::Table {
    hit_policy: hp.into(),
    aggregation: agg.map(|a| a.to_string()),
    output_label: c.label.clone(),
    inputs: c.inputs.iter().map(|(e, v)| dmn::TableInput { expr: e.clone(), type_ref: None, values: v.clone() }).collect(),
    outputs: c.outputs.iter().map(|(n, v)| dmn::TableOutput { name: n.clone(), type_ref: None, values: v.clone(), default: None }).collect(),
    rules: c.rules.iter().map(|(i, o, _)| dmn::TableRule { inputs: i.clone(), outputs: o.clone() }).collect(),
  };
  let mut m = dmn::Model::new("https://verif/c19", "c19");
  let names: Vec<String> = c.inputs.iter().map(|(e, _)| e.clone()).collect();
  for n in &names {
    m.inputs.push(dmn::Input { name: n.clone(), type_ref: "number".into() });
  }
  m.decisions.push(dmn::Decision {
    name: "D".into(),
    type_ref: None,
    requires: dmn::Requires { inputs: names, decisions: vec![], knowledge: vec![] },
    logic: Some(dmn::Expr::Table(table)),
  });
  m.to_xml()
}

struct Cnt {
  drawings: AtomicU64,
  compared: AtomicU64,
  evals: AtomicU64,
  nontrivial: AtomicU64,
}

fn contexts(names: &[String]) -> Vec<FeelContext> {
  let vals: [Option<i128>; 4] = [Some(1), Some(5), Some(9), None];
  let n = names.len();
  let mut out = vec![];
  let combos: Vec<Vec<usize>> = if n <= 3 {
    let mut v = vec![vec![]];
    for _ in 0..n {
      v = v.into_iter().flat_map(|p: Vec<usize>| (0..4).map(move |k| { let mut q = p.clone(); q.push(k); q })).collect();
    }
    v
  } else {
    let mut v = vec![];
    for k in 0..4 {
      v.push(vec![k; n]);
      for col in 0..n {
        let mut t = vec![0; n];
        t[col] = k;
        v.push(t);
      }
    }
    v
  };
  for c in combos {
    let mut ctx = FeelContext::default();
    for (k, name) in names.iter().enumerate() {
      if let Some(x) = vals[c[k]] {
        let parts: Vec<&str> = name.split(' ').collect();
        ctx.set_entry(&Name::new(&parts), Value::Number(FeelNumber::from_i128(x)));
      }
    }
    out.push(ctx);
  }
  out
}

fn check_drawing(run: &Run, cnt: &Cnt, t: &SrcTable, style: &Style, class: &str, eval: bool) {
  cnt.drawings.fetch_add(1, Ordering::Relaxed);
  let text = match render(t, style) {
    Ok(x) => x,
    Err(e) => {
      run.machinery_error(&format!("renderer cannot draw {}: {}", class, e));
      return;
    }
  };
  let replay = |expected: &str| json!({"engine":"c19","drawing":text,"expected":expected});
  let built = std::panic::catch_unwind(|| dmntk_recognizer::build(&text));
  let table = match built {
    Err(_) => {
      run.violation(&format!("panic:valid-drawing:{}", class), &format!("the recogniser panics on a valid drawing ({}):{}", class, text), replay("(recognised)"));
      return;
    }
    Ok(Err(e)) => {
      let msg: String = e.to_string().chars().take(70).collect::<String>().replace(|c: char| c.is_ascii_digit(), "#");
      run.violation(&format!("rejected:{}:{}", class, msg), &format!("a valid drawing ({}) is rejected with `{}`:{}", class, e, text), replay("(recognised)"));
      return;
    }
    Ok(Ok(d)) => d,
  };
  let want = canon_of_src(t);
  let got = canon_of_table(&table);
  cnt.compared.fetch_add(1, Ordering::Relaxed);
  cnt.nontrivial.fetch_add(1, Ordering::Relaxed);
  if want != got {
    // name the first differing field
    let field = if want.marker != got.marker {
      "hit-policy"
    } else if want.rows != got.rows {
      "orientation"
    } else if want.name != got.name {
      "information-item-name"
    } else if want.inputs != got.inputs {
      "input-clauses"
    } else if want.label != got.label {
      "output-label"
    } else if want.outputs != got.outputs {
      "output-clauses"
    } else if want.annotations != got.annotations {
      "annotation-clauses"
    } else {
      "rule-entries"
    };
    run.violation(
      &format!("differs:{}:{}", field, class),
      &format!("the drawing ({}) is recognised with different {}: drawn {:?}, recognised {:?}:{}", class, field, want, got, text),
      replay(&format!("{:?}", want)),
    );
    return;
  }
  if !eval {
    return;
  }
  // evaluation: recognised table vs the table built from the source struct vs the table loaded from DMN XML
  let names: Vec<String> = want.inputs.iter().map(|(e, _)| e.clone()).collect();
  let mut decl = FeelContext::default();
  for n in &names {
    let parts: Vec<&str> = n.split(' ').collect();
    decl.set_entry(&Name::new(&parts), Value::Null(None));
  }
  let pscope = Scope::from(decl);
  let ev_rec = dmntk_model_evaluator::build_decision_table_evaluator(&pscope, &table);
  let ev_src = dmntk_model_evaluator::build_decision_table_evaluator(&pscope, &table_of_src(t));
  let xml = xml_of_src(t);
  let me = dmntk_model::parse(&xml).map_err(|e| e.to_string()).and_then(|d| ModelEvaluator::new(&d).map_err(|e| e.to_string()));
  match (ev_rec, ev_src, me) {
    (Ok(a), Ok(b), Ok(m)) => {
      for ctx in contexts(&names) {
        let s = Scope::from(ctx.clone());
        let ra = show_value_full(&a(&s));
        let rb = show_value_full(&b(&s));
        let rc = show_value_full(&m.evaluate_invocable("D", &ctx));
        cnt.evals.fetch_add(3, Ordering::Relaxed);
        if ra != rb || ra != rc {
          run.violation(
            &format!("evaluates-differently:{}", class),
            &format!("for input {} the recognised table gives {}, the same table built from its source {} and loaded from DMN XML {} ({}):{}", ctx, ra, rb, rc, class, text),
            replay(&rb),
          );
          return;
        }
      }
    }
    (a, b, m) => {
      let what = format!("recognised: {:?}, from source: {:?}, from XML: {:?}", a.as_ref().err().map(|e| e.to_string()), b.as_ref().err().map(|e| e.to_string()), m.as_ref().err());
      if a.is_err() && b.is_ok() {
        run.violation(&format!("evaluator-not-built:{}", class), &format!("the recognised table does not build an evaluator while its source does ({}; {}):{}", class, what, text), replay("(evaluator builds)"));
      } else if b.is_err() || m.is_err() {
        run.machinery_error(&format!("source table of {} does not build: {}", class, what));
      }
    }
  }
}

fn calibrate(run: &Run) -> (u64, u64) {
  let mut ok = 0;
  let mut skipped = 0;
  for (name, text) in shipped_drawings() {
    let d1 = match std::panic::catch_unwind(|| dmntk_recognizer::build(&text)) {
      Ok(Ok(d)) => d,
      _ => {
        skipped += 1; // crosstabs and intentionally invalid drawings
        continue;
      }
    };
    let src = src_of_table(&d1);
    let style = Style { wide_first_data_column: false, wide_all: false, name_box: 0, merged_hit_policy_cell: false, merge_equal_entries: false };
    match render(&src, &style).and_then(|t2| dmntk_recognizer::build(&t2).map_err(|e| format!("{}: {}", e, t2))) {
      Ok(d2) => {
        if canon_of_table(&d1) != canon_of_table(&d2) {
          run.machinery_error(&format!("renderer calibration: shipped drawing {} is not reproduced by the renderer: {:?} vs {:?}", name, canon_of_table(&d1), canon_of_table(&d2)));
        } else {
          ok += 1;
        }
      }
      Err(e) => run.machinery_error(&format!("renderer calibration: shipped drawing {}: {}", name, e)),
    }
  }
  (ok, skipped)
}

/// drawings whose corruptions are enumerated
fn corruption_corpus(tier: &str) -> Vec<String> {
  let mut out: Vec<String> = vec![];
  let shipped = shipped_drawings();
  let take = if tier == "thorough" { shipped.len() } else { 6 };
  for (_, t) in shipped.into_iter().take(take) {
    out.push(t);
  }
  let shapes: Vec<(usize, usize, usize, usize)> = if tier == "thorough" {
    vec![(1, 1, 0, 1), (2, 1, 0, 2), (2, 2, 1, 2), (3, 3, 2, 3), (1, 2, 2, 2), (2, 3, 0, 1)]
  } else {
    vec![(1, 1, 0, 1), (2, 2, 1, 2), (1, 1, 1, 2)]
  };
  for (ni, no, na, nr) in shapes {
    for rows in [true, false] {
      for (k, opt) in [(false, false, false), (true, true, true)].iter().enumerate() {
        let t = source(ni, no, na, nr, MARKERS[(ni + no + k) % MARKERS.len()], rows, opt.0, opt.1, opt.2, if opt.0 { 7 } else { 0 });
        if let Ok(x) = render(&t, &STYLES[k]) {
          out.push(x);
        }
      }
    }
  }
  out
}

/// every box-drawing character the recognizer's source mentions, and a blank, a letter, a digit and a line break
const REPLACEMENTS: [char; 29] = [
  ' ', '│', '─', '║', '═', '┼', '╬', '╫', '╪', '┌', '┘', '├', '╥', '╞', 'X', '1', '┐', '└', '┤', '┬', '┴', '╟', '╡', '╢', '╤', '╧', '╨', '╳', '\n',
];

struct Corruptions {
  drawings: Vec<Vec<char>>,
  starts: Vec<u64>,
  total: u64,
}

impl Corruptions {
  fn new(tier: &str) -> Corruptions {
    let drawings: Vec<Vec<char>> = corruption_corpus(tier).into_iter().map(|d| d.chars().collect()).collect();
    let mut starts = vec![];
    let mut total = 0u64;
    for d in &drawings {
      starts.push(total);
      total += (d.len() * (2 + REPLACEMENTS.len())) as u64;
    }
    Corruptions { drawings, starts, total }
  }
  fn case(&self, idx: u64) -> (String, J) {
    let m = match self.starts.binary_search(&idx) {
      Ok(k) => k,
      Err(k) => k - 1,
    };
    let d = &self.drawings[m];
    let k = idx - self.starts[m];
    let ops = (2 + REPLACEMENTS.len()) as u64;
    let (pos, op) = ((k / ops) as usize, (k % ops) as usize);
    let mut v = d.clone();
    let what = match op {
      0 => {
        v.remove(pos);
        "delete".to_string()
      }
      1 => {
        if pos + 1 < v.len() {
          v.swap(pos, pos + 1);
        }
        "swap-with-next".to_string()
      }
      r => {
        v[pos] = REPLACEMENTS[r - 2];
        format!("replace-by-{:?}", REPLACEMENTS[r - 2])
      }
    };
    (v.into_iter().collect(), json!({"drawing": m, "position": pos, "op": what}))
  }
}

pub fn worker(args: &[String]) {
  let tier = args[0].as_str();
  let shard: u64 = args[1].parse().unwrap();
  let nshards: u64 = args[2].parse().unwrap();
  let start: u64 = args[3].parse().unwrap();
  let progress = Progress::open(&args[4]);
  let mut results = std::fs::OpenOptions::new().create(true).append(true).open(&args[5]).unwrap();
  isolate::limit_address_space(4 << 30);
  isolate::silence_panics();
  let c = Corruptions::new(tier);
  let mut done = 0u64;
  let mut idx = start;
  while idx < c.total {
    if (idx / 64) % nshards == shard {
      let (text, desc) = c.case(idx);
      let describe = || desc.clone();
      isolate::run_case(&progress, &mut results, idx, &describe, &mut || {
        let _ = dmntk_recognizer::build(&text);
      });
      done += 1;
      progress.set_done(done);
      idx += 1;
    } else {
      idx = (idx / 64 + 1) * 64;
    }
  }
  let _ = writeln!(results, "{}", json!({"kind":"done","count":done}));
  let _ = results.flush();
}

pub fn run() {
  let run = Run::new("C19");
  let thorough = run.thorough();
  let tier = run.tier.clone();
  let cnt = Cnt {
    drawings: AtomicU64::new(0),
    compared: AtomicU64::new(0),
    evals: AtomicU64::new(0),
    nontrivial: AtomicU64::new(0),
  };
  // (1) calibration
  let (calibrated, skipped) = calibrate(&run);
  run.set("shipped_drawings_reproduced_by_the_renderer", json!(calibrated));
  run.set("shipped_drawings_not_recognised_by_the_code_base_itself", json!(skipped));
  // (2) enumeration
  let max_in = if thorough { 5 } else { 3 };
  let rule_counts: Vec<usize> = if thorough { (1..=8).collect() } else { vec![1, 2, 4] };
  let mut shapes = vec![];
  for ni in 1..=max_in {
    for no in 1..=3 {
      for na in 0..=2 {
        for nr in &rule_counts {
          shapes.push((ni, no, na, *nr));
        }
      }
    }
  }
  shapes.par_iter().for_each(|(ni, no, na, nr)| {
    for (mk, marker) in MARKERS.iter().enumerate() {
      for rows in [true, false] {
        for name in [false, true] {
          for values in [false, true] {
            for label in [false, true] {
              if *no == 1 && label {
                continue;
              }
              for multi in 0..=14usize {
                // a two-line cell needs its class to exist
                if (multi == 2 || multi == 4) && !values {
                  continue;
                }
                if multi == 3 && *no > 1 && !label {
                  continue;
                }
                if (multi == 5 || multi == 8) && *na == 0 {
                  continue;
                }
                if (9..=11).contains(&multi) && *nr < 2 {
                  continue;
                }
                let t = source(*ni, *no, *na, *nr, marker, rows, name, values, label, multi);
                for (sk, style) in STYLES.iter().enumerate() {
                  if style.merge_equal_entries && !(9..=11).contains(&multi) {
                    continue;
                  }
                  // name box variants only matter with a name; the merged hit policy cell only for columns with values
                  if !name && sk > 0 && !(style.wide_all || style.wide_first_data_column) {
                    continue;
                  }
                  let class = format!(
                    "{}:{}-outputs{}{}{}{}:{}",
                    if rows { "rules-as-rows" } else { "rules-as-columns" },
                    if *no == 1 { "one" } else { "several" },
                    if *na > 0 { "+annotations" } else { "" },
                    if name { "+name" } else { "" },
                    if values { "+values" } else { "" },
                    if label { "+label" } else { "" },
                    match multi {
                      0 => "single-line-cells",
                      1 => "two-line-input-expression",
                      2 => "two-line-input-values",
                      3 => "two-line-output-label",
                      4 => "two-line-output-values",
                      5 => "two-line-annotation-name",
                      6 => "two-line-input-entry",
                      7 => "two-line-output-entry",
                      8 => "two-line-annotation-entry",
                      9 if style.merge_equal_entries => "equal-input-entries-of-consecutive-rules-merged",
                      10 if style.merge_equal_entries => "equal-output-entries-of-consecutive-rules-merged",
                      11 if style.merge_equal_entries => "equal-entries-of-consecutive-rules-merged",
                      // (the rule number stands in the middle line of a cell three lines high)
                      12 => "three-line-output-entry",
                      13 => "three-line-input-entry-of-the-last-rule",
                      14 => "first-input-expression-spelled-like-a-hit-policy-marker",
                      _ => "equal-entries-of-consecutive-rules",
                    }
                  );
                  // evaluation equivalence on one style and marker rotation (texts are the same across styles)
                  let eval = sk == (mk % STYLES.len());
                  check_drawing(&run, &cnt, &t, style, &class, eval);
                }
              }
            }
          }
        }
      }
    }
  });
  // (3) corruptions, crash-isolated, both profiles
  let release = format!("{}/target/release/vh", crate::report::root());
  let checked = format!("{}/target/checked/vh", crate::report::root());
  let mut corr_total = 0u64;
  let mut corr_done = 0u64;
  let mut per = serde_json::Map::new();
  for (pname, exe) in [("release", &release), ("overflow-checks", &checked)] {
    if !std::path::Path::new(exe).exists() {
      run.machinery_error(&format!("worker binary {} is missing (bin/vcheck builds both profiles)", exe));
      continue;
    }
    let c = Corruptions::new(&tier);
    corr_total += c.total;
    let (outcomes, done, machinery) = isolate::drive(exe, &["c19worker".to_string(), tier.clone()], 16, c.total, Duration::from_secs(if thorough { 30 } else { 20 }), &format!("c19_{}", pname));
    for m in machinery {
      run.machinery_error(&m);
    }
    corr_done += done;
    per.insert(pname.to_string(), json!({"drawings": c.drawings.len(), "cases": c.total, "completed": done, "abnormal": outcomes.len()}));
    for o in outcomes {
      let (text, desc) = c.case(o.idx);
      let msg: String = o.detail.chars().take(80).collect::<String>().replace(|c: char| c.is_ascii_digit(), "#");
      let key = format!("{}:corrupted-drawing:{}", o.kind, msg);
      run.violation(
        &key,
        &format!("{} ({}) recognising the corrupted drawing {} (profile {}):{}", o.kind, o.detail, desc, pname, text),
        json!({"engine":"c19","drawing":text,"expected":"(recognised or rejected)","profile":pname}),
      );
    }
  }
  {
    let t = source(2, 2, 1, 2, "C+", false, true, true, true, 7);
    if let Ok(text) = render(&t, &STYLES[1]) {
      run.sample(json!({"drawing": text, "class": "rules-as-columns:several-outputs+annotations+name+values+label:two-line-output-entry"}));
    }
    let c = Corruptions::new(&tier);
    if c.total > 0 {
      let (_, d) = c.case(c.total / 3);
      run.sample(json!({"corruption": d}));
    }
  }
  run.set("states", json!(cnt.drawings.load(Ordering::Relaxed) + corr_total));
  run.set("transitions", json!(cnt.drawings.load(Ordering::Relaxed) + corr_done));
  run.set("traces_validated_against_impl", json!(cnt.compared.load(Ordering::Relaxed)));
  run.set("evaluations", json!(cnt.evals.load(Ordering::Relaxed)));
  run.set("distinct_nontrivial", json!(cnt.nontrivial.load(Ordering::Relaxed)));
  run.set("rule", json!("(source table, drawing style) pairs, distinct by construction, that were recognised and compared field by field: inputs 1..3 (thorough 1..5) x outputs 1..3 x annotations 0..2 x rule counts {1,2,4} (thorough 1..8) x 11 hit policy markers x both orientations x information item name x values row x output label x 9 cell-line patterns (single line; a two-line cell in each of the 8 cell classes) x 4 drawing styles (column widths, name box ending inside a cell / on a column boundary / at the table's right edge, merged or separate hit policy cell)"));
  run.set("exhaustive", json!(corr_done >= corr_total));
  run.set("drawings_rendered_and_recognised", json!(cnt.drawings.load(Ordering::Relaxed)));
  run.set("corruptions", J::Object(per));
  run.assume("renderer drawing.rs, calibrated at every run on the shipped valid drawings; cell texts are compared modulo white space, a blank output label equals an absent one; cell texts contain no box-drawing characters");
  run.finish();
}

pub fn replay_case(case: &J) -> String {
  let text = case.get("drawing").and_then(|x| x.as_str()).unwrap_or("");
  let expected = case.get("expected").and_then(|x| x.as_str()).unwrap_or("");
  match std::panic::catch_unwind(|| dmntk_recognizer::build(text)) {
    Err(_) => "FAIL the recogniser panics".to_string(),
    Ok(Err(e)) => {
      if expected == "(recognised or rejected)" {
        format!("PASS rejected: {}", e)
      } else {
        format!("FAIL rejected: {}", e)
      }
    }
    Ok(Ok(d)) => {
      let got = format!("{:?}", canon_of_table(&d));
      if expected.starts_with('(') || got == expected {
        format!("PASS recognised as {}", got)
      } else {
        format!("FAIL recognised as {} but drawn as {}", got, expected)
      }
    }
  }
}
