//! C17: the workspace holds exactly the models its history of operations leaves in it.
//!
//! Explicit-state search over the real `Workspace`: breadth-first from the empty workspace, every operation of
//! the alphabet applied in every reached state, states deduplicated by a canonical form that contains the whole
//! observable state (the read-only snapshot of all four collections, obtained through the `verif` feature hook,
//! plus the identity of the stored contents). The search runs to closure, so histories of every length over
//! the alphabet are covered, not only those up to a depth. A reference registry gives the expected result of
//! every operation and the invariants are evaluated in every state.

use crate::report::Run;
use dmntk_feel::context::FeelContext;
use dmntk_workspace::{VerifSnapshot, Workspace};
use serde_json::json;
use std::collections::{BTreeMap, BTreeSet, VecDeque};

#[derive(Clone, Copy, Debug, PartialEq, Eq, PartialOrd, Ord, Hash)]
struct M {
  ns: u8,
  name: u8,
  /// content marker; 0 = a model that parses but does not build
  content: u8,
}

const MODELS: [(&str, M); 10] = [
  ("A", M { ns: 1, name: 1, content: 1 }),
  ("A2", M { ns: 1, name: 1, content: 2 }),
  ("B", M { ns: 1, name: 2, content: 3 }),
  ("C", M { ns: 2, name: 1, content: 4 }),
  ("D", M { ns: 3, name: 3, content: 5 }),
  ("F", M { ns: 4, name: 4, content: 0 }),
  ("G", M { ns: 2, name: 2, content: 6 }),
  ("F2", M { ns: 4, name: 4, content: 8 }),
  // thorough tier only
  ("H", M { ns: 3, name: 1, content: 7 }),
  ("J", M { ns: 5, name: 5, content: 9 }),
];

fn ns_text(k: u8) -> String {
  format!("https://verif/ns{}", k)
}
fn name_text(k: u8) -> String {
  format!("model {}", k)
}

fn xml(m: &M) -> String {
  let logic = if m.content == 0 { "1 +".to_string() } else { format!("\"content {}\"", m.content) };
  format!(
    "<?xml version=\"1.0\" encoding=\"UTF-8\"?>\n<definitions namespace=\"{}\" name=\"{}\" id=\"m\" xmlns=\"https://www.omg.org/spec/DMN/20191111/MODEL/\">\n  <decision name=\"D\" id=\"d\">\n    <variable name=\"D\"/>\n    <literalExpression><text>{}</text></literalExpression>\n  </decision>\n</definitions>\n",
    ns_text(m.ns),
    name_text(m.name),
    logic
  )
}

#[derive(Clone, Copy, Debug, PartialEq, Eq, PartialOrd, Ord, Hash)]
enum Op {
  Add(usize),
  Replace(usize),
  /// remove(namespace k, name j)
  Remove(u8, u8),
  Clear,
  Deploy,
}

impl Op {
  fn show(&self) -> String {
    match self {
      Op::Add(k) => format!("add({})", MODELS[*k].0),
      Op::Replace(k) => format!("replace({})", MODELS[*k].0),
      Op::Remove(ns, n) => format!("remove(ns{}, name{})", ns, n),
      Op::Clear => "clear".into(),
      Op::Deploy => "deploy".into(),
    }
  }
}

fn alphabet(thorough: bool) -> Vec<Op> {
  let mut v = vec![];
  let (nm, nid) = if thorough { (MODELS.len(), 5u8) } else { (8, 4u8) };
  for k in 0..nm {
    v.push(Op::Add(k));
  }
  for k in 0..nm {
    v.push(Op::Replace(k));
  }
  for ns in 1..=nid {
    for n in 1..=nid {
      v.push(Op::Remove(ns, n));
    }
  }
  v.push(Op::Clear);
  v.push(Op::Deploy);
  v
}

/// reference registry
#[derive(Clone, Debug, PartialEq, Eq, PartialOrd, Ord, Hash, Default)]
struct Ref {
  stored: Vec<M>,
  /// name -> content of the deployed evaluators
  deployed: BTreeMap<u8, u8>,
}

fn apply_impl(w: &mut Workspace, op: &Op) -> Option<bool> {
  match op {
    Op::Add(k) => Some(w.add(dmntk_model::parse(&xml(&MODELS[*k].1)).expect("alphabet model parses")).is_ok()),
    Op::Replace(k) => Some(w.replace(dmntk_model::parse(&xml(&MODELS[*k].1)).expect("alphabet model parses")).is_ok()),
    Op::Remove(ns, n) => {
      w.remove(&ns_text(*ns), &name_text(*n));
      None
    }
    Op::Clear => {
      w.clear();
      None
    }
    Op::Deploy => Some(w.deploy().is_ok()),
  }
}

fn ids(v: &[M]) -> Vec<(String, String)> {
  v.iter().map(|m| (ns_text(m.ns), name_text(m.name))).collect()
}

/// relation of an (ns, name) pair to the stored models
fn relation(stored: &[M], ns: u8, name: u8) -> &'static str {
  let exact = stored.iter().any(|m| m.ns == ns && m.name == name);
  let ns_only = stored.iter().any(|m| m.ns == ns && m.name != name);
  let name_only = stored.iter().any(|m| m.ns != ns && m.name == name);
  match (exact, ns_only, name_only) {
    (true, _, _) => "stored-model-with-this-namespace-and-name",
    (false, true, true) => "namespace-of-one-stored-model-and-name-of-another",
    (false, true, false) => "namespace-of-a-stored-model-with-another-name",
    (false, false, true) => "name-of-a-stored-model-with-another-namespace",
    _ => "nothing-stored-shares-namespace-or-name",
  }
}

struct Step {
  /// expected operation result (None: not prescribed)
  ok: Option<bool>,
  /// expected stored list (None: adopt the implementation's, the invariants still apply)
  stored: Option<Vec<M>>,
  deployed: BTreeMap<u8, u8>,
  class: &'static str,
}

fn step_ref(r: &Ref, op: &Op) -> Step {
  match op {
    Op::Add(k) => {
      let m = MODELS[*k].1;
      let class = relation(&r.stored, m.ns, m.name);
      if r.stored.iter().any(|x| x.ns == m.ns || x.name == m.name) {
        Step { ok: Some(false), stored: Some(r.stored.clone()), deployed: r.deployed.clone(), class }
      } else {
        let mut s = r.stored.clone();
        s.push(m);
        Step { ok: Some(true), stored: Some(s), deployed: BTreeMap::new(), class }
      }
    }
    Op::Remove(ns, n) => {
      let class = relation(&r.stored, *ns, *n);
      let stored = match class {
        "stored-model-with-this-namespace-and-name" => Some(r.stored.iter().cloned().filter(|m| !(m.ns == *ns && m.name == *n)).collect()),
        "nothing-stored-shares-namespace-or-name" => Some(r.stored.clone()),
        _ => None,
      };
      Step { ok: None, stored, deployed: BTreeMap::new(), class }
    }
    Op::Replace(k) => {
      let m = MODELS[*k].1;
      let class = relation(&r.stored, m.ns, m.name);
      let stored = match class {
        "stored-model-with-this-namespace-and-name" => {
          let mut s: Vec<M> = r.stored.iter().cloned().filter(|x| !(x.ns == m.ns && x.name == m.name)).collect();
          s.push(m);
          Some(s)
        }
        "nothing-stored-shares-namespace-or-name" => {
          let mut s = r.stored.clone();
          s.push(m);
          Some(s)
        }
        _ => None,
      };
      // replacing always ends with the given model stored
      Step { ok: Some(true), stored, deployed: BTreeMap::new(), class }
    }
    Op::Clear => Step { ok: None, stored: Some(vec![]), deployed: BTreeMap::new(), class: "-" },
    Op::Deploy => Step {
      ok: Some(true),
      stored: Some(r.stored.clone()),
      deployed: r.stored.iter().filter(|m| m.content != 0).map(|m| (m.name, m.content)).collect(),
      class: "-",
    },
  }
}

/// consistency of the collections of one snapshot; returns the first broken invariant
fn inconsistency(s: &VerifSnapshot) -> Option<String> {
  let list: BTreeSet<(String, String)> = s.definitions.iter().cloned().collect();
  if list.len() != s.definitions.len() {
    return Some("stored-list-holds-a-model-twice".into());
  }
  let ns_list: BTreeSet<String> = s.definitions.iter().map(|d| d.0.clone()).collect();
  let name_list: BTreeSet<String> = s.definitions.iter().map(|d| d.1.clone()).collect();
  if ns_list.len() != s.definitions.len() || name_list.len() != s.definitions.len() {
    return Some("two-stored-models-share-a-namespace-or-name".into());
  }
  let ns_keys: BTreeSet<String> = s.by_namespace.iter().map(|e| e.0.clone()).collect();
  let name_keys: BTreeSet<String> = s.by_name.iter().map(|e| e.0.clone()).collect();
  if let Some(k) = ns_keys.difference(&ns_list).next() {
    return Some(format!("stale-namespace-reservation ({} is reserved but no stored model has it)", k));
  }
  if let Some(k) = name_keys.difference(&name_list).next() {
    return Some(format!("stale-name-reservation ({} is reserved but no stored model has it)", k));
  }
  if let Some(k) = ns_list.difference(&ns_keys).next() {
    return Some(format!("stored-model-missing-from-namespace-lookup ({})", k));
  }
  if let Some(k) = name_list.difference(&name_keys).next() {
    return Some(format!("stored-model-missing-from-name-lookup ({})", k));
  }
  for (k, d) in s.by_namespace.iter() {
    if *k != d.0 || !list.contains(d) {
      return Some("namespace-lookup-refers-to-another-model".into());
    }
  }
  for (k, d) in s.by_name.iter() {
    if *k != d.1 || !list.contains(d) {
      return Some("name-lookup-refers-to-another-model".into());
    }
  }
  None
}

fn class_of_inconsistency(s: &str) -> String {
  s.split(' ').next().unwrap_or("").to_string()
}

pub fn run() {
  let run = Run::new("C17");
  let thorough = run.thorough();
  let ops = alphabet(thorough);
  let cap: usize = if thorough { 2_000_000 } else { 200_000 };
  // canonical state -> history reaching it
  let mut seen: BTreeSet<(VerifSnapshot, Ref)> = BTreeSet::new();
  let mut frontier: VecDeque<(Vec<Op>, Ref)> = VecDeque::new();
  let start = Workspace::new(None);
  seen.insert((start.verif_snapshot(), Ref::default()));
  frontier.push_back((vec![], Ref::default()));
  let mut transitions = 0u64;
  let mut max_depth = 0usize;
  let mut capped = false;
  let mut bad_transitions = 0u64;
  let empty = FeelContext::default();
  // Second phase: histories are NOT merged by the state they reach. The canonical state holds what the snapshot shows;
  // anything else the workspace may remember about its past (say, about a model that once failed to build) is followed
  // by running every sequence of up to `unmerged_depth` operations over the models that share their ids (the one that
  // does not build, the one that does, one unrelated), their removal, clear and deploy.
  let find = |label: &str| MODELS.iter().position(|m| m.0 == label).unwrap();
  let unmerged_ops: Vec<Op> = vec![Op::Add(find("F")), Op::Add(find("F2")), Op::Replace(find("F")), Op::Replace(find("F2")), Op::Add(find("A")), Op::Remove(4, 4), Op::Clear, Op::Deploy];
  let unmerged_depth = if thorough { 6 } else { 5 };
  let mut unmerged_histories = 0u64;
  let mut merged = true;
  loop {
    let (hist, r) = match frontier.pop_front() {
      Some(x) => x,
      None if merged => {
        merged = false;
        frontier.push_back((vec![], Ref::default()));
        continue;
      }
      None => break,
    };
    max_depth = max_depth.max(hist.len());
    if !merged {
      unmerged_histories += 1;
    }
    for op in if merged { &ops } else { &unmerged_ops } {
      // a fresh real workspace brought to the state by replaying the history
      let mut w = Workspace::new(None);
      for h in &hist {
        apply_impl(&mut w, h);
      }
      let before = w.verif_snapshot();
      let got_ok = apply_impl(&mut w, op);
      let after = w.verif_snapshot();
      transitions += 1;
      let exp = step_ref(&r, op);
      let bad = std::cell::Cell::new(false);
      let trail = || {
        let mut t: Vec<String> = hist.iter().map(|o| o.show()).collect();
        t.push(op.show());
        t
      };
      let replay = |expected: String| {
        bad.set(true);
        json!({"engine":"c17","history":trail(),"expected":expected})
      };
      let opname = match op {
        Op::Add(_) => "add",
        Op::Replace(_) => "replace",
        Op::Remove(..) => "remove",
        Op::Clear => "clear",
        Op::Deploy => "deploy",
      };
      // operation result
      if let (Some(e), Some(g)) = (exp.ok, got_ok) {
        if e != g {
          run.violation(
            &format!("{}:{}:{}", opname, if e { "rejected-although-nothing-stored-clashes" } else { "accepted-although-a-stored-model-clashes" }, exp.class),
            &format!("after {:?}, {} returns {} but the stored list {:?} prescribes {}", trail(), op.show(), if g { "Ok" } else { "Err" }, before.definitions, if e { "Ok" } else { "Err" }),
            replay(format!("{} returns {}", op.show(), if e { "Ok" } else { "Err" })),
          );
        }
      }
      // consistency of the collections
      if let Some(bad) = inconsistency(&after) {
        run.violation(
          &format!("{}:{}:{}", opname, class_of_inconsistency(&bad), exp.class),
          &format!("after {:?} the collections disagree: {}; stored {:?}, namespace lookup {:?}, name lookup {:?}", trail(), bad, after.definitions, after.by_namespace, after.by_name),
          replay("lookups by namespace and by name describe the stored list".into()),
        );
      }
      // stored list
      let mut next_ref = Ref { stored: vec![], deployed: exp.deployed.clone() };
      match &exp.stored {
        Some(s) => {
          if ids(s) != after.definitions {
            run.violation(
              &format!("{}:stored-models-differ:{}", opname, exp.class),
              &format!("after {:?} the workspace stores {:?} but the history leaves {:?}", trail(), after.definitions, ids(s)),
              replay(format!("stored {:?}", ids(s))),
            );
          }
          next_ref.stored = s.clone();
        }
        None => {
          // not prescribed which of the partially matching models go: adopt, but nothing new may appear
          let old: BTreeSet<(String, String)> = before.definitions.iter().cloned().collect();
          let extra: Vec<&(String, String)> = after.definitions.iter().filter(|d| !old.contains(*d) && !matches!(op, Op::Replace(_))).collect();
          if !extra.is_empty() {
            run.violation(&format!("{}:model-appears:{}", opname, exp.class), &format!("after {:?} models appear that were not stored: {:?}", trail(), extra), replay("no new model".into()));
          }
          let mut adopted: Vec<M> = vec![];
          for d in &after.definitions {
            if let Some(m) = r.stored.iter().find(|m| ns_text(m.ns) == d.0 && name_text(m.name) == d.1) {
              adopted.push(*m);
            } else if let Op::Replace(k) = op {
              adopted.push(MODELS[*k].1);
            }
          }
          if let Op::Replace(k) = op {
            let m = MODELS[*k].1;
            if !after.definitions.contains(&(ns_text(m.ns), name_text(m.name))) {
              run.violation(
                &format!("replace:replacement-not-stored:{}", exp.class),
                &format!("after {:?} the replacing model is not stored: {:?}", trail(), after.definitions),
                replay("the replacing model is stored".into()),
              );
            }
          }
          next_ref.stored = adopted;
        }
      }
      // a failed add is not a modification
      if matches!(op, Op::Add(_)) && exp.ok == Some(false) {
        next_ref.deployed = r.deployed.clone();
      }
      // deployed evaluators: keys and behaviour
      let want_keys: Vec<String> = next_ref.deployed.keys().map(|k| name_text(*k)).collect();
      if want_keys != after.model_evaluators {
        run.violation(
          &format!("{}:deployed-set-differs:{}", opname, exp.class),
          &format!("after {:?} evaluators exist for {:?} but exactly {:?} were present at the last deploy, built, and nothing was modified since", trail(), after.model_evaluators, want_keys),
          replay(format!("evaluators for {:?}", want_keys)),
        );
      }
      for n in 1..=5u8 {
        let res = w.evaluate_invocable(&name_text(n), "D", &empty);
        let got = res.as_ref().ok().map(|v| v.to_string());
        let want = next_ref.deployed.get(&n).map(|c| format!("\"content {}\"", c));
        if got != want {
          run.violation(
            &format!("{}:evaluation-differs:{}", opname, exp.class),
            &format!("after {:?} evaluating D of {} gives {:?} but {:?} is prescribed", trail(), name_text(n), got, want),
            replay(format!("D of {} = {:?}", name_text(n), want)),
          );
        }
      }
      run.outcome(&format!("{}:{}:{}", opname, exp.class, match got_ok { Some(true) => "ok", Some(false) => "err", None => "-" }));
      // next state; a state reached by a violating transition is reported, not expanded (its successors would only
      // repeat the consequences of the same defect)
      if bad.get() {
        bad_transitions += 1;
        continue;
      }
      if !merged {
        if hist.len() + 1 < unmerged_depth {
          let mut h = hist.clone();
          h.push(*op);
          frontier.push_back((h, next_ref));
        }
        continue;
      }
      let key = (after, next_ref.clone());
      if !seen.contains(&key) {
        if seen.len() >= cap {
          capped = true;
          continue;
        }
        seen.insert(key);
        let mut h = hist.clone();
        h.push(*op);
        frontier.push_back((h, next_ref));
      }
    }
  }
  if let Some((snap, r)) = seen.iter().nth(seen.len() / 2) {
    run.sample(json!({"state": {"stored": snap.definitions, "namespace_lookup": snap.by_namespace.iter().map(|e| e.0.clone()).collect::<Vec<_>>(), "name_lookup": snap.by_name.iter().map(|e| e.0.clone()).collect::<Vec<_>>(), "deployed": snap.model_evaluators}, "reference": format!("{:?}", r)}));
  }
  run.sample(json!({"operations": ops.iter().map(|o| o.show()).collect::<Vec<_>>()}));
  run.set("states", json!(seen.len()));
  run.set("transitions", json!(transitions));
  run.set("traces_validated_against_impl", json!(transitions));
  run.set("evaluations", json!(transitions * 4));
  run.set("distinct_nontrivial", json!(seen.len()));
  run.set("rule", json!("canonical states (snapshot of the four collections of the real workspace + identity of the stored contents) reached by breadth-first search to closure over 34 (quick) / 47 (thorough) operations: add / replace of 8 / 10 models (identical ids with different content, same namespace other name, other namespace same name, crossing, disjoint, one that does not build and one with its ids that does), remove of every (namespace, name) pair, clear, deploy; then every history of up to 5 (quick) / 6 (thorough) operations over 8 operations on the models that share their ids, without merging histories that reach the same state"));
  run.set("exhaustive", json!(!capped));
  run.set("max_depth", json!(max_depth));
  run.set("unmerged_histories", json!({"operations": unmerged_ops.iter().map(|o| o.show()).collect::<Vec<_>>(), "depth": unmerged_depth, "histories": unmerged_histories}));
  run.set("violating_transitions_not_expanded", json!(bad_transitions));
  run.set("operations", json!(ops.len()));
  run.set("state_cap", json!(cap));
  run.assume("remove / replace with a pair that matches two different stored models, or one by namespace only / name only, may drop either (not prescribed): the consistency invariants apply and the implementation's resulting list is adopted; every remove counts as a modification for the deployed set");
  run.finish();
}

pub fn replay_case(case: &serde_json::Value) -> String {
  let hist: Vec<String> = case.get("history").and_then(|h| h.as_array()).map(|a| a.iter().filter_map(|x| x.as_str().map(|s| s.to_string())).collect()).unwrap_or_default();
  let ops = alphabet(true);
  let mut w = Workspace::new(None);
  let mut r = Ref::default();
  let mut last = String::new();
  for h in &hist {
    let op = match ops.iter().find(|o| &o.show() == h) {
      Some(o) => *o,
      None => return format!("MACHINERY unknown operation {}", h),
    };
    let exp = step_ref(&r, &op);
    let ok = apply_impl(&mut w, &op);
    let snap = w.verif_snapshot();
    let mut problems = vec![];
    if let (Some(e), Some(g)) = (exp.ok, ok) {
      if e != g {
        problems.push(format!("{} returned {}", h, if g { "Ok" } else { "Err" }));
      }
    }
    if let Some(b) = inconsistency(&snap) {
      problems.push(b);
    }
    let mut deployed = exp.deployed.clone();
    if matches!(op, Op::Add(_)) && exp.ok == Some(false) {
      deployed = r.deployed.clone();
    }
    let stored = match exp.stored {
      Some(s) => {
        if ids(&s) != snap.definitions {
          problems.push(format!("stores {:?} instead of {:?}", snap.definitions, ids(&s)));
        }
        s
      }
      None => snap.definitions.iter().filter_map(|d| MODELS.iter().map(|m| m.1).find(|m| ns_text(m.ns) == d.0 && name_text(m.name) == d.1)).collect(),
    };
    let want_keys: Vec<String> = deployed.keys().map(|k| name_text(*k)).collect();
    if want_keys != snap.model_evaluators {
      problems.push(format!("evaluators for {:?} instead of {:?}", snap.model_evaluators, want_keys));
    }
    r = Ref { stored, deployed };
    last = if problems.is_empty() { String::new() } else { format!("after {}: {}", h, problems.join("; ")) };
  }
  if last.is_empty() {
    "PASS the history leaves a consistent workspace".into()
  } else {
    format!("FAIL {}", last)
  }
}
