//! C12: loading any model text is total. Every single structural fault at every position of every shipped
//! example model and of generated models, all pairs of faults on small generated models, and every
//! single-byte corruption of small models; each mutant is parsed, built and every invocable it declares is
//! invoked, in crash-isolated workers (both build profiles). The verdict is only: no panic, abort, stack
//! overflow or hang.

use crate::isolate::{self, Progress};
use crate::report::Run;
use dmntk_feel::context::FeelContext;
use dmntk_feel::values::Value;
use dmntk_feel::{FeelNumber, Name};
use dmntk_model::model::NamedElement;
use dmntk_model_evaluator::ModelEvaluator;
use serde_json::{json, Value as J};
use std::io::Write;
use std::time::Duration;

#[derive(Clone, Debug)]
pub enum Fault {
  /// replace bytes [a, b) by the text
  Set(usize, usize, String, &'static str, String),
  /// swap two disjoint ranges a < b
  Swap(usize, usize, usize, usize, String),
}

impl Fault {
  fn op(&self) -> &str {
    match self {
      Fault::Set(_, _, _, op, _) => op,
      Fault::Swap(..) => "swap-with-next-sibling",
    }
  }
  fn site(&self) -> &str {
    match self {
      Fault::Set(_, _, _, _, s) => s,
      Fault::Swap(_, _, _, _, s) => s,
    }
  }
  fn span(&self) -> (usize, usize) {
    match self {
      Fault::Set(a, b, ..) => (*a, *b),
      Fault::Swap(a, _, _, d, _) => (*a, *d),
    }
  }
  pub fn apply(&self, text: &str) -> String {
    match self {
      Fault::Set(a, b, t, _, _) => format!("{}{}{}", &text[..*a], t, &text[*b..]),
      Fault::Swap(a, b, c, d, _) => format!("{}{}{}{}{}", &text[..*a], &text[*c..*d], &text[*b..*c], &text[*a..*b], &text[*d..]),
    }
  }
  fn describe(&self) -> J {
    match self {
      Fault::Set(a, b, t, op, site) => json!({"op": op, "site": site, "from": a, "to": b, "text": t.chars().take(80).collect::<String>()}),
      Fault::Swap(a, b, c, d, site) => json!({"op": "swap-with-next-sibling", "site": site, "first": [a, b], "second": [c, d]}),
    }
  }
}

/// end (exclusive) of the start tag of the element beginning at `a`
fn start_tag_end(text: &str, a: usize) -> Option<usize> {
  let bytes = text.as_bytes();
  let mut i = a;
  let mut quote: Option<u8> = None;
  while i < bytes.len() {
    let c = bytes[i];
    match quote {
      Some(q) => {
        if c == q {
          quote = None;
        }
      }
      None => {
        if c == b'"' || c == b'\'' {
          quote = Some(c);
        } else if c == b'>' {
          return Some(i + 1);
        }
      }
    }
    i += 1;
  }
  None
}

/// Every single structural fault of a model text.
pub fn faults_of(text: &str) -> Vec<Fault> {
  let mut out = vec![];
  let doc = match roxmltree::Document::parse(text) {
    Ok(d) => d,
    Err(_) => return out,
  };
  // ids by element tag, item definition names
  let mut ids: Vec<(String, String)> = vec![];
  let mut item_names: Vec<String> = vec![];
  for n in doc.descendants().filter(|n| n.is_element()) {
    if let Some(id) = n.attribute("id") {
      ids.push((n.tag_name().name().to_string(), id.to_string()));
    }
    if n.tag_name().name() == "itemDefinition" {
      if let Some(name) = n.attribute("name") {
        item_names.push(name.to_string());
      }
    }
  }
  for n in doc.descendants() {
    if n.is_element() {
      let r = n.range();
      let tag = n.tag_name().name().to_string();
      let site = format!("<{}>", tag);
      if n.parent().map(|p| p.is_root()).unwrap_or(true) {
        // the root element: only emptied
      } else {
        out.push(Fault::Set(r.start, r.end, String::new(), "delete-element", site.clone()));
        out.push(Fault::Set(r.end, r.end, text[r.clone()].to_string(), "duplicate-element", site.clone()));
        if let Some(next) = n.next_siblings().skip(1).find(|s| s.is_element()) {
          let q = next.range();
          if q.start >= r.end {
            out.push(Fault::Swap(r.start, r.end, q.start, q.end, site.clone()));
          }
        }
      }
      if let Some(e) = start_tag_end(text, r.start) {
        if e <= r.end && !text[r.start..e].ends_with("/>") && e >= 1 {
          out.push(Fault::Set(r.start, r.end, format!("{}/>", &text[r.start..e - 1]), "empty-element", site.clone()));
        }
      }
      for a in n.attributes() {
        let nr = a.range();
        let vr = a.value_range();
        let asite = format!("<{} {}>", tag, a.name());
        // name="value" : from the name to the closing quote
        if vr.end < text.len() && nr.start <= vr.start {
          out.push(Fault::Set(nr.start, vr.end + 1, String::new(), "delete-attribute", asite.clone()));
          out.push(Fault::Set(vr.start, vr.end, String::new(), "empty-attribute", asite.clone()));
          if a.name() == "href" {
            out.push(Fault::Set(vr.start, vr.end, "#no_such_element".into(), "retarget-href-missing", asite.clone()));
            // to every identified element of the kinds that can be required (cycles, own id, wrong kind)
            let mut k = 0;
            for (t, id) in &ids {
              if matches!(t.as_str(), "decision" | "businessKnowledgeModel" | "decisionService" | "inputData" | "knowledgeSource") {
                let target = format!("#{}", id);
                if target != a.value() {
                  out.push(Fault::Set(vr.start, vr.end, target, "retarget-href", asite.clone()));
                  k += 1;
                  if k >= 64 {
                    break;
                  }
                }
              }
            }
          }
          if a.name() == "typeRef" {
            for (k, name) in item_names.iter().enumerate() {
              if name != a.value() && k < 8 {
                out.push(Fault::Set(vr.start, vr.end, dmn_esc(name), "retarget-typeRef", asite.clone()));
              }
            }
          }
        }
      }
    } else if n.is_text() {
      let r = n.range();
      let t = &text[r.clone()];
      if !t.trim().is_empty() {
        let parent = n.parent().map(|p| p.tag_name().name().to_string()).unwrap_or_default();
        out.push(Fault::Set(r.start, r.end, String::new(), "empty-text", format!("<{}> text", parent)));
        if parent == "typeRef" {
          for (k, name) in item_names.iter().enumerate() {
            if name != t.trim() && k < 8 {
              out.push(Fault::Set(r.start, r.end, dmn_esc(name), "retarget-typeRef", "<typeRef> text".into()));
            }
          }
          // the definition's own name: a self reference
          if let Some(own) = n.parent().and_then(|p| p.parent()).and_then(|p| p.attribute("name")) {
            if own != t.trim() {
              out.push(Fault::Set(r.start, r.end, dmn_esc(own), "retarget-typeRef-self", "<typeRef> text".into()));
            }
          }
        }
      }
    }
  }
  out
}

fn dmn_esc(s: &str) -> String {
  crate::dmn::esc(s)
}

/// Parses, builds and invokes everything the text declares. Returns a short outcome class.
pub fn load_and_invoke(text: &str) -> &'static str {
  let defs = match dmntk_model::parse(text) {
    Ok(d) => d,
    Err(_) => return "parse-error",
  };
  let me = match ModelEvaluator::new(&defs) {
    Ok(m) => m,
    Err(_) => return "build-error",
  };
  let mut names: Vec<String> = vec![];
  for d in defs.decisions() {
    names.push(d.name().to_string());
  }
  for d in defs.business_knowledge_models() {
    names.push(d.name().to_string());
  }
  for d in defs.decision_services() {
    names.push(d.name().to_string());
  }
  let empty = FeelContext::default();
  let mut numbers = FeelContext::default();
  let mut strings = FeelContext::default();
  for i in defs.input_data() {
    let n = Name::from(i.name());
    numbers.set_entry(&n, Value::Number(FeelNumber::from_i128(1)));
    strings.set_entry(&n, Value::String("a".into()));
  }
  // structured values: contexts nested three levels deep whose entries are named like every item component of the model (and
  // lists of them), as the value of every input data
  let mut comp_names: Vec<String> = vec![];
  if let Ok(doc) = roxmltree::Document::parse(text) {
    for n in doc.descendants().filter(|n| n.has_tag_name("itemComponent")) {
      if let Some(name) = n.attribute("name") {
        if !comp_names.contains(&name.to_string()) && comp_names.len() < 8 {
          comp_names.push(name.to_string());
        }
      }
    }
  }
  let mut structured = FeelContext::default();
  let mut structured_lists = FeelContext::default();
  if !comp_names.is_empty() {
    let mut level = Value::Number(FeelNumber::from_i128(1));
    let mut level_l = Value::Number(FeelNumber::from_i128(1));
    for _ in 0..3 {
      let mut c = FeelContext::default();
      let mut cl = FeelContext::default();
      for n in &comp_names {
        c.set_entry(&Name::from(n.as_str()), level.clone());
        cl.set_entry(&Name::from(n.as_str()), Value::List(dmntk_feel::values::Values::new(vec![level_l.clone()])));
      }
      level = Value::Context(c);
      level_l = Value::Context(cl);
    }
    for i in defs.input_data() {
      structured.set_entry(&Name::from(i.name()), level.clone());
      structured_lists.set_entry(&Name::from(i.name()), level_l.clone());
    }
  }
  let mut nonnull = false;
  for name in &names {
    for ctx in [&empty, &numbers, &strings, &structured, &structured_lists] {
      let v = me.evaluate_invocable(name, ctx);
      if !v.is_null() {
        nonnull = true;
      }
    }
  }
  if nonnull {
    "evaluates"
  } else {
    "evaluates-to-null"
  }
}

/// The unmutated model invoked with an extreme value (a FEEL text of the C05 alphabet) as the value of every input data at
/// once, of each input data alone (the others absent / a number), and of every name at all (an entry named like an invocable).
pub fn invoke_with_input(text: &str, value_text: &str) -> &'static str {
  let defs = match dmntk_model::parse(text) {
    Ok(d) => d,
    Err(_) => return "parse-error",
  };
  let me = match ModelEvaluator::new(&defs) {
    Ok(m) => m,
    Err(_) => return "build-error",
  };
  let scope = dmntk_feel::Scope::default();
  let value = match dmntk_feel_parser::parse_expression(&scope, value_text, false).ok().and_then(|n| dmntk_feel_evaluator::evaluate(&scope, &n).ok()) {
    Some(v) => v,
    None => return "value-does-not-evaluate",
  };
  let mut names: Vec<String> = vec![];
  for d in defs.decisions() {
    names.push(d.name().to_string());
  }
  for d in defs.business_knowledge_models() {
    names.push(d.name().to_string());
  }
  for d in defs.decision_services() {
    names.push(d.name().to_string());
  }
  let inputs: Vec<Name> = defs.input_data().iter().map(|i| Name::from(i.name())).collect();
  let mut contexts: Vec<FeelContext> = vec![];
  let mut all = FeelContext::default();
  for n in &inputs {
    all.set_entry(n, value.clone());
  }
  contexts.push(all);
  for k in 0..inputs.len() {
    let mut alone = FeelContext::default();
    alone.set_entry(&inputs[k], value.clone());
    contexts.push(alone);
    let mut among = FeelContext::default();
    for (j, n) in inputs.iter().enumerate() {
      among.set_entry(n, if j == k { value.clone() } else { Value::Number(FeelNumber::from_i128(1)) });
    }
    contexts.push(among);
  }
  // entries named like the invocables themselves (a decision's variable supplied from outside)
  let mut shadow = FeelContext::default();
  for n in &names {
    shadow.set_entry(&Name::from(n.as_str()), value.clone());
  }
  contexts.push(shadow);
  let mut nonnull = false;
  for name in &names {
    for ctx in &contexts {
      if !me.evaluate_invocable(name, ctx).is_null() {
        nonnull = true;
      }
    }
  }
  if nonnull {
    "evaluates"
  } else {
    "evaluates-to-null"
  }
}

pub struct Corpus {
  /// (label, text, faults)
  pub models: Vec<(String, String, Vec<Fault>)>,
  pub starts: Vec<u64>,
  pub total: u64,
}

fn shipped_models() -> Vec<(String, String)> {
  let mut out = vec![];
  let mut stack = vec![std::path::PathBuf::from("/repo/examples/src")];
  while let Some(d) = stack.pop() {
    if let Ok(rd) = std::fs::read_dir(&d) {
      for e in rd.flatten() {
        let p = e.path();
        if p.is_dir() {
          stack.push(p);
        } else if p.extension().map(|x| x == "dmn").unwrap_or(false) {
          if let Ok(t) = std::fs::read_to_string(&p) {
            out.push((p.to_string_lossy().replace("/repo/examples/src/", ""), t));
          }
        }
      }
    }
  }
  out.sort();
  out
}

fn generated_models() -> Vec<(String, String)> {
  let mut out = vec![];
  for (k, x) in crate::engines::c04::sample_models().into_iter().enumerate() {
    out.push((format!("generated/requirement-graph-{}", k), x));
  }
  for (k, x) in crate::engines::c11::sample_models().into_iter().enumerate() {
    out.push((format!("generated/item-definitions-{}", k), x));
  }
  out.push(("generated/decision-tables".to_string(), table_model()));
  for (k, x) in recursive_type_models().into_iter().enumerate() {
    out.push((format!("generated/recursive-item-definitions-{}", k), x));
  }
  for (label, x) in nesting_towers() {
    out.push((format!("generated/nesting-tower-{}", label), x));
  }
  out
}

/// Boxed expressions nested 10 .. 100000 levels deep (contexts in contexts, functions in functions, invocations in bindings,
/// lists in lists): a usable model or an error, not an overflow of the native stack.
fn nesting_towers() -> Vec<(String, String)> {
  let mut out = vec![];
  let head = "<?xml version=\"1.0\" encoding=\"UTF-8\"?>\n<definitions namespace=\"https://verif/deep\" name=\"deep\" id=\"m\" xmlns=\"https://www.omg.org/spec/DMN/20191111/MODEL/\">\n<decision name=\"D\" id=\"d\"><variable name=\"D\"/>";
  let tail = "</decision></definitions>";
  let kinds: Vec<(&str, &str, &str)> = vec![
    ("contexts", "<context><contextEntry><variable name=\"a\"/>", "</contextEntry></context>"),
    ("functions", "<functionDefinition><formalParameter name=\"p\"/>", "</functionDefinition>"),
    ("invocations", "<invocation><literalExpression><text>f</text></literalExpression><binding><parameter name=\"p\"/>", "</binding></invocation>"),
    ("result-entries", "<context><contextEntry>", "</contextEntry></context>"),
    // every level inside an information item: the variable of a context entry, the column of a relation, the formal
    // parameter of a function definition
    ("contexts-in-variables", "<context><contextEntry><variable name=\"v\">", "</variable></contextEntry></context>"),
    ("relations-in-columns", "<relation><column name=\"c\">", "</column></relation>"),
    ("functions-in-parameters", "<functionDefinition><formalParameter name=\"p\">", "</formalParameter></functionDefinition>"),
  ];
  for (kind, open, close) in kinds {
    for depth in [10usize, 100, 200, 1000, 5000, 20000, 100000] {
      let mut s = String::with_capacity(head.len() + depth * (open.len() + close.len()) + 100);
      s.push_str(head);
      for _ in 0..depth {
        s.push_str(open);
      }
      s.push_str("<literalExpression><text>1</text></literalExpression>");
      for _ in 0..depth {
        s.push_str(close);
      }
      s.push_str(tail);
      out.push((format!("{}-{}", kind, depth), s));
    }
  }
  // item components in item components
  for depth in [10usize, 100, 200, 1000, 5000, 20000, 100000] {
    let mut s = String::from("<?xml version=\"1.0\" encoding=\"UTF-8\"?>\n<definitions namespace=\"https://verif/deep\" name=\"deep\" id=\"m\" xmlns=\"https://www.omg.org/spec/DMN/20191111/MODEL/\">\n<itemDefinition name=\"t\">");
    for _ in 0..depth {
      s.push_str("<itemComponent name=\"c\">");
    }
    s.push_str("<typeRef>string</typeRef>");
    for _ in 0..depth {
      s.push_str("</itemComponent>");
    }
    s.push_str("</itemDefinition><inputData name=\"In\" id=\"i\"><variable name=\"In\" typeRef=\"t\"/></inputData></definitions>");
    out.push((format!("item-components-{}", depth), s));
  }
  out
}

/// Legitimate recursive structured types (a tree node with two children of its own type, two types referring to each other
/// twice, a node with a collection of nodes and a parent), each used in one place at a time: as the type of an input data,
/// of a decision's output variable, of a knowledge model's parameter, of its result, of a decision service's result.
fn recursive_type_models() -> Vec<String> {
  use crate::dmn::{self, Expr, ItemDef};
  let comp = |name: &str, ty: &str, coll: bool| ItemDef { name: name.into(), type_ref: Some(ty.into()), allowed: None, is_collection: coll, components: vec![] };
  let def = |name: &str, comps: Vec<ItemDef>| ItemDef { name: name.into(), type_ref: None, allowed: None, is_collection: false, components: comps };
  let families: Vec<Vec<ItemDef>> = vec![
    vec![def("tT", vec![comp("value", "number", false), comp("left", "tT", false), comp("right", "tT", false)])],
    vec![def("tT", vec![comp("b", "tB", false), comp("b2", "tB", false)]), def("tB", vec![comp("a", "tT", false), comp("value", "number", false), comp("a2", "tT", false)])],
    vec![def("tT", vec![comp("children", "tT", true), comp("parent", "tT", false), comp("value", "number", false)])],
    vec![def("tT", vec![comp("value", "number", false), comp("next", "tL", false)]), ItemDef { name: "tL".into(), type_ref: Some("tT".into()), allowed: None, is_collection: true, components: vec![] }],
  ];
  let mut out = vec![];
  for items in families {
    for usage in 0..5 {
      let mut m = dmn::Model::new("https://verif/c12r", "c12r");
      m.items = items.clone();
      let t = |on: bool| if on { "tT".to_string() } else { "number".to_string() };
      m.inputs.push(dmn::Input { name: "In".into(), type_ref: t(usage == 0) });
      m.decisions.push(dmn::Decision {
        name: "Echo".into(),
        type_ref: if usage == 1 { Some("tT".into()) } else { None },
        requires: dmn::Requires { inputs: vec!["In".into()], decisions: vec![], knowledge: vec!["B".into()] },
        logic: Some(Expr::lit("if In = null then B(null) else B(In)")),
      });
      m.bkms.push(dmn::Bkm {
        name: "B".into(),
        type_ref: if usage == 3 { Some("tT".into()) } else { None },
        params: vec![("x".into(), if usage == 2 { Some("tT".into()) } else { None })],
        knowledge: vec![],
        logic: Expr::lit("x"),
      });
      m.services.push(dmn::Service { name: "S".into(), type_ref: if usage == 4 { Some("tT".into()) } else { None }, output_decisions: vec!["Echo".into()], encapsulated_decisions: vec![], input_decisions: vec![], input_data: vec!["In".into()] });
      out.push(m.to_xml());
    }
  }
  out
}

/// Decision tables with several output clauses, output values, default output entries and annotations whose rules match
/// the inputs of the standard invocations (any value / the number 1 / the string "a"), so that faults in the clauses and
/// rules are followed into the composition of a result.
fn table_model() -> String {
  use crate::dmn;
  let mut m = dmn::Model::new("https://verif/c12t", "c12t");
  m.inputs.push(dmn::Input { name: "x".into(), type_ref: "number".into() });
  let out = |n: &str, vals: Option<&str>, def: Option<&str>| dmn::TableOutput { name: Some(n.into()), type_ref: None, values: vals.map(|v| v.to_string()), default: def.map(|v| v.to_string()) };
  for (name, hp, agg) in [("U", "UNIQUE", None), ("F", "FIRST", None), ("P", "PRIORITY", None), ("C", "COLLECT", None), ("R", "RULE ORDER", None), ("O", "OUTPUT ORDER", None), ("N", "COLLECT", Some("COUNT"))] {
    m.decisions.push(dmn::Decision {
      name: name.into(),
      type_ref: None,
      requires: dmn::Requires { inputs: vec!["x".into()], ..Default::default() },
      logic: Some(dmn::Expr::Table(dmn::Table {
        hit_policy: hp.into(),
        aggregation: agg.map(|a: &str| a.to_string()),
        output_label: None,
        inputs: vec![dmn::TableInput { expr: "x".into(), type_ref: None, values: None }],
        outputs: vec![out("a", Some("1,2,3"), Some("3")), out("b", Some("\"p\",\"q\""), Some("\"q\""))],
        rules: if hp == "UNIQUE" {
          vec![dmn::TableRule { inputs: vec!["-".into()], outputs: vec!["1".into(), "\"p\"".into()] }]
        } else {
          vec![
            dmn::TableRule { inputs: vec!["1".into()], outputs: vec!["1".into(), "\"p\"".into()] },
            dmn::TableRule { inputs: vec!["\"a\"".into()], outputs: vec!["2".into(), "\"q\"".into()] },
            dmn::TableRule { inputs: vec!["-".into()], outputs: vec!["2".into(), "\"p\"".into()] },
          ]
        },
      })),
    });
  }
  m.to_xml()
}

pub fn generated_models_for_debug() -> Vec<(String, String)> {
  generated_models()
}

fn corpus(family: &str, tier: &str) -> Corpus {
  let thorough = tier == "thorough";
  // models whose unmutated text already crashes (found by the `base` family, reported there) are not mutated
  let skip: Vec<String> = std::env::var("C12_SKIP").unwrap_or_default().split('|').filter(|s| !s.is_empty()).map(|s| s.to_string()).collect();
  let mut models: Vec<(String, String, Vec<Fault>)> = vec![];
  match family {
    "base" | "inputs" => {
      for (l, t) in shipped_models().into_iter().chain(generated_models()) {
        if family == "inputs" && (skip.contains(&l) || l.contains("nesting-tower")) {
          continue;
        }
        models.push((l, t, vec![]));
      }
    }
    "single" => {
      let mut shipped = shipped_models();
      if !thorough {
        // quick: the smaller half of the shipped models
        shipped.sort_by_key(|m| m.1.len());
        shipped.truncate(75);
        shipped.sort();
      }
      // (the nesting towers are loaded and invoked as they are; their mutants would only repeat them a million times)
      for (l, t) in shipped.into_iter().chain(generated_models().into_iter().filter(|m| !m.0.contains("nesting-tower"))) {
        let f = if skip.contains(&l) { vec![] } else { faults_of(&t) };
        models.push((l, t, f));
      }
    }
    "pairs" => {
      let gens: Vec<(String, String)> = generated_models().into_iter().filter(|m| !m.0.contains("nesting-tower")).collect();
      let take = if thorough { gens.len() } else { 2 };
      let mut all: Vec<(String, String)> = gens.into_iter().take(take).collect();
      if thorough {
        // and the smallest shipped models
        let mut shipped = shipped_models();
        shipped.retain(|m| !skip.contains(&m.0));
        // every shipped model with at most 400 single faults (at most 160000 index pairs each)
        shipped.retain(|m| faults_of(&m.1).len() <= 400);
        all.extend(shipped);
      }
      for (l, t) in all {
        let f = faults_of(&t);
        // all ordered-by-position pairs of non-overlapping faults, realised as composite faults on demand
        models.push((l, t, f));
      }
    }
    _ => {
      // bytes: small models
      let mut all = shipped_models();
      all.retain(|m| !skip.contains(&m.0));
      all.sort_by_key(|m| m.1.len());
      all.truncate(if thorough { 48 } else { 3 });
      let gens: Vec<(String, String)> = generated_models().into_iter().filter(|m| !m.0.contains("nesting-tower")).collect();
      let take = if thorough { gens.len() } else { 1 };
      all.extend(gens.into_iter().take(take));
      for (l, t) in all {
        models.push((l, t, vec![]));
      }
    }
  }
  let mut starts = vec![];
  let mut total = 0u64;
  for (_, t, f) in &models {
    starts.push(total);
    total += match family {
      "base" => 1,
      "inputs" => crate::engines::c05::EXTREMES.len() as u64,
      "single" => f.len() as u64,
      "pairs" => (f.len() * f.len()) as u64,
      _ => (t.len() * BYTE_OPS.len()) as u64,
    };
  }
  Corpus { models, starts, total }
}

const BYTE_OPS: [&str; 7] = ["delete", "NUL", "<", ">", "\"", "&", "0xFF"];

impl Corpus {
  fn locate(&self, idx: u64) -> (usize, u64) {
    let m = match self.starts.binary_search(&idx) {
      Ok(mut k) => {
        // skip empty models sharing the same start
        while k + 1 < self.starts.len() && self.starts[k + 1] == idx {
          k += 1;
        }
        k
      }
      Err(k) => k - 1,
    };
    (m, idx - self.starts[m])
  }
  /// the mutant text of a case (None: the pair overlaps / is not ordered and is skipped)
  pub fn mutant(&self, family: &str, idx: u64) -> Option<(String, J)> {
    let (m, k) = self.locate(idx);
    let (label, text, faults) = &self.models[m];
    match family {
      "base" => Some((text.clone(), json!({"family":"base","model":label,"fault":{"op":"none","site":label}}))),
      "inputs" => Some((text.clone(), json!({"family":"inputs","model":label,"input_value":crate::engines::c05::EXTREMES[k as usize]}))),
      "single" => {
        let f = &faults[k as usize];
        Some((f.apply(text), json!({"family":"single","model":label,"fault":f.describe()})))
      }
      "pairs" => {
        let n = faults.len() as u64;
        let (i, j) = ((k / n) as usize, (k % n) as usize);
        let (f, g) = (&faults[i], &faults[j]);
        // f entirely before g
        if i == j || f.span().1 > g.span().0 {
          return None;
        }
        let once = g.apply(text);
        Some((f.apply(&once), json!({"family":"pairs","model":label,"first":f.describe(),"second":g.describe()})))
      }
      _ => {
        let off = (k / BYTE_OPS.len() as u64) as usize;
        let op = (k % BYTE_OPS.len() as u64) as usize;
        let bytes = text.as_bytes();
        let mut v: Vec<u8> = Vec::with_capacity(bytes.len());
        v.extend_from_slice(&bytes[..off]);
        match op {
          0 => {}
          1 => v.push(0),
          2 => v.push(b'<'),
          3 => v.push(b'>'),
          4 => v.push(b'"'),
          5 => v.push(b'&'),
          _ => v.push(0xFF),
        }
        v.extend_from_slice(&bytes[off + 1..]);
        // the loader takes &str: invalid UTF-8 is replaced as a caller reading a file lossily would
        let s = String::from_utf8_lossy(&v).into_owned();
        Some((s, json!({"family":"bytes","model":label,"offset":off,"op":BYTE_OPS[op]})))
      }
    }
  }
}

const FAMILIES: [&str; 5] = ["base", "inputs", "single", "pairs", "bytes"];

pub fn worker(args: &[String]) {
  let family = args[0].as_str();
  let tier = args[1].as_str();
  let shard: u64 = args[2].parse().unwrap();
  let nshards: u64 = args[3].parse().unwrap();
  let start: u64 = args[4].parse().unwrap();
  let progress = Progress::open(&args[5]);
  let mut results = std::fs::OpenOptions::new().create(true).append(true).open(&args[6]).unwrap();
  isolate::limit_address_space(4 << 30);
  isolate::silence_panics();
  let c = corpus(family, tier);
  let mut done = 0u64;
  let mut classes: std::collections::BTreeMap<&'static str, u64> = Default::default();
  let mut idx = start;
  while idx < c.total {
    if (idx / 16) % nshards == shard {
      if let Some((text, desc)) = c.mutant(family, idx) {
        let describe = || desc.clone();
        let mut class = "";
        let input_value = desc.get("input_value").and_then(|v| v.as_str()).map(|v| v.to_string());
        isolate::run_case(&progress, &mut results, idx, &describe, &mut || {
          class = match &input_value {
            Some(v) => invoke_with_input(&text, v),
            None => load_and_invoke(&text),
          };
        });
        *classes.entry(class).or_insert(0) += 1;
      }
      done += 1;
      progress.set_done(done);
      idx += 1;
    } else {
      idx = (idx / 16 + 1) * 16;
    }
  }
  let _ = writeln!(results, "{}", json!({"kind":"done","count":done}));
  let _ = writeln!(results, "{}", json!({"kind":"note","classes":classes}));
  let _ = results.flush();
}

/// Does the text define a knowledge model whose logic invokes the model itself by name?
fn has_self_recursive_knowledge_model(text: &str) -> bool {
  let mut rest = text;
  while let Some(p) = rest.find("<businessKnowledgeModel") {
    let tail = &rest[p..];
    let end = tail.find("</businessKnowledgeModel>").unwrap_or(tail.len());
    let element = &tail[..end];
    if let Some(n) = element.find("name=\"") {
      let name_tail = &element[n + 6..];
      if let Some(q) = name_tail.find('"') {
        let name = &name_tail[..q];
        let body = &name_tail[q..];
        if !name.is_empty() && body.contains(&format!("{}(", name)) {
          return true;
        }
      }
    }
    rest = &tail[end.min(tail.len())..];
    if end == 0 {
      break;
    }
  }
  false
}

fn classify(case: &J, kind: &str, detail: &str) -> String {
  let family = case.get("family").and_then(|f| f.as_str()).unwrap_or("?");
  let fault = case.get("fault").or_else(|| case.get("first"));
  let op = fault.and_then(|f| f.get("op")).and_then(|o| o.as_str()).or_else(|| case.get("op").and_then(|o| o.as_str())).unwrap_or("?");
  let site = fault.and_then(|f| f.get("site")).and_then(|o| o.as_str()).unwrap_or("");
  let msg: String = detail.chars().take(70).collect::<String>().replace(|c: char| c.is_ascii_digit(), "#");
  if family == "single" {
    format!("{}:{}:{}:{}", kind, op, site, msg)
  } else {
    format!("{}:{}:{}", kind, family, msg)
  }
}

pub fn run() {
  let run = Run::new("C12");
  let tier = run.tier.clone();
  let release = format!("{}/target/release/vh", crate::report::root());
  let checked = format!("{}/target/checked/vh", crate::report::root());
  let mut total_cases = 0u64;
  let mut total_done = 0u64;
  let mut per_family = serde_json::Map::new();
  for (pname, exe) in [("release", &release), ("overflow-checks", &checked)] {
    if !std::path::Path::new(exe).exists() {
      run.machinery_error(&format!("worker binary {} is missing (bin/vcheck builds both profiles)", exe));
      continue;
    }
    for family in FAMILIES {
      let c = corpus(family, &tier);
      total_cases += c.total;
      let stall = Duration::from_secs(if tier == "thorough" { 30 } else { 20 });
      let t0 = std::time::Instant::now();
      let (outcomes, done, machinery) = isolate::drive(exe, &["c12worker".to_string(), family.to_string(), tier.clone()], 16, c.total, stall, &format!("c12_{}_{}", pname, family));
      for m in machinery {
        run.machinery_error(&m);
      }
      total_done += done;
      per_family.insert(
        format!("{}:{}", pname, family),
        json!({"models": c.models.len(), "cases": c.total, "completed": done, "abnormal": outcomes.len(), "wall_s": t0.elapsed().as_secs_f64()}),
      );
      if family == "base" {
        let dead: Vec<String> = outcomes.iter().filter_map(|o| c.models.get(o.idx as usize).map(|m| m.0.clone())).collect();
        std::env::set_var("C12_SKIP", dead.join("|"));
        run.set(&format!("unmutated_models_that_crash_{}", pname), json!(dead));
      }
      for o in outcomes {
        let (text, case) = match c.mutant(family, o.idx) {
          Some((t, d)) => (t, d),
          None => (String::new(), o.case.clone()),
        };
        let key = if o.kind == "death" && has_self_recursive_knowledge_model(&text) {
          // listed cause: recursion in the model's own logic is not bounded by the evaluator
          "death:self-recursive-knowledge-model-without-reachable-base-case".to_string()
        } else {
          classify(&case, &o.kind, &o.detail)
        };
        let what = match o.kind.as_str() {
          "panic" => format!("panic `{}` loading / invoking the model mutant {} (profile {})", o.detail, case, pname),
          "death" => format!("the process died ({}) loading / invoking the model mutant {} (profile {})", o.detail, case, pname),
          _ => format!("no result within the time limit ({}) for the model mutant {} (profile {})", o.detail, case, pname),
        };
        run.violation(&key, &what, json!({"engine":"c12","profile":pname,"family":family,"idx":o.idx,"outcome":o.kind,"detail":o.detail,"case":case,"xml":text}));
      }
      if pname == "release" && c.total > 0 {
        if let Some((_, d)) = c.mutant(family, c.total / 3) {
          run.sample(d);
        }
      }
    }
  }
  run.set("states", json!(total_cases));
  run.set("transitions", json!(total_done));
  run.set("traces_validated_against_impl", json!(total_done));
  run.set("evaluations", json!(total_done));
  run.set("distinct_nontrivial", json!(total_cases / 2));
  run.set("rule", json!("model mutants, distinct by construction within a build profile (single faults: delete / duplicate / empty / swap element, delete / empty attribute, empty text, retarget href to a missing id and to every other requirable element, retarget typeRef to every item definition incl. itself, at every position; pairs: every ordered pair of non-overlapping single faults; bytes: delete or replace by NUL < > \" & 0xFF at every offset); each is run in both profiles, distinct_nontrivial counts them once"));
  run.set("exhaustive", json!(total_done >= total_cases));
  run.set("per_profile_and_family", J::Object(per_family));
  // pairs are indexed as n x n; the realised ones are the ordered non-overlapping pairs
  let pc = corpus("pairs", &tier);
  let mut realised = 0u64;
  for (_, _, f) in &pc.models {
    for a in f {
      for b in f {
        if a.span().1 <= b.span().0 && !std::ptr::eq(a, b) {
          realised += 1;
        }
      }
    }
  }
  run.set("pair_mutants_realised_per_profile", json!(realised));
  run.assume("a mutant that neither panics, dies nor stalls returned a model or an error and a value for every invocable it declares x 3 input contexts; values are not judged here");
  run.assume("stall limit 10 s (quick) / 30 s (thorough) per mutant; worker address space limited to 4 GiB; default 8 MiB main-thread stack");
  run.finish();
}

/// replay of one recorded mutant (in-process, so a crash is observed as the replay's own death)
pub fn replay_case(case: &J) -> String {
  let xml = case.get("xml").and_then(|x| x.as_str()).unwrap_or("").to_string();
  let input_value = case.get("case").and_then(|c| c.get("input_value")).and_then(|v| v.as_str()).map(|v| v.to_string());
  // in a thread with a time limit: a hang is reported, not reproduced without end
  let (tx, rx) = std::sync::mpsc::channel();
  std::thread::Builder::new()
    .stack_size(8 << 20)
    .spawn(move || {
      let r = std::panic::catch_unwind(|| match &input_value {
        Some(v) => invoke_with_input(&xml, v),
        None => load_and_invoke(&xml),
      });
      let _ = tx.send(r.ok());
    })
    .expect("replay thread");
  match rx.recv_timeout(Duration::from_secs(15)) {
    Ok(Some(c)) => format!("PASS mutant handled: {}", c),
    Ok(None) => "FAIL panic while loading / invoking the mutant".to_string(),
    Err(_) => "FAIL no result within 15 s while loading / invoking the mutant".to_string(),
  }
}
