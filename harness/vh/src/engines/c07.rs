//! C07 — numbers print as plain decimal text that denotes exactly their value.

use crate::report::Run;
use dmntk_common::Jsonify;
use dmntk_feel::values::Value;
use dmntk_feel::{FeelNumber, Scope};
use rayon::prelude::*;
use serde_json::json;
use std::sync::atomic::{AtomicU64, Ordering};

/// Canonical form of a plain decimal text: (negative, integer digits without leading zeros, fraction digits
/// without trailing zeros); None when the text is not plain decimal.
pub fn canon_plain(text: &str) -> Option<(bool, String, String)> {
  let (neg, body) = match text.strip_prefix('-') {
    Some(r) => (true, r),
    None => (false, text),
  };
  let (ip, fp) = match body.split_once('.') {
    Some((a, b)) => {
      if b.is_empty() {
        return None;
      }
      (a, b)
    }
    None => (body, ""),
  };
  if ip.is_empty() || !ip.bytes().all(|c| c.is_ascii_digit()) || !fp.bytes().all(|c| c.is_ascii_digit()) {
    return None;
  }
  let ip = ip.trim_start_matches('0');
  let fp = fp.trim_end_matches('0');
  let zero = ip.is_empty() && fp.is_empty();
  Some((neg && !zero, ip.to_string(), fp.to_string()))
}

/// Canonical form of coefficient x 10^exponent.
pub fn canon_sci(neg: bool, coef: &str, exp: i32) -> (bool, String, String) {
  let (ip, fp) = if exp >= 0 {
    (format!("{}{}", coef, "0".repeat(exp as usize)), String::new())
  } else {
    let k = (-exp) as usize;
    if coef.len() > k {
      (coef[..coef.len() - k].to_string(), coef[coef.len() - k..].to_string())
    } else {
      (String::new(), format!("{}{}", "0".repeat(k - coef.len()), coef))
    }
  };
  let ip = ip.trim_start_matches('0').to_string();
  let fp = fp.trim_end_matches('0').to_string();
  let zero = ip.is_empty() && fp.is_empty();
  (neg && !zero, ip, fp)
}

pub fn is_json_number(text: &str) -> bool {
  // -?(0|[1-9][0-9]*)(\.[0-9]+)?
  let body = text.strip_prefix('-').unwrap_or(text);
  let (ip, fp) = match body.split_once('.') {
    Some((a, b)) => (a, Some(b)),
    None => (body, None),
  };
  if ip.is_empty() || !ip.bytes().all(|c| c.is_ascii_digit()) {
    return false;
  }
  if ip.len() > 1 && ip.starts_with('0') {
    return false;
  }
  match fp {
    Some(f) => !f.is_empty() && f.bytes().all(|c| c.is_ascii_digit()),
    None => true,
  }
}

fn short(s: &str) -> String {
  if s.len() > 120 {
    format!("{}…{}({} chars)", &s[..50], &s[s.len() - 30..], s.len())
  } else {
    s.to_string()
  }
}

/// The checks every finite number must pass; returns (key, description) of the first failure.
pub fn check_number(n: &FeelNumber, expected: Option<&(bool, String, String)>, origin: &str) -> Option<(String, String)> {
  let text = n.to_string();
  let class = |exp_neg: bool, c: &(bool, String, String)| -> String {
    let mag = if c.1.is_empty() { "below-one" } else if c.2.is_empty() { "integer" } else { "mixed" };
    format!("{}{}", if exp_neg { "negative-" } else { "" }, mag)
  };
  let canon = match canon_plain(&text) {
    Some(c) => c,
    None => {
      let k = match expected {
        Some(e) => class(e.0, e),
        None => "result".to_string(),
      };
      return Some((format!("display-not-plain:{}", k), format!("{} prints as `{}`, which is not plain decimal text", origin, short(&text))));
    }
  };
  if let Some(e) = expected {
    if &canon != e {
      return Some((
        format!("display-wrong-value:{}", class(e.0, e)),
        format!("{} prints as `{}`, which denotes a different value", origin, short(&text)),
      ));
    }
  }
  // reading the text back gives an equal number
  match text.parse::<FeelNumber>() {
    Ok(back) => {
      if back != *n {
        return Some((format!("read-back-differs:{}", class(canon.0, &canon)), format!("{}: reading `{}` back gives {}", origin, short(&text), short(&back.to_string()))));
      }
    }
    Err(e) => return Some((format!("read-back-fails:{}", class(canon.0, &canon)), format!("{}: `{}` is not accepted back: {}", origin, short(&text), e))),
  }
  // JSON rendering
  let js = n.jsonify();
  if !is_json_number(&js) {
    return Some((format!("json-not-a-number:{}", class(canon.0, &canon)), format!("{} renders in JSON as `{}`, which is not a JSON number", origin, short(&js))));
  }
  if canon_plain(&js).as_ref() != Some(&canon) {
    return Some((format!("json-wrong-value:{}", class(canon.0, &canon)), format!("{} renders in JSON as `{}` but prints as `{}`", origin, short(&js), short(&text))));
  }
  // the number as a value, as an item of a list and as an entry of a context (the rendering the service answers with)
  {
    use dmntk_feel::values::Values;
    let v = Value::Number(*n);
    let alone = v.jsonify();
    let mut c = dmntk_feel::context::FeelContext::default();
    c.set_entry(&dmntk_feel::Name::from("k"), v.clone());
    let in_list = Value::List(Values::new(vec![v.clone(), v])).jsonify();
    let in_ctx = Value::Context(c).jsonify();
    let strip = |s: &str| s.chars().filter(|ch| !ch.is_whitespace()).collect::<String>();
    if alone != js || strip(&in_list) != format!("[{},{}]", js, js) || strip(&in_ctx) != format!("{{\"k\":{}}}", js) {
      return Some((
        format!("value-json-differs:{}", class(canon.0, &canon)),
        format!("{} renders as the number `{}` but as a value `{}`, in a list `{}`, in a context `{}`", origin, short(&js), short(&alone), short(&in_list), short(&in_ctx)),
      ));
    }
  }
  None
}

fn eval_literal(text: &str) -> Result<Value, String> {
  let scope = Scope::default();
  let node = dmntk_feel_parser::parse_expression(&scope, text, false).map_err(|e| e.to_string())?;
  dmntk_feel_evaluator::evaluate(&scope, &node).map_err(|e| e.to_string())
}

pub fn coefficient_patterns(len: usize) -> Vec<String> {
  let mut v = vec!["9".repeat(len)];
  if len == 1 {
    v.push("1".into());
    v.push("5".into());
  } else {
    v.push(format!("1{}1", "0".repeat(len - 2)));
    v.push("1234567890123456789012345678901234"[..len].to_string());
    // with trailing zeros: same value as a shorter coefficient with a larger exponent
    v.push(format!("{}0", "7".repeat(len - 1)));
    if len > 3 {
      v.push(format!("5{}", "0".repeat(len - 1)));
    }
  }
  v
}

/// texts that are not finite numbers
const NOT_NUMBERS: [&str; 12] = ["12,5", "", "abc", "1e", "--1", "1..2", "NaN", "Infinity", "-inf", "1E99999", "0x10", " 1"];

pub fn run() {
  let run = Run::new("C07");
  let thorough = run.thorough();
  let lengths: Vec<usize> = if thorough { (1..=34).collect() } else { vec![1, 2, 3, 7, 16, 17, 33, 34] };
  let cases = AtomicU64::new(0);
  let literal_cases = AtomicU64::new(0);
  let xsd_cases = AtomicU64::new(0);
  let exps: Vec<i32> = (-6176..=6111).collect();
  exps.par_iter().for_each(|&e| {
    for &len in &lengths {
      // sequences: a text that is not a number is converted first (and must be rejected), the numbers follow on the same
      // thread - what one conversion leaves behind must not reach the next
      let not_numbers = NOT_NUMBERS;
      let before = not_numbers[((e + 6176) as usize + len) % not_numbers.len()];
      if before.parse::<FeelNumber>().is_ok() {
        run.violation("not-a-number-accepted", &format!("FeelNumber::from_str accepts `{}`", before), json!({"engine":"c07","sci":"1E0","after_invalid":before,"accepted":true}));
      }
      for coef in coefficient_patterns(len) {
        for neg in [false, true] {
          let sci = format!("{}{}E{}", if neg { "-" } else { "" }, coef, e);
          let n = match sci.parse::<FeelNumber>() {
            Ok(n) => n,
            Err(_) => {
              // is it the text itself, or what the rejected text before it left behind?
              let alone = std::thread::scope(|s| s.spawn(|| sci.parse::<FeelNumber>().is_ok()).join().unwrap_or(false));
              run.violation(
                if alone { "construct-rejected:after-a-rejected-text" } else { "construct-rejected" },
                &format!("the finite decimal128 value {} is rejected by FeelNumber::from_str{}", sci, if alone { format!(" after the text `{}` was rejected on the same thread (alone it is accepted)", before) } else { String::new() }),
                json!({"engine":"c07","sci":sci,"after_invalid":before}),
              );
              continue;
            }
          };
          cases.fetch_add(1, Ordering::Relaxed);
          let expected = canon_sci(neg, &coef, e);
          if let Some((k, w)) = check_number(&n, Some(&expected), &sci) {
            run.violation(&k, &w, json!({"engine":"c07","sci":sci}));
            continue;
          }
          // typed input data: xsd conversions of the plain text
          let text = n.to_string();
          for (name, f) in [
            ("xsd:decimal", Value::try_from_xsd_decimal as fn(&str) -> dmntk_common::Result<Value>),
            ("xsd:double", Value::try_from_xsd_double),
          ] {
            xsd_cases.fetch_add(1, Ordering::Relaxed);
            match f(&text) {
              Ok(Value::Number(m)) if m == n => {}
              other => run.violation(
                &format!("xsd-input:{}", name),
                &format!("{} conversion of the plain text of {} gives {:?}", name, sci, other.map(|v| crate::rval::show_value(&v)).map_err(|e| e.to_string())),
                json!({"engine":"c07","sci":sci,"conversion":name}),
              ),
            }
          }
          if expected.2.is_empty() {
            xsd_cases.fetch_add(1, Ordering::Relaxed);
            match Value::try_from_xsd_integer(&text) {
              Ok(Value::Number(m)) if m == n => {}
              other => run.violation(
                "xsd-input:xsd:integer",
                &format!("xsd:integer conversion of the plain text of {} gives {:?}", sci, other.map(|v| crate::rval::show_value(&v)).map_err(|e| e.to_string())),
                json!({"engine":"c07","sci":sci,"conversion":"xsd:integer"}),
              ),
            }
          }
          // the same digits as a FEEL literal (plain notation; a sign is a negation)
          if !neg || len <= 3 {
            let plain = {
              let (_, ip, fp) = &expected;
              let ip = if ip.is_empty() { "0".to_string() } else { ip.clone() };
              if fp.is_empty() {
                ip
              } else {
                format!("{}.{}", ip, fp)
              }
            };
            let mut spellings = vec![if neg { format!("-{}", plain) } else { plain.clone() }];
            if !neg && expected.1.is_empty() && !expected.2.is_empty() && len <= 3 {
              spellings.push(format!(".{}", expected.2)); // `.5` style
            }
            for lit in spellings {
              literal_cases.fetch_add(1, Ordering::Relaxed);
              match eval_literal(&lit) {
                Ok(Value::Number(m)) if m == n => {}
                other => run.violation(
                  &format!("literal:{}", if neg { "negative" } else if expected.1.is_empty() { "below-one" } else if expected.2.is_empty() { "integer" } else { "mixed" }),
                  &format!("the FEEL literal `{}` evaluates to {:?} instead of {}", short(&lit), other.map(|v| short(&v.to_string())), sci),
                  json!({"engine":"c07","sci":sci,"literal":lit}),
                ),
              }
            }
          }
        }
      }
    }
  });
  // zeros of every exponent
  let zero_cases = AtomicU64::new(0);
  exps.par_iter().for_each(|&e| {
    for neg in [false, true] {
      let sci = format!("{}0E{}", if neg { "-" } else { "" }, e);
      if let Ok(n) = sci.parse::<FeelNumber>() {
        zero_cases.fetch_add(1, Ordering::Relaxed);
        let expected = (false, String::new(), String::new());
        if let Some((k, w)) = check_number(&n, Some(&expected), &sci) {
          run.violation(&format!("zero:{}", k), &w, json!({"engine":"c07","sci":sci}));
        }
      }
    }
  });
  // literal spellings with long zero runs and 34 significant digits
  let specials = vec![
    ("0.000000000000000000000000000000000001", "1E-36"),
    ("1000000000000000000000000000000000000000", "1E39"),
    ("0.1234567890123456789012345678901234", "1234567890123456789012345678901234E-34"),
    ("12345678901234567.89012345678901234", "1234567890123456789012345678901234E-17"),
    ("00012.50", "125E-1"),
    (".50", "5E-1"),
  ];
  for (lit, sci) in &specials {
    literal_cases.fetch_add(1, Ordering::Relaxed);
    let want = sci.parse::<FeelNumber>().unwrap();
    match eval_literal(lit) {
      Ok(Value::Number(m)) if m == want => {}
      other => run.violation(
        &format!("literal-special:{}", lit),
        &format!("the FEEL literal `{}` evaluates to {:?} instead of {}", lit, other.map(|v| short(&v.to_string())), sci),
        json!({"engine":"c07","sci":sci,"literal":lit}),
      ),
    }
  }
  // all results of arithmetic on the C02 operand lattice go through the same checks
  let arith = AtomicU64::new(0);
  crate::engines::c02::enumerate(
    thorough,
    &|_, _, _, _, _| {},
    &|n, origin| {
      let dbg = format!("{:?}", n);
      if dbg.contains("Inf") || dbg.contains("NaN") {
        return; // not a finite number: C02's subject
      }
      arith.fetch_add(1, Ordering::Relaxed);
      if let Some((k, w)) = check_number(n, None, origin) {
        run.violation(&format!("arithmetic-result:{}", k), &w, json!({"engine":"c07","origin":origin}));
      }
    },
  );
  let total = cases.load(Ordering::Relaxed) + zero_cases.load(Ordering::Relaxed) + arith.load(Ordering::Relaxed);
  run.sample(json!({"sci":"-99E-6176","expected_plain":"-0.000…099 (6176 fraction digits)"}));
  run.sample(json!({"sci":"1234567E6111","checks":["display is plain decimal","display denotes coefficient x 10^exponent","from_str(display) == value","jsonify is a JSON number with the same value","xsd decimal/double/integer input","FEEL literal"]}));
  run.set("states", json!(total));
  run.set("transitions", json!(total * 4 + literal_cases.load(Ordering::Relaxed) + xsd_cases.load(Ordering::Relaxed)));
  run.set("traces_validated_against_impl", json!(total));
  run.set("evaluations", json!(total + literal_cases.load(Ordering::Relaxed) + xsd_cases.load(Ordering::Relaxed)));
  run.set("distinct_nontrivial", json!(cases.load(Ordering::Relaxed)));
  run.set("rule", json!("distinct finite non-zero decimal128 values: every exponent -6176..6111 x coefficient lengths x coefficient patterns (all nines, 10..01, 1234.., trailing zeros) x both signs; plus zeros of both signs at every exponent"));
  run.set("exhaustive", json!(true));
  run.set("exponents", json!(exps.len()));
  run.set("coefficient_lengths", json!(lengths));
  run.set("literal_cases", json!(literal_cases.load(Ordering::Relaxed)));
  run.set("xsd_input_cases", json!(xsd_cases.load(Ordering::Relaxed)));
  run.set("zero_cases", json!(zero_cases.load(Ordering::Relaxed)));
  run.set("arithmetic_results_checked", json!(arith.load(Ordering::Relaxed)));
  run.assume("exactness is decided by digit-string arithmetic on (sign, integer digits, fraction digits); no floating point or big-number library is involved");
  run.assume("results of arithmetic are pushed through the same checks by the C02 engine");
  run.finish();
}

/// replay of one recorded number
pub fn replay_case(case: &serde_json::Value) -> String {
  // an arithmetic result is recomputed from its origin `<level> <op> <a> [<b>]` and checked like any other number
  if let Some(origin) = case.get("origin").and_then(|x| x.as_str()) {
    let parts: Vec<&str> = origin.split(' ').filter(|p| !p.is_empty()).collect();
    if parts.len() >= 3 {
      let (op, a) = (parts[1], parts[2].parse::<FeelNumber>());
      let b = parts.get(3).and_then(|t| t.parse::<FeelNumber>().ok());
      let feel_text = match op {
        "add" => "a + b",
        "sub" => "a - b",
        "mul" => "a * b",
        "div" => "a / b",
        "pow" => "a ** b",
        "neg" => "-a",
        "abs" => "abs(a)",
        "floor" => "floor(a)",
        "ceiling" => "ceiling(a)",
        "decimal" => "decimal(a, b)",
        "modulo" | "rem" => "modulo(a, b)",
        "sqrt" => "sqrt(a)",
        "exp" => "exp(a)",
        "log" => "log(a)",
        _ => "",
      };
      if let (Ok(a), false) = (a, feel_text.is_empty()) {
        return match crate::engines::c02::prep(feel_text)(&crate::engines::c02::scope2(&a, b.as_ref())) {
          Value::Number(n) => match check_number(&n, None, origin) {
            None => format!("PASS the result of {} prints as {}", origin, short(&n.to_string())),
            Some((k, w)) => format!("FAIL {}: {}", k, w),
          },
          other => format!("OBSERVED {} gives {}", origin, short(&other.to_string())),
        };
      }
    }
    return format!("OBSERVED origin {} is not replayed on its own", origin);
  }
  let sci = case.get("sci").and_then(|x| x.as_str()).unwrap_or("");
  let text = sci;
  if let Some(before) = case.get("after_invalid").and_then(|x| x.as_str()) {
    let accepted = before.parse::<FeelNumber>().is_ok();
    if case.get("accepted").is_some() {
      return if accepted { format!("FAIL FeelNumber::from_str accepts `{}`", before) } else { format!("PASS `{}` is rejected", before) };
    }
  }
  let n = match text.parse::<FeelNumber>() {
    Ok(n) => n,
    Err(_) => return format!("FAIL the finite decimal128 value {} is rejected by FeelNumber::from_str", text),
  };
  let upper = text.to_ascii_uppercase();
  let expected = upper.find('E').and_then(|p| {
    let (m, e) = (&upper[..p], upper[p + 1..].parse::<i32>().ok()?);
    let neg = m.starts_with('-');
    let coef = m.trim_start_matches('-').trim_start_matches('+');
    if coef.contains('.') {
      None
    } else {
      Some(canon_sci(neg, coef, e))
    }
  });
  if let Some(conv) = case.get("conversion").and_then(|x| x.as_str()) {
    let plain = n.to_string();
    let r = match conv {
      "xsd:decimal" => Value::try_from_xsd_decimal(&plain),
      "xsd:double" => Value::try_from_xsd_double(&plain),
      _ => Value::try_from_xsd_integer(&plain),
    };
    return match r {
      Ok(Value::Number(m)) if m == n => format!("PASS the {} conversion of the plain text of {} gives the number back", conv, text),
      other => format!("FAIL the {} conversion of the plain text of {} gives {:?}", conv, text, other.map(|v| short(&v.to_string())).map_err(|e| e.to_string())),
    };
  }
  if let Some(lit) = case.get("literal").and_then(|x| x.as_str()) {
    return match eval_literal(lit) {
      Ok(Value::Number(m)) if m == n => format!("PASS the FEEL literal `{}` evaluates to {}", short(lit), text),
      other => format!("FAIL the FEEL literal `{}` evaluates to {:?} instead of {}", short(lit), other.map(|v| short(&v.to_string())), text),
    };
  }
  match check_number(&n, expected.as_ref(), text) {
    None => format!("PASS {} prints as {}", text, short(&n.to_string())),
    Some((k, w)) => format!("FAIL {}: {}", k, w),
  }
}
