//! C14 — temporal literals denote exactly what is written and print back losslessly.

use crate::reftime::*;
use crate::report::Run;
use dmntk_feel::context::FeelContext;
use dmntk_feel::values::Value;
use dmntk_feel::{FeelDate, FeelDateTime, FeelDaysAndTimeDuration, FeelTime, FeelYearsAndMonthsDuration, Name, Scope};
use rayon::prelude::*;
use serde_json::json;
use std::convert::TryFrom;
use std::sync::atomic::{AtomicU64, Ordering};

#[derive(Clone, Copy, PartialEq, Debug)]
pub enum Kind {
  Date,
  Time,
  DateTime,
  Dtd,
  Ymd,
}

impl Kind {
  fn name(&self) -> &'static str {
    match self {
      Kind::Date => "date",
      Kind::Time => "time",
      Kind::DateTime => "date-time",
      Kind::Dtd => "days-and-time-duration",
      Kind::Ymd => "years-and-months-duration",
    }
  }
  pub fn function(&self) -> &'static str {
    match self {
      Kind::Date => "date",
      Kind::Time => "time",
      Kind::DateTime => "date and time",
      Kind::Dtd | Kind::Ymd => "duration",
    }
  }
}

pub fn known_zone(id: &str) -> bool {
  id.parse::<chrono_tz::Tz>().is_ok()
}

enum Expect {
  /// canonical text
  Accept(String),
  Reject,
  Unspec,
}

fn expectation(kind: Kind, t: &str) -> Expect {
  match kind {
    Kind::Date => match parse_date(t) {
      Some(d) => Expect::Accept(print_date(&d)),
      None => {
        if is_year_zero(t) {
          Expect::Unspec
        } else {
          Expect::Reject
        }
      }
    },
    Kind::Time => match parse_time(t, &known_zone) {
      Ok(x) => Expect::Accept(print_time(&x)),
      Err(true) => Expect::Unspec,
      Err(false) => Expect::Reject,
    },
    Kind::DateTime => match parse_date_time(t, &known_zone) {
      Ok(x) => Expect::Accept(print_date_time(&x)),
      Err(true) => Expect::Unspec,
      Err(false) => Expect::Reject,
    },
    Kind::Dtd => match parse_dt_duration(t) {
      Ok(n) => Expect::Accept(print_dt_duration(n)),
      Err(true) => Expect::Unspec,
      Err(false) => {
        // `duration("P1Y")` is a valid literal of the other duration kind
        if parse_ym_duration(t).is_ok() {
          Expect::Unspec
        } else {
          Expect::Reject
        }
      }
    },
    Kind::Ymd => match parse_ym_duration(t) {
      Ok(n) => Expect::Accept(print_ym_duration(n)),
      Err(true) => Expect::Unspec,
      Err(false) => {
        if parse_dt_duration(t).is_ok() {
          Expect::Unspec
        } else {
          Expect::Reject
        }
      }
    },
  }
}

/// Feature class of a literal: identifies the cause of a finding without naming every literal.
fn literal_class(kind: Kind, t: &str) -> String {
  let mut c: Vec<String> = vec![];
  if matches!(kind, Kind::Date | Kind::DateTime) {
    let neg = t.starts_with('-');
    let body = t.strip_prefix('-').unwrap_or(t);
    let ys = body.split('-').next().unwrap_or("");
    if let Ok(y) = ys.parse::<i64>() {
      if neg {
        c.push("negative-year".into());
      }
      if y < 1000 {
        c.push("year-below-1000".into());
      } else if y > 262143 {
        c.push("year-beyond-chrono-range".into());
      } else if y > 9999 {
        c.push("year-above-9999".into());
      }
    }
  }
  if matches!(kind, Kind::Time | Kind::DateTime) {
    let tp = match t.find('T') {
      Some(i) => &t[i + 1..],
      None => t,
    };
    if let Some(i) = tp.find('.') {
      let n = tp[i + 1..].bytes().take_while(|b| b.is_ascii_digit()).count();
      c.push(format!("fraction-{}-digits", n));
    }
    if let Some(i) = tp.find('@') {
      let id = &tp[i + 1..];
      if id.bytes().any(|b| b.is_ascii_digit() || b == b'+' || b == b'-') {
        c.push("zone-id-with-digit-or-sign".into());
      } else {
        c.push("named-zone".into());
      }
    } else if tp.len() > 8 {
      let z = &tp[8..];
      let z = z.trim_start_matches(|ch: char| ch == '.' || ch.is_ascii_digit());
      if z.starts_with('-') {
        if z.starts_with("-00") {
          c.push("negative-offset-below-one-hour".into());
        } else {
          c.push("negative-offset".into());
        }
      } else if z.starts_with('+') {
        c.push("positive-offset".into());
      }
      if z.len() == 9 {
        c.push("offset-with-seconds".into());
      }
    }
  }
  if matches!(kind, Kind::Dtd | Kind::Ymd) {
    if t.starts_with('-') {
      c.push("negative".into());
    }
    if let Some(i) = t.find('.') {
      let n = t[i + 1..].bytes().take_while(|b| b.is_ascii_digit()).count();
      c.push(format!("fraction-{}-digits", n));
    }
    if t.ends_with('T') {
      c.push("trailing-T".into());
    }
  }
  if c.is_empty() {
    "plain".into()
  } else {
    c.join("+")
  }
}

fn eval_with(scope: &Scope, text: &str) -> Value {
  match dmntk_feel_parser::parse_expression(scope, text, false) {
    Ok(n) => dmntk_feel_evaluator::evaluate(scope, &n).unwrap_or(Value::Null(Some("evaluate error".into()))),
    Err(e) => Value::Null(Some(format!("parse error: {}", e))),
  }
}

fn kind_matches(kind: Kind, v: &Value) -> bool {
  matches!(
    (kind, v),
    (Kind::Date, Value::Date(_)) | (Kind::Time, Value::Time(_)) | (Kind::DateTime, Value::DateTime(_)) | (Kind::Dtd, Value::DaysAndTimeDuration(_)) | (Kind::Ymd, Value::YearsAndMonthsDuration(_))
  )
}

fn api_parse(kind: Kind, t: &str) -> Option<Value> {
  match kind {
    Kind::Date => FeelDate::try_from(t).ok().map(Value::Date),
    Kind::Time => t.parse::<FeelTime>().ok().map(Value::Time),
    Kind::DateTime => FeelDateTime::try_from(t).ok().map(Value::DateTime),
    Kind::Dtd => FeelDaysAndTimeDuration::try_from(t).ok().map(Value::DaysAndTimeDuration),
    Kind::Ymd => FeelYearsAndMonthsDuration::try_from(t).ok().map(Value::YearsAndMonthsDuration),
  }
}

fn xsd_parse(kind: Kind, t: &str) -> Option<Value> {
  match kind {
    Kind::Date => Value::try_from_xsd_date(t).ok(),
    Kind::Time => Value::try_from_xsd_time(t).ok(),
    Kind::DateTime => Value::try_from_xsd_date_time(t).ok(),
    Kind::Dtd | Kind::Ymd => Value::try_from_xsd_duration(t).ok(),
  }
}

pub struct Cnt {
  pub literals: AtomicU64,
  pub observations: AtomicU64,
  pub accepted: AtomicU64,
  pub rejected: AtomicU64,
  pub unspec: AtomicU64,
}

/// Components read back through the value's accessors.
fn components_ok(kind: Kind, t: &str, v: &Value) -> Option<String> {
  match (kind, v) {
    (Kind::Date, Value::Date(d)) => {
      let r = parse_date(t)?;
      if d.year() as i64 != r.year || d.month() as u32 != r.month || d.day() as u32 != r.day {
        return Some(format!("components {}-{}-{}", d.year(), d.month(), d.day()));
      }
      None
    }
    (Kind::Time, Value::Time(x)) => {
      let r = parse_time(t, &known_zone).ok()?;
      if x.hour() as u32 != r.hour || x.minute() as u32 != r.minute || x.second() as u32 != r.second {
        return Some(format!("components {}:{}:{}", x.hour(), x.minute(), x.second()));
      }
      match &r.zone {
        RZone::Utc => {
          if x.feel_time_offset() != Some(0) {
            return Some(format!("time offset {:?}", x.feel_time_offset()));
          }
        }
        RZone::Offset(s) => {
          if x.feel_time_offset().map(|o| o as i64) != Some(*s) {
            return Some(format!("time offset {:?} instead of {}", x.feel_time_offset(), s));
          }
        }
        RZone::Named(id) => {
          if x.feel_time_zone().as_deref() != Some(id.as_str()) {
            return Some(format!("timezone {:?}", x.feel_time_zone()));
          }
        }
        RZone::Local => {}
      }
      None
    }
    (Kind::DateTime, Value::DateTime(x)) => {
      let r = parse_date_time(t, &known_zone).ok()?;
      if x.year() as i64 != r.date.year || x.month() as u32 != r.date.month || x.day() as u32 != r.date.day || x.hour() as u32 != r.time.hour || x.minute() as u32 != r.time.minute || x.second() as u32 != r.time.second {
        return Some(format!("components {}-{}-{}T{}:{}:{}", x.year(), x.month(), x.day(), x.hour(), x.minute(), x.second()));
      }
      match &r.time.zone {
        RZone::Utc => {
          if x.feel_time_offset() != Some(0) {
            return Some(format!("time offset {:?}", x.feel_time_offset()));
          }
        }
        RZone::Offset(s) => {
          if x.feel_time_offset().map(|o| o as i64) != Some(*s) {
            return Some(format!("time offset {:?} instead of {}", x.feel_time_offset(), s));
          }
        }
        RZone::Named(id) => {
          if x.feel_time_zone().as_deref() != Some(id.as_str()) {
            return Some(format!("timezone {:?}", x.feel_time_zone()));
          }
        }
        RZone::Local => {}
      }
      None
    }
    _ => None,
  }
}

pub struct Problem {
  pub symptom: &'static str,
  pub via: &'static str,
  pub what: String,
}

/// All problems of one literal (empty when it behaves as the reference says). Second value: the expectation class.
pub fn problems_of(kind: Kind, t: &str) -> (Vec<Problem>, u8) {
  let exp = expectation(kind, t);
  let scope = Scope::default();
  let esc = t.replace('\\', "\\\\").replace('"', "\\\"");
  let nn = |v: Value| if matches!(v, Value::Null(_)) { None } else { Some(v) };
  let observations: Vec<(&'static str, Option<Value>)> = vec![
    ("function", nn(eval_with(&scope, &format!("{}(\"{}\")", kind.function(), esc)))),
    ("at-literal", nn(eval_with(&scope, &format!("@\"{}\"", esc)))),
    ("api", api_parse(kind, t)),
    ("xsd-input", xsd_parse(kind, t)),
  ];
  let mut out = vec![];
  match exp {
    Expect::Unspec => (out, 2),
    Expect::Reject => {
      for (via, v) in &observations {
        if let Some(v) = v {
          // `@"..."` and the xsd duration input try several kinds: a text invalid for this kind may be valid for another
          if (*via == "at-literal" || *via == "xsd-input") && !kind_matches(kind, v) {
            continue;
          }
          out.push(Problem { symptom: "accepted-invalid", via, what: format!("the invalid {} literal `{}` is accepted through {} as {}", kind.name(), t, via, v) });
        }
      }
      (out, 0)
    }
    Expect::Accept(canon) => {
      for (via, v) in &observations {
        match v {
          None => out.push(Problem { symptom: "rejected-valid", via, what: format!("the valid {} literal `{}` is rejected through {}", kind.name(), t, via) }),
          Some(v) => {
            if !kind_matches(kind, v) && !((kind == Kind::Dtd || kind == Kind::Ymd) && matches!(v, Value::DaysAndTimeDuration(_) | Value::YearsAndMonthsDuration(_))) {
              out.push(Problem { symptom: "wrong-kind", via, what: format!("the {} literal `{}` read through {} is the value {} of another kind", kind.name(), t, via, v) });
              continue;
            }
            let printed = v.to_string();
            if printed != canon {
              out.push(Problem { symptom: "wrong-text", via, what: format!("the {} literal `{}` (through {}) prints as `{}`; it denotes `{}`", kind.name(), t, via, printed, canon) });
              continue;
            }
            if let Some(bad) = components_ok(kind, t, v) {
              out.push(Problem { symptom: "wrong-components", via, what: format!("the {} literal `{}` (through {}) has {}", kind.name(), t, via, bad) });
              continue;
            }
            if *via == "function" {
              // string(v) is itself a valid literal that reads back as an equal value
              let mut c = FeelContext::default();
              c.set_entry(&Name::from("v"), v.clone());
              let s2 = Scope::from(c);
              let text2 = eval_with(&s2, "string(v)");
              match &text2 {
                Value::String(s) if *s == canon => {
                  let esc2 = s.replace('\\', "\\\\").replace('"', "\\\"");
                  let again = eval_with(&s2, &format!("{}(\"{}\")", kind.function(), esc2));
                  let named = matches!(kind, Kind::Time) && t.contains('@');
                  let eq = eval_with(&s2, &format!("{}(\"{}\") = v", kind.function(), esc2));
                  if matches!(again, Value::Null(_)) || again.to_string() != canon || (!named && !matches!(eq, Value::Boolean(true))) {
                    out.push(Problem { symptom: "read-back", via, what: format!("the text `{}` of the {} value read from `{}` reads back as {} (equal to the original: {})", s, kind.name(), t, again, eq) });
                  }
                }
                other => out.push(Problem { symptom: "string-of-value", via, what: format!("string() of the {} value read from `{}` gives {} instead of \"{}\"", kind.name(), t, other, canon) }),
              }
            }
          }
        }
      }
      (out, 1)
    }
  }
}

/// Features of a literal with the literal in which the feature is neutralised (year -> 2020, zone -> Z, fraction -> none ...).
fn features(kind: Kind, t: &str) -> Vec<(String, String)> {
  let mut out = vec![];
  match kind {
    Kind::Date | Kind::DateTime => {
      let (dpart, rest) = match t.find('T') {
        Some(i) => (&t[..i], &t[i..]),
        None => (t, ""),
      };
      let neg = dpart.starts_with('-');
      let body = dpart.strip_prefix('-').unwrap_or(dpart);
      let segs: Vec<&str> = body.split('-').collect();
      if segs.len() == 3 {
        if let Ok(y) = segs[0].parse::<i64>() {
          let class = if y < 1000 {
            if neg { "negative-year-below-1000" } else { "year-below-1000" }
          } else if y > 262142 {
            "year-at-or-beyond-chrono-range"
          } else if neg {
            "negative-year"
          } else if y > 9999 {
            "year-above-9999"
          } else {
            "year"
          };
          // keep leap-day validity: neutral year 2020 is a leap year
          out.push((class.to_string(), format!("2020-{}-{}{}", segs[1], segs[2], rest)));
        }
      }
      if kind == Kind::DateTime && !rest.is_empty() {
        for (c, n) in time_features(&rest[1..]) {
          out.push((c, format!("{}T{}", dpart, n)));
        }
      }
    }
    Kind::Time => out = time_features(t),
    Kind::Dtd | Kind::Ymd => {
      if let Some(i) = t.find('.') {
        let n = t[i + 1..].bytes().take_while(|b| b.is_ascii_digit()).count();
        out.push((format!("fraction-{}-digits", n), format!("{}{}", &t[..i], &t[i + 1 + n..])));
      }
      if let Some(r) = t.strip_prefix('-') {
        out.push(("negative".to_string(), r.to_string()));
      }
    }
  }
  out
}

fn time_features(tp: &str) -> Vec<(String, String)> {
  let mut out = vec![];
  if tp.len() < 8 || !tp.is_char_boundary(8) {
    return out;
  }
  let (clock, rest) = tp.split_at(8);
  let (frac, zone) = if rest.starts_with('.') {
    let n = rest[1..].bytes().take_while(|b| b.is_ascii_digit()).count();
    (&rest[..1 + n], &rest[1 + n..])
  } else {
    ("", rest)
  };
  if !frac.is_empty() {
    out.push((format!("fraction-{}-digits", frac.len() - 1), format!("{}{}", clock, zone)));
  }
  if !zone.is_empty() && zone != "Z" {
    let class = if let Some(id) = zone.strip_prefix('@') {
      if id.bytes().any(|b| b.is_ascii_digit() || b == b'+' || b == b'-') {
        "zone-id-with-digit-or-sign".to_string()
      } else {
        "named-zone".to_string()
      }
    } else if zone.starts_with("-00") {
      "negative-offset-below-one-hour".to_string()
    } else if zone.len() > 6 {
      "offset-with-seconds".to_string()
    } else {
      "offset".to_string()
    };
    out.push((class, format!("{}{}Z", clock, frac)));
  }
  out
}

pub fn check_literal(run: &Run, cnt: &Cnt, kind: Kind, t: &str, origin: &str) {
  cnt.literals.fetch_add(1, Ordering::Relaxed);
  let (problems, class) = problems_of(kind, t);
  cnt.observations.fetch_add(4, Ordering::Relaxed);
  match class {
    0 => cnt.rejected.fetch_add(1, Ordering::Relaxed),
    1 => cnt.accepted.fetch_add(1, Ordering::Relaxed),
    _ => cnt.unspec.fetch_add(1, Ordering::Relaxed),
  };
  if problems.is_empty() {
    return;
  }
  // attribution: the single feature whose neutralisation makes the literal behave
  let mut cause: Option<String> = None;
  if class == 1 {
    for (fclass, neutral) in features(kind, t) {
      let (p2, c2) = problems_of(kind, &neutral);
      if c2 == 1 && p2.is_empty() {
        cause = Some(fclass);
        break;
      }
    }
  }
  let symptoms: std::collections::BTreeSet<&str> = problems.iter().map(|p| p.symptom).collect();
  let vias: std::collections::BTreeSet<&str> = problems.iter().map(|p| p.via).collect();
  let via_s = if vias.len() == 4 { "all-paths".to_string() } else { vias.into_iter().collect::<Vec<_>>().join("+") };
  let cause_s = match cause {
    Some(c) => c,
    None => {
      if class == 0 {
        // an invalid literal that is accepted: describe it by what is wrong with it
        format!("{}:{}", origin, invalid_class(kind, t))
      } else {
        let fs: Vec<String> = features(kind, t).into_iter().map(|f| f.0).collect();
        if fs.is_empty() { "plain".to_string() } else { fs.join("+") }
      }
    }
  };
  let key = format!("{}:{}:{}:{}", symptoms.into_iter().collect::<Vec<_>>().join("+"), kind.name(), cause_s, via_s);
  let what = problems.iter().map(|p| p.what.clone()).collect::<Vec<_>>().join("; ");
  run.violation(&key, &what.chars().take(700).collect::<String>(), json!({"engine":"c14","kind":kind.name(),"literal":t,"origin":origin}));
}

/// What makes an invalid literal invalid (coarse, for keys of accepted-invalid findings).
fn invalid_class(kind: Kind, t: &str) -> String {
  match kind {
    Kind::Date | Kind::DateTime => {
      let dpart = t.split('T').next().unwrap_or(t);
      let body = dpart.strip_prefix('-').unwrap_or(dpart);
      let segs: Vec<&str> = body.split('-').collect();
      if segs.len() == 3 {
        if let (Ok(y), Ok(m), Ok(d)) = (segs[0].parse::<i64>(), segs[1].parse::<u32>(), segs[2].parse::<u32>()) {
          if segs[1].len() == 2 && segs[2].len() == 2 {
            let yc = if y > 262143 { "year-beyond-chrono-range" } else { "year-in-chrono-range" };
            if !(1..=12).contains(&m) {
              return format!("month-out-of-range:{}", yc);
            }
            if d == 0 {
              return format!("day-zero:{}", yc);
            }
            if d > days_in_month(if dpart.starts_with('-') { -y } else { y }, m) {
              return format!("day-beyond-month-end:{}", yc);
            }
          }
        }
      }
      "malformed".to_string()
    }
    Kind::Time => "malformed-or-out-of-range".to_string(),
    Kind::Dtd | Kind::Ymd => {
      if t.contains(".S") {
        "fraction-without-digits".to_string()
      } else if t.ends_with('T') {
        "trailing-T".to_string()
      } else {
        "malformed".to_string()
      }
    }
  }
}

fn year_text(y: i64) -> String {
  if y < 0 {
    format!("-{:04}", -y)
  } else {
    format!("{:04}", y)
  }
}

pub fn date_years(thorough: bool) -> Vec<i64> {
  if thorough {
    vec![-999999999, -262145, -262144, -10000, -9999, -1000, -999, -1, 1, 999, 1000, 1582, 1600, 1900, 2000, 2020, 2021, 9999, 10000, 262143, 262144, 999999999]
  } else {
    vec![-999999999, -262145, -1000, -999, -1, 1, 999, 1000, 1900, 2000, 2020, 9999, 10000, 262143, 262144, 999999999]
  }
}

fn fraction_patterns(thorough: bool) -> Vec<String> {
  let mut v = vec![String::new()];
  let counts: Vec<usize> = if thorough { (1..=9).collect() } else { vec![1, 3, 6, 8, 9] };
  for n in counts {
    v.push(format!(".{}", "9".repeat(n)));
    v.push(format!(".{}1", "0".repeat(n - 1)));
    v.push(format!(".{}", &"123456789"[..n]));
    if thorough {
      v.push(format!(".{}0", &"123456789"[..n.min(8)]));
    }
  }
  v
}

fn corruptions(seed: &str) -> Vec<String> {
  let chars: Vec<char> = seed.chars().collect();
  let subs = ['0', '1', '9', 'A', '-', ':', '.', 'T', 'Z', '+', ' ', 'P', 'M', '@'];
  let mut out = vec![];
  for i in 0..chars.len() {
    let mut d = chars.clone();
    d.remove(i);
    out.push(d.into_iter().collect());
    let mut d = chars.clone();
    d.insert(i, chars[i]);
    out.push(d.into_iter().collect());
    for s in subs {
      if s != chars[i] {
        let mut d = chars.clone();
        d[i] = s;
        out.push(d.into_iter().collect());
      }
    }
    if chars[i].is_ascii_digit() {
      let mut d = chars.clone();
      d[i] = (((chars[i] as u8 - b'0' + 1) % 10) + b'0') as char;
      out.push(d.into_iter().collect());
      // decimal digits of other scripts with the same value (Arabic-Indic, Devanagari, fullwidth): a literal is written
      // with the digits 0-9 only
      let v = chars[i] as u32 - '0' as u32;
      for base in [0x0660u32, 0x0966, 0xFF10] {
        let mut d = chars.clone();
        d[i] = char::from_u32(base + v).unwrap();
        out.push(d.into_iter().collect());
      }
    }
    // letters that are equal to a designator only after case folding or width folding
    let look_alikes: &[char] = match chars[i] {
      'T' => &['t', 'Ｔ'],
      'Z' => &['z', 'Ｚ'],
      'P' => &['p', 'Ｐ'],
      'S' => &['s', 'ſ'],
      'M' => &['m'],
      'H' => &['h'],
      'D' => &['d'],
      'Y' => &['y'],
      '-' => &['−', '‐'],
      ':' => &['：'],
      _ => &[],
    };
    for s in look_alikes {
      let mut d = chars.clone();
      d[i] = *s;
      out.push(d.into_iter().collect());
    }
  }
  out.sort();
  out.dedup();
  out
}

pub fn run() {
  let run = Run::new("C14");
  let thorough = run.thorough();
  let cnt = Cnt {
    literals: AtomicU64::new(0),
    observations: AtomicU64::new(0),
    accepted: AtomicU64::new(0),
    rejected: AtomicU64::new(0),
    unspec: AtomicU64::new(0),
  };
  // dates: every day (and the impossible days 0, 29-32 of every month) of the boundary years
  let years = date_years(thorough);
  years.par_iter().for_each(|&y| {
    for m in 0..=13u32 {
      for d in 0..=32u32 {
        let t = format!("{}-{:02}-{:02}", year_text(y), m, d);
        check_literal(&run, &cnt, Kind::Date, &t, "calendar");
      }
    }
  });
  // times: every second of the day x fraction patterns, UTC-marked
  let fracs = fraction_patterns(thorough);
  (0..86400u32).into_par_iter().for_each(|sod| {
    let (h, m, s) = (sod / 3600, (sod / 60) % 60, sod % 60);
    // every second without zone; fraction patterns on a thinned set of seconds in quick
    check_literal(&run, &cnt, Kind::Time, &format!("{:02}:{:02}:{:02}Z", h, m, s), "clock");
    if thorough || sod % 61 == 0 {
      for f in &fracs {
        check_literal(&run, &cnt, Kind::Time, &format!("{:02}:{:02}:{:02}{}Z", h, m, s, f), "clock");
      }
    }
  });
  // impossible clock values
  for t in ["24:00:00", "23:60:00", "23:59:60", "99:99:99", "24:00:00Z", "12:00:61+01:00", "00:00:00.", "1:00:00", "10:0:00", "10:00:0"] {
    check_literal(&run, &cnt, Kind::Time, t, "clock");
  }
  // offsets: every whole minute from -14:59 to +14:59, seconds none / 01 / 59, and the first rejected hours
  let mut offsets: Vec<String> = vec![];
  for sign in ['+', '-'] {
    for h in 0..=14 {
      for m in 0..=59 {
        offsets.push(format!("{}{:02}:{:02}", sign, h, m));
        offsets.push(format!("{}{:02}:{:02}:01", sign, h, m));
        offsets.push(format!("{}{:02}:{:02}:59", sign, h, m));
      }
    }
    for h in [15, 16, 23, 24, 99] {
      offsets.push(format!("{}{:02}:00", sign, h));
      offsets.push(format!("{}{:02}:30:00", sign, h));
    }
    offsets.push(format!("{}14:60", sign));
    offsets.push(format!("{}1:00", sign));
    offsets.push(format!("{}01:0", sign));
  }
  offsets.par_iter().for_each(|o| {
    check_literal(&run, &cnt, Kind::Time, &format!("12:30:45{}", o), "offset");
    check_literal(&run, &cnt, Kind::DateTime, &format!("2020-02-29T23:59:59.5{}", o), "offset");
  });
  // zones: every identifier of the zone database (date-times only: a time of day in a named zone depends on today's date)
  let zones: Vec<String> = chrono_tz::TZ_VARIANTS.iter().map(|z| z.name().to_string()).collect();
  zones.par_iter().for_each(|z| {
    check_literal(&run, &cnt, Kind::DateTime, &format!("2020-01-15T12:00:00@{}", z), "zone-id");
    check_literal(&run, &cnt, Kind::Time, &format!("12:00:00@{}", z), "zone-id");
  });
  for z in ["Nowhere/City", "europe/warsaw", "Europe/", "/Warsaw", "", "UTC+1", "Europe/Warsaw "] {
    check_literal(&run, &cnt, Kind::DateTime, &format!("2020-01-15T12:00:00@{}", z), "zone-id");
  }
  // date-times: month ends of the date years x times x zone forms
  let zone_forms = ["", "Z", "+00:00", "+05:30", "-00:30", "-11:45:30", "@Europe/Warsaw", "@Asia/Kolkata"];
  let times = ["00:00:00", "12:34:56.789", "23:59:59.999999999", "06:00:00.000000001"];
  years.par_iter().for_each(|&y| {
    for m in 1..=12u32 {
      let last = days_in_month(y, m);
      for d in [1, last, last + 1] {
        for tm in &times {
          for z in &zone_forms {
            check_literal(&run, &cnt, Kind::DateTime, &format!("{}-{:02}-{:02}T{}{}", year_text(y), m, d, tm, z), "date-time");
          }
        }
      }
    }
  });
  // date-times with the time of day at and beyond its limits (hour 24+, minute 60+, second 60+), each zone form
  for date in ["2021-06-30", "2020-02-29", "-0044-03-15"] {
    for h in [0u32, 23, 24, 25, 99] {
      for mi in [0u32, 59, 60, 61, 99] {
        for sec in [0u32, 59, 60, 61, 99] {
          for frac in ["", ".5", ".999999999"] {
            for z in &zone_forms {
              check_literal(&run, &cnt, Kind::DateTime, &format!("{}T{:02}:{:02}:{:02}{}{}", date, h, mi, sec, frac, z), "date-time");
            }
          }
        }
      }
    }
  }
  // durations
  let comp: Vec<Option<u64>> = vec![None, Some(0), Some(1), Some(23), Some(24), Some(59), Some(60), Some(1_000_000_000)];
  let dfracs = ["", ".5", ".000000001", ".123456789", ".999999999", ".10"];
  let mut dts: Vec<String> = vec![];
  for d in &comp {
    for h in &comp {
      for m in &comp {
        for s in &comp {
          for f in dfracs {
            if s.is_none() && !f.is_empty() {
              continue;
            }
            let mut t = String::from("P");
            if let Some(d) = d {
              t.push_str(&format!("{}D", d));
            }
            if h.is_some() || m.is_some() || s.is_some() {
              t.push('T');
            }
            if let Some(h) = h {
              t.push_str(&format!("{}H", h));
            }
            if let Some(m) = m {
              t.push_str(&format!("{}M", m));
            }
            if let Some(s) = s {
              t.push_str(&format!("{}{}S", s, f));
            }
            dts.push(t.clone());
            dts.push(format!("-{}", t));
          }
        }
      }
    }
  }
  for t in ["P", "PT", "P1DT", "-P", "P1D2H", "PT1S1M", "P1.5D", "PT1.S", "PT.5S", "P999999999DT23H59M59.999999999S", "PT36H", "PT90M", "PT3600S", "P1DT24H"] {
    dts.push(t.to_string());
  }
  dts.sort();
  dts.dedup();
  dts.par_iter().for_each(|t| check_literal(&run, &cnt, Kind::Dtd, t, "duration"));
  let ycomp: Vec<Option<u64>> = vec![None, Some(0), Some(1), Some(11), Some(12), Some(14), Some(999_999_999), Some(11_999_999_999)];
  let mut yms: Vec<String> = vec![];
  for y in &ycomp {
    for m in &ycomp {
      let mut t = String::from("P");
      if let Some(y) = y {
        t.push_str(&format!("{}Y", y));
      }
      if let Some(m) = m {
        t.push_str(&format!("{}M", m));
      }
      yms.push(t.clone());
      yms.push(format!("-{}", t));
    }
  }
  for t in ["P1M1Y", "P1.5Y", "PY", "P1Y2", "P14M", "P12M", "P0Y0M"] {
    yms.push(t.to_string());
  }
  yms.sort();
  yms.dedup();
  yms.par_iter().for_each(|t| check_literal(&run, &cnt, Kind::Ymd, t, "duration"));
  // corruptions: every single-character delete / duplicate / substitute of valid literals of each kind
  let seeds: Vec<(Kind, Vec<&str>)> = vec![
    (Kind::Date, vec!["2020-02-29", "1999-12-31", "-0044-03-15", "10000-01-01", "0999-06-30"]),
    (Kind::Time, vec!["12:30:45", "00:00:00Z", "23:59:59.999+14:00", "08:15:00-05:30", "10:00:00@Europe/Paris", "01:02:03.000000001+01:02:03"]),
    (Kind::DateTime, vec!["2020-02-29T12:30:45", "1999-12-31T23:59:59.5Z", "2021-06-15T08:00:00+02:00", "2021-06-15T08:00:00@America/New_York", "-0044-03-15T12:00:00-00:30"]),
    (Kind::Dtd, vec!["P1DT2H3M4.5S", "-PT36H", "P10D", "PT0.000000001S", "PT90M"]),
    (Kind::Ymd, vec!["P1Y2M", "-P14M", "P100Y", "P0M"]),
  ];
  let mut corrupted: Vec<(Kind, String)> = vec![];
  for (k, ss) in &seeds {
    for s in ss {
      for c in corruptions(s) {
        corrupted.push((*k, c));
      }
    }
  }
  corrupted.par_iter().for_each(|(k, t)| check_literal(&run, &cnt, *k, t, "corruption"));
  // duration components beyond what a component can hold: the literal denotes its written value or nothing - never the value
  // of the literal with that component left out or wrapped around
  {
    let scope = Scope::default();
    let mut n_big = 0u64;
    for big in ["18446744073709551616", "100000000000000000000", "1000000000000000000000000000000", "18446744073709551615", "9223372036854775808"] {
      for (with, without) in [
        (format!("P{}DT1H", big), "PT1H".to_string()),
        (format!("P1DT{}H", big), "P1D".to_string()),
        (format!("PT{}H1M", big), "PT1M".to_string()),
        (format!("PT1H{}M", big), "PT1H".to_string()),
        (format!("PT{}M1S", big), "PT1S".to_string()),
        (format!("PT1M{}S", big), "PT1M".to_string()),
        (format!("-P{}DT1H", big), "-PT1H".to_string()),
        (format!("P{}Y1M", big), "P1M".to_string()),
        (format!("P1Y{}M", big), "P1Y".to_string()),
        (format!("-P{}Y1M", big), "-P1M".to_string()),
      ] {
        n_big += 1;
        cnt.literals.fetch_add(1, Ordering::Relaxed);
        for (path, text) in [("function", format!("duration(\"{}\")", with)), ("at-literal", format!("@\"{}\"", with))] {
          cnt.observations.fetch_add(1, Ordering::Relaxed);
          let v = eval_with(&scope, &text);
          if matches!(v, Value::Null(_)) {
            continue;
          }
          let dropped = eval_with(&scope, &format!("duration(\"{}\")", without));
          let small = eval_with(&scope, &format!("abs(duration(\"{}\")) < duration(\"P1000D\") or abs(duration(\"{}\")) < duration(\"P1000Y\")", with, with));
          if v.to_string() == dropped.to_string() || matches!(small, Value::Boolean(true)) {
            run.violation(
              &format!("duration-component-beyond-its-limit:{}:{}", if with.contains('Y') || (with.contains('M') && !with.contains('T')) { "years-and-months" } else { "days-and-time" }, path),
              &format!("`{}` evaluates to {}: the component {} is neither honoured nor rejected", text, v, big),
              json!({"engine":"c14","text":text,"expected":"null"}),
            );
          }
        }
      }
    }
    // the text form of any duration - also of one that several maximal components or a sum of the longest literals make
    // longer than any single component can say - is a literal that reads back as an equal value
    let big = "18446744073709551615";
    let mut texts: Vec<String> = vec![
      format!("@\"P{}DT{}H\"", big, big),
      format!("@\"P{}DT{}H{}M{}S\"", big, big, big, big),
      format!("@\"-P{}DT{}H\"", big, big),
      format!("@\"P{}D\" + @\"P{}D\"", big, big),
      format!("@\"P{}D\" + @\"P1D\"", big),
      format!("@\"-P{}D\" - @\"PT0.000000001S\"", big),
      format!("@\"PT{}H\" + @\"PT{}H\" + @\"PT{}H\"", big, big, big),
      format!("(for i in 1..40 return if i = 1 then @\"P{}D\" else partial[-1] + partial[-1])[-1]", big),
      format!("-(for i in 1..40 return if i = 1 then @\"P{}D\" else partial[-1] + partial[-1])[-1]", big),
      "@\"P9223372036854775807M\"".to_string(),
      "@\"P768614336404564650Y7M\"".to_string(),
      "@\"-P9223372036854775807M\"".to_string(),
    ];
    texts.dedup();
    let names: std::collections::BTreeSet<String> = ["i", "partial"].iter().map(|s| s.to_string()).collect();
    let ps = crate::rval::parse_scope_of(&names);
    for text in &texts {
      cnt.literals.fetch_add(1, Ordering::Relaxed);
      cnt.observations.fetch_add(1, Ordering::Relaxed);
      let v = match dmntk_feel_parser::parse_expression(&ps, text, false).ok().and_then(|n| dmntk_feel_evaluator::evaluate(&scope, &n).ok()) {
        Some(v) => v,
        None => continue,
      };
      if matches!(v, Value::Null(_)) {
        continue;
      }
      let printed = v.to_string();
      let back = eval_with(&scope, &format!("duration(\"{}\")", printed));
      let same = matches!(eval_with(&scope, &format!("duration(\"{}\") = {}", printed, text)), Value::Boolean(true));
      if back.to_string() != printed || !same {
        run.violation(
          "read-back:duration-longer-than-a-component-can-say",
          &format!("`{}` evaluates to {}, but that text reads back as {}", text, printed, back),
          json!({"engine":"c14","text":format!("duration(string({})) = {}", text, text),"expected":"true"}),
        );
      }
    }
    // times built from their components, time(hour, minute, second, offset): the value denotes what the components say and
    // its text reads back; a component out of range - an offset of 15 hours and more, whatever its number of days - gives null
    {
      let offsets: Vec<(&str, Option<i64>)> = vec![
        ("null", None), ("duration(\"PT0S\")", Some(0)), ("duration(\"PT1H\")", Some(3600)), ("duration(\"-PT1H\")", Some(-3600)), ("duration(\"PT30M\")", Some(1800)), ("duration(\"-PT0H30M\")", Some(-1800)),
        ("duration(\"PT14H\")", Some(14 * 3600)), ("duration(\"-PT14H\")", Some(-14 * 3600)), ("duration(\"PT14H59M\")", Some(14 * 3600 + 59 * 60)), ("duration(\"PT1H2M3S\")", Some(3723)), ("duration(\"PT15H\")", Some(15 * 3600)),
        ("duration(\"-PT15H\")", Some(-15 * 3600)), ("duration(\"PT23H59M\")", Some(23 * 3600 + 59 * 60)), ("duration(\"P1D\")", Some(86400)), ("duration(\"-P1D\")", Some(-86400)), ("duration(\"P1DT2H\")", Some(26 * 3600)), ("duration(\"-P1DT14H\")", Some(-38 * 3600)),
        ("duration(\"P30D\")", Some(30 * 86400)), ("duration(\"P10000D\")", Some(10000 * 86400)), ("(date and time(\"2021-01-02T12:00:00Z\") - date and time(\"2021-01-01T10:00:00Z\"))", Some(26 * 3600)),
      ];
      let mut n_built = 0u64;
      for (h, m, s) in [(0u32, 0u32, 0u32), (10, 30, 0), (23, 59, 59), (24, 0, 0), (10, 60, 0), (10, 30, 60)] {
        for (otext, osecs) in &offsets {
          n_built += 1;
          cnt.literals.fetch_add(1, Ordering::Relaxed);
          cnt.observations.fetch_add(1, Ordering::Relaxed);
          let text = format!("time({}, {}, {}, {})", h, m, s, otext);
          let v = eval_with(&scope, &text);
          let valid = h < 24 && m < 60 && s < 60 && osecs.map(|o| o.abs() < 15 * 3600).unwrap_or(true);
          if !valid {
            if !matches!(v, Value::Null(_)) {
              run.violation(
                &format!("built-time:accepted-invalid:{}", if h >= 24 || m >= 60 || s >= 60 { "time-of-day-out-of-range" } else if osecs.map(|o| o.abs() >= 86400).unwrap_or(false) { "offset-of-a-day-or-more" } else { "offset-of-15-hours-or-more" }),
                &format!("`{}` evaluates to {} but a component is out of range", text, v),
                json!({"engine":"c14","text":text,"expected":"null"}),
              );
            }
            continue;
          }
          let zone = match osecs {
            None => RZone::Local,
            Some(0) => RZone::Utc,
            Some(o) => RZone::Offset(*o),
          };
          let want = print_time(&RTime { hour: h, minute: m, second: s, nanos: 0, zone });
          let printed = v.to_string();
          let back = eval_with(&scope, &format!("time(\"{}\")", printed));
          if printed != want || back.to_string() != printed {
            run.violation(
              "built-time:wrong-text-or-read-back",
              &format!("`{}` evaluates to {} (expected {}), which reads back as {}", text, printed, want, back),
              json!({"engine":"c14","text":format!("string({})", text),"expected":format!("\"{}\"", want)}),
            );
          }
        }
      }
      run.set("times_built_from_components", json!(n_built));
    }
    run.set("oversized_duration_components", json!(n_big));
  }
  run.sample(json!({"kind":"time","literal":"08:15:00-00:30","canonical":"08:15:00-00:30","checks":["accepted through function, @-literal, TryFrom, xsd input","prints canonically","components","string(v) reads back equal"]}));
  run.sample(json!({"kind":"days-and-time-duration","literal":"PT36H","canonical":"P1DT12H"}));
  run.sample(json!({"kind":"date","literal":"2021-02-29","expected":"null"}));
  let lit = cnt.literals.load(Ordering::Relaxed);
  run.set("states", json!(lit));
  run.set("transitions", json!(cnt.observations.load(Ordering::Relaxed)));
  run.set("traces_validated_against_impl", json!(cnt.accepted.load(Ordering::Relaxed) + cnt.rejected.load(Ordering::Relaxed)));
  run.set("evaluations", json!(cnt.observations.load(Ordering::Relaxed)));
  run.set("distinct_nontrivial", json!(cnt.accepted.load(Ordering::Relaxed)));
  run.set("rule", json!("literals are distinct by construction; non-trivial = literals the reference grammar accepts (their denotation, printing and read-back are compared); rejected literals must evaluate to null"));
  run.set("exhaustive", json!(true));
  run.set("valid_literals", json!(cnt.accepted.load(Ordering::Relaxed)));
  run.set("invalid_literals", json!(cnt.rejected.load(Ordering::Relaxed)));
  run.set("unspecified_literals", json!(cnt.unspec.load(Ordering::Relaxed)));
  run.set("zone_identifiers", json!(zones.len()));
  run.set("corrupted_literals", json!(corrupted.len()));
  run.assume("the reference literal grammar and printer in reftime.rs (proleptic Gregorian calendar, hour < 24, minute/second < 60, offset hour <= 14, offset minute / second < 60, at most nine fraction digits) state the property; year 0000 and more than nine fraction digits are left unspecified");
  run.assume("times of day in named zones depend on today's date and are only checked for acceptance and printing");
  run.finish();
}

/// replay of one recorded literal: every problem the literal shows on the four reading paths
pub fn replay_case(case: &serde_json::Value) -> String {
  let t = case.get("literal").and_then(|x| x.as_str()).unwrap_or("");
  let kind = match case.get("kind").and_then(|x| x.as_str()).unwrap_or("") {
    "date" => Kind::Date,
    "time" => Kind::Time,
    "date-time" => Kind::DateTime,
    "days-and-time-duration" => Kind::Dtd,
    _ => Kind::Ymd,
  };
  let (problems, _) = problems_of(kind, t);
  if problems.is_empty() {
    format!("PASS the {} literal `{}` is read, printed and read back as the reference grammar says", kind.name(), t)
  } else {
    format!("FAIL the {} literal `{}`: {}", kind.name(), t, problems.iter().map(|p| format!("{} via {}: {}", p.symptom, p.via, p.what)).collect::<Vec<_>>().join("; ").chars().take(600).collect::<String>())
  }
}
