//! C11: typed inputs and outputs. Conforming values pass unchanged, others become null (for a component type
//! the non-conforming component only); results are wrapped into / unwrapped from singleton lists when that
//! makes them conform.
//!
//! Every item definition tree up to depth 3 over the eight simple types (with and without allowed values;
//! referenced, collection-of, component and collection-of-component variants of each, components both inline
//! and by reference) is generated as a DMN model. Input side: an input data typed by the tree, echoed by an
//! untyped decision, is fed every value of a per-type value set that places every atom of every kind (inside
//! and outside the allowed values), null, a list and a context at every position of the tree. Output side:
//! decisions, knowledge models and decision services whose output variable is typed by the tree return each
//! such value (and its singleton wrapping / unwrapping). A reference written directly on the tree gives the
//! expected result.

use crate::dmn::{self, Expr, ItemDef, Model};
use crate::report::Run;
use crate::rval::show_value_full;
use dmntk_feel::context::FeelContext;
use dmntk_feel::values::Value;
use dmntk_feel::Scope;
use dmntk_model_evaluator::ModelEvaluator;
use rayon::prelude::*;
use serde_json::json;
use std::sync::atomic::{AtomicU64, Ordering};

#[derive(Clone, Copy, PartialEq, Eq, Debug, PartialOrd, Ord)]
pub enum Base {
  String,
  Number,
  Boolean,
  Date,
  Time,
  DateTime,
  Dtd,
  Ymd,
}

const BASES: [Base; 8] = [Base::String, Base::Number, Base::Boolean, Base::Date, Base::Time, Base::DateTime, Base::Dtd, Base::Ymd];

impl Base {
  fn type_ref(&self) -> &'static str {
    match self {
      Base::String => "string",
      Base::Number => "number",
      Base::Boolean => "boolean",
      Base::Date => "date",
      Base::Time => "time",
      Base::DateTime => "dateTime",
      Base::Dtd => "dayTimeDuration",
      Base::Ymd => "yearMonthDuration",
    }
  }
  /// (value inside the allowed values, value outside)
  fn atoms(&self) -> (&'static str, &'static str) {
    match self {
      Base::String => ("\"a\"", "\"zz\""),
      Base::Number => ("1", "99"),
      Base::Boolean => ("true", "false"),
      Base::Date => ("date(\"2020-01-02\")", "date(\"1999-01-01\")"),
      Base::Time => ("time(\"10:00:00\")", "time(\"23:00:00\")"),
      Base::DateTime => ("date and time(\"2020-01-02T10:00:00\")", "date and time(\"1999-01-01T00:00:00\")"),
      Base::Dtd => ("duration(\"P1D\")", "duration(\"P9D\")"),
      Base::Ymd => ("duration(\"P1Y\")", "duration(\"P9Y\")"),
    }
  }
  fn allowed_text(&self) -> &'static str {
    match self {
      Base::String => "\"a\",\"b\"",
      Base::Number => "[0..10]",
      Base::Boolean => "true",
      Base::Date => "[date(\"2020-01-01\")..date(\"2020-12-31\")]",
      Base::Time => "[time(\"09:00:00\")..time(\"17:00:00\")]",
      Base::DateTime => "> date and time(\"2010-01-01T00:00:00\")",
      Base::Dtd => "< duration(\"P5D\")",
      Base::Ymd => "duration(\"P1Y\"), duration(\"P2Y\")",
    }
  }
}

#[derive(Clone, Debug, PartialEq)]
pub enum Ty {
  /// typeRef of the input data / variable is the built-in type itself
  Builtin(Base),
  Simple(Base, bool),
  /// reference to a separately named definition; own allowed values (only over a simple chain)
  Ref(Box<Ty>, bool),
  CollSimple(Base, bool),
  CollRef(Box<Ty>),
  /// collection of a referenced (simple chain) type with allowed values of the collection definition's own: they apply to each item
  CollRefAllowed(Box<Ty>),
  Comp(Vec<(String, Ty)>),
  CollComp(Vec<(String, Ty)>),
  /// typeRef `Any`: no constraint (used for a component next to a constrained one)
  Any,
}

impl Ty {
  fn shape(&self) -> String {
    match self {
      Ty::Builtin(_) => "builtin".into(),
      Ty::Simple(_, a) => format!("simple{}", if *a { "+allowed" } else { "" }),
      Ty::Ref(x, a) => format!("ref{}({})", if *a { "+allowed" } else { "" }, x.shape()),
      Ty::CollSimple(_, a) => format!("collection-of-simple{}", if *a { "+allowed" } else { "" }),
      Ty::CollRef(x) => format!("collection-of-ref({})", x.shape()),
      Ty::CollRefAllowed(x) => format!("collection-of-ref+allowed({})", x.shape()),
      Ty::Comp(cs) => format!("component({})", cs[0].1.shape()),
      Ty::CollComp(cs) => format!("collection-of-component({})", cs[0].1.shape()),
      Ty::Any => "any".into(),
    }
  }
  fn base(&self) -> Base {
    match self {
      Ty::Any => Base::Number,
      Ty::Builtin(b) | Ty::Simple(b, _) | Ty::CollSimple(b, _) => *b,
      Ty::Ref(x, _) | Ty::CollRef(x) | Ty::CollRefAllowed(x) => x.base(),
      Ty::Comp(cs) | Ty::CollComp(cs) => cs[0].1.base(),
    }
  }
  /// the simple base this type resolves to through references only
  fn resolves_simple(&self) -> Option<Base> {
    match self {
      Ty::Simple(b, _) | Ty::Builtin(b) => Some(*b),
      Ty::Ref(x, _) => x.resolves_simple(),
      _ => None,
    }
  }
  fn depth(&self) -> usize {
    match self {
      Ty::Builtin(_) | Ty::Simple(..) | Ty::Any => 1,
      Ty::CollSimple(..) => 2,
      Ty::Ref(x, _) | Ty::CollRef(x) | Ty::CollRefAllowed(x) => 1 + x.depth(),
      Ty::Comp(cs) | Ty::CollComp(cs) => 1 + cs.iter().map(|c| c.1.depth()).max().unwrap_or(0),
    }
  }
}

/// abstract values
#[derive(Clone, Debug, PartialEq)]
pub enum Val {
  Null,
  /// base, inside the allowed values?
  Atom(Base, bool),
  List(Vec<Val>),
  Ctx(Vec<(String, Val)>),
}

impl Val {
  fn text(&self) -> String {
    match self {
      Val::Null => "null".into(),
      Val::Atom(b, inside) => {
        let (i, o) = b.atoms();
        if *inside { i.to_string() } else { o.to_string() }
      }
      Val::List(v) => format!("[{}]", v.iter().map(|x| x.text()).collect::<Vec<_>>().join(", ")),
      Val::Ctx(es) => format!("{{{}}}", es.iter().map(|(k, v)| format!("{}: {}", k, v.text())).collect::<Vec<_>>().join(", ")),
    }
  }
}

/// What reaches the logic for an input value; None = left open (null items, missing / extra entries)
fn norm(ty: &Ty, v: &Val) -> Option<Val> {
  norm_mode(ty, v, false)
}

/// `any_as_null`: the recorded deviation - a component whose typeRef is `Any` reaches the logic as null
fn norm_mode(ty: &Ty, v: &Val, any_as_null: bool) -> Option<Val> {
  match ty {
    Ty::Any => Some(if any_as_null { Val::Null } else { v.clone() }),
    Ty::Builtin(b) => Some(match v {
      Val::Atom(k, _) if k == b => v.clone(),
      _ => Val::Null,
    }),
    Ty::Simple(b, allowed) => Some(match v {
      Val::Atom(k, inside) if k == b && (!*allowed || *inside) => v.clone(),
      _ => Val::Null,
    }),
    Ty::Ref(x, allowed) => {
      let r = norm_mode(x, v, any_as_null)?;
      if *allowed {
        match &r {
          Val::Atom(_, inside) if !*inside => Some(Val::Null),
          _ => Some(r),
        }
      } else {
        Some(r)
      }
    }
    Ty::CollSimple(b, allowed) => norm_list(&Ty::Simple(*b, *allowed), v, any_as_null),
    Ty::CollRef(x) => norm_list(x, v, any_as_null),
    Ty::CollRefAllowed(x) => norm_list(&Ty::Ref(x.clone(), true), v, any_as_null),
    Ty::Comp(cs) => norm_ctx(cs, v, any_as_null),
    Ty::CollComp(cs) => norm_list(&Ty::Comp(cs.clone()), v, any_as_null),
  }
}

fn norm_list(item: &Ty, v: &Val, any_as_null: bool) -> Option<Val> {
  match v {
    Val::List(items) => {
      let mut out = vec![];
      // a null item leaves the outcome open - unless another item decides it: one non-conforming item and the list does not conform
      let mut open = false;
      for it in items {
        if *it == Val::Null {
          open = true;
          continue;
        }
        match norm_mode(item, it, any_as_null) {
          None => open = true,
          Some(Val::Null) => return Some(Val::Null),
          Some(n) => out.push(n),
        }
      }
      if open {
        None
      } else {
        Some(Val::List(out))
      }
    }
    _ => Some(Val::Null),
  }
}

fn norm_ctx(cs: &[(String, Ty)], v: &Val, any_as_null: bool) -> Option<Val> {
  match v {
    Val::Ctx(es) => {
      if es.len() != cs.len() || !cs.iter().all(|(n, _)| es.iter().any(|(k, _)| k == n)) {
        return None;
      }
      let mut out = vec![];
      for (n, t) in cs {
        let val = &es.iter().find(|(k, _)| k == n).unwrap().1;
        out.push((n.clone(), norm_mode(t, val, any_as_null)?));
      }
      Some(Val::Ctx(out))
    }
    _ => Some(Val::Null),
  }
}

/// Structural conformance of a result value to an output type; None = open (allowed values on outputs)
fn conforms(ty: &Ty, v: &Val) -> Option<bool> {
  if *v == Val::Null {
    return Some(true);
  }
  match ty {
    Ty::Any => Some(true),
    Ty::Builtin(b) => Some(matches!(v, Val::Atom(k, _) if k == b)),
    Ty::Simple(b, allowed) => match v {
      Val::Atom(k, inside) if k == b => {
        if *allowed && !*inside {
          None
        } else {
          Some(true)
        }
      }
      _ => Some(false),
    },
    Ty::Ref(x, allowed) => match (conforms(x, v), v) {
      (Some(true), Val::Atom(_, inside)) if *allowed && !*inside => None,
      (r, _) => r,
    },
    Ty::CollSimple(b, allowed) => conforms_list(&Ty::Simple(*b, *allowed), v),
    Ty::CollRef(x) => conforms_list(x, v),
    Ty::CollRefAllowed(x) => conforms_list(&Ty::Ref(x.clone(), true), v),
    Ty::Comp(cs) => match v {
      Val::Ctx(es) => {
        let mut open = false;
        for (n, t) in cs {
          match es.iter().find(|(k, _)| k == n) {
            None => return Some(false),
            Some((_, val)) => match conforms(t, val) {
              Some(true) => {}
              Some(false) => return Some(false),
              None => open = true,
            },
          }
        }
        if open {
          None
        } else {
          Some(true)
        }
      }
      _ => Some(false),
    },
    Ty::CollComp(cs) => conforms_list(&Ty::Comp(cs.clone()), v),
  }
}

fn conforms_list(item: &Ty, v: &Val) -> Option<bool> {
  match v {
    Val::List(items) => {
      let mut open = false;
      for it in items {
        match conforms(item, it) {
          Some(true) => {}
          Some(false) => return Some(false),
          None => open = true,
        }
      }
      if open {
        None
      } else {
        Some(true)
      }
    }
    _ => Some(false),
  }
}

fn item_type(ty: &Ty) -> Option<Ty> {
  match ty {
    Ty::CollSimple(b, a) => Some(Ty::Simple(*b, *a)),
    Ty::CollRef(x) => Some((**x).clone()),
    Ty::CollRefAllowed(x) => Some(Ty::Ref(x.clone(), true)),
    Ty::CollComp(cs) => Some(Ty::Comp(cs.clone())),
    Ty::Ref(x, _) => item_type(x),
    _ => None,
  }
}

/// Result of returning v through an output variable of type ty
fn coerce(ty: &Ty, v: &Val) -> Option<Val> {
  match conforms(ty, v) {
    None => return None,
    Some(true) => return Some(v.clone()),
    Some(false) => {}
  }
  if let Some(it) = item_type(ty) {
    // to singleton list
    match conforms(&it, v) {
      None => return None,
      Some(true) => return Some(Val::List(vec![v.clone()])),
      Some(false) => {}
    }
  }
  if let Val::List(items) = v {
    // from singleton list (also when the declared type is a collection itself: [[1, 2]] against a collection of numbers)
    if items.len() == 1 {
      match conforms(ty, &items[0]) {
        None => return None,
        Some(true) => return Some(items[0].clone()),
        Some(false) => {}
      }
    }
  }
  Some(Val::Null)
}

/// a conforming value
fn ok(ty: &Ty) -> Val {
  match ty {
    Ty::Any => Val::Atom(Base::String, true),
    Ty::Builtin(b) | Ty::Simple(b, _) => Val::Atom(*b, true),
    Ty::Ref(x, _) => ok(x),
    Ty::CollSimple(b, _) => Val::List(vec![Val::Atom(*b, true)]),
    Ty::CollRef(x) | Ty::CollRefAllowed(x) => Val::List(vec![ok(x)]),
    Ty::Comp(cs) => Val::Ctx(cs.iter().map(|(n, t)| (n.clone(), ok(t))).collect()),
    Ty::CollComp(cs) => Val::List(vec![Val::Ctx(cs.iter().map(|(n, t)| (n.clone(), ok(t))).collect())]),
  }
}

/// every atom of every kind (inside / outside), null, a list and a context
fn atoms_all() -> Vec<(String, Val)> {
  let mut out = vec![];
  for b in BASES {
    out.push((format!("{}-inside-allowed", b.type_ref()), Val::Atom(b, true)));
    out.push((format!("{}-outside-allowed", b.type_ref()), Val::Atom(b, false)));
  }
  out.push(("null".into(), Val::Null));
  out
}

/// labelled values placing every atom at every position of the tree
fn vals(ty: &Ty) -> Vec<(String, Val)> {
  match ty {
    Ty::Any => {
      let mut out = atoms_all();
      out.push(("list".into(), Val::List(vec![Val::Atom(Base::Number, true), Val::Atom(Base::String, true)])));
      out.push(("context".into(), Val::Ctx(vec![("z".into(), Val::Atom(Base::Number, true))])));
      out
    }
    Ty::Builtin(b) | Ty::Simple(b, _) => {
      let mut out = atoms_all();
      out.push(("list-of-conforming".into(), Val::List(vec![Val::Atom(*b, true)])));
      out.push(("context".into(), Val::Ctx(vec![("a".into(), Val::Atom(*b, true))])));
      out
    }
    Ty::Ref(x, _) => vals(x),
    Ty::CollSimple(..) | Ty::CollRef(_) | Ty::CollRefAllowed(_) | Ty::CollComp(_) => {
      let it = item_type(ty).unwrap();
      let good = ok(&it);
      let mut out = vec![];
      for (l, v) in vals(&it) {
        out.push((format!("[{}]", l), Val::List(vec![v.clone()])));
        out.push((format!("[conforming, {}]", l), Val::List(vec![good.clone(), v.clone()])));
        // a null item before the varied one: the items after a null item are judged like the others
        // (for items that are not collections themselves: nested collections would multiply the value set fourfold per level)
        if item_type(&it).is_none() {
          out.push((format!("[null, {}]", l), Val::List(vec![Val::Null, v.clone()])));
          out.push((format!("[conforming, null, {}]", l), Val::List(vec![good.clone(), Val::Null, v.clone()])));
        }
      }
      out.push(("empty-list".into(), Val::List(vec![])));
      out.push(("bare-conforming-item".into(), good.clone()));
      out.push(("null".into(), Val::Null));
      out.push(("context".into(), Val::Ctx(vec![("a".into(), good.clone())])));
      out.push(("list-of-list".into(), Val::List(vec![Val::List(vec![good])])));
      out
    }
    Ty::Comp(cs) => {
      let good = ok(ty);
      let mut out = vec![];
      for (k, (n, t)) in cs.iter().enumerate() {
        for (l, v) in vals(t) {
          if let Val::Ctx(mut es) = good.clone() {
            es[k].1 = v;
            out.push((format!("{}:{}", n, l), Val::Ctx(es)));
          }
        }
      }
      if let Val::Ctx(es) = good.clone() {
        out.push(("missing-component".into(), Val::Ctx(es[1..].to_vec())));
        let mut more = es.clone();
        more.push(("extra".into(), Val::Atom(Base::Number, true)));
        out.push(("extra-entry".into(), Val::Ctx(more)));
        // entries in another order
        let mut rev = es.clone();
        rev.reverse();
        out.push(("reversed-entries".into(), Val::Ctx(rev)));
      }
      out.push(("number".into(), Val::Atom(Base::Number, true)));
      out.push(("string".into(), Val::Atom(Base::String, true)));
      out.push(("null".into(), Val::Null));
      out.push(("list-of-conforming".into(), Val::List(vec![good])));
      out
    }
  }
}

struct Emit {
  top: Vec<ItemDef>,
  n: usize,
  memo: Vec<(String, String)>,
}

impl Emit {
  fn fresh(&mut self) -> String {
    self.n += 1;
    format!("tN{}", self.n)
  }
  fn named(&mut self, ty: &Ty) -> String {
    // the same referenced type is one definition, however often the tree refers to it
    let key = format!("{:?}", ty);
    if let Some((_, n)) = self.memo.iter().find(|(k, _)| *k == key) {
      return n.clone();
    }
    let name = self.fresh();
    let d = self.def(ty, &name);
    self.top.push(d);
    self.memo.push((key, name.clone()));
    name
  }
  fn def(&mut self, ty: &Ty, name: &str) -> ItemDef {
    let mut d = ItemDef {
      name: name.to_string(),
      type_ref: None,
      allowed: None,
      is_collection: false,
      components: vec![],
    };
    match ty {
      Ty::Any => d.type_ref = Some("Any".into()),
      Ty::Builtin(b) => d.type_ref = Some(b.type_ref().into()),
      Ty::Simple(b, a) => {
        d.type_ref = Some(b.type_ref().into());
        if *a {
          d.allowed = Some(b.allowed_text().into());
        }
      }
      Ty::Ref(x, a) => {
        d.type_ref = Some(self.named(x));
        if *a {
          d.allowed = Some(x.base().allowed_text().into());
        }
      }
      Ty::CollSimple(b, a) => {
        d.type_ref = Some(b.type_ref().into());
        d.is_collection = true;
        if *a {
          d.allowed = Some(b.allowed_text().into());
        }
      }
      Ty::CollRefAllowed(x) => {
        d.type_ref = Some(self.named(x));
        d.is_collection = true;
        d.allowed = Some(x.base().allowed_text().into());
      }
      Ty::CollRef(x) => {
        d.type_ref = Some(self.named(x));
        d.is_collection = true;
      }
      Ty::Comp(cs) => {
        for (n, t) in cs {
          let c = self.def(t, n);
          d.components.push(c);
        }
      }
      Ty::CollComp(cs) => {
        d.is_collection = true;
        for (n, t) in cs {
          let c = self.def(t, n);
          d.components.push(c);
        }
      }
    }
    d
  }
}

fn wraps(x: &Ty) -> Vec<Ty> {
  let plain_number = Ty::Simple(Base::Number, false);
  let mut out = vec![Ty::Ref(Box::new(x.clone()), false)];
  if x.resolves_simple().is_some() {
    out.push(Ty::Ref(Box::new(x.clone()), true));
  }
  if let Ty::Simple(b, a) = x {
    out.push(Ty::CollSimple(*b, *a));
  }
  out.push(Ty::CollRef(Box::new(x.clone())));
  if x.resolves_simple().is_some() {
    out.push(Ty::CollRefAllowed(Box::new(x.clone())));
  }
  out.push(Ty::Comp(vec![("a".into(), x.clone()), ("b".into(), plain_number.clone())]));
  out.push(Ty::CollComp(vec![("a".into(), x.clone()), ("b".into(), plain_number)]));
  // an unconstrained component next to the constrained one
  out.push(Ty::Comp(vec![("a".into(), x.clone()), ("b".into(), Ty::Any)]));
  // one definition referred to twice from the same tree: by two components, and by a component and a collection
  out.push(Ty::Comp(vec![("a".into(), Ty::Ref(Box::new(x.clone()), false)), ("b".into(), Ty::Ref(Box::new(x.clone()), false))]));
  out.push(Ty::Comp(vec![("a".into(), Ty::Ref(Box::new(x.clone()), false)), ("b".into(), Ty::CollRef(Box::new(x.clone())))]));
  out
}

fn all_types(thorough: bool) -> Vec<Ty> {
  let mut l1 = vec![];
  for b in BASES {
    l1.push(Ty::Simple(b, false));
    l1.push(Ty::Simple(b, true));
  }
  let mut out: Vec<Ty> = BASES.iter().map(|b| Ty::Builtin(*b)).collect();
  out.extend(l1.iter().cloned());
  let mut l2 = vec![];
  for x in &l1 {
    l2.extend(wraps(x));
  }
  out.extend(l2.iter().cloned());
  for x in &l2 {
    // quick: depth 3 over three bases; thorough: all eight
    if !thorough && !matches!(x.base(), Base::Number | Base::Date | Base::DateTime) {
      continue;
    }
    for w in wraps(x) {
      out.push(w.clone());
      // thorough: one more level over the number base, with the four plain wrappers (reference, collection of reference,
      // component, collection of component): the evaluators of the generated models are never freed (the code base builds
      // reference cycles), so the total size of the models is what bounds this tier
      if thorough && matches!(x.base(), Base::Number) {
        let plain_number = Ty::Simple(Base::Number, false);
        out.push(Ty::Ref(Box::new(w.clone()), false));
        out.push(Ty::CollRef(Box::new(w.clone())));
        out.push(Ty::Comp(vec![("a".into(), w.clone()), ("b".into(), plain_number.clone())]));
        out.push(Ty::CollComp(vec![("a".into(), w.clone()), ("b".into(), plain_number)]));
      }
    }
  }
  out
}

struct Cnt {
  models: AtomicU64,
  evals: AtomicU64,
  compared: AtomicU64,
  nontrivial: AtomicU64,
  open: AtomicU64,
}

fn eval_text(text: &str) -> Option<Value> {
  let scope = Scope::default();
  dmntk_feel_parser::parse_expression(&scope, text, false).ok().and_then(|n| dmntk_feel_evaluator::evaluate(&scope, &n).ok())
}

fn check_type(run: &Run, cnt: &Cnt, ty: &Ty) {
  cnt.models.fetch_add(1, Ordering::Relaxed);
  let mut em = Emit { top: vec![], n: 0, memo: vec![] };
  let type_name = match ty {
    Ty::Builtin(b) => b.type_ref().to_string(),
    _ => {
      let d = em.def(ty, "tT");
      em.top.push(d);
      "tT".to_string()
    }
  };
  let mut m = Model::new("https://verif/c11", "c11");
  m.items = em.top.clone();
  m.inputs.push(dmn::Input {
    name: "In".into(),
    type_ref: type_name.clone(),
  });
  m.decisions.push(dmn::Decision {
    name: "Echo".into(),
    type_ref: None,
    requires: dmn::Requires {
      inputs: vec!["In".into()],
      decisions: vec![],
      knowledge: vec![],
    },
    logic: Some(Expr::lit("In")),
  });
  // output side: the values, their singleton wrappings, and for collections the bare items
  let in_vals = vals(ty);
  let mut out_vals: Vec<(String, Val)> = in_vals.clone();
  for (l, v) in &in_vals {
    out_vals.push((format!("singleton-list-of({})", l), Val::List(vec![v.clone()])));
  }
  if let Some(it) = item_type(ty) {
    for (l, v) in vals(&it) {
      out_vals.push((format!("bare-item({})", l), v));
    }
  }
  for (k, (_, v)) in out_vals.iter().enumerate() {
    let text = v.text();
    m.decisions.push(dmn::Decision {
      name: format!("O{}", k),
      type_ref: Some(type_name.clone()),
      requires: Default::default(),
      logic: Some(Expr::lit(&text)),
    });
    m.bkms.push(dmn::Bkm {
      name: format!("B{}", k),
      type_ref: Some(type_name.clone()),
      params: vec![],
      knowledge: vec![],
      logic: Expr::lit(&text),
    });
    m.decisions.push(dmn::Decision {
      name: format!("R{}", k),
      type_ref: None,
      requires: Default::default(),
      logic: Some(Expr::lit(&text)),
    });
    m.services.push(dmn::Service {
      name: format!("S{}", k),
      type_ref: Some(type_name.clone()),
      output_decisions: vec![format!("R{}", k)],
      encapsulated_decisions: vec![],
      input_decisions: vec![],
      input_data: vec![],
    });
  }
  let xml = m.to_xml();
  let me = match dmntk_model::parse(&xml).map_err(|e| e.to_string()).and_then(|defs| ModelEvaluator::new(&defs).map_err(|e| e.to_string())) {
    Ok(me) => me,
    Err(e) => {
      run.violation(
        &format!("model-does-not-load:{}", ty.shape()),
        &format!("generated well-formed model is rejected: {}", e),
        json!({"engine":"dmn","xml":xml,"invocable":"","ctx":[],"expected":"(model loads)"}),
      );
      return;
    }
  };
  let base = ty.base().type_ref();
  let local_outcomes = std::cell::RefCell::new(std::collections::BTreeSet::<String>::new());
  let judge = |side: &str, invocable: &str, label: &str, ctx_text: &str, ctx: &FeelContext, expected: Option<Val>, value_text: &str, deviation: Option<(Val, &str)>| {
    let got = show_value_full(&me.evaluate_invocable(invocable, ctx));
    cnt.evals.fetch_add(1, Ordering::Relaxed);
    let expected = match expected {
      None => {
        cnt.open.fetch_add(1, Ordering::Relaxed);
        return;
      }
      Some(e) => e,
    };
    let exp = match eval_text(&expected.text()) {
      Some(v) => show_value_full(&v),
      None => {
        run.machinery_error(&format!("expected value text does not evaluate: {}", expected.text()));
        return;
      }
    };
    cnt.compared.fetch_add(1, Ordering::Relaxed);
    local_outcomes.borrow_mut().insert(format!(
      "{}:{}",
      side,
      if expected.text() == value_text {
        "unchanged"
      } else if expected == Val::Null {
        "replaced-by-null"
      } else if expected.text() == format!("[{}]", value_text) {
        "wrapped-into-singleton-list"
      } else if format!("[{}]", expected.text()) == value_text {
        "unwrapped-from-singleton-list"
      } else {
        "component-replaced-by-null"
      }
    ));
    if expected != Val::Null {
      cnt.nontrivial.fetch_add(1, Ordering::Relaxed);
    }
    if got != exp {
      if let Some((dv, dkey)) = &deviation {
        if eval_text(&dv.text()).map(|v| show_value_full(&v)) == Some(got.clone()) {
          run.violation(dkey, &format!("{} typed {} (base {}): value {} gives {} but {} is prescribed", side, ty.shape(), base, value_text, got, exp), json!({"engine":"dmn","xml":xml,"invocable":invocable,"ctx":ctx_text,"expected":exp}));
          return;
        }
      }
      let got_class = if got == "null" { "null-instead-of-value" } else if exp == "null" { "value-instead-of-null" } else { "other-value" };
      // the label names the kind of the offending atom: replace the type's own base by `own` so that keys do not multiply by base
      let label_abs = label.replace(base, "own-kind");
      run.violation(
        &format!("{}:{}:{}:{}", side, ty.shape(), label_abs, got_class),
        &format!("{} typed {} (base {}): value {} gives {} but {} is prescribed", side, ty.shape(), base, value_text, got, exp),
        json!({"engine":"dmn","xml":xml,"invocable":invocable,"ctx":ctx_text,"expected":exp}),
      );
    }
  };
  // input side
  for (label, v) in &in_vals {
    let text = format!("{{In: {}}}", v.text());
    let ctx = match dmntk_feel_evaluator::evaluate_context(&Scope::default(), &text) {
      Ok(c) => c,
      Err(e) => {
        run.machinery_error(&format!("input context does not evaluate: {}: {}", text, e));
        continue;
      }
    };
    let deviation = norm_mode(ty, v, true).map(|d| (d, "input:component-typed-Any-reaches-the-logic-as-null"));
    judge("input", "Echo", label, &text, &ctx, norm(ty, v), &v.text(), deviation);
  }
  // output side
  let empty = FeelContext::default();
  for (k, (label, v)) in out_vals.iter().enumerate() {
    let expected = coerce(ty, v);
    judge("decision-output", &format!("O{}", k), label, "{}", &empty, expected.clone(), &v.text(), None);
    judge("knowledge-model-output", &format!("B{}", k), label, "{}", &empty, expected.clone(), &v.text(), None);
    judge("decision-service-output", &format!("S{}", k), label, "{}", &empty, expected, &v.text(), None);
  }
  run.outcomes_bulk(local_outcomes.into_inner());
}

pub fn run() {
  let run = Run::new("C11");
  let thorough = run.thorough();
  let cnt = Cnt {
    models: AtomicU64::new(0),
    evals: AtomicU64::new(0),
    compared: AtomicU64::new(0),
    nontrivial: AtomicU64::new(0),
    open: AtomicU64::new(0),
  };
  let types = all_types(thorough);
  if std::env::var("C11_STATS").is_ok() {
    let mut sizes: Vec<(usize, usize, String)> = types.iter().map(|t| { let v = vals(t); (v.len(), v.iter().map(|x| x.1.text().len()).sum::<usize>(), t.shape()) }).collect();
    sizes.sort();
    for d in 1..=5 {
      let sel: Vec<&Ty> = types.iter().filter(|t| t.depth() == d).collect();
      eprintln!("depth {} types {} values {}", d, sel.len(), sel.iter().map(|t| vals(t).len()).sum::<usize>());
    }
    eprintln!("types {} total values {} total text {} largest {:?}", types.len(), sizes.iter().map(|s| s.0).sum::<usize>(), sizes.iter().map(|s| s.1).sum::<usize>(), sizes.iter().rev().take(3).collect::<Vec<_>>());
    std::process::exit(0);
  }
  types.par_iter().for_each(|ty| check_type(&run, &cnt, ty));
  if let Some(t) = types.get(types.len() / 2) {
    run.sample(json!({"type": t.shape(), "base": t.base().type_ref(), "values": vals(t).len()}));
  }
  run.set("states", json!(cnt.models.load(Ordering::Relaxed)));
  run.set("transitions", json!(cnt.evals.load(Ordering::Relaxed)));
  run.set("traces_validated_against_impl", json!(cnt.compared.load(Ordering::Relaxed)));
  run.set("evaluations", json!(cnt.evals.load(Ordering::Relaxed)));
  run.set("distinct_nontrivial", json!(cnt.nontrivial.load(Ordering::Relaxed)));
  run.set("rule", json!("(type tree, position, value) triples, distinct by construction, whose prescribed result is not null; type trees = 8 built-in typeRefs + simple types with/without allowed values + every wrapper (reference with/without own allowed values, collection of simple, collection of referenced, component, collection of component) applied up to depth 3 (quick: depth 3 over number/date/dateTime; thorough: all eight bases, and one more level of the four plain wrappers over number); values = every atom of every kind inside and outside the allowed values, null, list, context at every position, plus missing / extra / reordered entries, empty list, bare item, list of list; output side adds singleton wrappings and bare items, through decision, knowledge model and decision service output variables"));
  run.set("exhaustive", json!(true));
  run.set("type_trees", json!(types.len()));
  run.set("left_open_not_compared", json!(cnt.open.load(Ordering::Relaxed)));
  run.assume("reference norm / conforms / coerce in engines/c11.rs; null items of a collection, contexts with missing or additional entries on the input side, and allowed values on output types are left open (executed, not compared)");
  run.finish();
}

/// A few generated models (item definition trees with typed inputs and outputs) for the fault-injection corpus of C12.
pub fn sample_models() -> Vec<String> {
  let trees = vec![
    Ty::CollComp(vec![("a".into(), Ty::Ref(Box::new(Ty::Comp(vec![("a".into(), Ty::Simple(Base::Date, true)), ("b".into(), Ty::Simple(Base::Number, false))])), false)), ("b".into(), Ty::Simple(Base::Number, false))]),
    Ty::CollRef(Box::new(Ty::Ref(Box::new(Ty::Simple(Base::String, true)), true))),
    Ty::Ref(Box::new(Ty::Ref(Box::new(Ty::Ref(Box::new(Ty::Simple(Base::Number, false)), false)), false)), false),
  ];
  let mut out = vec![];
  for ty in trees {
    let mut em = Emit { top: vec![], n: 0, memo: vec![] };
    let d = em.def(&ty, "tT");
    em.top.push(d);
    let mut m = Model::new("https://verif/c11", "c11");
    m.items = em.top.clone();
    m.inputs.push(dmn::Input { name: "In".into(), type_ref: "tT".into() });
    m.decisions.push(dmn::Decision {
      name: "Echo".into(),
      type_ref: Some("tT".into()),
      requires: dmn::Requires { inputs: vec!["In".into()], decisions: vec![], knowledge: vec![] },
      logic: Some(Expr::lit("In")),
    });
    m.bkms.push(dmn::Bkm { name: "B".into(), type_ref: Some("tT".into()), params: vec![("x".into(), Some("tT".into()))], knowledge: vec![], logic: Expr::lit("x") });
    out.push(m.to_xml());
    // the same definitions declared in the opposite order (a referring definition before the one it refers to)
    m.items.reverse();
    out.push(m.to_xml());
  }
  out
}
