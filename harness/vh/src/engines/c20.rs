//! C20: a deployed model may be evaluated from many threads. Exhaustive exploration, with loom, of the
//! interleavings of concurrent `evaluate_invocable` calls against one shared `ModelEvaluator`, on an instrumented
//! copy of the dmntk crates (bin/instr_c20.py: every `std::sync::` path rewritten to `verif_sync::`, whose Mutex,
//! Condvar and atomics are loom's and whose RwLock is a writer-preferring shim over them). The loom harness
//! (harness/loomh) is built and run as child processes, one per scenario; this engine classifies their outcome.

use crate::report::Run;
use serde_json::{json, Value as J};
use std::process::{Command, Stdio};

struct Scenario {
  plan: &'static str,
  what: &'static str,
  /// preemption bound
  bound: &'static str,
}

fn scenarios(thorough: bool) -> Vec<Scenario> {
  // call table of harness/loomh (10 Rate() 11 Scale(x=3) 12 Svc(A=5), invoked by name; 13 14 15 Zone for two times of day in Europe/Warsaw and one in America/New_York on 2021-03-28; 16 17 Def(A=5), Def(A=42); 18 Batch(A=5) 19 Gross(A=100); 20 21 22 Grade(A=60), Grade(A=95), Grade(A=10)): 0 All(A=5) 1 Quote(A=500) 2 All(A=42) 3 Quote(A=5) 4 All(A=500) 5 Quote(A=42) 6 Many(S=abcz) 7 Many(S=xyz) 8 Three(A=5) 9 Three(A=42)
  let mut v = vec![
    Scenario { plan: "1/3", what: "two threads, the decision that invokes the decision service as a function, different inputs", bound: "2" },
    Scenario { plan: "0/2", what: "two threads, the decision over table, regular expression and temporal decisions, different inputs", bound: "2" },
    Scenario { plan: "0/1", what: "two threads, different invocables", bound: "2" },
    Scenario { plan: "6/7", what: "two threads, a decision that applies twenty different regular expressions to its input (more distinct keys than a small bounded cache holds)", bound: "2" },
    Scenario { plan: "8/9", what: "two threads whose first evaluations of a decision with three knowledge requirements overlap on a freshly built evaluator", bound: "2" },
    Scenario { plan: "10/8", what: "two threads, a knowledge model without parameters invoked by name while the other thread evaluates the decision with three knowledge requirements", bound: "2" },
    Scenario { plan: "11/9", what: "two threads, a knowledge model invoked by name with its argument while the other thread evaluates a decision that requires it", bound: "2" },
    Scenario { plan: "12/3", what: "two threads, the decision service invoked by name while the other thread evaluates the decision that invokes it as a function", bound: "2" },
    Scenario { plan: "13/14", what: "two threads, date and time values of one named zone on the day of a daylight-saving change, one before and one after the change", bound: "2" },
    Scenario { plan: "13,14/15", what: "two threads, one evaluating both sides of the change in turn while the other evaluates the same day in another zone", bound: "2" },
    Scenario { plan: "16/17", what: "two threads, a decision table none of whose rules matches, whose default output entry is an expression over the input, different inputs", bound: "2" },
    Scenario { plan: "18,19/0", what: "two threads, one making three hundred invocations of a user-defined function with too few arguments and then proper invocations of another (what a thread keeps between its own calls)", bound: "2" },
    Scenario { plan: "20,21/22", what: "two threads, a table with the UNIQUE hit policy whose rules overlap: one thread evaluates an input that one rule matches and then one that two rules match, the other an input that another rule matches (what a table keeps between evaluations)", bound: "2" },
    Scenario { plan: "0,0/2", what: "two threads, one repeating its own call while the other evaluates the same decision with another input (what a call site keeps between a thread's own calls)", bound: "2" },
  ];
  if thorough {
    for s in v.iter_mut().take(3) {
      s.bound = "3";
    }
    v.push(Scenario { plan: "6,6/7", what: "two threads, the twenty-pattern decision, one thread repeating its call", bound: "2" });
    v.push(Scenario { plan: "3,3/1", what: "two threads, one repeating the service-invoking decision while the other evaluates it with another input", bound: "2" });
    v.push(Scenario { plan: "1,0/3,2", what: "two threads, two calls each, same invocables in the same order", bound: "2" });
    v.push(Scenario { plan: "1,2/4,3", what: "two threads, two calls each, different invocables crossing", bound: "2" });
    v.push(Scenario { plan: "1/3/5", what: "three threads, the service-invoking decision", bound: "2" });
    v.push(Scenario { plan: "0/3/4", what: "three threads, mixed invocables", bound: "2" });
  }
  v
}

pub fn prepare(run: &Run) -> Option<(String, J)> {
  let root = crate::report::root();
  let out = Command::new("python3").arg(format!("{}/bin/instr_c20.py", root)).env("VERIF_ROOT", &root).output();
  let summary: J = match out {
    Ok(o) if o.status.success() => serde_json::from_slice(&o.stdout).unwrap_or(J::Null),
    other => {
      run.machinery_error(&format!("instrumented copy could not be written: {:?}", other.map(|o| String::from_utf8_lossy(&o.stderr).into_owned())));
      return None;
    }
  };
  let build = Command::new("cargo")
    .args(["build", "--release", "--offline", "--quiet"])
    .current_dir(format!("{}/harness/loomh", root))
    .env("CARGO_NET_OFFLINE", "true")
    .env_remove("CARGO_TARGET_DIR")
    .output();
  match build {
    Ok(o) if o.status.success() => {}
    Ok(o) => {
      let err = String::from_utf8_lossy(&o.stderr);
      let lines: Vec<&str> = err.lines().filter(|l| !l.starts_with("warning")).collect();
      run.machinery_error(&format!("loom harness does not build against the instrumented copy (not a verdict): {}", lines.iter().rev().take(30).rev().cloned().collect::<Vec<_>>().join(" | ")));
      return None;
    }
    Err(e) => {
      run.machinery_error(&format!("cargo could not be started: {}", e));
      return None;
    }
  }
  Some((format!("{}/target/loom/release/loomh", root), summary))
}

/// A failure of the exploration itself - loom meeting something it cannot model (an object that outlives an execution, a
/// primitive it does not provide) - is not a statement about the code: it is reported as a NOTE and the scenario counts as
/// not explored.
pub fn loom_artefact(stderr: &str) -> Option<String> {
  stderr
    .lines()
    .find(|l| l.contains("[loom internal bug]") || l.contains("unexpected object stored at reference") || l.contains("cannot access a scoped thread local") || l.contains("Model exceeded maximum number of branches") || l.contains("cannot access a Thread Local Storage value"))
    .map(|l| l.trim().chars().take(300).collect())
}

fn classify(stderr: &str) -> (String, String) {
  if let Some(l) = stderr.lines().find(|l| l.starts_with("MISMATCH")) {
    let class = if l.contains("poisoned") {
      "lock-left-poisoned"
    } else if l.contains("after the threads") {
      "wrong-result-after-the-concurrent-phase"
    } else {
      "per-call-result-differs-from-the-call-made-alone"
    };
    return (class.to_string(), l.to_string());
  }
  if let Some(l) = stderr.lines().find(|l| l.contains("deadlock")) {
    return ("deadlock".to_string(), l.trim().to_string());
  }
  if let Some(l) = stderr.lines().find(|l| l.contains("panicked at")) {
    let next = stderr.lines().skip_while(|x| !x.contains("panicked at")).nth(1).unwrap_or("");
    return ("panic-in-a-concurrent-execution".to_string(), format!("{} {}", l.trim(), next.trim()));
  }
  ("".to_string(), stderr.lines().rev().take(5).collect::<Vec<_>>().join(" | "))
}

pub fn run() {
  let run = Run::new("C20");
  let thorough = run.thorough();
  let (exe, summary) = match prepare(&run) {
    Some(x) => x,
    None => run.finish(),
  };
  let root = crate::report::root();
  let scs = scenarios(thorough);
  let max_duration: u64 = if thorough { 2400 } else { 120 };
  // one child per scenario, in parallel
  let children: Vec<_> = scs
    .iter()
    .map(|s| {
      Command::new(&exe)
        .arg(format!("{}/models/conc.dmn", root))
        .arg(s.plan)
        .env("TZ", "UTC")
        .env("LOOM_MAX_PREEMPTIONS", s.bound)
        .env("LOOM_MAX_BRANCHES", "1000000")
        .env("LOOM_MAX_DURATION", max_duration.to_string())
        .env("RUST_BACKTRACE", "0")
        .stdout(Stdio::piped())
        .stderr(Stdio::piped())
        .spawn()
    })
    .collect();
  let mut total_exec = 0u64;
  let mut total_traces = 0u64;
  let mut per = serde_json::Map::new();
  let mut all_complete = true;
  for (s, c) in scs.iter().zip(children.into_iter()) {
    let out = match c.and_then(|c| c.wait_with_output()) {
      Ok(o) => o,
      Err(e) => {
        run.machinery_error(&format!("loom harness could not be run: {}", e));
        continue;
      }
    };
    let stdout = String::from_utf8_lossy(&out.stdout).into_owned();
    let stderr = String::from_utf8_lossy(&out.stderr).into_owned();
    let num = |key: &str| stdout.lines().find_map(|l| l.strip_prefix(key).and_then(|v| v.trim().parse::<u64>().ok()));
    let bound = s.bound;
    let replay = json!({"engine":"c20","plan":s.plan,"preemption_bound":bound});
    if out.status.success() {
      let ex = num("EXECUTIONS ").unwrap_or(0);
      total_exec += ex;
      total_traces += num("TRACES ").unwrap_or(0);
      // loom stops silently at LOOM_MAX_DURATION: a run that lasted that long was cut and is not exhaustive
      let elapsed = num("ELAPSED ").unwrap_or(max_duration);
      let complete = elapsed + 2 < max_duration;
      if !complete {
        all_complete = false;
        println!("NOTE: scenario {} (preemption bound {}) was cut by the time cap of {} s after {} executions: explored without violation, not exhaustive", s.plan, bound, max_duration, ex);
      }
      per.insert(
        s.plan.to_string(),
        json!({"what": s.what, "preemption_bound": bound, "executions": ex, "distinct_lock_traces": num("TRACES "), "distinct_outcomes": num("OUTCOMES "), "complete": complete, "elapsed_s": elapsed, "time_cap_s": max_duration}),
      );
      run.outcome(&format!("{}:held", s.plan));
    } else if out.status.code() == Some(2) {
      run.machinery_error(&format!("loom harness, scenario {}: {}", s.plan, stderr.lines().rev().take(3).collect::<Vec<_>>().join(" | ")));
    } else if let Some(why) = loom_artefact(&stderr) {
      all_complete = false;
      println!("NOTE: scenario {} could not be explored - loom cannot model a construct of the instrumented code ({}); this check says nothing about that scenario", s.plan, why);
      per.insert(s.plan.to_string(), json!({"what": s.what, "complete": false, "not_explored": why}));
    } else {
      let (class, detail) = classify(&stderr);
      if class.is_empty() {
        all_complete = false;
        run.machinery_error(&format!("loom harness ended abnormally without a recognisable verdict, scenario {}: {}", s.plan, detail));
      } else {
        per.insert(s.plan.to_string(), json!({"what": s.what, "complete": false, "failed": class}));
        run.violation(
          &format!("{}:{}", class, if s.plan.split(|c| c == '/' || c == ',').any(|i| matches!(i, "1" | "3" | "5" | "12")) { "service-invoking-decision-involved" } else { "plain-decisions" }),
          &format!("scenario {} ({}; preemption bound {}): {}", s.plan, s.what, bound, detail),
          replay,
        );
      }
    }
  }
  for (k, v) in per.iter().take(2) {
    run.sample(json!({"scenario": k, "result": v}));
  }
  run.set("states", json!(total_exec));
  run.set("transitions", json!(total_exec));
  run.set("traces_validated_against_impl", json!(total_exec));
  run.set("evaluations", json!(total_exec));
  run.set("distinct_nontrivial", json!(total_traces));
  run.set("rule", json!("executions = complete interleavings explored by loom (DPOR, preemption bound as stated) of the scenario's threads against one shared evaluator built inside the execution; distinct_nontrivial = distinct lock traces (sequences of read / write lock and unlock events of the evaluator registries) observed over those executions"));
  run.set("exhaustive", json!(all_complete));
  run.set("preemption_bound", json!(if thorough { "3 for two threads x one call, 2 for two threads x two calls and three threads" } else { "2" }));
  run.set("scenarios", J::Object(per));
  // constructs that share state between threads without passing an intercepted primitive (static mut, casts to *mut,
  // unsafe impl Sync, cells in statics): loom cannot interleave at them. Those present in the baseline were read and are
  // not shared between evaluations; a new one means this exploration does not cover what it introduces.
  let baseline: J = std::fs::read_to_string(format!("{}/models/c20_sharing_baseline.json", root)).ok().and_then(|t| serde_json::from_str(&t).ok()).unwrap_or(json!({}));
  let mut uncovered = vec![];
  if let Some(now) = summary.get("sharing_constructs").and_then(|x| x.as_object()) {
    for (file, pats) in now {
      for (pat, n) in pats.as_object().into_iter().flatten() {
        let before = baseline.get(file).and_then(|f| f.get(pat)).and_then(|x| x.as_u64()).unwrap_or(0);
        if n.as_u64().unwrap_or(0) > before {
          uncovered.push(format!("{}: `{}` x{} (baseline {})", file, pat, n, before));
        }
      }
    }
  }
  for u in &uncovered {
    println!("NOTE: a construct that shares state without an intercepted synchronisation primitive appeared since the baseline - {} - the loom exploration cannot interleave at it; this check says nothing about it", u);
  }
  run.set("interception_complete", json!(uncovered.is_empty()));
  run.set("unintercepted_sharing_constructs_new", json!(uncovered));
  run.set("instrumentation", summary);
  run.assume("verif_sync shim (harness/verif_sync): loom Mutex / Condvar / atomics, std Arc, writer-preferring RwLock with reader count and poisoning; lazily initialised statics (regular expressions, decimal contexts) are initialised once per process and are not scheduling points; memory-ordering effects weaker than what loom models for the intercepted primitives are outside this check");
  run.finish();
}

pub fn replay_case(case: &J) -> String {
  let root = crate::report::root();
  let plan = case.get("plan").and_then(|p| p.as_str()).unwrap_or("1/3");
  let bound = case.get("preemption_bound").and_then(|p| p.as_str()).unwrap_or("2");
  let _ = Command::new("python3").arg(format!("{}/bin/instr_c20.py", root)).env("VERIF_ROOT", &root).output();
  let _ = Command::new("cargo").args(["build", "--release", "--offline", "--quiet"]).current_dir(format!("{}/harness/loomh", root)).env_remove("CARGO_TARGET_DIR").output();
  let out = Command::new(format!("{}/target/loom/release/loomh", root))
    .arg(format!("{}/models/conc.dmn", root))
    .arg(plan)
    .env("TZ", "UTC")
    .env("LOOM_MAX_PREEMPTIONS", bound)
    .env("LOOM_MAX_BRANCHES", "1000000")
    .env("RUST_BACKTRACE", "0")
    .output();
  match out {
    Ok(o) if o.status.success() => format!("PASS scenario {} holds: {}", plan, String::from_utf8_lossy(&o.stdout).lines().filter(|l| !l.starts_with("ALONE") && !l.starts_with("ELAPSED")).collect::<Vec<_>>().join(", ")),
    Ok(o) => {
      let (class, detail) = classify(&String::from_utf8_lossy(&o.stderr));
      format!("FAIL scenario {}: {} {}", plan, class, detail)
    }
    Err(e) => format!("MACHINERY {}", e),
  }
}
