//! C06 — the parser builds the tree dictated by precedence and associativity.

use crate::report::Run;
use crate::rval::parse_scope_of;
use crate::term::*;
use dmntk_feel::AstNode;
use dmntk_feel_parser::{parse_expression, parse_unary_tests};
use rayon::prelude::*;
use serde_json::json;
use std::collections::BTreeSet;
use std::sync::atomic::{AtomicU64, Ordering};

/// A constructor: name, arity and a builder from operands.
pub struct Cons {
  pub name: &'static str,
  pub arity: usize,
  pub build: fn(&[T]) -> T,
}

fn bx(t: &T) -> Box<T> {
  Box::new(t.clone())
}

macro_rules! binop {
  ($name:literal, $op:expr) => {
    Cons {
      name: $name,
      arity: 2,
      build: |o| T::Bin($op, bx(&o[0]), bx(&o[1])),
    }
  };
}

pub fn constructors() -> Vec<Cons> {
  vec![
    binop!("or", Op::Or),
    binop!("and", Op::And),
    binop!("=", Op::Eq),
    binop!("!=", Op::Nq),
    binop!("<", Op::Lt),
    binop!("<=", Op::Le),
    binop!(">", Op::Gt),
    binop!(">=", Op::Ge),
    binop!("in", Op::In),
    binop!("+", Op::Add),
    binop!("-", Op::Sub),
    binop!("*", Op::Mul),
    binop!("/", Op::Div),
    binop!("**", Op::Exp),
    Cons { name: "neg", arity: 1, build: |o| T::Neg(bx(&o[0])) },
    Cons { name: "between", arity: 3, build: |o| T::Between(bx(&o[0]), bx(&o[1]), bx(&o[2])) },
    Cons { name: "in-list", arity: 3, build: |o| T::InList(bx(&o[0]), vec![o[1].clone(), o[2].clone()]) },
    Cons { name: "if", arity: 3, build: |o| T::If(bx(&o[0]), bx(&o[1]), bx(&o[2])) },
    Cons { name: "for", arity: 2, build: |o| T::For(vec![("i".into(), Dom::Single(o[0].clone()))], bx(&o[1])) },
    Cons { name: "for-range", arity: 3, build: |o| T::For(vec![("i".into(), Dom::Range(o[0].clone(), o[1].clone()))], bx(&o[2])) },
    Cons {
      name: "for-2",
      arity: 3,
      build: |o| T::For(vec![("i".into(), Dom::Single(o[0].clone())), ("j".into(), Dom::Single(o[1].clone()))], bx(&o[2])),
    },
    Cons { name: "some", arity: 2, build: |o| T::Some_(vec![("i".into(), o[0].clone())], bx(&o[1])) },
    Cons { name: "every", arity: 2, build: |o| T::Every(vec![("i".into(), o[0].clone())], bx(&o[1])) },
    Cons {
      name: "some-2",
      arity: 3,
      build: |o| T::Some_(vec![("i".into(), o[0].clone()), ("j".into(), o[1].clone())], bx(&o[2])),
    },
    Cons { name: "list-1", arity: 1, build: |o| T::List(vec![o[0].clone()]) },
    Cons { name: "list-2", arity: 2, build: |o| T::List(vec![o[0].clone(), o[1].clone()]) },
    Cons { name: "context", arity: 2, build: |o| T::Ctx(vec![("k".into(), o[0].clone()), ("m".into(), o[1].clone())]) },
    Cons { name: "path", arity: 1, build: |o| T::Path(bx(&o[0]), "k".into()) },
    Cons { name: "filter", arity: 2, build: |o| T::Filter(bx(&o[0]), bx(&o[1])) },
    Cons { name: "call-0", arity: 1, build: |o| T::Call(bx(&o[0]), vec![]) },
    Cons { name: "call-1", arity: 2, build: |o| T::Call(bx(&o[0]), vec![o[1].clone()]) },
    Cons { name: "call-2", arity: 3, build: |o| T::Call(bx(&o[0]), vec![o[1].clone(), o[2].clone()]) },
    Cons { name: "call-named", arity: 2, build: |o| T::CallNamed(bx(&o[0]), vec![("p".into(), o[1].clone())]) },
    Cons { name: "function-1", arity: 1, build: |o| T::Func(vec![("p".into(), None)], bx(&o[0])) },
    Cons { name: "function-2", arity: 1, build: |o| T::Func(vec![("p".into(), None), ("q".into(), None)], bx(&o[0])) },
    Cons { name: "function-0", arity: 1, build: |o| T::Func(vec![], bx(&o[0])) },
    Cons { name: "instance-of", arity: 1, build: |o| T::InstanceOf(bx(&o[0]), Ty::Number) },
    Cons { name: "instance-of-list", arity: 1, build: |o| T::InstanceOf(bx(&o[0]), Ty::List(Box::new(Ty::String))) },
    // nullary composites (inner nodes only)
    Cons { name: "range-cc", arity: 0, build: |_| T::Range(true, Box::new(nm("a")), Box::new(nm("b")), true) },
    Cons { name: "range-oo", arity: 0, build: |_| T::Range(false, Box::new(num(1)), Box::new(nm("b")), false) },
    Cons { name: "range-oc", arity: 0, build: |_| T::Range(false, Box::new(nm("a")), Box::new(num(2)), true) },
    Cons { name: "unary-lt", arity: 0, build: |_| T::Unary(UOp::Lt, Box::new(nm("a"))) },
    Cons { name: "unary-ge", arity: 0, build: |_| T::Unary(UOp::Ge, Box::new(num(1))) },
    Cons { name: "empty-list", arity: 0, build: |_| T::List(vec![]) },
    Cons { name: "empty-context", arity: 0, build: |_| T::Ctx(vec![]) },
  ]
}

pub fn parse_names() -> BTreeSet<String> {
  ["a", "b", "c", "i", "j", "p", "q", "k", "m", "f"].iter().map(|s| s.to_string()).collect()
}

fn leaves() -> Vec<T> {
  vec![nm("a"), nm("b"), nm("c"), num(1)]
}

/// Places where an operand position has syntactic restrictions the generator must respect.
fn slot_ok(outer: &Cons, slot: usize, inner: &T) -> bool {
  // `x in <range>` etc. are fine everywhere. A Range as callee/filter base is syntactically fine too.
  // The first operand of in-list followed by `(`: fine.
  let _ = (outer, slot, inner);
  true
}

pub fn depth2_trees() -> Vec<(String, T)> {
  let cons = constructors();
  let lv = leaves();
  let mut out = vec![];
  // depth 1
  for c in &cons {
    let ops: Vec<T> = (0..c.arity).map(|i| lv[i % 3].clone()).collect();
    out.push((c.name.to_string(), (c.build)(&ops)));
  }
  // depth 2: every inner constructor in every slot of every outer constructor
  for outer in &cons {
    for slot in 0..outer.arity {
      for inner in &cons {
        let iops: Vec<T> = (0..inner.arity).map(|i| lv[i % 3].clone()).collect();
        let it = (inner.build)(&iops);
        if !slot_ok(outer, slot, &it) {
          continue;
        }
        let mut ops: Vec<T> = (0..outer.arity).map(|i| lv[(i + 1) % 3].clone()).collect();
        ops[slot] = it;
        out.push((format!("{}[{}]<-{}", outer.name, slot, inner.name), (outer.build)(&ops)));
      }
    }
  }
  out
}

/// Depth-3 spines: every ordered triple of constructors nested along every slot of the outer and of the middle one.
pub fn depth3_spines(_all: bool) -> Vec<(String, T)> {
  let cons = constructors();
  let lv = leaves();
  let mut out = vec![];
  let pick: Vec<&Cons> = cons.iter().filter(|c| c.arity > 0).collect();
  for o in &pick {
    for m in &pick {
      for i in &cons {
        let iops: Vec<T> = (0..i.arity).map(|k| lv[k % 3].clone()).collect();
        let it = (i.build)(&iops);
        for mslot in 0..m.arity {
          let mut mops: Vec<T> = (0..m.arity).map(|k| lv[(k + 1) % 3].clone()).collect();
          mops[mslot] = it.clone();
          let mt = (m.build)(&mops);
          for oslot in 0..o.arity {
            let mut oops: Vec<T> = (0..o.arity).map(|k| lv[(k + 2) % 3].clone()).collect();
            oops[oslot] = mt.clone();
            out.push((format!("{}[{}]<{}[{}]<{}", o.name, oslot, m.name, mslot, i.name), (o.build)(&oops)));
          }
        }
      }
    }
  }
  out
}

/// Literal leaves: every constructor with each literal spelling in each single slot (names elsewhere) and in all slots.
pub fn literal_leaf_trees() -> Vec<(String, T)> {
  let cons = constructors();
  let lv = leaves();
  let lits: Vec<(&str, T)> = vec![
    ("int", T::Num("1".into(), String::new())),
    ("decimal", T::Num("1".into(), "5".into())),
    ("point-first", T::Num(String::new(), "5".into())),
    ("leading-zeros", T::Num("007".into(), "50".into())),
    ("string", T::Str("s t".into())),
    ("boolean", T::Bool(true)),
    ("null", T::Null),
    ("at", T::At("2021-01-02".into())),
  ];
  let mut out = vec![];
  for c in cons.iter().filter(|c| c.arity > 0) {
    for (ln, lit) in &lits {
      for slot in 0..=c.arity {
        let mut ops: Vec<T> = (0..c.arity).map(|k| lv[k % 3].clone()).collect();
        if slot == c.arity {
          if c.arity == 1 {
            continue;
          }
          ops = (0..c.arity).map(|_| lit.clone()).collect();
        } else {
          ops[slot] = lit.clone();
        }
        out.push((format!("{}[{}]<-literal:{}", c.name, if slot == c.arity { "all".to_string() } else { slot.to_string() }, ln), (c.build)(&ops)));
      }
    }
  }
  out
}

/// Sibling pairs: every outer constructor with two of its slots filled by every ordered pair of inner constructors
/// (both operands of a binary operator are operators themselves, both branches of an if, two arguments ...).
pub fn sibling_pairs() -> Vec<(String, T)> {
  let cons = constructors();
  let lv = leaves();
  let mut out = vec![];
  let inner: Vec<T> = cons.iter().map(|i| (i.build)(&(0..i.arity).map(|k| lv[k % 3].clone()).collect::<Vec<T>>())).collect();
  for o in cons.iter().filter(|c| c.arity >= 2) {
    for s1 in 0..o.arity {
      for s2 in s1 + 1..o.arity {
        for (n1, i1) in inner.iter().enumerate() {
          for (n2, i2) in inner.iter().enumerate() {
            let mut ops: Vec<T> = (0..o.arity).map(|k| lv[(k + 1) % 3].clone()).collect();
            ops[s1] = i1.clone();
            ops[s2] = i2.clone();
            out.push((format!("{}[{}]<-{},[{}]<-{}", o.name, s1, cons[n1].name, s2, cons[n2].name), (o.build)(&ops)));
          }
        }
      }
    }
  }
  out
}

/// Depth-4 spines (thorough): every ordered quadruple of constructors nested along the first or along the last slot.
pub fn depth4_spines() -> Vec<(String, T)> {
  let cons = constructors();
  let lv = leaves();
  let mut out = vec![];
  let pick: Vec<&Cons> = cons.iter().filter(|c| c.arity > 0).collect();
  let put = |c: &Cons, side: usize, inner: &T, shift: usize| -> T {
    let slot = if side == 0 { 0 } else { c.arity - 1 };
    let mut ops: Vec<T> = (0..c.arity).map(|k| lv[(k + shift) % 3].clone()).collect();
    ops[slot] = inner.clone();
    (c.build)(&ops)
  };
  for i in &cons {
    let it = (i.build)(&(0..i.arity).map(|k| lv[k % 3].clone()).collect::<Vec<T>>());
    for side in 0..2 {
      for m2 in &pick {
        let t2 = put(m2, side, &it, 1);
        for m1 in &pick {
          let t1 = put(m1, side, &t2, 2);
          for o in &pick {
            out.push((format!("{}<{}<{}<{}/{}", o.name, m1.name, m2.name, i.name, if side == 0 { "first" } else { "last" }), put(o, side, &t1, 0)));
          }
        }
      }
    }
  }
  out
}

#[derive(Debug, PartialEq)]
enum Parsed {
  Same,
  Different(String),
  SyntaxError(String),
  Panic,
}

fn parse_and_compare(text: &str, expected: &AstNode, names: &BTreeSet<String>) -> Parsed {
  let scope = parse_scope_of(names);
  let r = std::panic::catch_unwind(std::panic::AssertUnwindSafe(|| parse_expression(&scope, text, false)));
  match r {
    Err(_) => Parsed::Panic,
    Ok(Ok(node)) => {
      if &node == expected {
        Parsed::Same
      } else {
        let s = format!("{:?}", node);
        Parsed::Different(s.chars().take(400).collect())
      }
    }
    Ok(Err(e)) => Parsed::SyntaxError(e.to_string().chars().take(200).collect()),
  }
}

/// Defect-class diagnosis: a known class is recognised by the shape of the text that fails, so that
/// a finding is identified by its cause and any other failure keeps a specific key of its own.
fn diagnose(text: &str, layout: Layout, t: &T) -> Option<&'static str> {
  // (1) `function` must be followed by `(` after white space only: a comment there is rejected
  if matches!(layout, Layout::BlockComments | Layout::LineComments | Layout::LineCommentsOtherBreaks | Layout::CommentShapes | Layout::TwoComments) && contains_function(t) {
    return Some("layout:comment-between-function-keyword-and-parenthesis");
  }
  // the every-white-space layout is diagnosed on its ordinary-space form
  let normalised: String = if matches!(layout, Layout::EveryWhiteSpace) { text.chars().map(|c| if crate::term::FEEL_WHITE_SPACE.contains(&c) { ' ' } else { c }).collect() } else { text.to_string() };
  // (4) NAME . NAME . NAME directly after `[` or `(` is taken for the start of an interval
  {
    let plain = strip_block_comments(&normalised).replace("// c ) \"\r\n", " ").replace("// c ) \"\r", " ").replace("// c ) \"\n", " ").replace("// b )\n", " ");
    let toks: Vec<&str> = plain.split_whitespace().collect();
    let compact: String = toks.join("");
    let bytes: Vec<char> = compact.chars().collect();
    let is_w = |c: char| c.is_alphanumeric() || c == '_';
    for i in 0..bytes.len() {
      if bytes[i] == '[' || bytes[i] == '(' {
        // word . word . word
        let mut j = i + 1;
        let mut segs = 0;
        loop {
          let st = j;
          while j < bytes.len() && is_w(bytes[j]) {
            j += 1;
          }
          if j == st {
            break;
          }
          segs += 1;
          if j < bytes.len() && bytes[j] == '.' && !(j + 1 < bytes.len() && bytes[j + 1] == '.') {
            j += 1;
          } else {
            break;
          }
        }
        if segs >= 3 {
          return Some("path:three-names-after-opening-bracket-read-as-interval-start");
        }
      }
    }
  }
  // (3) the lexer's between-mode ends at the first `and` token, even inside parentheses
  if between_with_and_in_lower_bound(t) {
    return Some("between:and-token-inside-lower-bound");
  }
  // (2) a type name after `instance of` absorbs following name-like tokens (words, + - * / . ')
  {
    let mut rest_all: &str = &normalised;
    while let Some((rest, consumed)) = after_instance_type(rest_all) {
      let r = rest.trim_start();
      if let Some(ch) = r.chars().next() {
        if ch.is_alphabetic() || matches!(ch, '+' | '-' | '*' | '/' | '.' | '\'') {
          return Some("instance-of:type-name-absorbs-following-name-tokens");
        }
      }
      rest_all = &rest_all[consumed..];
    }
  }
  // (5) true / false / null directly followed by `(` is read as a function name (with white space between, as the literal)
  if matches!(layout, Layout::Compact) && callee_is_keyword_literal(t) {
    return Some("call:keyword-literal-directly-before-parenthesis-read-as-name");
  }
  None
}

fn contains_and_token(t: &T) -> bool {
  let mut found = matches!(t, T::Bin(Op::And, _, _) | T::Between(..));
  t.for_children(&mut |c| {
    if contains_and_token(c) {
      found = true
    }
  });
  found
}

fn between_with_and_in_lower_bound(t: &T) -> bool {
  let mut found = matches!(t, T::Between(_, lo, _) if contains_and_token(lo));
  t.for_children(&mut |c| {
    if between_with_and_in_lower_bound(c) {
      found = true
    }
  });
  found
}

fn contains_function(t: &T) -> bool {
  let mut found = matches!(t, T::Func(..));
  t.for_children(&mut |c| {
    if contains_function(c) {
      found = true
    }
  });
  found
}

/// text after the first `instance of <simple type name>` and the offset just past the word `instance`
fn after_instance_type(text: &str) -> Option<(&str, usize)> {
  let idx = text.find("instance")?;
  let consumed = idx + "instance".len();
  let rest = &text[consumed..];
  let of = match rest.find("of") {
    Some(o) => o,
    None => return Some(("", consumed)),
  };
  let mut rest = rest[of + 2..].trim_start();
  // any number of block and line comments before the type
  loop {
    if let Some(r) = rest.strip_prefix("/*").and_then(|r| r.find("*/").map(|e| &r[e + 2..])) {
      rest = r.trim_start();
    } else if let Some(r) = rest.strip_prefix("//").and_then(|r| r.find(|c| c == '\n' || c == '\r').map(|e| &r[e + 1..])) {
      rest = r.trim_start();
    } else {
      break;
    }
  }
  for ty in ["number", "list<string>"] {
    if let Some(r) = rest.strip_prefix(ty) {
      return Some((r, consumed));
    }
  }
  Some(("", consumed))
}

/// the text with every block comment replaced by a blank
fn strip_block_comments(text: &str) -> String {
  let mut out = String::new();
  let mut rest = text;
  while let Some(a) = rest.find("/*") {
    out.push_str(&rest[..a]);
    match rest[a + 2..].find("*/") {
      Some(e) => {
        out.push(' ');
        rest = &rest[a + 2 + e + 2..];
      }
      None => {
        rest = "";
      }
    }
  }
  out.push_str(rest);
  out
}

fn callee_is_keyword_literal(t: &T) -> bool {
  let mut found = matches!(t, T::Call(f, _) | T::CallNamed(f, _) if matches!(**f, T::Bool(_) | T::Null));
  t.for_children(&mut |c| {
    if callee_is_keyword_literal(c) {
      found = true
    }
  });
  found
}

fn check_tree(run: &Run, label: &str, t: &T, names: &BTreeSet<String>, counters: &Counters) {
  let expected = to_ast(t);
  let layouts = [Layout::Spaced, Layout::Compact, Layout::Double, Layout::NewlinesTabs, Layout::BlockComments, Layout::LineComments, Layout::EveryWhiteSpace, Layout::LongRuns, Layout::TwoComments, Layout::CommentShapes, Layout::LineCommentsOtherBreaks];
  for mode in [Mode::Full, Mode::Minimal] {
    for layout in layouts {
      let text = render(t, mode, layout);
      counters.parses.fetch_add(1, Ordering::Relaxed);
      match parse_and_compare(&text, &expected, names) {
        Parsed::Same => {}
        other => {
          let kind = match &other {
            Parsed::Different(_) => "different-tree",
            Parsed::SyntaxError(_) => "syntax-error",
            Parsed::Panic => "panic",
            Parsed::Same => unreachable!(),
          };
          let layout_class = if matches!(layout, Layout::Spaced) { "".to_string() } else { format!("/{:?}", layout) };
          let key = match diagnose(&text, layout, t) {
            Some(k) if kind != "panic" => k.to_string(),
            _ => format!("tree:{}:{:?}{}:{}", label, mode, layout_class, kind),
          };
          run.violation(
            &key,
            &format!("`{}` ({:?} parentheses, {:?} layout) does not parse back to its tree: {:?}", text, mode, layout, other),
            json!({"engine":"c06","kind":"tree","label":label,"text":text,"mode":format!("{:?}",mode),"layout":format!("{:?}",layout),"expected":format!("{:?}",expected),"observed":format!("{:?}",other)}),
          );
        }
      }
    }
  }
  // each needed pair removed: must not give the same tree
  let needed = count_needed(t);
  for k in 0..needed {
    let text = render(t, Mode::DropNeeded(k), Layout::Spaced);
    counters.parses.fetch_add(1, Ordering::Relaxed);
    counters.needed.fetch_add(1, Ordering::Relaxed);
    match parse_and_compare(&text, &expected, names) {
      Parsed::Same => {
        run.violation(
          &format!("needed-pair:{}:{}", label, k),
          &format!("`{}` (needed pair #{} of `{}` removed) still parses to the same tree", text, k, render(t, Mode::Minimal, Layout::Spaced)),
          json!({"engine":"c06","kind":"needed-pair","label":label,"text":text,"k":k,"expected_not":format!("{:?}",expected)}),
        );
      }
      Parsed::Panic => {
        run.violation(
          &format!("needed-pair-panic:{}:{}", label, k),
          &format!("`{}` panics the parser", text),
          json!({"engine":"c06","kind":"needed-pair","label":label,"text":text,"k":k}),
        );
      }
      _ => {}
    }
  }
}

struct Counters {
  parses: AtomicU64,
  needed: AtomicU64,
}

fn lex_string(text: &str) -> Result<String, String> {
  let scope = dmntk_feel::Scope::default();
  match parse_expression(&scope, text, false) {
    Ok(AstNode::String(s)) => Ok(s),
    Ok(other) => Err(format!("{:?}", other).chars().take(100).collect()),
    Err(e) => Err(e.to_string().chars().take(160).collect()),
  }
}

pub fn run() {
  let run = Run::new("C06");
  let names = parse_names();
  let counters = Counters {
    parses: AtomicU64::new(0),
    needed: AtomicU64::new(0),
  };

  // 1. operator trees
  let mut trees = depth2_trees();
  let d2 = trees.len();
  let spines = depth3_spines(true);
  let d3 = spines.len();
  trees.extend(spines);
  let sib = sibling_pairs();
  let n_sib = sib.len();
  trees.extend(sib);
  let lt = literal_leaf_trees();
  let n_lit = lt.len();
  trees.extend(lt);
  let mut d4 = 0usize;
  if run.thorough() {
    let s4 = depth4_spines();
    d4 = s4.len();
    trees.extend(s4);
  }
  trees.par_iter().for_each(|(label, t)| check_tree(&run, label, t, &names, &counters));
  for (label, t) in trees.iter().step_by(trees.len() / 8 + 1) {
    run.sample(json!({"label": label, "minimal": render(t, Mode::Minimal, Layout::Spaced), "full": render(t, Mode::Full, Layout::Spaced)}));
  }
  let distinct_texts: BTreeSet<String> = trees.iter().map(|(_, t)| render(t, Mode::Minimal, Layout::Spaced)).collect();

  // 2. unary tests entry point
  let ut_cases: Vec<(&str, AstNode)> = vec![
    ("-", AstNode::Irrelevant),
    ("a", AstNode::ExpressionList(vec![to_ast(&nm("a"))])),
    ("1, 2", AstNode::ExpressionList(vec![to_ast(&num(1)), to_ast(&num(2))])),
    ("not(1, 2)", AstNode::NegatedList(vec![to_ast(&num(1)), to_ast(&num(2))])),
    ("not (a)", AstNode::NegatedList(vec![to_ast(&nm("a"))])),
    ("< a", AstNode::ExpressionList(vec![to_ast(&T::Unary(UOp::Lt, Box::new(nm("a"))))])),
    ("<= 1, > b, >= 2", AstNode::ExpressionList(vec![
      to_ast(&T::Unary(UOp::Le, Box::new(num(1)))),
      to_ast(&T::Unary(UOp::Gt, Box::new(nm("b")))),
      to_ast(&T::Unary(UOp::Ge, Box::new(num(2)))),
    ])),
    ("[a..b]", AstNode::ExpressionList(vec![to_ast(&T::Range(true, Box::new(nm("a")), Box::new(nm("b")), true))])),
    ("(1..2), ]a..b[", AstNode::ExpressionList(vec![
      to_ast(&T::Range(false, Box::new(num(1)), Box::new(num(2)), false)),
      to_ast(&T::Range(false, Box::new(nm("a")), Box::new(nm("b")), false)),
    ])),
    ("a + b, a * b", AstNode::ExpressionList(vec![to_ast(&bin(Op::Add, nm("a"), nm("b"))), to_ast(&bin(Op::Mul, nm("a"), nm("b")))])),
    // `not` is the negation of the tests only as their very first token; anywhere later it is the function
    ("a, not(b)", AstNode::ExpressionList(vec![to_ast(&nm("a")), to_ast(&T::Call(Box::new(nm("not")), vec![nm("b")]))])),
    ("1, not(2)", AstNode::ExpressionList(vec![to_ast(&num(1)), to_ast(&T::Call(Box::new(nm("not")), vec![num(2)]))])),
    ("a and not(b)", AstNode::ExpressionList(vec![to_ast(&bin(Op::And, nm("a"), T::Call(Box::new(nm("not")), vec![nm("b")])))])),
    ("a + b, not(a), not(b)", AstNode::ExpressionList(vec![to_ast(&bin(Op::Add, nm("a"), nm("b"))), to_ast(&T::Call(Box::new(nm("not")), vec![nm("a")])), to_ast(&T::Call(Box::new(nm("not")), vec![nm("b")]))])),
    ("not(not(a))", AstNode::NegatedList(vec![to_ast(&T::Call(Box::new(nm("not")), vec![nm("a")]))])),
    ("not(a, not(b))", AstNode::NegatedList(vec![to_ast(&nm("a")), to_ast(&T::Call(Box::new(nm("not")), vec![nm("b")]))])),
    ("[1..2], not(a)", AstNode::ExpressionList(vec![to_ast(&T::Range(true, Box::new(num(1)), Box::new(num(2)), true)), to_ast(&T::Call(Box::new(nm("not")), vec![nm("a")]))])),
  ];
  let mut ut_count = 0u64;
  for (text, expected) in &ut_cases {
    for variant in [text.to_string(), format!("  {}  ", text), text.replace(", ", " ,\n\t")] {
      ut_count += 1;
      let scope = parse_scope_of(&names);
      match parse_unary_tests(&scope, &variant, false) {
        Ok(node) if &node == expected => {}
        other => run.violation(
          &format!("unary-tests:{}", text),
          &format!("parse_unary_tests(`{}`) gives {:?}, expected {:?}", variant, other.map(|n| format!("{:?}", n)).map_err(|e| e.to_string()), expected),
          json!({"engine":"c06","kind":"unary-tests","text":variant,"expected":format!("{:?}",expected)}),
        ),
      }
    }
  }

  // 2b. the unary tests entry point over generated trees: a single test, every ordered pair of depth-1 trees as a list
  //     of two tests, and the negated list
  {
    let d2t = depth2_trees();
    let layouts = [Layout::Spaced, Layout::Compact, Layout::NewlinesTabs, Layout::BlockComments, Layout::EveryWhiteSpace, Layout::LongRuns];
    let check_ut = |key: String, text: String, expected: AstNode, t: Option<(&T, Layout)>| {
      let scope = parse_scope_of(&names);
      let r = std::panic::catch_unwind(std::panic::AssertUnwindSafe(|| parse_unary_tests(&scope, &text, false)));
      let obs = match r {
        Err(_) => "panic".to_string(),
        Ok(Ok(node)) if node == expected => return,
        Ok(Ok(node)) => format!("different tree {}", format!("{:?}", node).chars().take(300).collect::<String>()),
        Ok(Err(e)) => format!("syntax error {}", e.to_string().chars().take(160).collect::<String>()),
      };
      let key = match t.and_then(|(t, layout)| diagnose(&text, layout, t)) {
        Some(k) if obs != "panic" => k.to_string(),
        _ => key,
      };
      run.violation(&key, &format!("parse_unary_tests(`{}`): {}", text, obs), json!({"engine":"c06","kind":"unary-tests","text":text,"expected":format!("{:?}",expected)}));
    };
    let n1: u64 = d2t
      .par_iter()
      .map(|(label, t)| {
        let mut n = 0u64;
        for mode in [Mode::Full, Mode::Minimal] {
          for layout in layouts {
            n += 2;
            let text = render(t, mode, layout);
            check_ut(format!("unary-tests:single:{}:{:?}", label, layout), text.clone(), AstNode::ExpressionList(vec![to_ast(t)]), Some((t, layout)));
            check_ut(format!("unary-tests:negated:{}:{:?}", label, layout), format!("not({})", text), AstNode::NegatedList(vec![to_ast(t)]), Some((t, layout)));
          }
        }
        n
      })
      .sum();
    let d1: Vec<&(String, T)> = d2t.iter().filter(|(l, _)| !l.contains("<-")).collect();
    let mut n2 = 0u64;
    for (la, a) in &d1 {
      for (lb, b) in &d1 {
        for (sep, sn) in [(", ", "spaced"), (",", "compact"), (" ,\n", "newline")] {
          n2 += 2;
          let text = format!("{}{}{}", render(a, Mode::Minimal, Layout::Spaced), sep, render(b, Mode::Minimal, Layout::Spaced));
          check_ut(format!("unary-tests:pair:{}:{}:{}", la, lb, sn), text.clone(), AstNode::ExpressionList(vec![to_ast(a), to_ast(b)]), None);
          check_ut(format!("unary-tests:negated-pair:{}:{}:{}", la, lb, sn), format!("not({})", text), AstNode::NegatedList(vec![to_ast(a), to_ast(b)]), None);
        }
      }
    }
    ut_count += n1 + n2;
  }

  // 3. literal spellings: every escape form of every code point
  let simple: Vec<(&str, &str)> = vec![
    (r#""""#, ""),
    (r#""a""#, "a"),
    (r#""\"""#, "\""),
    (r#""\\""#, "\\"),
    (r#""\'""#, "'"),
    (r#""\n""#, "\n"),
    (r#""\r""#, "\r"),
    (r#""\t""#, "\t"),
    (r#""a\tb\nc""#, "a\tb\nc"),
    (r#""é日本🐎""#, "é日本🐎"),
    (r#""\u0041\U000042""#, "AB"),
  ];
  let mut lit_count = 0u64;
  for (text, expected) in &simple {
    lit_count += 1;
    match lex_string(text) {
      Ok(s) if s == *expected => {}
      other => run.violation(
        &format!("string-literal:{}", text),
        &format!("string literal {} reads as {:?}, expected {:?}", text, other, expected),
        json!({"engine":"c06","kind":"string-literal","text":text,"expected":expected}),
      ),
    }
  }
  // \uXXXX for every BMP scalar value, \UXXXXXX for every scalar value
  let esc_bad: Vec<(u32, String, String)> = (0u32..=0x10FFFF)
    .into_par_iter()
    .flat_map_iter(|cp| {
      let mut bad = vec![];
      if let Some(ch) = char::from_u32(cp) {
        let mut forms = vec![format!("\"\\U{:06X}\"", cp), format!("\"\\U{:06x}\"", cp)];
        if cp <= 0xFFFF {
          forms.push(format!("\"\\u{:04X}\"", cp));
          forms.push(format!("\"x\\u{:04x}y\"", cp));
        }
        for f in forms {
          let want = if f.starts_with("\"x") { format!("x{}y", ch) } else { ch.to_string() };
          match lex_string(&f) {
            Ok(s) if s == want => {}
            other => bad.push((cp, f.clone(), format!("{:?}", other))),
          }
        }
      }
      bad
    })
    .collect();
  lit_count += 0x110000 * 2 + 0x10000 * 2 - 2048 * 4;
  // group by form kind and plane to keep keys few but specific
  for (cp, form, got) in esc_bad.iter() {
    let kind = if form.contains("\\U") { "U6" } else { "u4" };
    run.violation(
      &format!("escape:{}:block-{:04X}", kind, cp >> 8),
      &format!("escape {} (U+{:04X}) reads as {}", form, cp, got),
      json!({"engine":"c06","kind":"escape","text":form,"code_point":cp}),
    );
  }
  // every surrogate pair
  let sur_bad: Vec<(u32, u32, String)> = (0xD800u32..=0xDBFF)
    .into_par_iter()
    .flat_map_iter(|hi| {
      let mut bad = vec![];
      for lo in 0xDC00u32..=0xDFFF {
        let cp = 0x10000 + ((hi - 0xD800) << 10) + (lo - 0xDC00);
        let ch = char::from_u32(cp).unwrap();
        let f = format!("\"\\u{:04X}\\u{:04X}\"", hi, lo);
        match lex_string(&f) {
          Ok(s) if s == ch.to_string() => {}
          other => bad.push((hi, lo, format!("{:?}", other))),
        }
      }
      bad
    })
    .collect();
  lit_count += 1024 * 1024;
  if !sur_bad.is_empty() {
    // one defect class: describe by the bit pattern of the failing low surrogates
    let all_bit6 = sur_bad.iter().all(|(_, lo, _)| lo & 0x40 != 0);
    let key = if all_bit6 && sur_bad.len() == 1024 * 512 { "surrogate-pair:low-surrogate-bit-6".to_string() } else { format!("surrogate-pair:other:{}", sur_bad.len()) };
    let (hi, lo, got) = &sur_bad[0];
    run.violation(
      &key,
      &format!("{} of 1048576 surrogate pairs do not read as their code point, e.g. \\u{:04X}\\u{:04X} reads as {}", sur_bad.len(), hi, lo, got),
      json!({"engine":"c06","kind":"surrogate","text":format!("\"\\u{:04X}\\u{:04X}\"", hi, lo),"failing":sur_bad.len()}),
    );
  }
  // lone / reversed surrogates must be rejected, not mis-read
  for f in ["\"\\uD800\"", "\"\\uDC00\"", "\"\\uDC00\\uD800\"", "\"\\uD800\\u0041\"", "\"\\U110000\"", "\"\\uD83D\""] {
    lit_count += 1;
    if let Ok(s) = lex_string(f) {
      run.violation(
        &format!("surrogate-accepted:{}", f),
        &format!("ill-formed escape {} is accepted as {:?}", f, s),
        json!({"engine":"c06","kind":"escape","text":f}),
      );
    }
  }
  // numerals
  let numerals: Vec<(&str, (&str, &str))> = vec![("1", ("1", "")), ("1.5", ("1", "5")), (".5", ("0", "5")), ("0.50", ("0", "50")), ("007", ("007", "")), ("12345678901234567890.0123456789", ("12345678901234567890", "0123456789"))];
  for (text, (a, b)) in &numerals {
    lit_count += 1;
    let scope = dmntk_feel::Scope::default();
    match parse_expression(&scope, text, false) {
      Ok(AstNode::Numeric(x, y)) if x == *a && y == *b => {}
      other => run.violation(
        &format!("numeral:{}", text),
        &format!("numeral {} reads as {:?}", text, other.map(|n| format!("{:?}", n)).map_err(|e| e.to_string())),
        json!({"engine":"c06","kind":"numeral","text":text}),
      ),
    }
  }

  // every numeral spelling over the digits 0, 1, 9: integer part of 0..3 digits, fraction of 0..3 digits
  {
    let digs = ['0', '1', '9'];
    let mut parts = vec![String::new()];
    for len in 1..=3 {
      let mut cur = vec![String::new()];
      for _ in 0..len {
        cur = cur.iter().flat_map(|p| digs.iter().map(move |d| format!("{}{}", p, d))).collect();
      }
      parts.extend(cur);
    }
    for a in &parts {
      for b in &parts {
        if a.is_empty() && b.is_empty() {
          continue;
        }
        let text = if b.is_empty() { a.clone() } else { format!("{}.{}", a, b) };
        lit_count += 1;
        let scope = dmntk_feel::Scope::default();
        let want_a = if a.is_empty() { "0".to_string() } else { a.clone() };
        match parse_expression(&scope, &text, false) {
          Ok(AstNode::Numeric(x, y)) if x == want_a && y == *b => {}
          other => run.violation(
            &format!("numeral:{}", text),
            &format!("numeral {} reads as {:?}", text, other.map(|n| format!("{:?}", n)).map_err(|e| e.to_string())),
            json!({"engine":"c06","kind":"numeral","text":text}),
          ),
        }
      }
    }
  }

  // numeric literals written with a sign as end points of comparisons and intervals (FEEL's numeric literal has an optional
  // sign; `< -1`, `[-10..10]` are everyday input entries): the text must parse, as an expression and as unary tests
  let mut signed_endpoint_cases = 0u64;
  {
    let scope = parse_scope_of(&parse_names());
    let forms: Vec<(&str, Vec<&str>)> = vec![
      ("comparison", vec!["< -1", "<= -1", "> -1", ">= -1.5", "< -1, > 1", "not(< -1)"]),
      ("interval", vec!["[-1..1]", "(-1..1)", "]-1..1[", "[-10..-5]", "[1..-1]", "(-1.5..2]", "[-1..1], [5..6]", "not([-1..1])"]),
    ];
    for (form, texts) in &forms {
      for text in texts {
        for (path, as_unary) in [("unary-tests", true), ("expression", false)] {
          signed_endpoint_cases += 1;
          let full = if as_unary { text.to_string() } else { format!("a in ({})", text) };
          let res = if as_unary { parse_unary_tests(&scope, &full, false).map(|_| ()) } else { parse_expression(&scope, &full, false).map(|_| ()) };
          if let Err(e) = res {
            run.violation(
              &format!("end-point:numeric-literal-with-a-sign:{}:{}", form, path),
              &format!("`{}` does not parse ({}): a numeric literal with a sign is not accepted as the end point of a {}", full, e.to_string().chars().take(60).collect::<String>(), form),
              json!({"engine":"c06","kind":"must-parse","text":full,"unary":as_unary}),
            );
          }
        }
      }
    }
  }
  run.set("signed_endpoint_cases", json!(signed_endpoint_cases));

  let parses = counters.parses.load(Ordering::Relaxed);
  run.set("states", json!(trees.len() as u64 + lit_count + ut_count));
  run.set("transitions", json!(parses + lit_count + ut_count));
  run.set("traces_validated_against_impl", json!(parses + lit_count + ut_count));
  run.set("evaluations", json!(parses + lit_count + ut_count));
  run.set("distinct_nontrivial", json!(distinct_texts.len()));
  run.set("rule", json!("distinct minimal renderings of trees with at least one operator (depth-2: every constructor in every slot of every constructor; depth-3: every ordered triple along every slot of the outer and the middle constructor; sibling pairs: two slots of one constructor filled by every ordered pair; thorough adds depth-4 spines along the first / last slot); each is parsed in 2 parenthesisations x 10 layouts plus one text per needed parenthesis pair"));
  run.set("exhaustive", json!(true));
  run.set("depth2_trees", json!(d2));
  run.set("depth3_spines", json!(d3));
  run.set("sibling_pairs", json!(n_sib));
  run.set("depth4_spines", json!(d4));
  run.set("literal_leaf_trees", json!(n_lit));
  run.set("needed_pair_removals", json!(counters.needed.load(Ordering::Relaxed)));
  run.set("string_literal_cases", json!(lit_count));
  run.set("unary_tests_cases", json!(ut_count));
  run.set("constructors", json!(constructors().iter().map(|c| c.name).collect::<Vec<_>>()));
  run.assume("the precedence table in term.rs is the grammar's at the pinned commit (transcribed, calibrated by this very run)");
  run.assume("trees deeper than 3 and names outside the bound single-word set are outside the bound (C10 covers names)");
  run.finish();
}

pub fn replay_case(case: &serde_json::Value) -> String {
  let txt = case.get("text").and_then(|t| t.as_str()).unwrap_or("");
  let scope = parse_scope_of(&parse_names());
  if case.get("kind").and_then(|k| k.as_str()) == Some("must-parse") {
    let res = if case.get("unary").and_then(|u| u.as_bool()).unwrap_or(false) { parse_unary_tests(&scope, txt, false).map(|n| format!("{:?}", n)) } else { parse_expression(&scope, txt, false).map(|n| format!("{:?}", n)) };
    return match res {
      Ok(n) => format!("PASS `{}` parses to {}", txt, n),
      Err(e) => format!("FAIL `{}` does not parse: {}", txt, e),
    };
  }
  let got = match parse_expression(&scope, txt, false) {
    Ok(n) => format!("{:?}", n),
    Err(e) => format!("error: {}", e),
  };
  match case.get("expected").and_then(|e| e.as_str()) {
    Some(exp) if exp == got => format!("PASS `{}` parses to {}", txt, got),
    Some(exp) => format!("FAIL `{}` parses to {} but the tree it was rendered from is {}", txt, got, exp),
    None => match case.get("expected_not").and_then(|e| e.as_str()) {
      Some(exp) if exp == got => format!("FAIL `{}` still parses to {}", txt, got),
      _ => format!("OBSERVED `{}` parses to {}", txt, got),
    },
  }
}
