//! C13 — evaluation is pure: the caller's context is untouched and results are repeatable.

use crate::dmn;
use crate::gen_core::*;
use crate::report::Run;
use crate::rval::*;
use crate::term::*;
use dmntk_feel::context::FeelContext;
use dmntk_feel::values::Value;
use dmntk_feel::{Evaluator, Name, Scope};
use dmntk_feel_evaluator::{evaluate, prepare};
use dmntk_feel_parser::parse_expression;
use dmntk_model_evaluator::ModelEvaluator;
use rayon::prelude::*;
use serde_json::json;
use std::collections::BTreeSet;
use std::sync::atomic::{AtomicU64, Ordering};
use std::sync::Arc;

fn ctx_of(bindings: &[(String, RVal)]) -> FeelContext {
  let mut c = FeelContext::default();
  for (k, v) in bindings {
    if let Some(val) = v.to_value() {
      c.set_entry(&Name::from(k.as_str()), val);
    }
  }
  c
}

/// Scope shapes: depth 1..3, top context empty / non-empty.
pub fn scope_shape(shape: usize, bindings: &[(String, RVal)]) -> Scope {
  match shape {
    0 => Scope::from(ctx_of(bindings)),
    1 => {
      let s = Scope::from(ctx_of(bindings));
      s.push(FeelContext::default());
      s
    }
    _ => {
      let mut bottom = FeelContext::default();
      bottom.set_entry(&Name::from("unrelated"), Value::Boolean(false));
      let s = Scope::from(bottom);
      s.push(ctx_of(bindings));
      let mut top = FeelContext::default();
      top.set_entry(&Name::from("w"), Value::String("top".into()));
      s.push(top);
      s
    }
  }
}

struct Counters {
  terms: AtomicU64,
  evals: AtomicU64,
  checks: AtomicU64,
}

fn integrity_term(run: &Run, label: &str, t: &T, names: &BTreeSet<String>, vals: &[RVal], c: &Counters) {
  c.terms.fetch_add(1, Ordering::Relaxed);
  let txt = text(t);
  // parsing scope: every shape
  let mut node = None;
  for shape in 0..3 {
    let decl: Vec<(String, RVal)> = names.iter().map(|n| (n.clone(), RVal::Null)).collect();
    let pscope = scope_shape(shape, &decl);
    let before = pscope.to_string();
    match parse_expression(&pscope, &txt, false) {
      Ok(n) => {
        c.checks.fetch_add(1, Ordering::Relaxed);
        if pscope.to_string() != before {
          run.violation(
            &format!("parse-scope-changed:{}", crate::engines::c01::node_name(t)),
            &format!("a successful parse of `{}` left the parsing scope as {} (was {})", txt, pscope, before),
            json!({"engine":"c13","kind":"parse-scope","text":txt,"label":label,"shape":shape}),
          );
        }
        node = Some(n);
      }
      Err(_) => return, // not parseable (C06 findings): nothing to evaluate
    }
  }
  let node = node.unwrap();
  let ev = match prepare(&node) {
    Ok(e) => e,
    Err(_) => return,
  };
  let (hx, hy) = free_names(t);
  let mut bsets: Vec<Vec<(String, RVal)>> = vec![];
  if !hx && !hy {
    bsets.push(vec![]);
  } else {
    for v in vals {
      let mut b = vec![];
      if hx {
        b.push(("x".to_string(), v.clone()));
      }
      if hy {
        b.push(("y".to_string(), v.clone()));
      }
      bsets.push(b);
    }
  }
  for b in &bsets {
    for shape in 0..3 {
      let scope = scope_shape(shape, b);
      let before = scope.to_string();
      let v1 = ev(&scope);
      let mid = scope.to_string();
      let v2 = ev(&scope);
      let after = scope.to_string();
      let v3 = evaluate(&scope, &node).ok();
      let after3 = scope.to_string();
      c.evals.fetch_add(3, Ordering::Relaxed);
      c.checks.fetch_add(4, Ordering::Relaxed);
      if mid != before || after != before || after3 != before {
        run.violation(
          &format!("scope-changed:{}", crate::engines::c01::node_name(t)),
          &format!("evaluating `{}` changed the caller's scope: before {} after {} / {} / {}", txt, before, mid, after, after3),
          json!({"engine":"c13","kind":"scope","text":txt,"label":label,"shape":shape,"bindings":crate::engines::c01::bindings_json(b)}),
        );
      }
      let s1 = v1.to_string();
      if s1 != v2.to_string() || v3.map(|v| v.to_string() != s1).unwrap_or(true) {
        run.violation(
          &format!("not-repeatable:{}", crate::engines::c01::node_name(t)),
          &format!("`{}` gives different values on repeated evaluation in the same scope: {} then {}", txt, show_value(&v1), show_value(&v2)),
          json!({"engine":"c13","kind":"repeat","text":txt,"label":label,"shape":shape,"bindings":crate::engines::c01::bindings_json(b)}),
        );
      }
    }
  }
}

// ------------------------------------------------------------------------------------------------
// (b) histories
// ------------------------------------------------------------------------------------------------

const HISTORY_EXPRESSIONS: &[&str] = &[
  "{a: x, b: a}",
  "{}",
  "[{a: 1}, {a: 2}][a > x]",
  "[1, 2, 3][item > x]",
  "[{item: 1, a: 1}, {item: 2, a: 2}][item >= x]",
  "for i in [1, 2] return i + x",
  "for i in [1, 2], j in [x, 3] return [i, j]",
  "for i in 1..2 return for j in [i] return j + x",
  "some i in [1, 2] satisfies i = x",
  "every i in [1, 2], j in [x] satisfies i >= j",
  "(function(p) p + x)(1)",
  "{f: function(p) [p, x], r: f(2)}.r",
  "{a: {b: x}}.a.b",
  "if x = 1 then {a: 1} else [x]",
  "x in (1, [2..3])",
  // a key written twice (the later entry wins): as the first and only key so far, after another key, in an iteration body
  "{a: 1, a: x}",
  "{a: x, a: a + 1, b: a}",
  "{b: 1, a: x, a: a + b}",
  "for i in [1, 2] return {k: i, k: k + x}",
  // evaluations that could leave something behind in the thread or the process (a resolved zone offset, a compiled pattern,
  // the status of a conversion): the same text with other arguments follows or precedes them in the histories
  "date and time(\"2021-03-28T01:30:00@Europe/Warsaw\").time offset",
  "[date and time(\"2021-03-28T12:00:00@Europe/Warsaw\").time offset, date and time(\"2021-03-28T12:00:00@Europe/Warsaw\") - date and time(\"2021-03-28T00:00:00Z\")]",
  "matches(\"ABC\", \"^abc$\")",
  "matches(\"ABC\", \"^abc$\", \"i\")",
  "[number(\"12,5\", null, null), number(string(x), \" \", \".\")]",
  "number(\"12.5\", \" \", \".\") + 0.05",
];

/// `vh c13op <n>`: the value of history operation n on fresh objects, printed (used for the pristine values)
pub fn print_history_operation(op: usize) {
  let n_s = 3;
  let scopes = history_scopes();
  let evs = history_evaluators();
  let (e, s) = (op / n_s, op % n_s);
  let v = if e < evs.len() {
    evs[e](&scopes[s])
  } else {
    let tscope = table_scope(s);
    match table_evaluator(&tscope) {
      Some(te) => te(&tscope),
      None => Value::Null(Some("table evaluator could not be built".into())),
    }
  };
  println!("{}", v);
}

fn history_scopes() -> Vec<Scope> {
  vec![
    scope_shape(0, &[("x".to_string(), RVal::int(1))]),
    scope_shape(1, &[("x".to_string(), RVal::int(2))]),
    scope_shape(2, &[("x".to_string(), RVal::s("a"))]),
  ]
}

fn history_evaluators() -> Vec<Evaluator> {
  let names: BTreeSet<String> = all_names();
  HISTORY_EXPRESSIONS
    .iter()
    .map(|e| {
      let ps = parse_scope_of(&names);
      let node = parse_expression(&ps, e, false).unwrap_or_else(|err| panic!("history expression `{}` does not parse: {}", e, err));
      prepare(&node).unwrap()
    })
    .collect()
}

/// The decision-table evaluator built against a caller-supplied scope.
fn table_evaluator(scope: &Scope) -> Option<Evaluator> {
  let text = r#"
  ┌───┬────────────┬───────╥──────┐
  │ U │  Customer  │ Order ║      │
  ╞═══╪════════════╪═══════╬══════╡
  │ 1 │ "Business" │  <10  ║ 0.10 │
  ├───┼────────────┼───────╫──────┤
  │ 2 │ "Business" │ >=10  ║ 0.15 │
  ├───┼────────────┼───────╫──────┤
  │ 3 │ "Private"  │   -   ║ 0.05 │
  └───┴────────────┴───────╨──────┘
"#;
  let table = dmntk_recognizer::build(text).ok()?;
  dmntk_model_evaluator::build_decision_table_evaluator(scope, &table).ok()
}

pub fn history_model() -> dmn::Model {
  let mut m = dmn::Model::new("https://verif/c13", "c13");
  m.inputs.push(dmn::Input { name: "X".into(), type_ref: "number".into() });
  m.inputs.push(dmn::Input { name: "Y".into(), type_ref: "string".into() });
  m.bkms.push(dmn::Bkm {
    name: "Scale".into(),
    type_ref: None,
    params: vec![("n".into(), Some("number".into()))],
    knowledge: vec![],
    logic: dmn::Expr::Context(vec![
      (Some("twice".into()), None, dmn::Expr::lit("n * 2")),
      (None, None, dmn::Expr::lit("twice + 1")),
    ]),
  });
  m.decisions.push(dmn::Decision {
    name: "D1".into(),
    type_ref: Some("number".into()),
    requires: dmn::Requires { inputs: vec!["X".into()], ..Default::default() },
    logic: Some(dmn::Expr::lit("X * 2")),
  });
  m.decisions.push(dmn::Decision {
    name: "D2".into(),
    type_ref: None,
    requires: dmn::Requires { inputs: vec!["X".into(), "Y".into()], decisions: vec!["D1".into()], knowledge: vec!["Scale".into()] },
    logic: Some(dmn::Expr::Context(vec![
      (Some("a".into()), None, dmn::Expr::lit("X")),
      (Some("b".into()), None, dmn::Expr::lit("for i in [a, D1] return Scale(i)")),
      (Some("c".into()), None, dmn::Expr::Invocation("Scale".into(), vec![("n".into(), dmn::Expr::lit("a + 1"))])),
      (None, None, dmn::Expr::lit("{a: a, b: b, c: c, y: Y}")),
    ])),
  });
  m.decisions.push(dmn::Decision {
    name: "D3".into(),
    type_ref: Some("string".into()),
    requires: dmn::Requires { decisions: vec!["D1".into()], ..Default::default() },
    logic: Some(dmn::Expr::Table(dmn::Table {
      hit_policy: "FIRST".into(),
      aggregation: None,
      output_label: None,
      inputs: vec![dmn::TableInput { expr: "D1".into(), type_ref: None, values: None }],
      // no rule for values above 10: the default output entry, an expression over the required decision, answers
      outputs: vec![dmn::TableOutput { name: None, type_ref: None, values: None, default: Some("\"high \" + string(D1)".into()) }],
      rules: vec![
        dmn::TableRule { inputs: vec!["< 3".into()], outputs: vec!["\"low\"".into()] },
        dmn::TableRule { inputs: vec!["[3..10]".into()], outputs: vec!["\"mid\"".into()] },
      ],
    })),
  });
  m.services.push(dmn::Service {
    name: "S".into(),
    type_ref: None,
    output_decisions: vec!["D3".into()],
    encapsulated_decisions: vec![],
    input_decisions: vec!["D1".into()],
    input_data: vec![],
  });
  m
}

fn model_inputs() -> Vec<FeelContext> {
  let mk = |pairs: Vec<(&str, Value)>| {
    let mut c = FeelContext::default();
    for (k, v) in pairs {
      c.set_entry(&Name::from(k), v);
    }
    c
  };
  let n = |i: i128| Value::Number(dmntk_feel::FeelNumber::from_i128(i));
  vec![
    mk(vec![("X", n(1)), ("Y", Value::String("y".into()))]),
    mk(vec![("X", n(7)), ("Y", Value::String("".into())), ("D1", n(100))]),
    mk(vec![("Y", Value::Null(None)), ("noise", n(3))]),
    mk(vec![("X", n(50)), ("Y", Value::String("z".into()))]),
  ]
}

const MODEL_INVOCABLES: &[&str] = &["D1", "D2", "D3", "Scale", "S"];

/// (d) Every kind of boxed body as the logic of a knowledge model, taken out of the model as a function value (through a
/// decision that returns it) and invoked in a scope of the caller's own: the scope text is the same before and after, the
/// caller's names that are spelled like the parameter and like the body's entries keep their values, results repeat.
pub fn function_value_model() -> dmn::Model {
  let mut m = dmn::Model::new("https://verif/c13d", "c13d");
  let p = || vec![("n".to_string(), Some("number".to_string()))];
  let bodies: Vec<(&str, dmn::Expr)> = vec![
    ("F1", dmn::Expr::lit("n * 2")),
    ("F2", dmn::Expr::Context(vec![(Some("twice".into()), None, dmn::Expr::lit("n * 2")), (None, None, dmn::Expr::lit("twice + 1"))])),
    ("F3", dmn::Expr::Context(vec![(Some("twice".into()), None, dmn::Expr::lit("n * 2")), (Some("m".into()), None, dmn::Expr::lit("twice + n"))])),
    ("F4", dmn::Expr::Invocation("F2".into(), vec![("n".into(), dmn::Expr::lit("n + 1"))])),
    (
      "F5",
      dmn::Expr::Table(dmn::Table {
        hit_policy: "FIRST".into(),
        aggregation: None,
        output_label: None,
        inputs: vec![dmn::TableInput { expr: "n".into(), type_ref: None, values: None }],
        outputs: vec![dmn::TableOutput { name: None, type_ref: None, values: None, default: None }],
        rules: vec![dmn::TableRule { inputs: vec!["< 3".into()], outputs: vec!["n + 1".into()] }, dmn::TableRule { inputs: vec!["-".into()], outputs: vec!["n * 10".into()] }],
      }),
    ),
    ("F6", dmn::Expr::Context(vec![(Some("m".into()), None, dmn::Expr::lit("[n, n + 1]")), (None, None, dmn::Expr::lit("some n in m satisfies n > 100"))])),
    ("F7", dmn::Expr::Relation(vec!["twice".into(), "m".into()], vec![vec![dmn::Expr::lit("n * 2"), dmn::Expr::lit("n + 1")]])),
    ("F8", dmn::Expr::Function(vec![("m".into(), None)], Box::new(dmn::Expr::lit("n + m")))),
    (
      "F9",
      dmn::Expr::Context(vec![
        (Some("twice".into()), None, dmn::Expr::Context(vec![(Some("m".into()), None, dmn::Expr::lit("n * 2")), (None, None, dmn::Expr::lit("m + 1"))])),
        (None, None, dmn::Expr::lit("for i in [twice, n] return i * 2")),
      ]),
    ),
  ];
  // F10: a decision service taken out of the model as a function value (its parameter is its input data `n`)
  m.inputs.push(dmn::Input { name: "n".into(), type_ref: "number".into() });
  m.decisions.push(dmn::Decision { name: "Doubled".into(), type_ref: None, requires: dmn::Requires { inputs: vec!["n".into()], ..Default::default() }, logic: Some(dmn::Expr::lit("n * 2")) });
  m.services.push(dmn::Service { name: "F10".into(), type_ref: None, output_decisions: vec!["Doubled".into()], encapsulated_decisions: vec![], input_decisions: vec![], input_data: vec!["n".into()] });
  m.decisions.push(dmn::Decision { name: "GetF10".into(), type_ref: None, requires: dmn::Requires { knowledge: vec!["F10".into()], ..Default::default() }, logic: Some(dmn::Expr::lit("F10")) });
  for (name, logic) in bodies {
    let knowledge = match name {
      "F4" => vec!["F2".to_string()],
      _ => vec![],
    };
    m.bkms.push(dmn::Bkm { name: name.into(), type_ref: None, params: p(), knowledge, logic });
    m.decisions.push(dmn::Decision { name: format!("Get{}", name), type_ref: None, requires: dmn::Requires { knowledge: vec![name.into()], ..Default::default() }, logic: Some(dmn::Expr::lit(name)) });
  }
  m
}

/// replay of one recorded function-value case: {"xml", "function", "call"}
pub fn replay_function_value(case: &serde_json::Value) -> String {
  let xml = case.get("xml").and_then(|x| x.as_str()).unwrap_or("");
  let name = case.get("function").and_then(|x| x.as_str()).unwrap_or("");
  let call = case.get("call").and_then(|x| x.as_str()).unwrap_or("");
  let me = match dmntk_model::parse(xml).map_err(|e| e.to_string()).and_then(|d| dmntk_model_evaluator::ModelEvaluator::new(&d).map_err(|e| e.to_string())) {
    Ok(me) => me,
    Err(e) => return format!("FAIL the model does not load: {}", e),
  };
  let num = |i: i128| Value::Number(dmntk_feel::FeelNumber::from_i128(i));
  let f = me.evaluate_invocable(&format!("Get{}", name), &FeelContext::default());
  let mut ctx = FeelContext::default();
  ctx.set_entry(&Name::from("F"), f);
  ctx.set_entry(&Name::from("n"), num(100));
  ctx.set_entry(&Name::from("twice"), num(7));
  ctx.set_entry(&Name::from("m"), num(5));
  let scope: Scope = ctx.into();
  let before = scope.to_string();
  let evaluator = match dmntk_feel_parser::parse_expression(&scope, call, false).map_err(|e| e.to_string()).and_then(|n| dmntk_feel_evaluator::prepare(&n).map_err(|e| e.to_string())) {
    Ok(e) => e,
    Err(e) => return format!("MACHINERY the call does not parse: {}", e),
  };
  let first = crate::rval::show_value_full(&evaluator(&scope));
  for _ in 0..3 {
    let v = crate::rval::show_value_full(&evaluator(&scope));
    let after = scope.to_string();
    if after != before {
      return format!("FAIL `{}` leaves the caller's scope as {} but it was {}", call, after, before);
    }
    if v != first {
      return format!("FAIL `{}` gives {} and then {}", call, first, v);
    }
  }
  if call.starts_with('[') && call.ends_with(", m]") {
    let tail = if call.ends_with("twice, m]") { ", 100, 7, 5]" } else { ", 100, 5]" };
    if !first.ends_with(tail) {
      return format!("FAIL `{}` gives {}: the names read after the invocation are not the caller's", call, first);
    }
  }
  format!("PASS `{}` gives {} and leaves the scope alone", call, first)
}

fn family_function_values(run: &Run) -> (u64, u64) {
  let xml = function_value_model().to_xml();
  let me = match dmntk_model::parse(&xml).map_err(|e| e.to_string()).and_then(|d| dmntk_model_evaluator::ModelEvaluator::new(&d).map_err(|e| e.to_string())) {
    Ok(me) => me,
    Err(e) => {
      run.violation("function-values:model-does-not-load", &format!("generated well-formed model is rejected: {}", e), json!({"engine":"dmn","xml":xml,"invocable":"","ctx":[],"expected":"(model loads)"}));
      return (0, 0);
    }
  };
  let num = |i: i128| Value::Number(dmntk_feel::FeelNumber::from_i128(i));
  let mut cases = 0u64;
  let mut checks = 0u64;
  for k in 1..=10 {
    let name = format!("F{}", k);
    let f = me.evaluate_invocable(&format!("Get{}", name), &FeelContext::default());
    if !matches!(f, Value::FunctionDefinition(..)) {
      run.violation(&format!("function-values:{}:not-a-function", name), &format!("the decision returning the knowledge model {} gives {}", name, show_value(&f)), json!({"engine":"dmn","xml":xml,"invocable":format!("Get{}", name),"ctx":[],"expected":"FunctionDefinition"}));
      continue;
    }
    let calls: Vec<String> = if k == 8 {
      vec!["F(n + 1)(1)".into(), "[F(n + 1)(twice), n, twice, m]".into(), "[F(n: n + 2)(m: 1), n, m]".into()]
    } else {
      vec!["F(n + 1)".into(), "F(n: n + 2)".into(), "[F(n + 1), n, twice, m]".into(), "[n, F(n + 1), F(n + 2), n, twice, m]".into(), "for i in [1, 2] return [F(i), n, twice]".into()]
    };
    for call in calls {
      cases += 1;
      let mut ctx = FeelContext::default();
      ctx.set_entry(&Name::from("F"), f.clone());
      ctx.set_entry(&Name::from("n"), num(100));
      ctx.set_entry(&Name::from("twice"), num(7));
      ctx.set_entry(&Name::from("m"), num(5));
      let scope: Scope = ctx.into();
      let before = scope.to_string();
      let node = match dmntk_feel_parser::parse_expression(&scope, &call, false) {
        Ok(n) => n,
        Err(e) => {
          run.machinery_error(&format!("call text does not parse: {}: {}", call, e));
          continue;
        }
      };
      let evaluator = match dmntk_feel_evaluator::prepare(&node) {
        Ok(e) => e,
        Err(e) => {
          run.machinery_error(&format!("call text does not prepare: {}: {}", call, e));
          continue;
        }
      };
      let first = crate::rval::show_value_full(&evaluator(&scope));
      for round in 0..3 {
        checks += 2;
        let v = crate::rval::show_value_full(&evaluator(&scope));
        let after = scope.to_string();
        if after != before {
          run.violation(
            &format!("function-values:{}:scope-altered", name),
            &format!("invoking the knowledge model {} (as a function value) by `{}` leaves the caller's scope as {} but it was {}", name, call, after, before),
            json!({"engine":"c13","kind":"function-value","xml":xml,"function":name,"call":call}),
          );
          break;
        }
        if v != first {
          run.violation(
            &format!("function-values:{}:result-not-repeatable", name),
            &format!("`{}` with the knowledge model {} gives {} and then {} (evaluation {})", call, name, first, v, round + 2),
            json!({"engine":"c13","kind":"function-value","xml":xml,"function":name,"call":call}),
          );
          break;
        }
      }
      // the caller's own names, read after the invocation inside the same expression
      if call.starts_with('[') && call.ends_with(", m]") {
        checks += 1;
        let tail = if call.ends_with("twice, m]") { ", 100, 7, 5]" } else { ", 100, 5]" };
        if !first.ends_with(tail) {
          run.violation(
            &format!("function-values:{}:callers-names-rebound", name),
            &format!("`{}` with n = 100, twice = 7, m = 5 in the caller's scope gives {}: the names read after the invocation are not the caller's", call, first),
            json!({"engine":"c13","kind":"function-value","xml":xml,"function":name,"call":call}),
          );
        }
      }
    }
  }
  (cases, checks)
}

pub fn run() {
  let run = Run::new("C13");
  let thorough = run.thorough();
  let names = all_names();
  let c = Counters {
    terms: AtomicU64::new(0),
    evals: AtomicU64::new(0),
    checks: AtomicU64::new(0),
  };
  // (a) scope integrity over the C01 space
  let vals: Vec<RVal> = if thorough { binding_values(false) } else { binding_values(false).into_iter().take(3).chain(vec![RVal::List(vec![RVal::int(1), RVal::int(2)]), RVal::Ctx(vec![("a".into(), RVal::int(1))])]).collect() };
  let l1 = level1(&leaves_full());
  l1.par_iter().for_each(|(label, t)| integrity_term(&run, label, t, &names, &vals, &c));
  let ip = iteration_products();
  ip.par_iter().for_each(|(label, t)| integrity_term(&run, label, t, &names, &vals, &c));
  let inner = level1(&leaves_reduced(thorough));
  level2_chunks().par_iter().for_each(|(ki, slot)| {
    inner.par_chunks(64).for_each(|part| {
      level2_chunk(thorough, *ki, *slot, part, &mut |label, t| integrity_term(&run, &label, &t, &names, &vals, &c));
    });
  });
  if thorough {
    level3_spines().par_iter().for_each(|(label, t)| integrity_term(&run, label, t, &names, &vals, &c));
  }
  for (label, t) in l1.iter().step_by(l1.len() / 4 + 1) {
    run.sample(json!({"part":"scope-integrity","label":label,"text":text(t)}));
  }

  // (b) FEEL histories: every sequence of (evaluator, scope) operations up to the length bound,
  // each sequence on freshly prepared evaluators and fresh scopes; every result compared with the
  // result of the same operation on pristine objects, every scope compared with its initial text.
  let n_e = HISTORY_EXPRESSIONS.len() + 1; // + decision table evaluator
  let n_s = 3;
  let n_ops = n_e * n_s;
  let len = if thorough { 4 } else { 3 };
  // pristine results: every operation in a process of its own (`vh c13op <n>`), so that nothing an earlier evaluation left
  // behind in the thread or the process - a cache, a status - is part of the value the operation has when made alone
  let pristine: Vec<String> = {
    let exe = std::env::current_exe().expect("own executable");
    let outs: Vec<Option<String>> = (0..n_ops)
      .into_par_iter()
      .map(|op| {
        let o = std::process::Command::new(&exe).arg("c13op").arg(op.to_string()).env("TZ", "UTC").output().ok()?;
        if !o.status.success() {
          return None;
        }
        Some(String::from_utf8_lossy(&o.stdout).trim_end_matches('\n').to_string())
      })
      .collect();
    if outs.iter().any(|o| o.is_none()) {
      run.machinery_error("a pristine history operation could not be evaluated in a process of its own");
    }
    outs.into_iter().map(|o| o.unwrap_or_default()).collect()
  };
  let distinct_pristine: BTreeSet<&String> = pristine.iter().collect();
  let total_seqs: u64 = (1..=len).map(|l| (n_ops as u64).pow(l as u32)).sum();
  let hist_ops = AtomicU64::new(0);
  // enumerate sequences by their first two operations in parallel, the rest sequentially (prefix sharing is
  // deliberately not used: every sequence starts from fresh objects)
  let firsts: Vec<usize> = (0..n_ops).collect();
  firsts.par_iter().for_each(|&first| {
    let mut seq = vec![first];
    enumerate_sequences(&mut seq, len, n_ops, &mut |seq| {
      let scopes = history_scopes();
      let tscopes: Vec<Scope> = (0..n_s).map(table_scope).collect();
      let initial: Vec<String> = scopes.iter().map(|s| s.to_string()).collect();
      let tinitial: Vec<String> = tscopes.iter().map(|s| s.to_string()).collect();
      let evs = history_evaluators();
      let tevs: Vec<Option<Evaluator>> = tscopes.iter().map(table_evaluator).collect();
      for (step, &op) in seq.iter().enumerate() {
        let (e, s) = (op / n_s, op % n_s);
        let v = if e < evs.len() {
          evs[e](&scopes[s])
        } else {
          match &tevs[s] {
            Some(te) => te(&tscopes[s]),
            None => Value::Null(Some("table evaluator could not be built".into())),
          }
        };
        hist_ops.fetch_add(1, Ordering::Relaxed);
        if v.to_string() != pristine[op] {
          run.violation(
            &format!("history-result:{}", op_name(op, n_s)),
            &format!("after the operations {:?} the operation {} returns {} instead of {}", seq[..step].iter().map(|o| op_name(*o, n_s)).collect::<Vec<_>>(), op_name(op, n_s), show_value(&v), pristine[op]),
            json!({"engine":"c13","kind":"history","sequence":seq.iter().map(|o| op_name(*o, n_s)).collect::<Vec<_>>(),"step":step}),
          );
        }
        for (i, sc) in scopes.iter().enumerate() {
          if sc.to_string() != initial[i] {
            run.violation(
              &format!("history-scope:{}", op_name(op, n_s)),
              &format!("after the operations {:?} scope #{} reads {} instead of {}", seq[..=step].iter().map(|o| op_name(*o, n_s)).collect::<Vec<_>>(), i, sc, initial[i]),
              json!({"engine":"c13","kind":"history","sequence":seq.iter().map(|o| op_name(*o, n_s)).collect::<Vec<_>>(),"step":step}),
            );
          }
        }
        for (i, sc) in tscopes.iter().enumerate() {
          if sc.to_string() != tinitial[i] {
            run.violation(
              &format!("history-scope:{}", op_name(op, n_s)),
              &format!("after the operations {:?} table scope #{} reads {} instead of {}", seq[..=step].iter().map(|o| op_name(*o, n_s)).collect::<Vec<_>>(), i, sc, tinitial[i]),
              json!({"engine":"c13","kind":"history","sequence":seq.iter().map(|o| op_name(*o, n_s)).collect::<Vec<_>>(),"step":step}),
            );
          }
        }
      }
    });
  });
  run.sample(json!({"part":"feel-history","sequence":[op_name(3, n_s), op_name(17, n_s), op_name(44 % n_ops, n_s)]}));

  // (c) model histories: every sequence of evaluate_invocable(name, input) on one shared evaluator
  let xml = history_model().to_xml();
  let defs = match dmntk_model::parse(&xml) {
    Ok(d) => d,
    Err(e) => {
      run.machinery_error(&format!("history model does not parse: {}", e));
      run.finish();
    }
  };
  if let Err(e) = ModelEvaluator::new(&defs) {
    run.machinery_error(&format!("history model does not build: {}", e));
    run.finish();
  }
  let inputs = model_inputs();
  let m_ops = MODEL_INVOCABLES.len() * inputs.len();
  let mlen = if thorough { 4 } else { 3 };
  let m_pristine: Vec<String> = (0..m_ops)
    .map(|op| {
      let me = ModelEvaluator::new(&defs).unwrap();
      me.evaluate_invocable(MODEL_INVOCABLES[op / inputs.len()], &inputs[op % inputs.len()]).to_string()
    })
    .collect();
  let m_distinct: BTreeSet<&String> = m_pristine.iter().collect();
  let m_total: u64 = (1..=mlen).map(|l| (m_ops as u64).pow(l as u32)).sum();
  let m_hist_ops = AtomicU64::new(0);
  let input_texts: Vec<String> = inputs.iter().map(|i| i.to_string()).collect();
  (0..m_ops).collect::<Vec<_>>().par_iter().for_each(|&first| {
    let mut seq = vec![first];
    enumerate_sequences(&mut seq, mlen, m_ops, &mut |seq| {
      let me: Arc<ModelEvaluator> = ModelEvaluator::new(&defs).unwrap();
      let my_inputs = model_inputs();
      for (step, &op) in seq.iter().enumerate() {
        let name = MODEL_INVOCABLES[op / my_inputs.len()];
        let v = me.evaluate_invocable(name, &my_inputs[op % my_inputs.len()]);
        m_hist_ops.fetch_add(1, Ordering::Relaxed);
        let opn = |o: usize| format!("{}(input#{})", MODEL_INVOCABLES[o / my_inputs.len()], o % my_inputs.len());
        if v.to_string() != m_pristine[op] {
          run.violation(
            &format!("model-history-result:{}", name),
            &format!("after {:?} evaluate_invocable {} returns {} instead of {}", seq[..step].iter().map(|o| opn(*o)).collect::<Vec<_>>(), opn(op), show_value(&v), m_pristine[op]),
            json!({"engine":"c13","kind":"model-history","sequence":seq.iter().map(|o| opn(*o)).collect::<Vec<_>>(),"step":step}),
          );
        }
        for (i, ic) in my_inputs.iter().enumerate() {
          if ic.to_string() != input_texts[i] {
            run.violation(
              &format!("model-history-input:{}", name),
              &format!("after {:?} the caller's input context #{} reads {} instead of {}", seq[..=step].iter().map(|o| opn(*o)).collect::<Vec<_>>(), i, ic, input_texts[i]),
              json!({"engine":"c13","kind":"model-history","sequence":seq.iter().map(|o| opn(*o)).collect::<Vec<_>>(),"step":step}),
            );
          }
        }
      }
    });
  });
  run.sample(json!({"part":"model-history","sequence":["D2(input#0)","S(input#1)","D2(input#0)"], "pristine_results": m_pristine.iter().take(6).collect::<Vec<_>>()}));

  let terms = c.terms.load(Ordering::Relaxed);
  let (fv_cases, fv_checks) = family_function_values(&run);
  run.set("function_value_cases", json!(fv_cases));
  run.set("function_value_checks", json!(fv_checks));
  run.set("states", json!(terms + total_seqs + m_total + fv_cases));
  run.set("transitions", json!(c.evals.load(Ordering::Relaxed) + hist_ops.load(Ordering::Relaxed) + m_hist_ops.load(Ordering::Relaxed)));
  run.set("traces_validated_against_impl", json!(total_seqs + m_total));
  run.set("evaluations", json!(c.evals.load(Ordering::Relaxed) + hist_ops.load(Ordering::Relaxed) + m_hist_ops.load(Ordering::Relaxed)));
  run.set("distinct_nontrivial", json!(terms + total_seqs + m_total));
  run.set("rule", json!("(a) every expression of the C01 space x 3 scope shapes x bindings: scope text compared before/after parse, prepare and three evaluations; (b) every sequence of (prepared evaluator, scope) operations up to the length bound on fresh objects; (c) every sequence of evaluate_invocable(name, input) up to the length bound on one fresh shared ModelEvaluator; (d) knowledge models of every boxed body kind taken out of the model as function values and invoked in a scope of the caller's whose names are spelled like the parameter and the body's entries; all sequences are distinct by construction"));
  run.set("exhaustive", json!(true));
  run.set("scope_integrity_terms", json!(terms));
  run.set("scope_integrity_checks", json!(c.checks.load(Ordering::Relaxed)));
  run.set("feel_history_operations_alphabet", json!(n_ops));
  run.set("feel_history_max_length", json!(len));
  run.set("feel_history_sequences", json!(total_seqs));
  run.set("feel_history_distinct_pristine_results", json!(distinct_pristine.len()));
  run.set("model_history_operations_alphabet", json!(m_ops));
  run.set("model_history_max_length", json!(mlen));
  run.set("model_history_sequences", json!(m_total));
  run.set("model_history_distinct_pristine_results", json!(m_distinct.len()));
  run.outcomes_bulk(pristine.iter().cloned().chain(m_pristine.iter().cloned()));
  run.assume("the textual rendering of Scope / FeelContext shows every context and entry (it is the observation the property names)");
  run.assume("hidden state is only observable through results: every operation's result is compared with the same operation on pristine objects");
  run.finish();
}

fn table_scope(s: usize) -> Scope {
  let n = |i: i128| RVal::int(i as i64);
  match s {
    0 => scope_shape(0, &[("Customer".to_string(), RVal::s("Business")), ("Order".to_string(), n(-3))]),
    1 => scope_shape(1, &[("Customer".to_string(), RVal::s("Private")), ("Order".to_string(), n(12))]),
    _ => scope_shape(2, &[("Customer".to_string(), RVal::Null), ("Order".to_string(), RVal::s("x"))]),
  }
}

fn op_name(op: usize, n_s: usize) -> String {
  let (e, s) = (op / n_s, op % n_s);
  if e < HISTORY_EXPRESSIONS.len() {
    format!("`{}`@scope{}", HISTORY_EXPRESSIONS[e], s)
  } else {
    format!("decision-table@tscope{}", s)
  }
}

fn enumerate_sequences(seq: &mut Vec<usize>, max_len: usize, n_ops: usize, f: &mut dyn FnMut(&[usize])) {
  f(seq);
  if seq.len() >= max_len {
    return;
  }
  for op in 0..n_ops {
    seq.push(op);
    enumerate_sequences(seq, max_len, n_ops, f);
    seq.pop();
  }
}

/// replay of one recorded FEEL history: the operation sequence on fresh scopes and freshly prepared evaluators
pub fn replay_history(case: &serde_json::Value) -> String {
  let n_e = HISTORY_EXPRESSIONS.len() + 1;
  let n_s = 3;
  let n_ops = n_e * n_s;
  let names: Vec<String> = case.get("sequence").and_then(|s| s.as_array()).map(|a| a.iter().filter_map(|x| x.as_str().map(|s| s.to_string())).collect()).unwrap_or_default();
  let mut seq = vec![];
  for n in &names {
    match (0..n_ops).find(|op| &op_name(*op, n_s) == n) {
      Some(op) => seq.push(op),
      None => return format!("MACHINERY unknown operation {}", n),
    }
  }
  let pristine_of = |op: usize| -> String {
    let scopes = history_scopes();
    let evs = history_evaluators();
    let (e, s) = (op / n_s, op % n_s);
    if e < evs.len() {
      evs[e](&scopes[s]).to_string()
    } else {
      let tscope = table_scope(s);
      match table_evaluator(&tscope) {
        Some(te) => te(&tscope).to_string(),
        None => "null".into(),
      }
    }
  };
  let scopes = history_scopes();
  let tscopes: Vec<Scope> = (0..n_s).map(table_scope).collect();
  let initial: Vec<String> = scopes.iter().map(|s| s.to_string()).collect();
  let tinitial: Vec<String> = tscopes.iter().map(|s| s.to_string()).collect();
  let evs = history_evaluators();
  let tevs: Vec<Option<Evaluator>> = tscopes.iter().map(table_evaluator).collect();
  for (step, &op) in seq.iter().enumerate() {
    let (e, s) = (op / n_s, op % n_s);
    let v = if e < evs.len() {
      evs[e](&scopes[s])
    } else {
      match &tevs[s] {
        Some(te) => te(&tscopes[s]),
        None => Value::Null(None),
      }
    };
    let want = pristine_of(op);
    if v.to_string() != want {
      return format!("FAIL after {:?} the operation {} returns {} instead of {}", &names[..step], names[step], show_value(&v), want);
    }
    for (i, sc) in scopes.iter().enumerate() {
      if sc.to_string() != initial[i] {
        return format!("FAIL after {:?} scope #{} reads {} instead of {}", &names[..=step], i, sc, initial[i]);
      }
    }
    for (i, sc) in tscopes.iter().enumerate() {
      if sc.to_string() != tinitial[i] {
        return format!("FAIL after {:?} table scope #{} reads {} instead of {}", &names[..=step], i, sc, tinitial[i]);
      }
    }
  }
  format!("PASS the history {:?} returns every result of the pristine operations and leaves the scopes as they were", names)
}
