//! Run bookkeeping shared by every engine: violations, known findings, replay files,
//! evidence files and exit codes (DESIGN.md §2.5, §2.6).

use serde_json::{json, Map, Value as J};
use std::collections::{BTreeMap, BTreeSet};
use std::io::Write;
use std::sync::Mutex;
use std::time::Instant;

/// Root of the verification tree: $VERIF_ROOT, else derived from the executable (<root>/target/<profile>/vh), else /verif.
pub fn root() -> String {
  if let Ok(r) = std::env::var("VERIF_ROOT") {
    if !r.is_empty() {
      return r;
    }
  }
  if let Ok(exe) = std::env::current_exe() {
    if let Some(r) = exe.parent().and_then(|p| p.parent()).and_then(|p| p.parent()) {
      if r.join("known_findings.json").exists() {
        return r.to_string_lossy().to_string();
      }
    }
  }
  "/verif".to_string()
}

/// One violation: `key` is the origin key (what is matched against known_findings.json),
/// `what` a one-line human description, `replay` a self-contained JSON case.
#[derive(Clone, Debug)]
pub struct Violation {
  pub key: String,
  pub what: String,
  pub replay: J,
}

pub struct Run {
  pub prop: String,
  pub tier: String,
  pub seed: i64,
  pub start: Instant,
  pub level: String,
  inner: Mutex<Inner>,
}

#[derive(Default)]
struct Inner {
  violations: BTreeMap<String, (Violation, u64)>,
  known_hits: BTreeMap<String, (String, u64)>,
  coverage: Map<String, J>,
  assumptions: Vec<String>,
  samples: Vec<J>,
  outcomes: BTreeSet<String>,
  machinery_errors: Vec<String>,
}

pub fn tier_from_args() -> String {
  let args: Vec<String> = std::env::args().collect();
  let mut tier = args.get(2).cloned().unwrap_or_else(|| "quick".to_string());
  if let Ok(t) = std::env::var("VERIF_TIER") {
    if t == "quick" || t == "thorough" {
      tier = t;
    }
  }
  if tier != "quick" && tier != "thorough" {
    tier = "quick".into();
  }
  tier
}

pub fn seed_from_env() -> i64 {
  std::env::var("VERIF_SEED").ok().and_then(|s| s.parse::<i64>().ok()).unwrap_or(0)
}

fn fnv(s: &str) -> u64 {
  let mut h: u64 = 0xcbf29ce484222325;
  for b in s.bytes() {
    h ^= b as u64;
    h = h.wrapping_mul(0x100000001b3);
  }
  h
}

/// Known findings file: { "findings": [ {"property": "C01", "key": "...", "what": "..."} ], "fixed": [ ... ] }
pub fn load_known(prop: &str) -> BTreeMap<String, String> {
  let mut out = BTreeMap::new();
  let path = format!("{}/known_findings.json", root());
  if let Ok(text) = std::fs::read_to_string(&path) {
    match serde_json::from_str::<J>(&text) {
      Ok(doc) => {
        if let Some(items) = doc.get("findings").and_then(|f| f.as_array()) {
          for it in items {
            if it.get("property").and_then(|p| p.as_str()) == Some(prop) {
              if let (Some(k), Some(w)) = (it.get("key").and_then(|k| k.as_str()), it.get("what").and_then(|k| k.as_str())) {
                out.insert(k.to_string(), w.to_string());
              }
            }
          }
        }
      }
      Err(e) => {
        eprintln!("MACHINERY: known_findings.json does not parse: {}", e);
        std::process::exit(2);
      }
    }
  }
  out
}

impl Run {
  pub fn new(prop: &str) -> Self {
    Run {
      prop: prop.to_string(),
      tier: tier_from_args(),
      seed: seed_from_env(),
      start: Instant::now(),
      level: "model_checking".into(),
      inner: Mutex::new(Inner::default()),
    }
  }
  pub fn thorough(&self) -> bool {
    self.tier == "thorough"
  }
  /// Records a violation (deduplicated by key; the first replay is kept, occurrences counted).
  pub fn violation(&self, key: &str, what: &str, replay: J) {
    let mut g = self.inner.lock().unwrap();
    let e = g.violations.entry(key.to_string()).or_insert_with(|| {
      (
        Violation {
          key: key.to_string(),
          what: what.to_string(),
          replay,
        },
        0,
      )
    });
    e.1 += 1;
  }
  /// Records a violation that stands for `n` occurrences (aggregated by an external oracle).
  pub fn violation_n(&self, key: &str, what: &str, replay: J, n: u64) {
    let mut g = self.inner.lock().unwrap();
    let e = g.violations.entry(key.to_string()).or_insert_with(|| {
      (
        Violation {
          key: key.to_string(),
          what: what.to_string(),
          replay,
        },
        0,
      )
    });
    e.1 += n;
  }
  /// (key, description) of the violations recorded so far (used by replay handlers that run a check on one case)
  pub fn violations_snapshot(&self) -> Vec<(String, String)> {
    self.inner.lock().unwrap().violations.values().map(|(v, _)| (v.key.clone(), v.what.clone())).collect()
  }
  pub fn machinery_error(&self, what: &str) {
    self.inner.lock().unwrap().machinery_errors.push(what.to_string());
  }
  pub fn set(&self, k: &str, v: J) {
    self.inner.lock().unwrap().coverage.insert(k.to_string(), v);
  }
  pub fn add(&self, k: &str, n: u64) {
    let mut g = self.inner.lock().unwrap();
    let cur = g.coverage.get(k).and_then(|v| v.as_u64()).unwrap_or(0);
    g.coverage.insert(k.to_string(), json!(cur + n));
  }
  pub fn assume(&self, s: &str) {
    self.inner.lock().unwrap().assumptions.push(s.to_string());
  }
  pub fn sample(&self, s: J) {
    let mut g = self.inner.lock().unwrap();
    if g.samples.len() < 24 {
      g.samples.push(s);
    }
  }
  pub fn outcome(&self, s: &str) {
    let mut g = self.inner.lock().unwrap();
    if g.outcomes.len() < 100000 {
      g.outcomes.insert(s.to_string());
    }
  }
  pub fn outcomes_bulk(&self, it: impl IntoIterator<Item = String>) {
    let mut g = self.inner.lock().unwrap();
    for s in it {
      if g.outcomes.len() < 100000 {
        g.outcomes.insert(s);
      }
    }
  }

  /// Writes evidence, prints VIOLATION / KNOWN-FINDING lines and exits.
  pub fn finish(&self) -> ! {
    let known = load_known(&self.prop);
    let mut g = self.inner.lock().unwrap();
    let mut new_violations: Vec<(Violation, u64)> = vec![];
    let mut known_hits: BTreeMap<String, (String, u64)> = std::mem::take(&mut g.known_hits);
    for (k, (v, n)) in std::mem::take(&mut g.violations) {
      if let Some(w) = known.get(&k) {
        let e = known_hits.entry(k.clone()).or_insert((w.clone(), 0));
        e.1 += n;
      } else {
        new_violations.push((v, n));
      }
    }
    let stdout = std::io::stdout();
    let mut out = stdout.lock();
    for (k, (w, n)) in &known_hits {
      let _ = writeln!(out, "KNOWN-FINDING: property={} key={} occurrences={} {}", self.prop, k, n, w);
    }
    // a listed finding that no longer shows up is reported (not an error: it may have been fixed)
    for (k, w) in &known {
      if !known_hits.contains_key(k) {
        let _ = writeln!(out, "NOTE: listed finding not observed in this run (tier {}): property={} key={} {}", self.tier, self.prop, k, w);
      }
    }
    let dir = format!("{}/replays/{}", root(), self.prop);
    // replays of earlier runs are dropped: the directory shows this run only
    let _ = std::fs::remove_dir_all(&dir);
    let mut shown = 0;
    // triage aid: all keys with occurrence counts and one description each
    if let Ok(path) = std::env::var("VERIF_KEYS_OUT") {
      let text: String = new_violations.iter().map(|(v, n)| format!("{}\t{}\t{}\n", n, v.key, v.what.replace('\n', " / "))).collect();
      let _ = std::fs::write(&path, text);
    }
    for (v, n) in &new_violations {
      if shown >= 200 {
        shown += 1;
        continue;
      }
      let _ = std::fs::create_dir_all(&dir);
      let digest = fnv(&format!("{}|{}", v.key, v.replay));
      let path = format!("{}/{:016x}.json", dir, digest);
      let doc = json!({"property": self.prop, "key": v.key, "what": v.what, "occurrences": n, "case": v.replay});
      let _ = std::fs::write(&path, serde_json::to_string_pretty(&doc).unwrap());
      let limit = std::env::var("VERIF_TRIAGE").ok().map(|v| v.parse::<usize>().unwrap_or(200).max(200)).unwrap_or(40);
      if shown < limit {
        let _ = writeln!(out, "VIOLATION property={} replay={} key={} occurrences={} {}", self.prop, path, v.key, n, v.what);
      }
      shown += 1;
    }
    if shown > 40 {
      let _ = writeln!(out, "... {} distinct violation keys in total (the first 200 replays written under {})", shown, dir);
    }
    let mut wall = self.start.elapsed().as_secs_f64();
    // multi-step checks (engine -> external oracle -> report) pass the start of the first step
    if let Some(t0) = std::env::var("VERIF_T0").ok().and_then(|s| s.parse::<f64>().ok()) {
      if let Ok(now) = std::time::SystemTime::now().duration_since(std::time::UNIX_EPOCH) {
        let w = now.as_secs_f64() - t0;
        if w > wall && w < 86400.0 {
          wall = w;
        }
      }
    }
    let mut cov = std::mem::take(&mut g.coverage);
    if !cov.contains_key("samples") {
      cov.insert("samples".into(), J::Array(g.samples.clone()));
    }
    cov.insert("distinct_observed_outcomes".into(), json!(g.outcomes.len()));
    cov.insert(
      "known_findings_observed".into(),
      J::Array(known_hits.iter().map(|(k, (_, n))| json!({"key": k, "occurrences": n})).collect()),
    );
    let ev = json!({
      "property_id": self.prop,
      "tier": self.tier,
      "seed": self.seed,
      "level": self.level,
      "coverage": J::Object(cov),
      "assumptions": g.assumptions,
      "wall_s": wall,
      "violations": new_violations.len(),
    });
    let _ = std::fs::create_dir_all(format!("{}/evidence", root()));
    let evp = format!("{}/evidence/{}.json", root(), self.prop);
    if let Err(e) = std::fs::write(&evp, serde_json::to_string_pretty(&ev).unwrap()) {
      eprintln!("MACHINERY: cannot write evidence {}: {}", evp, e);
      std::process::exit(2);
    }
    let _ = writeln!(
      out,
      "SUMMARY property={} tier={} violations={} known={} wall_s={:.1}",
      self.prop,
      self.tier,
      new_violations.len(),
      known_hits.len(),
      wall
    );
    let _ = out.flush();
    if !g.machinery_errors.is_empty() {
      for m in &g.machinery_errors {
        eprintln!("MACHINERY: {}", m);
      }
      // a violation that was shown stays a verdict when another family of the same check could not run; without one, a
      // machinery failure is never a verdict
      if new_violations.is_empty() {
        std::process::exit(2);
      }
    }
    std::process::exit(if new_violations.is_empty() { 0 } else { 1 });
  }
}
