//! Generator of DMN 1.3 XML models (only what the model parser of the code base reads).

pub fn esc(s: &str) -> String {
  s.replace('&', "&amp;").replace('<', "&lt;").replace('>', "&gt;").replace('"', "&quot;")
}

#[derive(Clone, Debug)]
pub struct TableInput {
  pub expr: String,
  pub type_ref: Option<String>,
  pub values: Option<String>,
}

#[derive(Clone, Debug)]
pub struct TableOutput {
  pub name: Option<String>,
  pub type_ref: Option<String>,
  pub values: Option<String>,
  pub default: Option<String>,
}

#[derive(Clone, Debug)]
pub struct TableRule {
  pub inputs: Vec<String>,
  pub outputs: Vec<String>,
}

#[derive(Clone, Debug)]
pub struct Table {
  /// UNIQUE ANY FIRST PRIORITY RULE ORDER / OUTPUT ORDER / COLLECT
  pub hit_policy: String,
  /// SUM MIN MAX COUNT
  pub aggregation: Option<String>,
  pub output_label: Option<String>,
  pub inputs: Vec<TableInput>,
  pub outputs: Vec<TableOutput>,
  pub rules: Vec<TableRule>,
}

#[derive(Clone, Debug)]
pub enum Expr {
  Literal(String),
  /// entries (name, typeRef, expression); an entry without name is the result expression
  Context(Vec<(Option<String>, Option<String>, Expr)>),
  /// callee text, bindings (parameter name, expression)
  Invocation(String, Vec<(String, Expr)>),
  /// columns, rows
  Relation(Vec<String>, Vec<Vec<Expr>>),
  List(Vec<Expr>),
  /// formal parameters (name, typeRef), body
  Function(Vec<(String, Option<String>)>, Box<Expr>),
  Table(Table),
}

impl Expr {
  pub fn lit(s: &str) -> Expr {
    Expr::Literal(s.to_string())
  }
  pub fn xml(&self, ind: usize, out: &mut String) {
    let pad = " ".repeat(ind);
    match self {
      Expr::Literal(t) => {
        out.push_str(&format!("{pad}<literalExpression>\n{pad}  <text>{}</text>\n{pad}</literalExpression>\n", esc(t)));
      }
      Expr::Context(entries) => {
        out.push_str(&format!("{pad}<context>\n"));
        for (name, ty, e) in entries {
          out.push_str(&format!("{pad}  <contextEntry>\n"));
          if let Some(n) = name {
            match ty {
              Some(t) => out.push_str(&format!("{pad}    <variable name=\"{}\" typeRef=\"{}\"/>\n", esc(n), esc(t))),
              None => out.push_str(&format!("{pad}    <variable name=\"{}\"/>\n", esc(n))),
            }
          }
          e.xml(ind + 4, out);
          out.push_str(&format!("{pad}  </contextEntry>\n"));
        }
        out.push_str(&format!("{pad}</context>\n"));
      }
      Expr::Invocation(callee, bindings) => {
        out.push_str(&format!("{pad}<invocation>\n"));
        Expr::Literal(callee.clone()).xml(ind + 2, out);
        for (p, e) in bindings {
          out.push_str(&format!("{pad}  <binding>\n{pad}    <parameter name=\"{}\"/>\n", esc(p)));
          e.xml(ind + 4, out);
          out.push_str(&format!("{pad}  </binding>\n"));
        }
        out.push_str(&format!("{pad}</invocation>\n"));
      }
      Expr::Relation(cols, rows) => {
        out.push_str(&format!("{pad}<relation>\n"));
        for c in cols {
          out.push_str(&format!("{pad}  <column name=\"{}\"/>\n", esc(c)));
        }
        for r in rows {
          out.push_str(&format!("{pad}  <row>\n"));
          for e in r {
            e.xml(ind + 4, out);
          }
          out.push_str(&format!("{pad}  </row>\n"));
        }
        out.push_str(&format!("{pad}</relation>\n"));
      }
      Expr::List(items) => {
        out.push_str(&format!("{pad}<list>\n"));
        for e in items {
          e.xml(ind + 2, out);
        }
        out.push_str(&format!("{pad}</list>\n"));
      }
      Expr::Function(params, body) => {
        out.push_str(&format!("{pad}<functionDefinition>\n"));
        for (p, t) in params {
          match t {
            Some(t) => out.push_str(&format!("{pad}  <formalParameter name=\"{}\" typeRef=\"{}\"/>\n", esc(p), esc(t))),
            None => out.push_str(&format!("{pad}  <formalParameter name=\"{}\"/>\n", esc(p))),
          }
        }
        body.xml(ind + 2, out);
        out.push_str(&format!("{pad}</functionDefinition>\n"));
      }
      Expr::Table(t) => t.xml(ind, out),
    }
  }
}

impl Table {
  pub fn xml(&self, ind: usize, out: &mut String) {
    let pad = " ".repeat(ind);
    let mut attrs = format!(" hitPolicy=\"{}\"", self.hit_policy);
    if let Some(a) = &self.aggregation {
      attrs.push_str(&format!(" aggregation=\"{}\"", a));
    }
    if let Some(l) = &self.output_label {
      attrs.push_str(&format!(" outputLabel=\"{}\"", esc(l)));
    }
    out.push_str(&format!("{pad}<decisionTable{}>\n", attrs));
    for i in &self.inputs {
      out.push_str(&format!("{pad}  <input>\n"));
      match &i.type_ref {
        Some(t) => out.push_str(&format!("{pad}    <inputExpression typeRef=\"{}\">\n", esc(t))),
        None => out.push_str(&format!("{pad}    <inputExpression>\n")),
      }
      out.push_str(&format!("{pad}      <text>{}</text>\n{pad}    </inputExpression>\n", esc(&i.expr)));
      if let Some(v) = &i.values {
        out.push_str(&format!("{pad}    <inputValues>\n{pad}      <text>{}</text>\n{pad}    </inputValues>\n", esc(v)));
      }
      out.push_str(&format!("{pad}  </input>\n"));
    }
    for o in &self.outputs {
      let mut a = String::new();
      if let Some(n) = &o.name {
        a.push_str(&format!(" name=\"{}\"", esc(n)));
      }
      if let Some(t) = &o.type_ref {
        a.push_str(&format!(" typeRef=\"{}\"", esc(t)));
      }
      if o.values.is_none() && o.default.is_none() {
        out.push_str(&format!("{pad}  <output{}/>\n", a));
      } else {
        out.push_str(&format!("{pad}  <output{}>\n", a));
        if let Some(v) = &o.values {
          out.push_str(&format!("{pad}    <outputValues>\n{pad}      <text>{}</text>\n{pad}    </outputValues>\n", esc(v)));
        }
        if let Some(d) = &o.default {
          out.push_str(&format!("{pad}    <defaultOutputEntry>\n{pad}      <text>{}</text>\n{pad}    </defaultOutputEntry>\n", esc(d)));
        }
        out.push_str(&format!("{pad}  </output>\n"));
      }
    }
    for r in &self.rules {
      out.push_str(&format!("{pad}  <rule>\n"));
      for e in &r.inputs {
        out.push_str(&format!("{pad}    <inputEntry>\n{pad}      <text>{}</text>\n{pad}    </inputEntry>\n", esc(e)));
      }
      for e in &r.outputs {
        out.push_str(&format!("{pad}    <outputEntry>\n{pad}      <text>{}</text>\n{pad}    </outputEntry>\n", esc(e)));
      }
      out.push_str(&format!("{pad}  </rule>\n"));
    }
    out.push_str(&format!("{pad}</decisionTable>\n"));
  }
}

#[derive(Clone, Debug)]
pub struct ItemDef {
  pub name: String,
  pub type_ref: Option<String>,
  pub allowed: Option<String>,
  pub is_collection: bool,
  pub components: Vec<ItemDef>,
}

impl ItemDef {
  pub fn simple(name: &str, ty: &str) -> ItemDef {
    ItemDef {
      name: name.into(),
      type_ref: Some(ty.into()),
      allowed: None,
      is_collection: false,
      components: vec![],
    }
  }
  fn xml(&self, ind: usize, top: bool, out: &mut String) {
    let pad = " ".repeat(ind);
    let tag = if top { "itemDefinition" } else { "itemComponent" };
    let coll = if self.is_collection { " isCollection=\"true\"" } else { "" };
    out.push_str(&format!("{pad}<{} name=\"{}\"{}>\n", tag, esc(&self.name), coll));
    if let Some(t) = &self.type_ref {
      out.push_str(&format!("{pad}  <typeRef>{}</typeRef>\n", esc(t)));
    }
    if let Some(a) = &self.allowed {
      out.push_str(&format!("{pad}  <allowedValues>\n{pad}    <text>{}</text>\n{pad}  </allowedValues>\n", esc(a)));
    }
    for c in &self.components {
      c.xml(ind + 2, false, out);
    }
    out.push_str(&format!("{pad}</{}>\n", tag));
  }
}

#[derive(Clone, Debug)]
pub struct Input {
  pub name: String,
  pub type_ref: String,
}

#[derive(Clone, Debug, Default)]
pub struct Requires {
  pub inputs: Vec<String>,
  pub decisions: Vec<String>,
  /// knowledge models and decision services
  pub knowledge: Vec<String>,
}

#[derive(Clone, Debug)]
pub struct Decision {
  pub name: String,
  pub type_ref: Option<String>,
  pub requires: Requires,
  pub logic: Option<Expr>,
}

#[derive(Clone, Debug)]
pub struct Bkm {
  pub name: String,
  pub type_ref: Option<String>,
  pub params: Vec<(String, Option<String>)>,
  pub knowledge: Vec<String>,
  pub logic: Expr,
}

#[derive(Clone, Debug)]
pub struct Service {
  pub name: String,
  pub type_ref: Option<String>,
  pub output_decisions: Vec<String>,
  pub encapsulated_decisions: Vec<String>,
  pub input_decisions: Vec<String>,
  pub input_data: Vec<String>,
}

#[derive(Clone, Debug, Default)]
pub struct Model {
  pub namespace: String,
  pub name: String,
  pub items: Vec<ItemDef>,
  pub inputs: Vec<Input>,
  pub decisions: Vec<Decision>,
  pub bkms: Vec<Bkm>,
  pub services: Vec<Service>,
}

pub fn id_of(kind: &str, name: &str) -> String {
  let clean: String = name.chars().map(|c| if c.is_alphanumeric() { c } else { '_' }).collect();
  format!("{}_{}", kind, clean)
}

impl Model {
  pub fn new(namespace: &str, name: &str) -> Model {
    Model {
      namespace: namespace.into(),
      name: name.into(),
      ..Default::default()
    }
  }
  fn kind_of(&self, name: &str) -> &'static str {
    if self.bkms.iter().any(|b| b.name == name) {
      "b"
    } else if self.services.iter().any(|s| s.name == name) {
      "s"
    } else if self.decisions.iter().any(|s| s.name == name) {
      "d"
    } else {
      "i"
    }
  }
  pub fn to_xml(&self) -> String {
    let mut out = String::new();
    out.push_str("<?xml version=\"1.0\" encoding=\"UTF-8\" standalone=\"yes\"?>\n");
    out.push_str(&format!(
      "<definitions namespace=\"{}\" name=\"{}\" id=\"{}\" xmlns=\"https://www.omg.org/spec/DMN/20191111/MODEL/\">\n",
      esc(&self.namespace),
      esc(&self.name),
      id_of("m", &self.name)
    ));
    for it in &self.items {
      it.xml(2, true, &mut out);
    }
    for i in &self.inputs {
      out.push_str(&format!(
        "  <inputData name=\"{}\" id=\"{}\">\n    <variable name=\"{}\" typeRef=\"{}\"/>\n  </inputData>\n",
        esc(&i.name),
        id_of("i", &i.name),
        esc(&i.name),
        esc(&i.type_ref)
      ));
    }
    for d in &self.decisions {
      out.push_str(&format!("  <decision name=\"{}\" id=\"{}\">\n", esc(&d.name), id_of("d", &d.name)));
      match &d.type_ref {
        Some(t) => out.push_str(&format!("    <variable name=\"{}\" typeRef=\"{}\"/>\n", esc(&d.name), esc(t))),
        None => out.push_str(&format!("    <variable name=\"{}\"/>\n", esc(&d.name))),
      }
      for r in &d.requires.inputs {
        out.push_str(&format!("    <informationRequirement>\n      <requiredInput href=\"#{}\"/>\n    </informationRequirement>\n", id_of("i", r)));
      }
      for r in &d.requires.decisions {
        out.push_str(&format!("    <informationRequirement>\n      <requiredDecision href=\"#{}\"/>\n    </informationRequirement>\n", id_of("d", r)));
      }
      for r in &d.requires.knowledge {
        out.push_str(&format!(
          "    <knowledgeRequirement>\n      <requiredKnowledge href=\"#{}\"/>\n    </knowledgeRequirement>\n",
          id_of(self.kind_of(r), r)
        ));
      }
      if let Some(l) = &d.logic {
        l.xml(4, &mut out);
      }
      out.push_str("  </decision>\n");
    }
    for b in &self.bkms {
      out.push_str(&format!("  <businessKnowledgeModel name=\"{}\" id=\"{}\">\n", esc(&b.name), id_of("b", &b.name)));
      match &b.type_ref {
        Some(t) => out.push_str(&format!("    <variable name=\"{}\" typeRef=\"{}\"/>\n", esc(&b.name), esc(t))),
        None => out.push_str(&format!("    <variable name=\"{}\"/>\n", esc(&b.name))),
      }
      out.push_str("    <encapsulatedLogic>\n");
      for (p, t) in &b.params {
        match t {
          Some(t) => out.push_str(&format!("      <formalParameter name=\"{}\" typeRef=\"{}\"/>\n", esc(p), esc(t))),
          None => out.push_str(&format!("      <formalParameter name=\"{}\"/>\n", esc(p))),
        }
      }
      b.logic.xml(6, &mut out);
      out.push_str("    </encapsulatedLogic>\n");
      for r in &b.knowledge {
        out.push_str(&format!(
          "    <knowledgeRequirement>\n      <requiredKnowledge href=\"#{}\"/>\n    </knowledgeRequirement>\n",
          id_of(self.kind_of(r), r)
        ));
      }
      out.push_str("  </businessKnowledgeModel>\n");
    }
    for s in &self.services {
      out.push_str(&format!("  <decisionService name=\"{}\" id=\"{}\">\n", esc(&s.name), id_of("s", &s.name)));
      match &s.type_ref {
        Some(t) => out.push_str(&format!("    <variable name=\"{}\" typeRef=\"{}\"/>\n", esc(&s.name), esc(t))),
        None => out.push_str(&format!("    <variable name=\"{}\"/>\n", esc(&s.name))),
      }
      for d in &s.output_decisions {
        out.push_str(&format!("    <outputDecision href=\"#{}\"/>\n", id_of("d", d)));
      }
      for d in &s.encapsulated_decisions {
        out.push_str(&format!("    <encapsulatedDecision href=\"#{}\"/>\n", id_of("d", d)));
      }
      for d in &s.input_decisions {
        out.push_str(&format!("    <inputDecision href=\"#{}\"/>\n", id_of("d", d)));
      }
      for d in &s.input_data {
        out.push_str(&format!("    <inputData href=\"#{}\"/>\n", id_of("i", d)));
      }
      out.push_str("  </decisionService>\n");
    }
    out.push_str("</definitions>\n");
    out
  }
}
