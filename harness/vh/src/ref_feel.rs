//! Reference FEEL interpreter over `T` (DMN 1.3 §10.3.2), deliberately boring: a plain recursive
//! walk over immutable environments, exact rationals.
//!
//! Two modes. `spec`: the value FEEL assigns. `dev`: additionally reproduces the *listed* known
//! deviations of the implementation (each identified by a tag = a known-finding key); whenever a
//! deviation changes a value the tag is recorded. A mismatch with `spec` that `dev` reproduces is
//! attributed to exactly the recorded tags; anything else is a violation.

use crate::rval::{lookup, Closure, Env, RVal, Rat};
use crate::term::{Dom, Op, UOp, T};
use std::cell::RefCell;
use std::collections::BTreeSet;
use std::sync::Arc as Rc;

pub struct Interp {
  pub dev: bool,
  /// deviations allowed (keys listed in known_findings.json for the property)
  pub allowed: BTreeSet<String>,
  pub tags: RefCell<BTreeSet<&'static str>>,
  pub fuel: RefCell<u64>,
}

pub const ALL_DEVIATIONS: &[(&str, &str)] = &[
  ("eq-null-left", "`null = x` / `null != x` with non-null x yields null (`x = null` yields false/true): equality is not symmetric"),
  (
    "for-empty-domain",
    "multi-variable for: an empty domain does not make the result empty; the variable is left unbound and the other domains are still iterated",
  ),
  (
    "for-range-after-list",
    "multi-variable for: range domains are iterated inside list domains regardless of their textual order (wrong order of the cartesian product)",
  ),
  ("quantified-nonboolean", "some/every ignore non-boolean satisfies-results instead of yielding null"),
  ("quantified-empty-domain", "multi-variable some/every: an empty domain does not make the product empty"),
  ("path-list-missing-entry", "path over a list of contexts drops items lacking the entry instead of yielding null for them"),
  ("path-list-noncontext-item", "path over a list containing a non-context item yields null for the whole list"),
  ("filter-singleton-unwrapped", "a boolean filter selecting exactly one element returns the element, not a singleton list (pinned by repository tests)"),
  ("filter-scalar-item-unbound", "filtering a non-list value does not bind `item` (and context entries) while evaluating the predicate"),
  ("filter-null-base", "filtering null yields null instead of treating null as a singleton list"),
  ("function-dynamic-scope", "function values are not closures: the body is evaluated in the caller's scope, so captured names are lost or rebound"),
  ("in-list-null-item", "`x in [.., null, ..]` yields null as soon as a null item is reached"),
  ("in-list-of-lists-multiset-inclusion", "`[3] in [[1, 2, 3]]` is true: a list in a list of lists is answered by multiset inclusion in the first inner list"),
  ("if-null-condition-ok", ""),
];

impl Interp {
  pub fn new(dev: bool, allowed: &BTreeSet<String>) -> Self {
    Interp {
      dev,
      allowed: allowed.clone(),
      tags: RefCell::new(BTreeSet::new()),
      fuel: RefCell::new(200_000),
    }
  }
  /// A deviation point: in dev mode (and if the deviation is listed) the implementation-like value is
  /// returned and the tag recorded when it differs from the specified value.
  fn deviate(&self, tag: &'static str, spec: RVal, devv: impl FnOnce() -> RVal) -> RVal {
    if !self.dev || !self.allowed.contains(tag) {
      return spec;
    }
    let d = devv();
    if !same(&spec, &d) {
      self.tags.borrow_mut().insert(tag);
    }
    d
  }

  pub fn eval(&self, t: &T, env: &Env) -> RVal {
    {
      let mut f = self.fuel.borrow_mut();
      if *f == 0 {
        return RVal::Unspec;
      }
      *f -= 1;
    }
    match t {
      T::Num(a, b) => {
        let text = if b.is_empty() { a.clone() } else { format!("{}.{}", if a.is_empty() { "0" } else { a }, b) };
        Rat::parse(&text).map(RVal::Num).unwrap_or(RVal::Unspec)
      }
      T::Str(s) => RVal::Str(s.clone()),
      T::Bool(b) => RVal::Bool(*b),
      T::Null => RVal::Null,
      T::At(_) => RVal::Unspec,
      T::Name(n) => lookup(env, n).unwrap_or(RVal::Null),
      T::Neg(a) => match self.eval(a, env) {
        RVal::Num(r) => r.neg().map(RVal::Num).unwrap_or(RVal::Unspec),
        RVal::Unspec => RVal::Unspec,
        _ => RVal::Null,
      },
      T::Bin(op, l, r) => {
        let lv = self.eval(l, env);
        let rv = self.eval(r, env);
        self.binop(op, lv, rv)
      }
      T::Between(x, lo, hi) => {
        let (x, lo, hi) = (self.eval(x, env), self.eval(lo, env), self.eval(hi, env));
        if x.is_unspec_deep() || lo.is_unspec_deep() || hi.is_unspec_deep() {
          return RVal::Unspec;
        }
        match (cmp_same_kind(&lo, &x), cmp_same_kind(&x, &hi)) {
          (Some(Some(a)), Some(Some(b))) => RVal::Bool(a != std::cmp::Ordering::Greater && b != std::cmp::Ordering::Greater),
          (Some(None), _) | (_, Some(None)) => RVal::Unspec,
          _ => {
            // operands of different or unordered kinds: `lo <= x and x <= hi` may be false or null
            if matches!(x, RVal::Null) || matches!(x, RVal::Bool(_) | RVal::List(_) | RVal::Ctx(_) | RVal::Func(_)) {
              RVal::Null
            } else {
              RVal::Unspec
            }
          }
        }
      }
      T::InList(x, items) => {
        let xv = self.eval(x, env);
        let tests: Vec<RVal> = items.iter().map(|i| self.eval(i, env)).collect();
        self.in_tests(&xv, &tests)
      }
      T::If(c, a, b) => match self.eval(c, env) {
        RVal::Bool(true) => self.eval(a, env),
        RVal::Bool(false) | RVal::Null => self.eval(b, env),
        // a condition that is neither boolean nor null: DMN versions differ (else-branch vs null)
        _ => {
          let _ = self.eval(a, env);
          let _ = self.eval(b, env);
          RVal::Unspec
        }
      },
      T::For(doms, body) => self.eval_for(doms, body, env),
      T::Some_(doms, body) => self.eval_quant(true, doms, body, env),
      T::Every(doms, body) => self.eval_quant(false, doms, body, env),
      T::List(items) => RVal::List(items.iter().map(|i| self.eval(i, env)).collect()),
      T::Ctx(es) => {
        let mut env2 = env.clone();
        let mut out: Vec<(String, RVal)> = vec![];
        for (k, v) in es {
          let val = self.eval(v, &env2);
          if out.iter().any(|(k2, _)| k2 == k) {
            return RVal::Unspec; // duplicate keys: an error in FEEL, representation unspecified
          }
          out.push((k.clone(), val.clone()));
          env2.push((k.clone(), val));
        }
        RVal::Ctx(out)
      }
      T::Path(x, n) => {
        let xv = self.eval(x, env);
        self.path(&xv, n)
      }
      T::Filter(x, p) => self.eval_filter(x, p, env),
      T::Call(f, args) => {
        let fv = self.eval(f, env);
        let argv: Vec<RVal> = args.iter().map(|a| self.eval(a, env)).collect();
        match fv {
          RVal::Func(c) => {
            if argv.len() < c.params.len() {
              return RVal::Null;
            }
            if argv.len() > c.params.len() {
              return RVal::Unspec; // surplus arguments: the implementation ignores them, FEEL says error
            }
            self.invoke(&c, argv, env)
          }
          RVal::Unspec => RVal::Unspec,
          RVal::Builtin(_) => RVal::Unspec,
          _ => RVal::Null,
        }
      }
      T::CallNamed(f, args) => {
        let fv = self.eval(f, env);
        let argv: Vec<(String, RVal)> = args.iter().map(|(k, a)| (k.clone(), self.eval(a, env))).collect();
        match fv {
          RVal::Func(c) => {
            let mut ordered = vec![];
            for (p, _) in &c.params {
              match argv.iter().find(|(k, _)| k == p) {
                Some((_, v)) => ordered.push(v.clone()),
                None => return RVal::Null,
              }
            }
            if argv.iter().any(|(k, _)| !c.params.iter().any(|(p, _)| p == k)) {
              return RVal::Unspec;
            }
            self.invoke(&c, ordered, env)
          }
          RVal::Unspec | RVal::Builtin(_) => RVal::Unspec,
          _ => RVal::Null,
        }
      }
      T::Func(ps, body) => RVal::Func(Rc::new(Closure {
        params: ps.clone(),
        body: (**body).clone(),
        env: env.clone(),
      })),
      T::Range(lc, a, b, rc) => RVal::Range(*lc, Box::new(self.eval(a, env)), Box::new(self.eval(b, env)), *rc),
      T::Unary(op, a) => RVal::Unary(op.clone(), Box::new(self.eval(a, env))),
      T::InstanceOf(..) => RVal::Unspec,
    }
  }

  fn invoke(&self, c: &Rc<Closure>, args: Vec<RVal>, caller_env: &Env) -> RVal {
    if c.params.iter().any(|(_, ty)| ty.is_some()) {
      return RVal::Unspec; // typed parameters are C16's subject
    }
    let mut lex = c.env.clone();
    for ((p, _), a) in c.params.iter().zip(args.iter()) {
      lex.push((p.clone(), a.clone()));
    }
    let spec = self.eval(&c.body, &lex);
    if self.dev && self.allowed.contains("function-dynamic-scope") {
      let mut dynamic = caller_env.clone();
      for ((p, _), a) in c.params.iter().zip(args.iter()) {
        dynamic.push((p.clone(), a.clone()));
      }
      // the comparison of the two scopings is itself part of the deviation point
      let d = self.eval(&c.body, &dynamic);
      if !same(&spec, &d) {
        self.tags.borrow_mut().insert("function-dynamic-scope");
      }
      return d;
    }
    spec
  }

  fn binop(&self, op: &Op, lv: RVal, rv: RVal) -> RVal {
    use RVal::*;
    if matches!(op, Op::And | Op::Or) {
      let l = match lv {
        Bool(b) => Some(b),
        Unspec => return Unspec,
        _ => None,
      };
      let r = match rv {
        Bool(b) => Some(b),
        Unspec => return Unspec,
        _ => None,
      };
      return match (op, l, r) {
        (Op::And, Some(false), _) | (Op::And, _, Some(false)) => Bool(false),
        (Op::And, Some(true), Some(true)) => Bool(true),
        (Op::And, _, _) => Null,
        (Op::Or, Some(true), _) | (Op::Or, _, Some(true)) => Bool(true),
        (Op::Or, Some(false), Some(false)) => Bool(false),
        _ => Null,
      };
    }
    if lv.is_unspec_deep() || rv.is_unspec_deep() {
      return Unspec;
    }
    match op {
      Op::Eq | Op::Nq => {
        let negate = *op == Op::Nq;
        let spec = match equal(&lv, &rv) {
          Eq3::True => Bool(!negate),
          Eq3::False => Bool(negate),
          Eq3::Null => Null,
          Eq3::Unspec => Unspec,
        };
        if matches!(lv, Null) && !matches!(rv, Null) {
          return self.deviate("eq-null-left", spec, || Null);
        }
        spec
      }
      Op::Lt | Op::Le | Op::Gt | Op::Ge => match cmp_same_kind(&lv, &rv) {
        Some(Some(o)) => Bool(match op {
          Op::Lt => o == std::cmp::Ordering::Less,
          Op::Le => o != std::cmp::Ordering::Greater,
          Op::Gt => o == std::cmp::Ordering::Greater,
          _ => o != std::cmp::Ordering::Less,
        }),
        Some(None) => Unspec,
        None => Null,
      },
      Op::Add => match (&lv, &rv) {
        (Num(a), Num(b)) => a.add(*b).map(Num).unwrap_or(Unspec),
        (Str(a), Str(b)) => Str(format!("{}{}", a, b)),
        _ => Null,
      },
      Op::Sub => match (&lv, &rv) {
        (Num(a), Num(b)) => a.sub(*b).map(Num).unwrap_or(Unspec),
        _ => Null,
      },
      Op::Mul => match (&lv, &rv) {
        (Num(a), Num(b)) => a.mul(*b).map(Num).unwrap_or(Unspec),
        _ => Null,
      },
      Op::Div => match (&lv, &rv) {
        (Num(a), Num(b)) => {
          if b.n == 0 {
            Null
          } else {
            a.div(*b).map(Num).unwrap_or(Unspec)
          }
        }
        _ => Null,
      },
      Op::Exp => match (&lv, &rv) {
        (Num(a), Num(b)) => {
          if !b.is_int() || b.n.abs() > 20 {
            return Unspec;
          }
          if a.n == 0 && b.n <= 0 {
            return if b.n == 0 { Unspec } else { Null };
          }
          a.powi(b.n as i64).map(Num).unwrap_or(Unspec)
        }
        _ => Null,
      },
      Op::In => self.in_tests(&lv, &[rv]),
      Op::And | Op::Or => unreachable!(),
    }
  }

  /// `x in (t1, t2, ..)`: true if some test is satisfied (ternary `or` over the tests).
  fn in_tests(&self, x: &RVal, tests: &[RVal]) -> RVal {
    if x.is_unspec_deep() || tests.iter().any(|t| t.is_unspec_deep()) {
      return RVal::Unspec;
    }
    // a list of numbers in a list of lists of numbers: the two readings of the text (a list among the tests is compared
    // for equality / is searched) agree on false when no inner list equals the left one, since a number never equals a list.
    // The implementation takes the first inner list as a multiset that must include the left list.
    if let (RVal::List(xs), [RVal::List(items)]) = (x, tests) {
      let nums = |l: &Vec<RVal>| l.iter().all(|v| matches!(v, RVal::Num(_)));
      let inner: Vec<&Vec<RVal>> = items.iter().filter_map(|i| if let RVal::List(l) = i { Some(l) } else { None }).collect();
      if !items.is_empty() && inner.len() == items.len() && nums(xs) && inner.iter().all(|l| nums(l)) && !inner.iter().any(|l| l.len() == xs.len() && l.iter().zip(xs.iter()).all(|(a, b)| same(a, b))) {
        return self.deviate("in-list-of-lists-multiset-inclusion", RVal::Bool(false), || {
          let mut rest: Vec<&RVal> = inner[0].iter().collect();
          for v in xs {
            match rest.iter().position(|r| same(r, v)) {
              Some(k) => {
                rest.remove(k);
              }
              None => return RVal::Bool(false),
            }
          }
          RVal::Bool(true)
        });
      }
    }
    if matches!(x, RVal::List(_)) && tests.iter().any(|t| matches!(t, RVal::List(_))) {
      return RVal::Unspec; // list in list-of-lists: DMN text and vendors differ
    }
    let mut saw_null = false;
    let mut saw_unspec = false;
    let mut spec = None;
    for t in tests {
      match self.in_one(x, t) {
        RVal::Bool(true) => {
          spec = Some(RVal::Bool(true));
          break;
        }
        RVal::Bool(false) => {}
        RVal::Unspec => saw_unspec = true,
        _ => saw_null = true,
      }
    }
    let spec = spec.unwrap_or(if saw_unspec {
      RVal::Unspec
    } else if saw_null {
      RVal::Null
    } else {
      RVal::Bool(false)
    });
    if !self.dev {
      return spec;
    }
    // implementation-like evaluation (see build_in / eval_in_list in feel-evaluator/src/builders.rs)
    let devv = if tests.len() == 1 { in_dev(x, &tests[0], false) } else { in_list_dev(x, tests) };
    if matches!(devv, RVal::Unspec) || same(&spec, &devv) {
      return spec;
    }
    let tag: &'static str = match (&spec, &devv) {
      (RVal::Bool(_), RVal::Null) => "in-list-null-item",
      (RVal::Bool(true), RVal::Bool(false)) => "in-list-null-item",
      (RVal::Null, RVal::Bool(false)) => "in-tests-nonboolean-as-false",
      (RVal::Unspec, _) => return RVal::Unspec,
      _ => return spec,
    };
    if !self.allowed.contains(tag) {
      return spec;
    }
    self.tags.borrow_mut().insert(tag);
    devv
  }

  fn in_one(&self, x: &RVal, t: &RVal) -> RVal {
    match t {
      RVal::List(items) => {
        // membership: x = i1 or x = i2 ..; items may themselves be tests
        let mut saw_null = false;
        let mut saw_unspec = false;
        let mut hit = false;
        for i in items {
          let r = match i {
            // a nested list: `x in [[..]]` recurses; anything but a clean boolean from it is murky
            RVal::List(_) => match self.in_one(x, i) {
              RVal::Bool(b) => RVal::Bool(b),
              _ => RVal::Unspec,
            },
            RVal::Range(..) | RVal::Unary(..) => self.in_one(x, i),
            _ => match equal(x, i) {
              Eq3::True => RVal::Bool(true),
              Eq3::False => RVal::Bool(false),
              Eq3::Null => RVal::Unspec, // `1 in ["a"]`: false by intent, null by the letter
              Eq3::Unspec => RVal::Unspec,
            },
          };
          match r {
            RVal::Bool(true) => {
              hit = true;
              break;
            }
            RVal::Bool(false) => {}
            RVal::Unspec => saw_unspec = true,
            _ => saw_null = true,
          }
        }
        if hit {
          RVal::Bool(true)
        } else if saw_unspec {
          RVal::Unspec
        } else if saw_null {
          RVal::Null
        } else {
          RVal::Bool(false)
        }
      }
      RVal::Range(lc, a, b, rc) => match (cmp_same_kind(a, x), cmp_same_kind(x, b)) {
        (Some(Some(o1)), Some(Some(o2))) => {
          let l_ok = if *lc { o1 != std::cmp::Ordering::Greater } else { o1 == std::cmp::Ordering::Less };
          let r_ok = if *rc { o2 != std::cmp::Ordering::Greater } else { o2 == std::cmp::Ordering::Less };
          RVal::Bool(l_ok && r_ok)
        }
        (Some(None), _) | (_, Some(None)) => RVal::Unspec,
        _ => {
          if matches!(x, RVal::Null) {
            RVal::Null
          } else {
            RVal::Unspec
          }
        }
      },
      RVal::Unary(op, e) => match cmp_same_kind(x, e) {
        Some(Some(o)) => RVal::Bool(match op {
          UOp::Lt => o == std::cmp::Ordering::Less,
          UOp::Le => o != std::cmp::Ordering::Greater,
          UOp::Gt => o == std::cmp::Ordering::Greater,
          UOp::Ge => o != std::cmp::Ordering::Less,
        }),
        Some(None) => RVal::Unspec,
        None => RVal::Null,
      },
      RVal::Null => RVal::Unspec,
      RVal::Func(_) | RVal::Builtin(_) => RVal::Unspec,
      // a plain value as a test: equality; a kind mismatch is "not satisfied"
      other => match equal(x, other) {
        Eq3::True => RVal::Bool(true),
        Eq3::False => RVal::Bool(false),
        _ => RVal::Unspec,
      },
    }
  }

  fn path(&self, xv: &RVal, n: &str) -> RVal {
    match xv {
      RVal::Unspec => RVal::Unspec,
      RVal::Ctx(es) => es.iter().find(|(k, _)| k == n).map(|(_, v)| v.clone()).unwrap_or(RVal::Null),
      RVal::List(items) => {
        if items.iter().any(|i| i.is_unspec_deep()) {
          return RVal::Unspec;
        }
        let spec = RVal::List(
          items
            .iter()
            .map(|i| match i {
              RVal::Ctx(es) => es.iter().find(|(k, _)| k == n).map(|(_, v)| v.clone()).unwrap_or(RVal::Null),
              _ => RVal::Null,
            })
            .collect(),
        );
        let has_nonctx = items.iter().any(|i| !matches!(i, RVal::Ctx(_)));
        if has_nonctx {
          // the implementation stops at the first non-context item; contexts before it are irrelevant
          return self.deviate("path-list-noncontext-item", spec, || RVal::Null);
        }
        let missing = items.iter().any(|i| matches!(i, RVal::Ctx(es) if !es.iter().any(|(k, _)| k == n)));
        if missing {
          return self.deviate("path-list-missing-entry", spec, || {
            RVal::List(
              items
                .iter()
                .filter_map(|i| match i {
                  RVal::Ctx(es) => es.iter().find(|(k, _)| k == n).map(|(_, v)| v.clone()),
                  _ => None,
                })
                .collect(),
            )
          });
        }
        spec
      }
      _ => RVal::Null,
    }
  }

  fn item_env(&self, env: &Env, item: &RVal) -> Env {
    let mut e = env.clone();
    // `item` first, entries of a context item on top of it... unless the context has its own `item`
    if let RVal::Ctx(es) = item {
      if es.iter().any(|(k, _)| k == "item") {
        for (k, v) in es {
          e.push((k.clone(), v.clone()));
        }
        return e;
      }
      // entries are visible, and `item` denotes the element
      for (k, v) in es {
        e.push((k.clone(), v.clone()));
      }
      e.push(("item".into(), item.clone()));
      return e;
    }
    e.push(("item".into(), item.clone()));
    e
  }

  fn eval_filter(&self, x: &T, p: &T, env: &Env) -> RVal {
    let base = self.eval(x, env);
    if base.is_unspec_deep() {
      return RVal::Unspec;
    }
    // the kind of filter is decided by the value of the filter expression in the enclosing scope
    let outer = self.eval(p, env);
    if outer.is_unspec_deep() {
      return RVal::Unspec;
    }
    let uses_item = mentions_item(p);
    match &base {
      RVal::List(items) => {
        if let RVal::Num(ix) = outer {
          if uses_item {
            return RVal::Unspec;
          }
          return index(items, &ix);
        }
        let mut kept = vec![];
        for it in items {
          let e = self.item_env(env, it);
          match self.eval(p, &e) {
            RVal::Bool(true) => kept.push(it.clone()),
            RVal::Unspec => return RVal::Unspec,
            RVal::Num(_) => return RVal::Unspec, // numeric only per item: kind of filter unclear
            _ => {}
          }
        }
        let spec = RVal::List(kept.clone());
        if kept.len() == 1 {
          return self.deviate("filter-singleton-unwrapped", spec, || kept[0].clone());
        }
        spec
      }
      RVal::Null => {
        let spec = match &outer {
          RVal::Num(ix) => {
            if uses_item {
              return RVal::Unspec;
            }
            index(&[RVal::Null], ix)
          }
          _ => match self.eval(p, &self.item_env(env, &RVal::Null)) {
            RVal::Bool(true) => RVal::List(vec![RVal::Null]),
            RVal::Unspec | RVal::Num(_) => return RVal::Unspec,
            _ => RVal::List(vec![]),
          },
        };
        self.deviate("filter-null-base", spec, || RVal::Null)
      }
      RVal::Func(_) | RVal::Builtin(_) | RVal::Range(..) | RVal::Unary(..) => RVal::Unspec,
      scalar => {
        // singleton-list conversion
        if let RVal::Num(ix) = &outer {
          if uses_item {
            return RVal::Unspec;
          }
          let spec = index(&[scalar.clone()], ix);
          // the implementation accepts only the index 1 on a non-list value
          let one = ix.is_int() && ix.n == 1;
          let sc = scalar.clone();
          return self.deviate("filter-scalar-negative-index", spec, move || if one { sc } else { RVal::Null });
        }
        let inner = self.eval(p, &self.item_env(env, scalar));
        let spec = match inner {
          RVal::Bool(true) => RVal::List(vec![scalar.clone()]),
          RVal::Unspec | RVal::Num(_) => return RVal::Unspec,
          _ => RVal::List(vec![]),
        };
        // FEEL: [v][p]; singleton unwrap convention does not apply here (the implementation returns a list)
        let is_ctx = matches!(scalar, RVal::Ctx(_));
        if uses_item || is_ctx {
          let dv = match &outer {
            RVal::Bool(true) => RVal::List(vec![scalar.clone()]),
            RVal::Bool(false) => RVal::List(vec![]),
            _ => RVal::Null,
          };
          return self.deviate("filter-scalar-item-unbound", spec, || dv);
        }
        match &outer {
          RVal::Bool(_) => spec,
          _ => {
            // predicate is neither boolean nor number: FEEL drops the element, the implementation yields null
            self.deviate("filter-scalar-item-unbound", spec, || RVal::Null)
          }
        }
      }
    }
  }

  fn domain_values(&self, v: RVal) -> Option<Vec<RVal>> {
    match v {
      RVal::Unspec => None,
      RVal::List(items) => Some(items),
      RVal::Func(_) | RVal::Builtin(_) | RVal::Range(..) | RVal::Unary(..) => None,
      other => Some(vec![other]),
    }
  }

  fn eval_for(&self, doms: &[(String, Dom)], body: &T, env: &Env) -> RVal {
    // domains are evaluated in the enclosing scope (this harness never lets a domain refer to an earlier variable)
    let mut spaces: Vec<(String, Vec<RVal>, bool)> = vec![]; // (var, values, is_range)
    for (v, d) in doms {
      match d {
        Dom::Single(t) => match self.domain_values(self.eval(t, env)) {
          Some(vals) => spaces.push((v.clone(), vals, false)),
          None => return RVal::Unspec,
        },
        Dom::Range(a, b) => match (self.eval(a, env), self.eval(b, env)) {
          (RVal::Num(s), RVal::Num(e)) if s.is_int() && e.is_int() && (s.n - e.n).abs() <= 64 => {
            let mut vals = vec![];
            let mut i = s.n;
            loop {
              vals.push(RVal::Num(Rat::int(i)));
              if i == e.n {
                break;
              }
              i += if e.n > s.n { 1 } else { -1 };
            }
            spaces.push((v.clone(), vals, true));
          }
          _ => return RVal::Unspec,
        },
      }
    }
    let spec_order: Vec<usize> = (0..spaces.len()).collect();
    let spec = self.for_product(&spaces, &spec_order, body, env, false);
    let any_empty = spaces.iter().any(|s| s.1.is_empty());
    let all_empty = spaces.iter().all(|s| s.1.is_empty());
    let mut result = spec;
    // deviation 1: ranges after lists
    let mut order: Vec<usize> = (0..spaces.len()).filter(|i| !spaces[*i].2).collect();
    order.extend((0..spaces.len()).filter(|i| spaces[*i].2));
    if order != spec_order && !any_empty {
      let o = order.clone();
      result = self.deviate("for-range-after-list", result, || self.for_product(&spaces, &o, body, env, false));
    }
    // deviation 2: empty domains do not annihilate
    if any_empty && !all_empty && spaces.len() > 1 {
      let o = order.clone();
      result = self.deviate("for-empty-domain", result, || self.for_product(&spaces, &o, body, env, true));
    }
    result
  }

  /// Cartesian product in the given nesting order (first = outermost). `skip_empty`: an empty
  /// domain contributes a single iteration that leaves its variable unbound (implementation-like).
  fn for_product(&self, spaces: &[(String, Vec<RVal>, bool)], order: &[usize], body: &T, env: &Env, skip_empty: bool) -> RVal {
    let mut results: Vec<RVal> = vec![];
    let mut idx = vec![0usize; order.len()];
    if !skip_empty && spaces.iter().any(|s| s.1.is_empty()) {
      return RVal::List(vec![]);
    }
    if spaces.is_empty() {
      return RVal::List(vec![]);
    }
    loop {
      let mut e = env.clone();
      for (k, &si) in order.iter().enumerate() {
        let (name, vals, _) = &spaces[si];
        if let Some(v) = vals.get(idx[k]) {
          e.push((name.clone(), v.clone()));
        }
      }
      e.push(("partial".into(), RVal::List(results.clone())));
      let r = self.eval(body, &e);
      if r.is_unspec_deep() {
        return RVal::Unspec;
      }
      results.push(r);
      // increment, last in `order` fastest
      let mut k = order.len();
      loop {
        if k == 0 {
          return RVal::List(results);
        }
        k -= 1;
        let len = spaces[order[k]].1.len().max(1);
        if idx[k] + 1 < len {
          idx[k] += 1;
          break;
        } else {
          idx[k] = 0;
        }
      }
    }
  }

  fn eval_quant(&self, some: bool, doms: &[(String, T)], body: &T, env: &Env) -> RVal {
    let mut spaces: Vec<(String, Vec<RVal>, bool)> = vec![];
    for (v, t) in doms {
      match self.domain_values(self.eval(t, env)) {
        Some(vals) => spaces.push((v.clone(), vals, false)),
        None => return RVal::Unspec,
      }
    }
    let order: Vec<usize> = (0..spaces.len()).collect();
    let any_empty = spaces.iter().any(|s| s.1.is_empty());
    let all_empty = spaces.iter().all(|s| s.1.is_empty());
    let fold = |skip_empty: bool, ignore_nonbool: bool| -> RVal {
      // evaluate body over the product
      let body_list = T::List(vec![body.clone()]);
      let wrapped = self.for_product(&spaces, &order, &body_list, env, skip_empty);
      let items = match wrapped {
        RVal::List(items) => items,
        _ => return RVal::Unspec,
      };
      let mut saw_null = false;
      for it in items {
        let v = match it {
          RVal::List(mut one) => one.pop().unwrap_or(RVal::Null),
          _ => RVal::Null,
        };
        match v {
          RVal::Bool(b) => {
            if b == some {
              return RVal::Bool(some);
            }
          }
          _ => {
            if !ignore_nonbool {
              saw_null = true
            }
          }
        }
      }
      if saw_null {
        RVal::Null
      } else {
        RVal::Bool(!some)
      }
    };
    let mut result = fold(false, false);
    if matches!(result, RVal::Unspec) {
      return result;
    }
    result = self.deviate("quantified-nonboolean", result, || fold(false, true));
    if any_empty && !all_empty && spaces.len() > 1 {
      let ignore = self.dev && self.allowed.contains("quantified-nonboolean");
      result = self.deviate("quantified-empty-domain", result, || fold(true, ignore));
    }
    result
  }
}

fn index(items: &[RVal], ix: &Rat) -> RVal {
  if !ix.is_int() {
    return RVal::Null;
  }
  let n = items.len() as i128;
  let i = ix.n;
  if i >= 1 && i <= n {
    items[(i - 1) as usize].clone()
  } else if i <= -1 && -i <= n {
    items[(n + i) as usize].clone()
  } else {
    RVal::Null
  }
}

pub fn mentions_item(t: &T) -> bool {
  let mut found = matches!(t, T::Name(n) if n == "item");
  t.for_children(&mut |c| {
    if mentions_item(c) {
      found = true
    }
  });
  found
}

#[derive(Debug, PartialEq)]
pub enum Eq3 {
  True,
  False,
  Null,
  Unspec,
}

/// FEEL equality: same kind compared by value; null = null true; null = other false; different kinds null.
pub fn equal(a: &RVal, b: &RVal) -> Eq3 {
  use RVal::*;
  match (a, b) {
    (Unspec, _) | (_, Unspec) => Eq3::Unspec,
    (Null, Null) => Eq3::True,
    (Null, Func(_)) | (Func(_), Null) | (Null, Builtin(_)) | (Builtin(_), Null) => Eq3::Unspec,
    (Null, Range(..)) | (Range(..), Null) | (Null, Unary(..)) | (Unary(..), Null) => Eq3::Unspec,
    (Null, _) | (_, Null) => Eq3::False,
    (Bool(x), Bool(y)) => b3(x == y),
    (Num(x), Num(y)) => b3(x == y),
    (Str(x), Str(y)) => b3(x == y),
    (List(x), List(y)) => {
      if x.len() != y.len() {
        return Eq3::False;
      }
      let mut murky = false;
      for (p, q) in x.iter().zip(y.iter()) {
        match equal(p, q) {
          Eq3::True => {}
          Eq3::False => {
            if !murky {
              return Eq3::False;
            }
          }
          _ => murky = true,
        }
      }
      if murky {
        Eq3::Unspec
      } else {
        Eq3::True
      }
    }
    (Ctx(x), Ctx(y)) => {
      if x.len() != y.len() {
        return Eq3::False;
      }
      let mut murky = false;
      let mut differ = false;
      for (k, p) in x {
        match y.iter().find(|(k2, _)| k2 == k) {
          None => differ = true,
          Some((_, q)) => match equal(p, q) {
            Eq3::True => {}
            Eq3::False => differ = true,
            _ => murky = true,
          },
        }
      }
      if murky {
        Eq3::Unspec
      } else if differ {
        Eq3::False
      } else {
        Eq3::True
      }
    }
    (Func(_), _) | (_, Func(_)) | (Builtin(_), _) | (_, Builtin(_)) => Eq3::Unspec,
    (Range(..), _) | (_, Range(..)) | (Unary(..), _) | (_, Unary(..)) => Eq3::Unspec,
    _ => Eq3::Null,
  }
}

fn b3(b: bool) -> Eq3 {
  if b {
    Eq3::True
  } else {
    Eq3::False
  }
}

/// Ordering for the ordered kinds of this fragment. Outer None: not comparable (null result);
/// inner None: overflow (skip).
pub fn cmp_same_kind(a: &RVal, b: &RVal) -> Option<Option<std::cmp::Ordering>> {
  match (a, b) {
    (RVal::Num(x), RVal::Num(y)) => Some(x.cmp_(y)),
    (RVal::Str(x), RVal::Str(y)) => Some(Some(x.cmp(y))),
    _ => None,
  }
}

/// Deep sameness of two reference values (used to decide whether a deviation changed anything).
pub fn same(a: &RVal, b: &RVal) -> bool {
  use RVal::*;
  match (a, b) {
    (Null, Null) | (Unspec, Unspec) => true,
    (Bool(x), Bool(y)) => x == y,
    (Num(x), Num(y)) => x == y,
    (Str(x), Str(y)) => x == y,
    (List(x), List(y)) => x.len() == y.len() && x.iter().zip(y.iter()).all(|(p, q)| same(p, q)),
    (Ctx(x), Ctx(y)) => x.len() == y.len() && x.iter().all(|(k, p)| y.iter().any(|(k2, q)| k == k2 && same(p, q))),
    (Func(x), Func(y)) => Rc::ptr_eq(x, y) || (x.params == y.params && x.body == y.body),
    (Builtin(x), Builtin(y)) => x == y,
    (Range(a1, b1, c1, d1), Range(a2, b2, c2, d2)) => a1 == a2 && d1 == d2 && same(b1, b2) && same(c1, c2),
    (Unary(o1, x), Unary(o2, y)) => o1 == o2 && same(x, y),
    (Approx(x), Approx(y)) => x == y,
    (NumLit(a, x), NumLit(b, y)) => a == b && x == y,
    _ => false,
  }
}

fn eq_dev(x: &RVal, i: &RVal) -> bool {
  // eval_ternary_equality(..) == Some(true); null on the left is only equal to null
  matches!(equal(x, i), Eq3::True)
}

/// `in` as the implementation evaluates it for one right-hand value.
fn in_dev(x: &RVal, rhs: &RVal, nested: bool) -> RVal {
  match rhs {
    RVal::Num(_) | RVal::Str(_) | RVal::Bool(_) | RVal::Ctx(_) => RVal::Bool(eq_dev(x, rhs)),
    RVal::Range(lc, a, b, rc) => match (cmp_same_kind(a, x), cmp_same_kind(x, b)) {
      (Some(Some(o1)), Some(Some(o2))) => {
        let l_ok = if *lc { o1 != std::cmp::Ordering::Greater } else { o1 == std::cmp::Ordering::Less };
        let r_ok = if *rc { o2 != std::cmp::Ordering::Greater } else { o2 == std::cmp::Ordering::Less };
        RVal::Bool(l_ok && r_ok)
      }
      (Some(None), _) | (_, Some(None)) => RVal::Unspec,
      _ => RVal::Null,
    },
    RVal::List(inner) => {
      if matches!(x, RVal::List(_)) && !nested {
        RVal::Unspec
      } else {
        in_list_dev(x, inner)
      }
    }
    RVal::Unary(op, e) => match cmp_same_kind(x, e) {
      Some(Some(o)) => RVal::Bool(match op {
        UOp::Lt => o == std::cmp::Ordering::Less,
        UOp::Le => o != std::cmp::Ordering::Greater,
        UOp::Gt => o == std::cmp::Ordering::Greater,
        UOp::Ge => o != std::cmp::Ordering::Less,
      }),
      Some(None) => RVal::Unspec,
      None => RVal::Null,
    },
    RVal::Unspec => RVal::Unspec,
    _ => RVal::Null,
  }
}

fn in_list_dev(x: &RVal, items: &[RVal]) -> RVal {
  for i in items {
    match i {
      RVal::Num(_) | RVal::Str(_) | RVal::Bool(_) | RVal::Ctx(_) => {
        if eq_dev(x, i) {
          return RVal::Bool(true);
        }
      }
      RVal::Unary(..) | RVal::Range(..) => match in_dev(x, i, true) {
        RVal::Bool(true) => return RVal::Bool(true),
        RVal::Unspec => return RVal::Unspec,
        _ => {}
      },
      RVal::List(inner) => match in_list_dev(x, inner) {
        RVal::Bool(true) => return RVal::Bool(true),
        RVal::Unspec => return RVal::Unspec,
        _ => {}
      },
      RVal::Unspec => return RVal::Unspec,
      _ => return RVal::Null,
    }
  }
  RVal::Bool(false)
}
