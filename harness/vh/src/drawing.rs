//! Renderer of decision tables as Unicode box-drawing text (the inverse of the recogniser), for both
//! orientations and every optional part. A logical grid of (possibly merged) cells with single / double
//! boundaries is laid out on a character matrix; junction characters follow from the four half-edges that
//! meet at each position.

#[derive(Clone, Debug, PartialEq)]
pub struct SrcTable {
  pub name: Option<String>,
  /// marker text: U A P F R O C C+ C# C< C>
  pub hit_policy: String,
  pub rules_as_rows: bool,
  /// (expression lines, allowed values lines)
  pub inputs: Vec<(Vec<String>, Option<Vec<String>>)>,
  /// label above several output components (or the header text of a single output)
  pub output_label: Option<Vec<String>>,
  /// (component name lines - empty for a single output, allowed values lines)
  pub outputs: Vec<(Vec<String>, Option<Vec<String>>)>,
  pub annotations: Vec<Vec<String>>,
  /// per rule: input entries, output entries, annotation entries (each a list of lines)
  pub rules: Vec<(Vec<Vec<String>>, Vec<Vec<String>>, Vec<Vec<String>>)>,
}

#[derive(Clone, Copy, Debug, PartialEq)]
pub struct Style {
  /// extra padding added to one column / all columns
  pub wide_first_data_column: bool,
  pub wide_all: bool,
  /// 0 = name box narrower than the table ending inside a cell, 1 = ending on a column boundary, 2 = as wide as the table
  pub name_box: u8,
  /// blank cell below the values column in the hit policy row (rules as columns), as in the shipped examples
  pub merged_hit_policy_cell: bool,
  /// equal input / output entries of consecutive rules are drawn as one cell spanning those rules
  pub merge_equal_entries: bool,
}

#[derive(Clone, Debug)]
struct Cell {
  r0: usize,
  r1: usize,
  c0: usize,
  c1: usize,
  lines: Vec<String>,
}

struct Grid {
  rows: usize,
  cols: usize,
  /// type of boundary i (0..=cols): 1 single, 2 double
  col_sep: Vec<u8>,
  row_sep: Vec<u8>,
  cells: Vec<Cell>,
  extra_width: Vec<usize>,
}

fn width(s: &str) -> usize {
  s.chars().count()
}

fn junction(u: u8, d: u8, l: u8, r: u8) -> Option<char> {
  Some(match (u, d, l, r) {
    (0, 0, 0, 0) => ' ',
    (0, 0, 1, 1) | (0, 0, 0, 1) | (0, 0, 1, 0) => '─',
    (0, 0, 2, 2) | (0, 0, 0, 2) | (0, 0, 2, 0) => '═',
    (1, 1, 0, 0) | (1, 0, 0, 0) | (0, 1, 0, 0) => '│',
    (2, 2, 0, 0) | (2, 0, 0, 0) | (0, 2, 0, 0) => '║',
    (0, 1, 0, 1) => '┌',
    (0, 1, 1, 0) => '┐',
    (1, 0, 0, 1) => '└',
    (1, 0, 1, 0) => '┘',
    (1, 1, 0, 1) => '├',
    (1, 1, 1, 0) => '┤',
    (0, 1, 1, 1) => '┬',
    (1, 0, 1, 1) => '┴',
    (1, 1, 1, 1) => '┼',
    (1, 1, 0, 2) => '╞',
    (1, 1, 2, 0) => '╡',
    (0, 1, 2, 2) => '╤',
    (1, 0, 2, 2) => '╧',
    (1, 1, 2, 2) => '╪',
    (2, 2, 0, 1) => '╟',
    (2, 2, 1, 0) => '╢',
    (0, 2, 1, 1) => '╥',
    (2, 0, 1, 1) => '╨',
    (2, 2, 1, 1) => '╫',
    (2, 2, 2, 2) => '╬',
    (2, 2, 0, 2) => '╠',
    (2, 2, 2, 0) => '╣',
    (0, 2, 2, 2) => '╦',
    (2, 0, 2, 2) => '╩',
    _ => return None,
  })
}

struct Matrix {
  w: usize,
  h: usize,
  /// half edges per position: up, down, left, right
  e: Vec<[u8; 4]>,
  text: Vec<char>,
}

impl Matrix {
  fn new(w: usize, h: usize) -> Matrix {
    Matrix {
      w,
      h,
      e: vec![[0; 4]; w * h],
      text: vec![' '; w * h],
    }
  }
  fn hline(&mut self, y: usize, xa: usize, xb: usize, t: u8) {
    for x in xa..=xb {
      let i = y * self.w + x;
      if x > xa {
        self.e[i][2] = self.e[i][2].max(t);
      }
      if x < xb {
        self.e[i][3] = self.e[i][3].max(t);
      }
    }
  }
  fn vline(&mut self, x: usize, ya: usize, yb: usize, t: u8) {
    for y in ya..=yb {
      let i = y * self.w + x;
      if y > ya {
        self.e[i][0] = self.e[i][0].max(t);
      }
      if y < yb {
        self.e[i][1] = self.e[i][1].max(t);
      }
    }
  }
  fn render(&self, indent: usize) -> Result<String, String> {
    let mut out = String::from("\n");
    for y in 0..self.h {
      let mut line = " ".repeat(indent);
      for x in 0..self.w {
        let i = y * self.w + x;
        let [u, d, l, r] = self.e[i];
        if (u, d, l, r) == (0, 0, 0, 0) {
          line.push(self.text[i]);
        } else {
          match junction(u, d, l, r) {
            Some(c) => line.push(c),
            None => return Err(format!("no box-drawing character for half-edges up {} down {} left {} right {}", u, d, l, r)),
          }
        }
      }
      out.push_str(line.trim_end());
      out.push('\n');
    }
    Ok(out)
  }
}

impl Grid {
  fn layout(&self, style: &Style) -> (Vec<usize>, Vec<usize>) {
    // column widths (interior), row heights (interior lines)
    let mut cw = vec![1usize; self.cols];
    let mut rh = vec![1usize; self.rows];
    for c in &self.cells {
      let wmax = c.lines.iter().map(|l| width(l)).max().unwrap_or(0) + 2;
      if c.c1 - c.c0 == 1 {
        cw[c.c0] = cw[c.c0].max(wmax);
      }
      if c.r1 - c.r0 == 1 {
        rh[c.r0] = rh[c.r0].max(c.lines.len().max(1));
      }
    }
    for (k, x) in self.extra_width.iter().enumerate() {
      cw[k] += x;
    }
    if style.wide_all {
      for w in cw.iter_mut() {
        *w += 3;
      }
    }
    // merged cells: widen the last column / heighten the last row of the span when needed
    for c in &self.cells {
      let wmax = c.lines.iter().map(|l| width(l)).max().unwrap_or(0) + 2;
      if c.c1 - c.c0 > 1 {
        let have: usize = cw[c.c0..c.c1].iter().sum::<usize>() + (c.c1 - c.c0 - 1);
        if have < wmax {
          cw[c.c1 - 1] += wmax - have;
        }
      }
      if c.r1 - c.r0 > 1 {
        let have: usize = rh[c.r0..c.r1].iter().sum::<usize>() + (c.r1 - c.r0 - 1);
        if have < c.lines.len() {
          rh[c.r1 - 1] += c.lines.len() - have;
        }
      }
    }
    (cw, rh)
  }
}

/// Renders the table; Err = the renderer cannot draw it (machinery error, never a verdict).
pub fn render(t: &SrcTable, style: &Style) -> Result<String, String> {
  // the logical grid in rules-as-rows form; transposed afterwards for rules-as-columns
  let ni = t.inputs.len();
  let no = t.outputs.len();
  let na = t.annotations.len();
  let has_values = t.inputs.iter().any(|i| i.1.is_some()) || t.outputs.iter().any(|o| o.1.is_some());
  let has_label_row = no > 1 && t.output_label.is_some();
  let h = 1 + has_label_row as usize + has_values as usize;
  let nr = t.rules.len();
  let rows = h + nr;
  let cols = 1 + ni + no + na;
  let mut cells: Vec<Cell> = vec![];
  let name_rows = 1 + has_label_row as usize; // rows spanned by expression / name cells
  // hit policy
  let hp_rows = if t.rules_as_rows || style.merged_hit_policy_cell { h } else { name_rows };
  cells.push(Cell {
    r0: 0,
    r1: hp_rows,
    c0: 0,
    c1: 1,
    lines: vec![t.hit_policy.clone()],
  });
  if hp_rows < h {
    cells.push(Cell {
      r0: hp_rows,
      r1: h,
      c0: 0,
      c1: 1,
      lines: vec![],
    });
  }
  for (k, (expr, vals)) in t.inputs.iter().enumerate() {
    cells.push(Cell {
      r0: 0,
      r1: name_rows,
      c0: 1 + k,
      c1: 2 + k,
      lines: expr.clone(),
    });
    if has_values {
      cells.push(Cell {
        r0: name_rows,
        r1: h,
        c0: 1 + k,
        c1: 2 + k,
        lines: vals.clone().unwrap_or_default(),
      });
    }
  }
  if no == 1 {
    cells.push(Cell {
      r0: 0,
      r1: name_rows,
      c0: 1 + ni,
      c1: 2 + ni,
      lines: t.output_label.clone().unwrap_or_default(),
    });
  } else {
    if has_label_row {
      cells.push(Cell {
        r0: 0,
        r1: 1,
        c0: 1 + ni,
        c1: 1 + ni + no,
        lines: t.output_label.clone().unwrap_or_default(),
      });
    }
    for (k, (name, _)) in t.outputs.iter().enumerate() {
      cells.push(Cell {
        r0: has_label_row as usize,
        r1: name_rows,
        c0: 1 + ni + k,
        c1: 2 + ni + k,
        lines: name.clone(),
      });
    }
  }
  if has_values {
    for (k, (_, vals)) in t.outputs.iter().enumerate() {
      cells.push(Cell {
        r0: name_rows,
        r1: h,
        c0: 1 + ni + k,
        c1: 2 + ni + k,
        lines: vals.clone().unwrap_or_default(),
      });
    }
  }
  for (k, a) in t.annotations.iter().enumerate() {
    cells.push(Cell {
      r0: 0,
      r1: name_rows,
      c0: 1 + ni + no + k,
      c1: 2 + ni + no + k,
      lines: a.clone(),
    });
    if has_values {
      cells.push(Cell {
        r0: name_rows,
        r1: h,
        c0: 1 + ni + no + k,
        c1: 2 + ni + no + k,
        lines: vec![],
      });
    }
  }
  for (r, (ins, outs, anns)) in t.rules.iter().enumerate() {
    cells.push(Cell {
      r0: h + r,
      r1: h + r + 1,
      c0: 0,
      c1: 1,
      lines: vec![(r + 1).to_string()],
    });
    for (k, e) in ins.iter().chain(outs.iter()).chain(anns.iter()).enumerate() {
      let entry_of = |rule: &(Vec<Vec<String>>, Vec<Vec<String>>, Vec<Vec<String>>)| -> Vec<String> { rule.0.iter().chain(rule.1.iter()).chain(rule.2.iter()).nth(k).cloned().unwrap_or_default() };
      let mergeable = style.merge_equal_entries && k < ni + no;
      // a cell already covered by the merged cell that started in an earlier rule
      if mergeable && r > 0 && entry_of(&t.rules[r - 1]) == *e {
        continue;
      }
      let mut last = r;
      if mergeable {
        while last + 1 < nr && entry_of(&t.rules[last + 1]) == *e {
          last += 1;
        }
      }
      cells.push(Cell {
        r0: h + r,
        r1: h + last + 1,
        c0: 1 + k,
        c1: 2 + k,
        lines: e.clone(),
      });
    }
  }
  let mut col_sep = vec![1u8; cols + 1];
  col_sep[1 + ni] = 2;
  if na > 0 {
    col_sep[1 + ni + no] = 2;
  }
  let mut row_sep = vec![1u8; rows + 1];
  row_sep[h] = 2;
  let mut extra_width = vec![0usize; cols];
  if style.wide_first_data_column {
    extra_width[1] = 5;
  }
  let mut g = Grid {
    rows,
    cols,
    col_sep,
    row_sep,
    cells,
    extra_width,
  };
  if !t.rules_as_rows {
    // transpose; the hit policy column becomes the last row
    let tr = |c: &Cell| Cell {
      r0: c.c0,
      r1: c.c1,
      c0: c.r0,
      c1: c.r1,
      lines: c.lines.clone(),
    };
    let mut cells: Vec<Cell> = g.cells.iter().map(tr).collect();
    // rows: [hp][inputs][outputs][annotations] -> move row 0 to the end
    let total_rows = g.cols;
    for c in cells.iter_mut() {
      if c.r0 == 0 {
        c.r0 = total_rows - 1;
        c.r1 = total_rows;
      } else {
        c.r0 -= 1;
        c.r1 -= 1;
      }
    }
    let mut row_sep = vec![1u8; total_rows + 1];
    row_sep[ni] = 2;
    if na > 0 {
      row_sep[ni + no] = 2;
    }
    let mut col_sep = vec![1u8; g.rows + 1];
    col_sep[h] = 2;
    let mut extra_width = vec![0usize; g.rows];
    if style.wide_first_data_column {
      extra_width[h.min(g.rows - 1)] = 5;
    }
    g = Grid {
      rows: total_rows,
      cols: g.rows,
      col_sep,
      row_sep,
      cells,
      extra_width,
    };
  }
  let (mut cw, rh) = g.layout(style);
  // the table is at least as wide as the name box needs (plus room for the box to end inside the last cell)
  if let Some(n) = &t.name {
    let need = width(n) + 6;
    let have: usize = cw.iter().sum::<usize>() + cw.len();
    if have < need {
      *cw.last_mut().unwrap() += need - have;
    }
  }
  // boundary coordinates
  let mut xs = vec![0usize];
  for w in &cw {
    xs.push(xs.last().unwrap() + w + 1);
  }
  let mut ys = vec![0usize];
  for hh in &rh {
    ys.push(ys.last().unwrap() + hh + 1);
  }
  let top = if t.name.is_some() { 2 } else { 0 };
  let table_w = xs[g.cols] + 1;
  // name box geometry
  let mut box_right = 0usize;
  if let Some(n) = &t.name {
    let need = width(n) + 3;
    box_right = match style.name_box {
      2 => xs[g.cols],
      1 => {
        // the first single-line column boundary at or beyond the needed width
        (0..=g.cols).filter(|k| g.col_sep[*k] == 1).map(|k| xs[k]).find(|x| *x >= need).unwrap_or(xs[g.cols])
      }
      _ => {
        // inside a cell: not on a boundary
        let mut x = need;
        while xs.contains(&x) {
          x += 1;
        }
        x
      }
    };
  }
  let w = table_w.max(box_right + 1);
  let hgt = top + ys[g.rows] + 1;
  let mut m = Matrix::new(w, hgt);
  for c in &g.cells {
    let (xa, xb, ya, yb) = (xs[c.c0], xs[c.c1], top + ys[c.r0], top + ys[c.r1]);
    m.hline(ya, xa, xb, g.row_sep[c.r0]);
    m.hline(yb, xa, xb, g.row_sep[c.r1]);
    m.vline(xa, ya, yb, g.col_sep[c.c0]);
    m.vline(xb, ya, yb, g.col_sep[c.c1]);
    // text: centred horizontally, from the first interior line
    let inner_w = xb - xa - 1;
    let inner_h = yb - ya - 1;
    let y0 = ya + 1 + (inner_h.saturating_sub(c.lines.len())) / 2;
    for (k, l) in c.lines.iter().enumerate() {
      let lw = width(l);
      if lw > inner_w {
        return Err(format!("cell text `{}` does not fit", l));
      }
      let x0 = xa + 1 + (inner_w - lw) / 2;
      for (j, ch) in l.chars().enumerate() {
        m.text[(y0 + k) * m.w + x0 + j] = ch;
      }
    }
  }
  if let Some(n) = &t.name {
    m.hline(0, 0, box_right, 1);
    m.vline(0, 0, top, 1);
    m.vline(box_right, 0, top, 1);
    // the bottom of the box lies on the table's top border (or extends it)
    m.hline(top, 0, box_right, 1);
    for (j, ch) in n.chars().enumerate() {
      m.text[m.w + 2 + j] = ch;
    }
  }
  m.render(2)
}
