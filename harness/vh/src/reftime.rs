//! Reference literal grammar, printer and calendar for the temporal types (no chrono, no floating point).

#[derive(Clone, Debug, PartialEq, Eq)]
pub struct RDate {
  pub year: i64,
  pub month: u32,
  pub day: u32,
}

#[derive(Clone, Debug, PartialEq, Eq)]
pub enum RZone {
  Local,
  Utc,
  /// seconds east of UTC
  Offset(i64),
  Named(String),
}

#[derive(Clone, Debug, PartialEq, Eq)]
pub struct RTime {
  pub hour: u32,
  pub minute: u32,
  pub second: u32,
  pub nanos: u64,
  pub zone: RZone,
}

#[derive(Clone, Debug, PartialEq, Eq)]
pub struct RDateTime {
  pub date: RDate,
  pub time: RTime,
}

pub fn is_leap(y: i64) -> bool {
  y.rem_euclid(4) == 0 && (y.rem_euclid(100) != 0 || y.rem_euclid(400) == 0)
}

pub fn days_in_month(y: i64, m: u32) -> u32 {
  match m {
    1 | 3 | 5 | 7 | 8 | 10 | 12 => 31,
    4 | 6 | 9 | 11 => 30,
    2 => {
      if is_leap(y) {
        29
      } else {
        28
      }
    }
    _ => 0,
  }
}

pub fn valid_date(y: i64, m: u32, d: u32) -> bool {
  (1..=12).contains(&m) && d >= 1 && d <= days_in_month(y, m) && (-999_999_999..=999_999_999).contains(&y)
}

/// Days since 1970-01-01 in the proleptic Gregorian calendar (Howard Hinnant's days_from_civil).
pub fn days_from_civil(y: i64, m: u32, d: u32) -> i64 {
  let y = if m <= 2 { y - 1 } else { y };
  let era = if y >= 0 { y } else { y - 399 } / 400;
  let yoe = y - era * 400;
  let mp = (m as i64 + 9) % 12;
  let doy = (153 * mp + 2) / 5 + d as i64 - 1;
  let doe = yoe * 365 + yoe / 4 - yoe / 100 + doy;
  era * 146097 + doe - 719468
}

/// ISO weekday 1 = Monday .. 7 = Sunday
pub fn weekday(y: i64, m: u32, d: u32) -> u32 {
  let z = days_from_civil(y, m, d);
  // 1970-01-01 was a Thursday (4)
  ((z + 3).rem_euclid(7) + 1) as u32
}

fn digits(s: &str) -> bool {
  !s.is_empty() && s.bytes().all(|b| b.is_ascii_digit())
}

/// Date literal: -?YYYY(Y*)-MM-DD, four or more year digits, more than four only without a leading zero.
pub fn parse_date(t: &str) -> Option<RDate> {
  if !t.is_ascii() {
    return None; // a literal is written with ASCII characters only
  }
  let (neg, body) = match t.strip_prefix('-') {
    Some(r) => (true, r),
    None => (false, t),
  };
  let parts: Vec<&str> = body.split('-').collect();
  if parts.len() != 3 {
    return None;
  }
  let (ys, ms, ds) = (parts[0], parts[1], parts[2]);
  if !digits(ys) || ys.len() < 4 || ys.len() > 9 || (ys.len() > 4 && ys.starts_with('0')) {
    return None;
  }
  if !digits(ms) || ms.len() != 2 || !digits(ds) || ds.len() != 2 {
    return None;
  }
  let mut y: i64 = ys.parse().ok()?;
  if neg {
    y = -y;
  }
  let (m, d): (u32, u32) = (ms.parse().ok()?, ds.parse().ok()?);
  if !valid_date(y, m, d) {
    return None;
  }
  Some(RDate { year: y, month: m, day: d })
}

/// true when the year of a syntactically fine date literal is 0 (`0000`, `-0000`): left unspecified
pub fn is_year_zero(t: &str) -> bool {
  let body = t.strip_prefix('-').unwrap_or(t);
  body.split('-').next().map(|y| digits(y) && y.bytes().all(|b| b == b'0')).unwrap_or(false)
}

pub fn print_date(d: &RDate) -> String {
  if d.year < 0 {
    format!("-{:04}-{:02}-{:02}", -d.year, d.month, d.day)
  } else {
    format!("{:04}-{:02}-{:02}", d.year, d.month, d.day)
  }
}

pub fn valid_zone_id(id: &str, known: &dyn Fn(&str) -> bool) -> bool {
  known(id)
}

/// Time literal hh:mm:ss(.f+)? followed by nothing, Z, +hh:mm(:ss)?, -hh:mm(:ss)? or @Zone/Id.
/// Returns Err(true) for "unspecified" spellings, Err(false) for invalid ones (offset minutes / seconds of 60 and above are invalid).
pub fn parse_time(t: &str, known_zone: &dyn Fn(&str) -> bool) -> Result<RTime, bool> {
  if !t.is_ascii() {
    return Err(false);
  }
  let b = t.as_bytes();
  if b.len() < 8 || b[2] != b':' || b[5] != b':' {
    return Err(false);
  }
  let (hs, ms, ss) = (&t[0..2], &t[3..5], &t[6..8]);
  if !digits(hs) || !digits(ms) || !digits(ss) {
    return Err(false);
  }
  let mut rest = &t[8..];
  let mut nanos = 0u64;
  if let Some(r) = rest.strip_prefix('.') {
    let n = r.bytes().take_while(|c| c.is_ascii_digit()).count();
    if n == 0 {
      return Err(false);
    }
    let frac = &r[..n];
    // nanosecond precision: more than nine digits is beyond the property
    if n > 9 {
      return Err(true);
    }
    nanos = format!("{:0<9}", frac).parse().map_err(|_| false)?;
    rest = &r[n..];
  }
  let (h, m, s): (u32, u32, u32) = (hs.parse().map_err(|_| false)?, ms.parse().map_err(|_| false)?, ss.parse().map_err(|_| false)?);
  if h > 23 || m > 59 || s > 59 {
    return Err(false);
  }
  let zone = if rest.is_empty() {
    RZone::Local
  } else if rest == "Z" || rest == "z" {
    RZone::Utc
  } else if let Some(id) = rest.strip_prefix('@') {
    if known_zone(id) {
      RZone::Named(id.to_string())
    } else {
      return Err(false);
    }
  } else if rest.starts_with('+') || rest.starts_with('-') {
    let neg = rest.starts_with('-');
    let o = &rest[1..];
    let ob = o.as_bytes();
    if !(ob.len() == 5 || ob.len() == 8) || ob[2] != b':' || (ob.len() == 8 && ob[5] != b':') {
      return Err(false);
    }
    let (oh, om) = (&o[0..2], &o[3..5]);
    let os = if ob.len() == 8 { &o[6..8] } else { "00" };
    if !digits(oh) || !digits(om) || !digits(os) {
      return Err(false);
    }
    let (oh, om, os): (i64, i64, i64) = (oh.parse().map_err(|_| false)?, om.parse().map_err(|_| false)?, os.parse().map_err(|_| false)?);
    if oh > 14 {
      return Err(false);
    }
    if om > 59 || os > 59 {
      return Err(false);
    }
    let secs = oh * 3600 + om * 60 + os;
    if secs == 0 {
      RZone::Utc
    } else {
      RZone::Offset(if neg { -secs } else { secs })
    }
  } else {
    return Err(false);
  };
  Ok(RTime { hour: h, minute: m, second: s, nanos, zone })
}

pub fn print_zone(z: &RZone) -> String {
  match z {
    RZone::Local => String::new(),
    RZone::Utc => "Z".into(),
    RZone::Offset(s) => {
      let sign = if *s < 0 { '-' } else { '+' };
      let a = s.abs();
      let (h, m, sec) = (a / 3600, (a % 3600) / 60, a % 60);
      if sec > 0 {
        format!("{}{:02}:{:02}:{:02}", sign, h, m, sec)
      } else {
        format!("{}{:02}:{:02}", sign, h, m)
      }
    }
    RZone::Named(id) => format!("@{}", id),
  }
}

pub fn print_fraction(nanos: u64) -> String {
  if nanos == 0 {
    return String::new();
  }
  let s = format!("{:09}", nanos);
  format!(".{}", s.trim_end_matches('0'))
}

pub fn print_time(t: &RTime) -> String {
  format!("{:02}:{:02}:{:02}{}{}", t.hour, t.minute, t.second, print_fraction(t.nanos), print_zone(&t.zone))
}

pub fn parse_date_time(t: &str, known_zone: &dyn Fn(&str) -> bool) -> Result<RDateTime, bool> {
  let idx = t.find('T').ok_or(false)?;
  let date = parse_date(&t[..idx]).ok_or(is_year_zero(&t[..idx]))?;
  let time = parse_time(&t[idx + 1..], known_zone)?;
  Ok(RDateTime { date, time })
}

pub fn print_date_time(d: &RDateTime) -> String {
  format!("{}T{}", print_date(&d.date), print_time(&d.time))
}

/// Days-and-time duration in nanoseconds. Err(true): beyond nanosecond precision / representable range (unspecified).
pub fn parse_dt_duration(t: &str) -> Result<i128, bool> {
  if !t.is_ascii() {
    return Err(false);
  }
  let (neg, body) = match t.strip_prefix('-') {
    Some(r) => (true, r),
    None => (false, t),
  };
  let body = body.strip_prefix('P').ok_or(false)?;
  let (date_part, time_part) = match body.find('T') {
    Some(i) => (&body[..i], Some(&body[i + 1..])),
    None => (body, None),
  };
  let mut total: i128 = 0;
  let mut any = false;
  if !date_part.is_empty() {
    let d = date_part.strip_suffix('D').ok_or(false)?;
    if !digits(d) {
      return Err(false);
    }
    if d.len() > 18 {
      return Err(true);
    }
    total += d.parse::<i128>().map_err(|_| false)? * 86_400_000_000_000;
    any = true;
  }
  if let Some(tp) = time_part {
    if tp.is_empty() {
      return Err(false);
    }
    let mut rest = tp;
    let mut seen_any_time = false;
    for (unit, nanos) in [('H', 3_600_000_000_000i128), ('M', 60_000_000_000), ('S', 1_000_000_000)] {
      if let Some(i) = rest.find(unit) {
        let num = &rest[..i];
        if unit == 'S' && num.contains('.') {
          let (ip, fp) = num.split_once('.').unwrap();
          if digits(ip) && fp.is_empty() {
            return Err(true); // `PT1.S`: rejected by XSD, pinned as valid by the repository's own duration tests
          }
          if !digits(ip) || !digits(fp) {
            return Err(false);
          }
          if fp.len() > 9 || ip.len() > 18 {
            return Err(true);
          }
          total += ip.parse::<i128>().map_err(|_| false)? * nanos;
          total += format!("{:0<9}", fp).parse::<i128>().map_err(|_| false)?;
        } else {
          if !digits(num) {
            return Err(false);
          }
          if num.len() > 18 {
            return Err(true);
          }
          total += num.parse::<i128>().map_err(|_| false)? * nanos;
        }
        rest = &rest[i + 1..];
        seen_any_time = true;
      }
    }
    if !rest.is_empty() || !seen_any_time {
      return Err(false);
    }
    any = true;
  }
  if !any {
    return Err(false);
  }
  Ok(if neg { -total } else { total })
}

pub fn print_dt_duration(n: i128) -> String {
  if n == 0 {
    return "PT0S".into();
  }
  let sign = if n < 0 { "-" } else { "" };
  let mut r = n.abs();
  let d = r / 86_400_000_000_000;
  r %= 86_400_000_000_000;
  let h = r / 3_600_000_000_000;
  r %= 3_600_000_000_000;
  let m = r / 60_000_000_000;
  r %= 60_000_000_000;
  let s = r / 1_000_000_000;
  let f = (r % 1_000_000_000) as u64;
  let mut out = format!("{}P", sign);
  if d > 0 {
    out.push_str(&format!("{}D", d));
  }
  if h > 0 || m > 0 || s > 0 || f > 0 {
    out.push('T');
    if h > 0 {
      out.push_str(&format!("{}H", h));
    }
    if m > 0 {
      out.push_str(&format!("{}M", m));
    }
    if s > 0 || f > 0 {
      out.push_str(&format!("{}{}S", s, print_fraction(f)));
    }
  }
  out
}

/// Years-and-months duration in months.
pub fn parse_ym_duration(t: &str) -> Result<i128, bool> {
  if !t.is_ascii() {
    return Err(false);
  }
  let (neg, body) = match t.strip_prefix('-') {
    Some(r) => (true, r),
    None => (false, t),
  };
  let mut rest = body.strip_prefix('P').ok_or(false)?;
  let mut total: i128 = 0;
  let mut any = false;
  for (unit, mult) in [('Y', 12i128), ('M', 1)] {
    if let Some(i) = rest.find(unit) {
      let num = &rest[..i];
      if !digits(num) {
        return Err(false);
      }
      if num.len() > 17 {
        return Err(true);
      }
      total += num.parse::<i128>().map_err(|_| false)? * mult;
      rest = &rest[i + 1..];
      any = true;
    }
  }
  if !rest.is_empty() || !any {
    return Err(false);
  }
  Ok(if neg { -total } else { total })
}

pub fn print_ym_duration(m: i128) -> String {
  if m == 0 {
    return "P0M".into();
  }
  let sign = if m < 0 { "-" } else { "" };
  let a = m.abs();
  let (y, mo) = (a / 12, a % 12);
  let mut out = format!("{}P", sign);
  if y > 0 {
    out.push_str(&format!("{}Y", y));
  }
  if mo > 0 {
    out.push_str(&format!("{}M", mo));
  }
  out
}

/// Instant of a date-time with an explicit offset, in nanoseconds since the epoch.
pub fn instant(dt: &RDateTime, offset_secs: i64) -> i128 {
  let days = days_from_civil(dt.date.year, dt.date.month, dt.date.day) as i128;
  let secs = days * 86400 + dt.time.hour as i128 * 3600 + dt.time.minute as i128 * 60 + dt.time.second as i128 - offset_secs as i128;
  secs * 1_000_000_000 + dt.time.nanos as i128
}

#[cfg(test)]
mod tests {
  use super::*;
  #[test]
  fn calendar() {
    assert_eq!(days_from_civil(1970, 1, 1), 0);
    assert_eq!(weekday(1970, 1, 1), 4);
    assert_eq!(weekday(2020, 1, 1), 3);
    assert_eq!(weekday(2000, 2, 29), 2);
    assert!(is_leap(0) && is_leap(-4) && !is_leap(-1) && !is_leap(1900) && is_leap(2000));
    assert_eq!(print_dt_duration(parse_dt_duration("PT36H").unwrap()), "P1DT12H");
    assert_eq!(print_ym_duration(parse_ym_duration("P14M").unwrap()), "P1Y2M");
  }
}
