pub mod report;
pub mod term;
pub mod rval;
pub mod ref_feel;
pub mod gen_core;
pub mod dmn;
pub mod engines;
pub mod replay;
