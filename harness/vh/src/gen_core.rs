//! Bottom-up enumerator of the FEEL core fragment used by C01 and C13 (DESIGN.md §4 C01).

use crate::rval::{RVal, Rat};
use crate::term::*;

pub struct K {
  pub name: &'static str,
  pub arity: usize,
  pub build: fn(&[T]) -> T,
}

fn bx(t: &T) -> Box<T> {
  Box::new(t.clone())
}

macro_rules! kbin {
  ($name:literal, $op:expr) => {
    K {
      name: $name,
      arity: 2,
      build: |o| T::Bin($op, bx(&o[0]), bx(&o[1])),
    }
  };
}

fn v(name: &str) -> T {
  nm(name)
}

/// The constructs of the fragment. Binder names: i j (iteration), p q (parameters), a b (keys), f r.
pub fn constructs() -> Vec<K> {
  vec![
    kbin!("+", Op::Add),
    kbin!("-", Op::Sub),
    kbin!("*", Op::Mul),
    kbin!("/", Op::Div),
    kbin!("**", Op::Exp),
    kbin!("=", Op::Eq),
    kbin!("!=", Op::Nq),
    kbin!("<", Op::Lt),
    kbin!("<=", Op::Le),
    kbin!(">", Op::Gt),
    kbin!(">=", Op::Ge),
    kbin!("and", Op::And),
    kbin!("or", Op::Or),
    K { name: "neg", arity: 1, build: |o| T::Neg(bx(&o[0])) },
    K { name: "if", arity: 3, build: |o| T::If(bx(&o[0]), bx(&o[1]), bx(&o[2])) },
    K { name: "between", arity: 3, build: |o| T::Between(bx(&o[0]), bx(&o[1]), bx(&o[2])) },
    K { name: "in", arity: 2, build: |o| T::Bin(Op::In, bx(&o[0]), bx(&o[1])) },
    K { name: "in-list2", arity: 3, build: |o| T::InList(bx(&o[0]), vec![o[1].clone(), o[2].clone()]) },
    K { name: "in-closed", arity: 1, build: |o| T::Bin(Op::In, bx(&o[0]), Box::new(T::Range(true, Box::new(num(1)), Box::new(num(2)), true))) },
    K { name: "in-open", arity: 1, build: |o| T::Bin(Op::In, bx(&o[0]), Box::new(T::Range(false, Box::new(num(0)), Box::new(num(2)), false))) },
    K { name: "in-half-x", arity: 1, build: |o| T::Bin(Op::In, bx(&o[0]), Box::new(T::Range(false, Box::new(num(1)), Box::new(v("x")), true))) },
    K { name: "in-str-range", arity: 1, build: |o| T::Bin(Op::In, bx(&o[0]), Box::new(T::Range(true, Box::new(st("a")), Box::new(st("b")), false))) },
    K {
      name: "in-unary",
      arity: 1,
      build: |o| T::InList(bx(&o[0]), vec![T::Unary(UOp::Lt, Box::new(num(1))), T::Unary(UOp::Ge, Box::new(num(2)))]),
    },
    // unary tests over strings, each comparison on its own (the end point is one of the string leaves, so that equality is reached)
    K { name: "in-unary-str-lt", arity: 1, build: |o| T::Bin(Op::In, bx(&o[0]), Box::new(T::Unary(UOp::Lt, Box::new(st("b"))))) },
    K { name: "in-unary-str-le", arity: 1, build: |o| T::Bin(Op::In, bx(&o[0]), Box::new(T::Unary(UOp::Le, Box::new(st("a"))))) },
    K { name: "in-unary-str-gt", arity: 1, build: |o| T::Bin(Op::In, bx(&o[0]), Box::new(T::Unary(UOp::Gt, Box::new(st("a"))))) },
    K { name: "in-unary-str-ge", arity: 1, build: |o| T::Bin(Op::In, bx(&o[0]), Box::new(T::Unary(UOp::Ge, Box::new(st("b"))))) },
    K { name: "in-unary-str-list", arity: 1, build: |o| T::InList(bx(&o[0]), vec![T::Unary(UOp::Lt, Box::new(st("a"))), T::Unary(UOp::Ge, Box::new(st("b")))]) },
    K { name: "in-unary-num-ge", arity: 1, build: |o| T::Bin(Op::In, bx(&o[0]), Box::new(T::Unary(UOp::Ge, Box::new(num(1))))) },
    K { name: "in-unary-num-le", arity: 1, build: |o| T::Bin(Op::In, bx(&o[0]), Box::new(T::Unary(UOp::Le, Box::new(num(1))))) },
    K { name: "in-unary-le-gt", arity: 1, build: |o| T::InList(bx(&o[0]), vec![T::Unary(UOp::Le, Box::new(num(0))), T::Unary(UOp::Gt, Box::new(v("x")))]) },
    K { name: "list1", arity: 1, build: |o| T::List(vec![o[0].clone()]) },
    K { name: "list2", arity: 2, build: |o| T::List(vec![o[0].clone(), o[1].clone()]) },
    K { name: "context", arity: 2, build: |o| T::Ctx(vec![("a".into(), o[0].clone()), ("b".into(), o[1].clone())]) },
    K {
      name: "context-ref",
      arity: 2,
      build: |o| T::Ctx(vec![("a".into(), o[0].clone()), ("b".into(), T::List(vec![v("a"), o[1].clone()]))]),
    },
    K { name: "path-a", arity: 1, build: |o| T::Path(bx(&o[0]), "a".into()) },
    K { name: "path-b", arity: 1, build: |o| T::Path(bx(&o[0]), "b".into()) },
    K { name: "filter", arity: 2, build: |o| T::Filter(bx(&o[0]), bx(&o[1])) },
    K { name: "filter-item-gt", arity: 2, build: |o| T::Filter(bx(&o[0]), Box::new(bin(Op::Gt, v("item"), o[1].clone()))) },
    K { name: "filter-item-eq", arity: 2, build: |o| T::Filter(bx(&o[0]), Box::new(bin(Op::Eq, v("item"), o[1].clone()))) },
    K { name: "filter-entry", arity: 2, build: |o| T::Filter(bx(&o[0]), Box::new(bin(Op::Eq, v("a"), o[1].clone()))) },
    K {
      name: "filter-item-path",
      arity: 2,
      build: |o| T::Filter(bx(&o[0]), Box::new(bin(Op::Ge, T::Path(Box::new(v("item")), "a".into()), o[1].clone()))),
    },
    K { name: "filter-neg-index", arity: 1, build: |o| T::Filter(bx(&o[0]), Box::new(num(-1))) },
    K { name: "for", arity: 2, build: |o| T::For(vec![("i".into(), Dom::Single(o[0].clone()))], Box::new(T::List(vec![v("i"), o[1].clone()]))) },
    K { name: "for-body", arity: 2, build: |o| T::For(vec![("i".into(), Dom::Single(o[0].clone()))], bx(&o[1])) },
    K {
      name: "for-2",
      arity: 2,
      build: |o| T::For(vec![("i".into(), Dom::Single(o[0].clone())), ("j".into(), Dom::Single(o[1].clone()))], Box::new(T::List(vec![v("i"), v("j")]))),
    },
    K { name: "for-range-up", arity: 1, build: |o| T::For(vec![("i".into(), Dom::Range(num(1), o[0].clone()))], Box::new(bin(Op::Mul, v("i"), num(2)))) },
    K { name: "for-range-down", arity: 1, build: |o| T::For(vec![("i".into(), Dom::Range(o[0].clone(), num(0)))], Box::new(v("i"))) },
    K {
      name: "for-range-list",
      arity: 1,
      build: |o| T::For(vec![("i".into(), Dom::Range(num(1), num(2))), ("j".into(), Dom::Single(o[0].clone()))], Box::new(T::List(vec![v("i"), v("j")]))),
    },
    K {
      name: "for-list-range",
      arity: 1,
      build: |o| T::For(vec![("j".into(), Dom::Single(o[0].clone())), ("i".into(), Dom::Range(num(2), num(1)))], Box::new(T::List(vec![v("j"), v("i")]))),
    },
    K {
      name: "for-partial",
      arity: 1,
      build: |o| {
        T::For(
          vec![("i".into(), Dom::Single(o[0].clone()))],
          Box::new(T::If(
            Box::new(bin(Op::Eq, v("partial"), T::List(vec![]))),
            Box::new(v("i")),
            Box::new(T::List(vec![v("i"), T::Filter(Box::new(v("partial")), Box::new(num(-1)))])),
          )),
        )
      },
    },
    K { name: "some", arity: 2, build: |o| T::Some_(vec![("i".into(), o[0].clone())], Box::new(bin(Op::Eq, v("i"), o[1].clone()))) },
    K { name: "every", arity: 2, build: |o| T::Every(vec![("i".into(), o[0].clone())], Box::new(bin(Op::Eq, v("i"), o[1].clone()))) },
    K { name: "some-body", arity: 2, build: |o| T::Some_(vec![("i".into(), o[0].clone())], bx(&o[1])) },
    K { name: "every-body", arity: 2, build: |o| T::Every(vec![("i".into(), o[0].clone())], bx(&o[1])) },
    K { name: "some-item", arity: 1, build: |o| T::Some_(vec![("i".into(), o[0].clone())], Box::new(v("i"))) },
    K { name: "every-item", arity: 1, build: |o| T::Every(vec![("i".into(), o[0].clone())], Box::new(v("i"))) },
    K {
      name: "some-2",
      arity: 2,
      build: |o| T::Some_(vec![("i".into(), o[0].clone()), ("j".into(), o[1].clone())], Box::new(bin(Op::Eq, v("i"), v("j")))),
    },
    K {
      name: "every-2",
      arity: 2,
      build: |o| T::Every(vec![("i".into(), o[0].clone()), ("j".into(), o[1].clone())], Box::new(bin(Op::Lt, v("i"), v("j")))),
    },
    K {
      name: "invoke",
      arity: 2,
      build: |o| T::Call(Box::new(T::Func(vec![("p".into(), None)], Box::new(T::List(vec![v("p"), o[1].clone()])))), vec![o[0].clone()]),
    },
    K { name: "invoke-body", arity: 2, build: |o| T::Call(Box::new(T::Func(vec![("p".into(), None)], bx(&o[1]))), vec![o[0].clone()]) },
    K {
      name: "invoke-named",
      arity: 2,
      build: |o| {
        T::CallNamed(
          Box::new(T::Func(vec![("p".into(), None), ("q".into(), None)], Box::new(T::List(vec![v("p"), v("q")])))),
          vec![("q".into(), o[0].clone()), ("p".into(), o[1].clone())],
        )
      },
    },
    // parameters declared in an order that is not the alphabetical one, named arguments in both orders, positional
    K {
      name: "invoke-named-declared-q-p",
      arity: 2,
      build: |o| {
        T::List(vec![
          T::CallNamed(Box::new(T::Func(vec![("q".into(), None), ("p".into(), None)], Box::new(T::List(vec![v("p"), v("q")])))), vec![("q".into(), o[0].clone()), ("p".into(), o[1].clone())]),
          T::CallNamed(Box::new(T::Func(vec![("q".into(), None), ("p".into(), None)], Box::new(T::List(vec![v("p"), v("q")])))), vec![("p".into(), o[1].clone()), ("q".into(), o[0].clone())]),
          T::Call(Box::new(T::Func(vec![("q".into(), None), ("p".into(), None)], Box::new(T::List(vec![v("p"), v("q")])))), vec![o[0].clone(), o[1].clone()]),
        ])
      },
    },
    K {
      name: "invoke-too-few",
      arity: 1,
      build: |o| T::Call(Box::new(T::Func(vec![("p".into(), None), ("q".into(), None)], Box::new(v("p")))), vec![o[0].clone()]),
    },
    K {
      name: "invoke-named-missing",
      arity: 1,
      build: |o| T::CallNamed(Box::new(T::Func(vec![("p".into(), None), ("q".into(), None)], Box::new(v("p")))), vec![("p".into(), o[0].clone())]),
    },
    K {
      name: "invoke-in-context",
      arity: 2,
      build: |o| {
        T::Path(
          Box::new(T::Ctx(vec![
            ("f".into(), T::Func(vec![("p".into(), None)], Box::new(T::List(vec![v("p"), o[0].clone()])))),
            ("r".into(), T::Call(Box::new(v("f")), vec![o[1].clone()])),
          ])),
          "r".into(),
        )
      },
    },
    K { name: "invoke-non-function", arity: 2, build: |o| T::Call(bx(&o[0]), vec![o[1].clone()]) },
    // a function without parameters, invoked, and another operand read after the invocation has ended
    K { name: "invoke-nullary", arity: 2, build: |o| T::List(vec![T::Call(Box::new(T::Func(vec![], bx(&o[0]))), vec![]), o[1].clone()]) },
    K {
      name: "invoke-nullary-in-context",
      arity: 2,
      build: |o| {
        T::Path(
          Box::new(T::Ctx(vec![
            ("a".into(), o[1].clone()),
            ("f".into(), T::Func(vec![], bx(&o[0]))),
            ("r".into(), T::Call(Box::new(v("f")), vec![])),
            ("b".into(), T::List(vec![v("r"), v("a"), o[1].clone()])),
          ])),
          "b".into(),
        )
      },
    },
    // ... invoked from the body of an iteration, whose variable is read after the invocation
    K {
      name: "invoke-nullary-in-for",
      arity: 2,
      build: |o| {
        T::For(
          vec![("i".into(), Dom::Single(o[1].clone()))],
          Box::new(T::List(vec![T::Call(Box::new(T::Func(vec![], bx(&o[0]))), vec![]), v("i")])),
        )
      },
    },
    // a name introduced by the expression that is spelled like a built-in function, invoked: the introduced function is meant
    K {
      name: "invoke-entry-named-like-a-built-in",
      arity: 2,
      build: |o| {
        T::Path(
          Box::new(T::Ctx(vec![("max".into(), T::Func(vec![("p".into(), None), ("q".into(), None)], Box::new(T::List(vec![v("q"), v("p")])))), ("r".into(), T::Call(Box::new(v("max")), vec![o[0].clone(), o[1].clone()]))])),
          "r".into(),
        )
      },
    },
    K {
      name: "invoke-variable-named-like-a-built-in",
      arity: 2,
      build: |o| T::For(vec![("sum".into(), Dom::Single(T::List(vec![T::Func(vec![("p".into(), None)], Box::new(T::List(vec![v("p"), o[1].clone()])))])))], Box::new(T::Call(Box::new(v("sum")), vec![o[0].clone()]))),
    },
    K {
      name: "invoke-parameter-named-like-a-built-in",
      arity: 2,
      build: |o| T::Call(Box::new(T::Func(vec![("count".into(), None)], Box::new(T::Call(Box::new(v("count")), vec![o[0].clone()])))), vec![T::Func(vec![("p".into(), None)], Box::new(T::List(vec![v("p"), o[1].clone()])))]),
    },
    // one function invoked from the body of another: the outer parameter is read after the inner invocation has ended
    K {
      name: "invoke-nested",
      arity: 2,
      build: |o| {
        T::Call(
          Box::new(T::Func(
            vec![("p".into(), None)],
            Box::new(T::List(vec![T::Call(Box::new(T::Func(vec![("q".into(), None)], Box::new(T::List(vec![v("q"), v("p")])))), vec![o[1].clone()]), v("p")])),
          )),
          vec![o[0].clone()],
        )
      },
    },
    // a function value that leaves its defining context and captures an entry of it
    K {
      name: "closure-escape",
      arity: 2,
      build: |o| {
        T::Call(
          Box::new(T::Path(
            Box::new(T::Ctx(vec![("a".into(), o[0].clone()), ("f".into(), T::Func(vec![("p".into(), None)], Box::new(T::List(vec![v("p"), v("a")]))))])),
            "f".into(),
          )),
          vec![o[1].clone()],
        )
      },
    },
    // curried function
    K {
      name: "closure-curry",
      arity: 2,
      build: |o| {
        T::Call(
          Box::new(T::Call(
            Box::new(T::Func(vec![("p".into(), None)], Box::new(T::Func(vec![("q".into(), None)], Box::new(T::List(vec![v("p"), v("q")])))))),
            vec![o[0].clone()],
          )),
          vec![o[1].clone()],
        )
      },
    },
  ]
}

pub fn leaves_full() -> Vec<T> {
  vec![
    num(0),
    num(1),
    num(2),
    st("a"),
    st("b"),
    T::Bool(true),
    T::Bool(false),
    T::Null,
    v("x"),
    v("y"),
    T::List(vec![]),
    T::List(vec![num(1), num(2), num(3)]),
    ctx(vec![("a", num(1)), ("b", num(2))]),
    T::List(vec![ctx(vec![("a", num(1))]), ctx(vec![("a", num(2)), ("b", num(3))])]),
    // contexts that carry their own `item` entry (the filter treats them specially)
    T::List(vec![ctx(vec![("item", num(1)), ("a", num(1))]), ctx(vec![("item", num(2)), ("a", num(2))])]),
  ]
}

pub fn leaves_reduced(thorough: bool) -> Vec<T> {
  if thorough {
    vec![num(1), num(2), st("a"), T::Null, v("x"), T::Bool(true), T::List(vec![num(1), num(2)])]
  } else {
    vec![num(1), v("x"), T::Null, T::List(vec![num(1), num(2)])]
  }
}

pub fn binding_values(thorough: bool) -> Vec<RVal> {
  let mut vals = vec![
    RVal::int(1),
    RVal::s("a"),
    RVal::Bool(true),
    RVal::Null,
    RVal::List(vec![RVal::int(1), RVal::int(2)]),
    RVal::Ctx(vec![("a".into(), RVal::int(1))]),
  ];
  if thorough {
    vals.extend(vec![
      RVal::int(0),
      RVal::Num(Rat::new(-3, 2).unwrap()),
      RVal::s(""),
      RVal::Bool(false),
      RVal::List(vec![]),
      RVal::List(vec![RVal::Null]),
      RVal::List(vec![RVal::int(1), RVal::s("a")]),
      RVal::List(vec![RVal::Ctx(vec![("a".into(), RVal::int(1))]), RVal::Ctx(vec![("a".into(), RVal::int(2))])]),
      RVal::Ctx(vec![("a".into(), RVal::Ctx(vec![("b".into(), RVal::int(1))]))]),
    ]);
  }
  vals
}

fn product(slots: usize, pool: &[T], f: &mut dyn FnMut(&[T])) {
  let mut idx = vec![0usize; slots];
  if pool.is_empty() {
    return;
  }
  loop {
    let ops: Vec<T> = idx.iter().map(|i| pool[*i].clone()).collect();
    f(&ops);
    let mut k = slots;
    loop {
      if k == 0 {
        return;
      }
      k -= 1;
      if idx[k] + 1 < pool.len() {
        idx[k] += 1;
        break;
      }
      idx[k] = 0;
    }
  }
}

/// Level 1: every construct over the full leaf set in every slot.
pub fn level1(pool: &[T]) -> Vec<(String, T)> {
  let mut out = vec![];
  for k in constructs() {
    product(k.arity, pool, &mut |ops| out.push((k.name.to_string(), (k.build)(ops))));
  }
  out
}

/// Level 2: every construct with exactly one slot filled by a level-1 term (over the reduced leaf set),
/// in every slot position, remaining slots from the reduced leaves. Generated in chunks
/// (construct index, slot) so that the space is streamed, never materialised.
pub fn level2_chunks() -> Vec<(usize, usize)> {
  let mut out = vec![];
  for (ki, k) in constructs().iter().enumerate() {
    for slot in 0..k.arity {
      out.push((ki, slot));
    }
  }
  out
}

pub fn level2_chunk(thorough: bool, ki: usize, slot: usize, inner: &[(String, T)], f: &mut dyn FnMut(String, T)) {
  let red = leaves_reduced(thorough);
  let ks = constructs();
  let k = &ks[ki];
  for (iname, it) in inner {
    if k.arity == 1 {
      f(format!("{}[{}]<-{}", k.name, slot, iname), (k.build)(&[it.clone()]));
    } else {
      product(k.arity - 1, &red, &mut |rest| {
        let mut ops: Vec<T> = rest.to_vec();
        ops.insert(slot, it.clone());
        f(format!("{}[{}]<-{}", k.name, slot, iname), (k.build)(&ops));
      });
    }
  }
}

/// Level 3 (thorough): ordered triples of the scope-pushing / structural constructs nested along one spine.
pub fn level3_spines() -> Vec<(String, T)> {
  let structural = [
    "context", "context-ref", "filter-item-gt", "filter-entry", "for", "for-2", "some", "every", "invoke", "invoke-in-context", "path-a", "list2", "if", "in", "for-partial", "closure-escape",
  ];
  let ks: Vec<K> = constructs().into_iter().filter(|k| structural.contains(&k.name)).collect();
  let fill = [num(1), nm("x"), T::List(vec![num(1), num(2)])];
  let mut out = vec![];
  for o in &ks {
    for m in &ks {
      for i in &ks {
        for oslot in 0..o.arity {
          for mslot in 0..m.arity {
            let iops: Vec<T> = (0..i.arity).map(|k| fill[(k + 2) % 3].clone()).collect();
            let it = (i.build)(&iops);
            let mut mops: Vec<T> = (0..m.arity).map(|k| fill[k % 3].clone()).collect();
            mops[mslot] = it;
            let mt = (m.build)(&mops);
            let mut oops: Vec<T> = (0..o.arity).map(|k| fill[(k + 1) % 3].clone()).collect();
            oops[oslot] = mt;
            out.push((format!("{}[{}]<{}[{}]<{}", o.name, oslot, m.name, mslot, i.name), (o.build)(&oops)));
          }
        }
      }
    }
  }
  out
}

/// Multi-variable iteration: every combination of domain shapes, 2 and 3 domains, every order.
/// A list of numbers `in` a list of lists of numbers: left lists of 1..2 items and one inner list of 1..3 items over
/// {1, 2, 3}, then two inner lists of 1..2 items; also with the left list bound to the name `x`-free form only (literals).
pub fn lists_in_lists() -> Vec<(String, T)> {
  fn lists(max: usize) -> Vec<Vec<i64>> {
    let mut out: Vec<Vec<i64>> = vec![];
    let mut layer: Vec<Vec<i64>> = vec![vec![]];
    for _ in 0..max {
      let mut next = vec![];
      for l in &layer {
        for v in 1..=3 {
          let mut m = l.clone();
          m.push(v);
          next.push(m);
        }
      }
      out.extend(next.iter().cloned());
      layer = next;
    }
    out
  }
  let tl = |l: &Vec<i64>| T::List(l.iter().map(|v| num(*v)).collect());
  let mut out = vec![];
  for x in lists(2) {
    for a in lists(3) {
      out.push((format!("list-in-lists:1:{:?}:{:?}", x, a), T::Bin(Op::In, Box::new(tl(&x)), Box::new(T::List(vec![tl(&a)])))));
    }
    for a in lists(2) {
      for b in lists(2) {
        out.push((format!("list-in-lists:2:{:?}:{:?}:{:?}", x, a, b), T::Bin(Op::In, Box::new(tl(&x)), Box::new(T::List(vec![tl(&a), tl(&b)])))));
      }
    }
  }
  out
}

pub fn iteration_products() -> Vec<(String, T)> {
  let shapes: Vec<(&str, Dom)> = vec![
    ("empty", Dom::Single(T::List(vec![]))),
    ("single", Dom::Single(T::List(vec![num(7)]))),
    ("two", Dom::Single(T::List(vec![num(1), num(2)]))),
    ("strs", Dom::Single(T::List(vec![st("a"), st("b"), st("c")]))),
    ("scalar", Dom::Single(num(5))),
    ("null", Dom::Single(T::Null)),
    ("up", Dom::Range(num(1), num(3))),
    ("down", Dom::Range(num(2), num(1))),
    ("one", Dom::Range(num(4), num(4))),
    ("x", Dom::Single(nm("x"))),
  ];
  let vars = ["i", "j", "k"];
  let mut out = vec![];
  for n in 2..=3usize {
    let mut idx = vec![0usize; n];
    'outer: loop {
      let doms: Vec<(String, Dom)> = idx.iter().enumerate().map(|(k, s)| (vars[k].to_string(), shapes[*s].1.clone())).collect();
      let label: Vec<&str> = idx.iter().map(|s| shapes[*s].0).collect();
      let tuple = T::List(vars[..n].iter().map(|v| nm(v)).collect());
      out.push((format!("for-product:{}", label.join(",")), T::For(doms.clone(), Box::new(tuple.clone()))));
      let qdoms: Vec<(String, T)> = doms
        .iter()
        .filter_map(|(v, d)| match d {
          Dom::Single(t) => Some((v.clone(), t.clone())),
          _ => None,
        })
        .collect();
      if qdoms.len() == n {
        let cond = bin(Op::Lt, nm("i"), nm("j"));
        out.push((format!("some-product:{}", label.join(",")), T::Some_(qdoms.clone(), Box::new(cond.clone()))));
        out.push((format!("every-product:{}", label.join(",")), T::Every(qdoms, Box::new(cond))));
      }
      let mut k = n;
      loop {
        if k == 0 {
          break 'outer;
        }
        k -= 1;
        if idx[k] + 1 < shapes.len() {
          idx[k] += 1;
          break;
        }
        idx[k] = 0;
      }
    }
  }
  out
}

pub fn all_names() -> std::collections::BTreeSet<String> {
  ["x", "y", "a", "b", "i", "j", "k", "p", "q", "f", "r", "item", "partial"].iter().map(|s| s.to_string()).collect()
}

pub fn free_names(t: &T) -> (bool, bool) {
  let mut names = std::collections::BTreeSet::new();
  t.name_tokens(&mut names);
  (names.contains("x"), names.contains("y"))
}
